//! C08 / C09 / C10 — space-time MOCs: the real operators are compared with the point-set SPECIFICATIONS
//! of the Lean model on a grid of representative (instant, position) pairs, and their outputs are judged by
//! the Lean validity predicates.
use std::ops::Range;
use std::panic::AssertUnwindSafe;

use moc::elemset::range::MocRanges;
use moc::hpxranges2d::TimeSpaceMoc;
use moc::moc::range::RangeMOC;
use moc::moc2d::range::{RangeMOC2, RangeMOC2Elem};
use moc::moc2d::{HasTwoMaxDepth, RangeMOC2IntoIterator, RangeMOC2Iterator};
use moc::qty::{Hpx, Time};
use moc::ranges::Ranges;

use crate::gen::*;
use crate::util::*;

// Time depth and time offset of the current pass (depth 2: 8 coarse cells from 0; depth 61: 8 one-microsecond
// cells, from 0 or just below the top of the time domain so that indices exceed 2^53).
static DT_A: std::sync::atomic::AtomicU8 = std::sync::atomic::AtomicU8::new(2);
static T0_A: std::sync::atomic::AtomicU64 = std::sync::atomic::AtomicU64::new(0);
#[allow(non_snake_case)]
fn DT_() -> u8 { DT_A.load(std::sync::atomic::Ordering::Relaxed) }
fn t0() -> u64 { T0_A.load(std::sync::atomic::Ordering::Relaxed) }
fn set_pass(dt: u8, t0: u64) { DT_A.store(dt, std::sync::atomic::Ordering::Relaxed); T0_A.store(t0, std::sync::atomic::Ordering::Relaxed); }
fn tranges_of_mask(mask: u64) -> Vec<Range<u64>> { ranges_of_mask(mask, NT as u32, tunit()).into_iter().map(|r| r.start + t0()..r.end + t0()).collect() }
const DS: u8 = 0; // 12 space cells (4 used)
const NT: u64 = 8;
const NS: u64 = 4;
fn tunit() -> u64 { 1u64 << (61 - DT_() as u32) }
fn sunit() -> u64 { 1u64 << 58 }

type Elem = (Vec<Range<u64>>, Vec<Range<u64>>);

fn st_txt(m: &[Elem]) -> String {
  if m.is_empty() { "_".to_string() } else { m.iter().map(|e| format!("{}@{}", fmt_ranges(&e.0), fmt_ranges(&e.1))).collect::<Vec<_>>().join(";") }
}
fn grid_t() -> Vec<u64> {
  // one representative instant per time cell + the cell starts themselves (shared boundaries)
  let mut v = Vec::new();
  for c in 0..NT { v.push(t0() + c * tunit()); v.push(t0() + c * tunit() + tunit() / 3); }
  v.push(t0() + NT * tunit() - 1);
  v
}
fn grid_s() -> Vec<u64> {
  let mut v = Vec::new();
  for c in 0..=NS { v.push(c * sunit() + 5); }
  v
}
fn nats(v: &[u64]) -> String { v.iter().map(|x| x.to_string()).collect::<Vec<_>>().join(",") }
fn mem(rs: &[Range<u64>], x: u64) -> bool { rs.iter().any(|r| r.start <= x && x < r.end) }
fn bits_of(m: &[Elem]) -> String {
  let mut s = String::new();
  for t in grid_t() { for p in grid_s() { s.push(if m.iter().any(|e| mem(&e.0, t) && mem(&e.1, p)) { '1' } else { '0' }); } }
  s
}

/// Random valid ST-MOC: <= 3 elements, disjoint non-empty time MOCs (possibly multi-range), non-empty space MOCs,
/// ordered by first instant.
fn random_st(rng: &mut Rng) -> Vec<Elem> {
  // the shape the library's own builders produce: elements are consecutive blocks in time order (never
  // interleaved), an element groups the consecutive time ranges that carry the same space MOC, so two
  // consecutive elements always have different space MOCs
  let mut elems: Vec<Elem> = Vec::new();
  let mut cur_mask: u64 = 0;
  let mut cur_s: u64 = 0;
  for c in 0..NT {
    match rng.below(5) {
      0 | 1 => {} // gap
      2 | 3 => {
        if cur_s == 0 { cur_s = 1 + rng.below((1 << NS) - 1); }
        cur_mask |= 1 << c;
      }
      _ => {
        // start a new element with a different space MOC
        if cur_mask != 0 {
          elems.push((tranges_of_mask(cur_mask), ranges_of_mask(cur_s, NS as u32, sunit())));
          cur_mask = 0;
        }
        let prev = cur_s;
        loop { cur_s = 1 + rng.below((1 << NS) - 1); if cur_s != prev { break; } }
        cur_mask |= 1 << c;
      }
    }
  }
  if cur_mask != 0 {
    elems.push((tranges_of_mask(cur_mask), ranges_of_mask(cur_s, NS as u32, sunit())));
  }
  elems
}

fn mask_of(rs: &[Range<u64>], n: u64, unit: u64) -> u64 {
  let mut m = 0u64;
  for c in 0..n { if mem(rs, c * unit) { m |= 1 << c; } }
  m
}

/// An operand RELATED to `a`: same element structure in time (identical time MOCs, or the same minus its
/// first / last cell, so that the next element of one operand starts before the other's), space MOCs chosen
/// among: the same, a superset / subset, an incomparable one, the UNION of the two previous space MOCs.
/// Keeps the library shape (no interleaving: every time MOC is a subset of the corresponding one of `a`).
fn related_st(rng: &mut Rng, a: &[Elem]) -> Vec<Elem> {
  let mut b: Vec<Elem> = Vec::new();
  let (mut prev_a, mut prev_b, mut last_b) = (0u64, 0u64, 0u64);
  for e in a {
    let am = mask_of(&e.1, NS, sunit());
    let tm = { let sh: Vec<Range<u64>> = e.0.iter().map(|r| r.start - t0()..r.end - t0()).collect(); mask_of(&sh, NT, tunit()) };
    let tmb = match rng.below(8) {
      0 => 0,
      1 => tm & (tm - 1),                                  // without its first cell
      2 => { let hi = 63 - tm.leading_zeros() as u64; tm & !(1 << hi) } // without its last cell
      _ => tm,
    };
    let mut sm = match rng.below(7) {
      0 | 1 => prev_a | prev_b,
      2 => am,
      3 => am | (1 << rng.below(NS)),
      4 => am & !(1 << rng.below(NS)),
      _ => {
        let mut m = 1 + rng.below((1 << NS) - 1);
        for _ in 0..8 { if m & am != m && m & am != am { break; } m = 1 + rng.below((1 << NS) - 1); }
        m
      }
    };
    if sm == 0 || sm == last_b { sm = 1 + ((sm + 1 + rng.below(14)) % 15); if sm == last_b { sm = 1 + (sm % 15); } }
    prev_a = am;
    if tmb != 0 {
      b.push((tranges_of_mask(tmb), ranges_of_mask(sm, NS as u32, sunit())));
      prev_b = sm;
      last_b = sm;
    }
  }
  b
}

fn to_moc2(m: &[Elem]) -> RangeMOC2<u64, Time<u64>, u64, Hpx<u64>> {
  RangeMOC2::new(DT_(), DS, m.iter().map(|e| RangeMOC2Elem::new(mk_moc(DT_(), &e.0), mk_moc(DS, &e.1))).collect())
}
fn to_moc2_at(m: &[Elem], dt: u8, ds: u8) -> RangeMOC2<u64, Time<u64>, u64, Hpx<u64>> {
  RangeMOC2::new(dt, ds, m.iter().map(|e| RangeMOC2Elem::new(mk_moc(dt, &e.0), mk_moc(ds, &e.1))).collect())
}
fn from_moc2(m: RangeMOC2<u64, Time<u64>, u64, Hpx<u64>>) -> Vec<Elem> {
  m.into_range_moc2_iter().map(|e| { let (t, s) = e.mocs(); (moc_ranges_u64(&t), moc_ranges_u64(&s)) }).collect()
}
fn to_flat(m: &[Elem]) -> TimeSpaceMoc<u64, u64> {
  let mut t = Vec::new();
  let mut s = Vec::new();
  for e in m { for r in &e.0 { t.push(r.clone()); s.push(Ranges::new_unchecked(e.1.clone())); } }
  // entries must be time-ordered in the flat form
  let mut idx: Vec<usize> = (0..t.len()).collect();
  idx.sort_by_key(|i| t[*i].start);
  TimeSpaceMoc::<u64, u64>::from_ranges_it_gen(to_moc2(&{
    let mut v: Vec<Elem> = idx.iter().map(|i| (vec![t[*i].clone()], s[*i].0.to_vec())).collect();
    v.sort_by_key(|e| e.0[0].start);
    v
  }).into_range_moc2_iter())
}
fn from_flat(m: &TimeSpaceMoc<u64, u64>) -> Vec<Elem> {
  let r = &m.0.ranges2d;
  r.x.iter().zip(r.y.iter()).map(|(t, s)| (vec![t.clone()], s.0.to_vec())).collect()
}

/// C08: streaming union, all forms, both operand orders.
/// Every element of a space-time MOC is itself a pair of valid MOCs: its time (space) ranges are unions of cells of the
/// depth the ELEMENT announces, which is not deeper than the depth of the ST-MOC (judged by the model's `valid`).
type ElemDepths = Vec<(u8, Vec<Range<u64>>, u8, Vec<Range<u64>>)>;
fn elem_depths(m: &RangeMOC2<u64, Time<u64>, u64, Hpx<u64>>) -> ElemDepths {
  use moc::moc2d::RangeMOC2ElemIt;
  use moc::moc::HasMaxDepth;
  m.into_range_moc2_iter().map(|e| { let (t, s) = e.range_mocs_it(); let (dt, ds) = (t.depth_max(), s.depth_max()); (dt, t.collect(), ds, s.collect()) }).collect()
}
fn elem_depth_checks(sink: &mut Sink, d: (u8, u8), elems: &ElemDepths, what: &str) {
  for (dt, tr, ds, sr) in elems {
    sink.count("union:element-depth-check");
    if *dt > d.0 || *ds > d.1 {
      sink.impl_failures.push(format!("C08 element deeper than its ST-MOC: element depths ({}, {}) in a ({}, {}) ST-MOC: {}", dt, ds, d.0, d.1, what));
    }
    sink.emit(&format!("st_union_elem_aligned time 64 {} {}", dt, fmt_ranges(tr)), "true", true);
    sink.emit(&format!("st_union_elem_aligned hpx 64 {} {}", ds, fmt_ranges(sr)), "true", true);
  }
}

/// The three forms of the union, on operands built by `fa` / `fb`.
fn union_forms(sink: &mut Sink, fa: &dyn Fn() -> RangeMOC2<u64, Time<u64>, u64, Hpx<u64>>, fb: &dyn Fn() -> RangeMOC2<u64, Time<u64>, u64, Hpx<u64>>, tx: &str, ty: &str, depths: (u8, u8), tp: &str, sp: &str) {
  let forms: Vec<(&str, Box<dyn Fn() -> RangeMOC2<u64, Time<u64>, u64, Hpx<u64>> + '_>)> = vec![
    ("or", Box::new(move || fa().or(&fb()))),
    ("into_or", Box::new(move || fa().into_or(fb()))),
    ("iter-or", Box::new(move || moc::moc2d::range::op::or::or(fa().into_range_moc2_iter(), fb().into_range_moc2_iter()).into_range_moc2())),
  ];
  for (name, f) in forms {
    sink.count(&format!("form:{}", name));
    match std::panic::catch_unwind(AssertUnwindSafe(|| { let m = f(); let d = (m.depth_max_1(), m.depth_max_2()); let sub = elem_depths(&m); (d, sub, from_moc2(m)) })) {
      Err(_) => sink.emit(&format!("st_sem 14 {} {} {} {}", tx, ty, tp, sp), &panic_answer(), true),
      Ok((d, sub, out)) => {
        sink.emit(&format!("st_sem 14 {} {} {} {}", tx, ty, tp, sp), &bits_of(&out), true);
        sink.emit(&format!("st_valid {}", st_txt(&out)), "true", !out.is_empty());
        elem_depth_checks(sink, d, &sub, &format!("{} | {}", tx, ty));
        if d != depths {
          sink.impl_failures.push(format!("C08 depths of the union are {:?}, expected {:?}: {} | {}", d, depths, tx, ty));
        }
      }
    }
  }
}

/// An operand SPANNING several elements of `a`: consecutive elements of `a` are grouped (1 to 3 per group) and each
/// group gives ONE element whose time MOC is the single range from the start of the group to its end (gaps filled),
/// so that one operand moves to its next element strictly inside a time range of the other one; the space MOC is the
/// union of the group's space MOCs, the first one, a superset or an unrelated one.
fn spanning_st(rng: &mut Rng, a: &[Elem]) -> Vec<Elem> {
  let mut b: Vec<Elem> = Vec::new();
  let mut i = 0;
  let mut last_s = 0u64;
  while i < a.len() {
    let k = (1 + rng.below(3) as usize).min(a.len() - i);
    let grp = &a[i..i + k];
    let start = grp[0].0[0].start;
    let end = grp[k - 1].0.last().unwrap().end;
    let masks: Vec<u64> = grp.iter().map(|e| mask_of(&e.1, NS, sunit())).collect();
    let all = masks.iter().fold(0, |x, y| x | y);
    let mut sm = match rng.below(5) { 0 => all, 1 => masks[0], 2 => masks[0] | (1 << rng.below(NS)), 3 => masks[k - 1], _ => 1 + rng.below((1 << NS) - 1) };
    if sm == last_s { sm = 1 + (sm % 15); }
    let t = if rng.chance(1, 4) && k > 1 { vec![start..grp[0].0.last().unwrap().end, grp[k - 1].0[0].start..end] } else { vec![start..end] };
    // a two-range time MOC must stay canonical (the two ranges may touch when the group has no gap)
    let t = if t.len() == 2 && t[0].end >= t[1].start { vec![start..end] } else { t };
    b.push((t, ranges_of_mask(sm, NS as u32, sunit())));
    last_s = sm;
    i += k;
  }
  b
}

fn c08_pass(sink: &mut Sink, rng: &mut Rng, thorough: bool) {
  let n = if thorough { 30_000 } else { 700 };
  let (tp, sp) = (nats(&grid_t()), nats(&grid_s()));
  // ---- directed pairs (no RNG draw)
  {
    let tc = |c: u64| t0() + c * tunit()..t0() + (c + 1) * tunit();
    let sm = |mask: u64| ranges_of_mask(mask, NS as u32, sunit());
    let mut pairs: Vec<(Vec<Elem>, u8, Vec<Elem>, u8)> = Vec::new();
    let dt = DT_();
    // a depleted operand element must not be flushed a second time
    pairs.push((vec![(vec![tc(0)], sm(3)), (vec![tc(2)], sm(4))], dt, vec![(vec![tc(0)], sm(5)), (vec![tc(2)], sm(3))], dt));
    pairs.push((vec![(vec![tc(0)], sm(3)), (vec![tc(1)], sm(4))], dt, vec![(vec![tc(0)], sm(5)), (vec![tc(1)], sm(3))], dt));
    // one operand moves to its next elements strictly inside a time range of the other one (equal, nested, foreign space)
    pairs.push((vec![(vec![tc(0), tc(1)], sm(3)), (vec![tc(3), tc(4)], sm(1)), (vec![tc(6)], sm(4))], dt, vec![(vec![t0()..t0() + 8 * tunit()], sm(3))], dt));
    // same end, different starts
    pairs.push((vec![(vec![tc(7)], sm(1))], dt, vec![(vec![t0() + 4 * tunit()..t0() + 8 * tunit()], sm(2))], dt));
    pairs.push((vec![(vec![tc(3)], sm(1))], dt, vec![(vec![t0() + 1 * tunit()..t0() + 4 * tunit()], sm(3))], dt));
    if dt >= 1 && t0() % (2 * tunit()) == 0 {
      // operands of DIFFERENT time depths: `a` is made of cells of depth dt - 1 (two grid cells each)
      let big = |c: u64| t0() + 2 * c * tunit()..t0() + 2 * (c + 1) * tunit();
      pairs.push((vec![(vec![big(0)], sm(1))], dt - 1, vec![(vec![tc(0)], sm(2))], dt));
      pairs.push((vec![(vec![big(0)], sm(1))], dt - 1, vec![(vec![tc(1)], sm(2))], dt));
      pairs.push((vec![(vec![big(1), big(3)], sm(3))], dt - 1, vec![(vec![tc(2)], sm(2)), (vec![tc(5)], sm(4)), (vec![tc(7)], sm(3))], dt));
      pairs.push((vec![(vec![big(0)], sm(1)), (vec![big(2)], sm(8))], dt - 1, vec![(vec![tc(3)], sm(2)), (vec![tc(4)], sm(8))], dt));
    }
    for (a, da, b, db) in pairs {
      let (ta, tb) = (st_txt(&a), st_txt(&b));
      sink.count("pair:directed");
      union_forms(sink, &|| to_moc2_at(&a, da, DS), &|| to_moc2_at(&b, db, DS), &ta, &tb, (da.max(db), DS), &tp, &sp);
      union_forms(sink, &|| to_moc2_at(&b, db, DS), &|| to_moc2_at(&a, da, DS), &tb, &ta, (da.max(db), DS), &tp, &sp);
    }
  }
  for i in 0..n {
    let mut a = random_st(rng);
    let mut b = match i % 8 { 0 => a.clone(), 1 => vec![], 2 | 3 | 4 => related_st(rng, &a), 5 => spanning_st(rng, &a), _ => random_st(rng) };
    sink.count(if (2..=4).contains(&(i % 8)) { "pair:related" } else if i % 8 == 5 { "pair:spanning" } else { "pair:independent" });
    if i % 32 == 20 {
      // the sub-cell range in the operand the other one was derived from
      if let Some(e) = a.first_mut() { let r0 = e.1[0].clone(); e.1[0] = r0.start..r0.start + sunit() / 4; }
    }
    // 1 pair out of 16: space depth 1 for both operands, one space range of `b` cut down to a QUARTER of a
    // depth-0 cell (a coverage strictly nested in the corresponding one of a related operand)
    let ds: u8 = if i % 16 == 4 || i % 16 == 13 || i % 16 == 9 {
      if i % 32 != 20 && (i % 16 != 9 || rng.chance(1, 2)) {
        if let Some(e) = b.first_mut() { let r0 = e.1[0].clone(); e.1[0] = r0.start..r0.start + sunit() / 4; }
      }
      sink.count("pair:sub-cell-space-range");
      DS + 1
    } else { DS };
    // 1 pair out of 16: the two operands DECLARE different space depths (a: 0, b: 1)
    let dsa: u8 = if i % 16 == 9 { sink.count("pair:different-declared-space-depths"); DS } else { ds };
    let (ta, tb) = (st_txt(&a), st_txt(&b));
    for (x, y, tx, ty, dx, dy) in [(&a, &b, &ta, &tb, dsa, ds), (&b, &a, &tb, &ta, ds, dsa)] {
      let forms: Vec<(&str, Box<dyn Fn() -> RangeMOC2<u64, Time<u64>, u64, Hpx<u64>>>)> = vec![
        ("or", Box::new(move || to_moc2_at(x, DT_(), dx).or(&to_moc2_at(y, DT_(), dy)))),
        ("into_or", Box::new(move || to_moc2_at(x, DT_(), dx).into_or(to_moc2_at(y, DT_(), dy)))),
        ("iter-or", Box::new(move || moc::moc2d::range::op::or::or(to_moc2_at(x, DT_(), dx).into_range_moc2_iter(), to_moc2_at(y, DT_(), dy).into_range_moc2_iter()).into_range_moc2())),
      ];
      for (name, f) in forms {
        sink.count(&format!("form:{}", name));
        match std::panic::catch_unwind(AssertUnwindSafe(|| { let m = f(); let d = (m.depth_max_1(), m.depth_max_2()); (d, from_moc2(m)) })) {
          Err(_) => sink.emit(&format!("st_sem 14 {} {} {} {}", tx, ty, tp, sp), &panic_answer(), true),
          Ok((d, out)) => {
            sink.emit(&format!("st_sem 14 {} {} {} {}", tx, ty, tp, sp), &bits_of(&out), !(x.is_empty() && y.is_empty()));
            sink.emit(&format!("st_valid {}", st_txt(&out)), "true", !out.is_empty());
            if d != (DT_(), ds) {
              sink.impl_failures.push(format!("C08 depths of the union are {:?}, expected ({}, {}): {} | {}", d, DT_(), ds, tx, ty));
            }
          }
        }
      }
    }
  }
}

/// C10: Ranges2D algebra, folds, lookups.
fn c10_pass(sink: &mut Sink, rng: &mut Rng, thorough: bool) {
  let n = if thorough { 20_000 } else { 500 };
  let (gt, gs) = (grid_t(), grid_s());
  let (tp, sp) = (nats(&gt), nats(&gs));
  for i in 0..n {
    let a = random_st(rng);
    let b = match i % 6 { 0 => a.clone(), 1 => vec![], _ => random_st(rng) };
    let (fa, fb) = (to_flat(&a), to_flat(&b));
    let (ta, tb) = (st_txt(&from_flat(&fa)), st_txt(&from_flat(&fb)));
    for (tt, name) in [(14u32, "union"), (8, "intersection"), (4, "difference")] {
      let res = std::panic::catch_unwind(AssertUnwindSafe(|| match tt { 14 => fa.union(&fb), 8 => fa.intersection(&fb), _ => fa.difference(&fb) }));
      sink.count(&format!("op:{}", name));
      match res {
        Err(_) => sink.emit(&format!("st_sem {} {} {} {} {}", tt, ta, tb, tp, sp), &panic_answer(), true),
        Ok(o) => {
          let out = from_flat(&o);
          sink.emit(&format!("st_sem {} {} {} {} {}", tt, ta, tb, tp, sp), &bits_of(&out), !(a.is_empty() && b.is_empty()));
          sink.emit(&format!("st_validflat {}", st_txt(&out)), "true", !out.is_empty());
          // the exact entries against the transliterated sweep (`Merge2D.merge2`)
          sink.emit(&format!("st_merge {} {} {}", tt, ta, tb), &st_txt(&out), !(a.is_empty() && b.is_empty()));
          // ... and its elements after `time_space_iter` (what the store and the CLI hand out)
          let grouped = std::panic::catch_unwind(AssertUnwindSafe(|| from_moc2(RangeMOC2::new(DT_(), DS, o.time_space_iter(DT_(), DS).collect()))));
          match grouped {
            Ok(g) => { sink.emit(&format!("st_regroup {}", st_txt(&out)), &st_txt(&g), !out.is_empty()); sink.emit(&format!("st_valid {}", st_txt(&g)), "true", !g.is_empty()); }
            Err(_) => sink.emit(&format!("st_regroup {}", st_txt(&out)), &panic_answer(), true),
          }
        }
      }
    }
    // folds
    let tmask = rng.below(1 << NT);
    let tm = tranges_of_mask(tmask);
    let tmr: MocRanges<u64, Time<u64>> = Ranges::new_unchecked(tm.clone()).into();
    match std::panic::catch_unwind(AssertUnwindSafe(|| TimeSpaceMoc::project_on_second_dim(&tmr, &fa))) {
      Err(_) => sink.emit(&format!("st_tfold {} {} {}", fmt_ranges(&tm), ta, sp), &panic_answer(), true),
      Ok(s) => {
        let rs = to_u64_ranges(&s.0 .0);
        let bits: String = gs.iter().map(|p| if mem(&rs, *p) { '1' } else { '0' }).collect();
        sink.emit(&format!("st_tfold {} {} {}", fmt_ranges(&tm), ta, sp), &bits, !a.is_empty());
        // the RANGES themselves against the code-level model (filter + reduce with union)
        sink.emit(&format!("st_tfold_r {} {}", fmt_ranges(&tm), ta), &fmt_ranges(&rs), !a.is_empty());
      }
    }
    let smask = rng.below(1 << NS);
    let sm = ranges_of_mask(smask, NS as u32, sunit());
    let smr: MocRanges<u64, Hpx<u64>> = Ranges::new_unchecked(sm.clone()).into();
    match std::panic::catch_unwind(AssertUnwindSafe(|| TimeSpaceMoc::project_on_first_dim(&smr, &fa))) {
      Err(_) => sink.emit(&format!("st_sfold {} {} {}", fmt_ranges(&sm), ta, tp), &panic_answer(), true),
      Ok(t) => {
        let rs = to_u64_ranges(&t.0 .0);
        let bits: String = gt.iter().map(|p| if mem(&rs, *p) { '1' } else { '0' }).collect();
        sink.emit(&format!("st_sfold {} {} {}", fmt_ranges(&sm), ta, tp), &bits, !a.is_empty());
        sink.emit(&format!("st_sfold_r {} {}", fmt_ranges(&sm), ta), &fmt_ranges(&rs), !a.is_empty());
      }
    }
    // lookups, in particular on boundaries shared by two consecutive time ranges
    let m2 = to_moc2(&a);
    for _ in 0..4 {
      let t = *rng.pick(&gt);
      let p = *rng.pick(&gs);
      let ans = guarded(AssertUnwindSafe(|| (if fa.contains(t, &(p..p + 1)) { "true" } else { "false" }).to_string()));
      sink.emit(&format!("st_contains {} {} {}", ta, t, p), &ans, !a.is_empty());
      let ans = guarded(AssertUnwindSafe(|| (if m2.contains_val(&t, &p) { "true" } else { "false" }).to_string()));
      sink.emit(&format!("st_contains {} {} {}", st_txt(&a), t, p), &ans, !a.is_empty());
    }
    // the store's lookup (`filter_timepos`: time in microseconds, position in DEGREES like `filter_pos`), 1 MOC in 8:
    // the centre of the deepest-level cell `p` (cdshealpix: oracle for the hash only), and a latitude that does not
    // exist (answer false, never a failure)
    if i % 8 == 3 && !a.is_empty() {
      use moc::moc2d::{CellMOC2IntoIterator, CellMOC2Iterator, CellOrCellRangeMOC2IntoIterator, CellOrCellRangeMOC2Iterator, RangeMOC2IntoIterator, RangeMOC2Iterator};
      let store = moc::storage::u64idx::U64MocStore::get_global_store();
      let mut txt: Vec<u8> = Vec::new();
      if (&m2).into_range_moc2_iter().into_cellcellrange_moc2_iter().to_ascii_ivoa(None, false, &mut txt).is_ok() {
        if let Ok(idx) = store.load_stmoc_from_ascii(std::str::from_utf8(&txt).unwrap()) {
          let pts: Vec<(u64, u64)> = (0..4).map(|k| (gt[(i as usize + 3 * k) % gt.len()], gs[(i as usize + k) % gs.len()])).collect();
          let q: Vec<(u64, (f64, f64))> = pts.iter().map(|(t, p)| { let (lon, lat) = cdshealpix::nested::center(29, *p); (*t, (lon.to_degrees(), lat.to_degrees())) }).collect();
          let res = std::panic::catch_unwind(AssertUnwindSafe(|| store.filter_timepos(idx, q.iter().cloned(), |b| b)));
          sink.count("lookup:store-filter_timepos");
          match res {
            Ok(Ok(v)) => for ((t, p), b) in pts.iter().zip(v.iter()) { sink.emit(&format!("st_contains {} {} {}", st_txt(&a), t, p), if *b { "true" } else { "false" }, true); },
            Ok(Err(e)) => sink.impl_failures.push(format!("C10 filter_timepos returned an error on a live ST-MOC: {}", e)),
            Err(_) => for (t, p) in &pts { sink.emit(&format!("st_contains {} {} {}", st_txt(&a), t, p), &panic_answer(), true); },
          }
          let res = std::panic::catch_unwind(AssertUnwindSafe(|| store.filter_timepos(idx, vec![(pts[0].0, (10.0f64, 95.0f64)), (pts[0].0, (10.0f64, 45.0f64))].into_iter(), |b| b)));
          match res {
            Ok(Ok(v)) if v.len() == 2 && !v[0] => {}
            Ok(Ok(v)) => sink.impl_failures.push(format!("C10 filter_timepos((10 deg, 95 deg), (10 deg, 45 deg)) answered {:?}", v)),
            Ok(Err(e)) => sink.impl_failures.push(format!("C10 filter_timepos returned an error on a live ST-MOC: {}", e)),
            Err(_) => sink.impl_failures.push(format!("C10 filter_timepos failed ({}) on the positions (10 deg, 95 deg), (10 deg, 45 deg)", panic_answer())),
          }
          let _ = store.drop(idx);
        }
      }
    }
  }
}

/// C09: construction from observations, both paths, all orders / capacities.
fn c09_pass(sink: &mut Sink, rng: &mut Rng, thorough: bool) {
  let n = if thorough { 12_000 } else { 250 };
  let (tp, sp) = (nats(&grid_t()), nats(&grid_s()));
  for _ in 0..n {
    let nobs = rng.below(6) as usize;
    // (time cell range, space cell) observations: overlapping / touching time ranges, simultaneous observations
    // at different positions, first observation not the earliest, duplicates
    let mut obs: Vec<(Range<u64>, u64)> = (0..nobs).map(|_| { let a = rng.below(NT); let l = 1 + rng.below(3); (a..(a + l).min(NT), rng.below(NS)) }).collect();
    if rng.chance(1, 3) && !obs.is_empty() { let o = obs[0].clone(); obs.push(o); }
    // observations in absolute microseconds; 1 list in 3 also holds an EMPTY time range `[t, t)` (an instantaneous
    // observation written as a range: it covers no instant, hence no pair) — on a cell boundary, and inside a cell
    // when the time depth is not the deepest one (no RNG draw: the stream of the other cases is unchanged)
    let mut aobs: Vec<(Range<u64>, u64)> = obs.iter().map(|(t, s)| (t0() + t.start * tunit()..t0() + t.end * tunit(), *s)).collect();
    if nobs % 3 == 2 {
      let (t, s) = (t0() + ((obs[0].0.start + 5) % NT) * tunit(), (obs[0].1 + 1) % NS);
      aobs.insert(1, (t..t, s));
      sink.count("obs:empty-time-range-aligned");
    } else if nobs % 3 == 1 && tunit() > 1 {
      let (t, s) = (t0() + ((obs[0].0.start + 5) % NT) * tunit() + 1, (obs[0].1 + 1) % NS);
      aobs.insert(0, (t..t, s));
      sink.count("obs:empty-time-range-unaligned");
    }
    let otxt = if aobs.is_empty() { "_".to_string() } else { aobs.iter().map(|(t, s)| format!("{}-{}@{}-{}", t.start, t.end, s * sunit(), (s + 1) * sunit())).collect::<Vec<_>>().join(";") };
    let op = format!("st_obs {} {} {}", otxt, tp, sp);
    for cap in [1usize, 2, 3, 100] {
      // (a) streaming builder on (time range, cell)
      let res = std::panic::catch_unwind(AssertUnwindSafe(|| {
        from_moc2(RangeMOC2::<u64, Time<u64>, u64, Hpx<u64>>::from_ranges_and_fixed_depth_cells(DT_(), DS, aobs.iter().map(|(t, s)| (t.clone(), *s)), Some(cap)))
      }));
      sink.count("path:ranges-cells-builder");
      match res { Err(_) => sink.emit(&op, &panic_answer(), true), Ok(out) => { sink.emit(&op, &bits_of(&out), nobs > 1);
        // the ST-MOC built must itself be VALID (elements in time order, pairwise disjoint in time: what the library's own
        // lookups rely on), whatever the capacity of the buffer
        if !out.is_empty() { sink.emit(&format!("st_valid {}", st_txt(&out)), "true", true); } } }
      // (b) streaming builder on (time cell, space cell): unit observations
      let unit_obs: Vec<(u64, u64)> = obs.iter().map(|(t, s)| (t.start, *s)).collect();
      let unit_cells: Vec<(u64, u64)> = unit_obs.iter().map(|(t, s)| (t0() / tunit() + t, *s)).collect();
      let utxt = if unit_obs.is_empty() { "_".to_string() } else { unit_obs.iter().map(|(t, s)| format!("{}-{}@{}-{}", t0() + t * tunit(), t0() + (t + 1) * tunit(), s * sunit(), (s + 1) * sunit())).collect::<Vec<_>>().join(";") };
      let res = std::panic::catch_unwind(AssertUnwindSafe(|| {
        from_moc2(RangeMOC2::<u64, Time<u64>, u64, Hpx<u64>>::from_fixed_depth_cells(DT_(), DS, unit_cells.iter().cloned(), Some(cap)))
      }));
      sink.count("path:cells-builder");
      if cap == 100 {
        // one buffer (capacity above the number of observations): the ELEMENTS against the transliterated `buff_to_moc`
        let res2 = std::panic::catch_unwind(AssertUnwindSafe(|| {
          let m = RangeMOC2::<u64, Time<u64>, u64, Hpx<u64>>::from_fixed_depth_cells(DT_(), DS, unit_cells.iter().cloned(), Some(cap));
          let cells_of = |rs: &[Range<u64>], unit: u64| -> String { rs.iter().flat_map(|r| (r.start / unit..r.end / unit)).map(|c| c.to_string()).collect::<Vec<_>>().join(",") };
          let es = from_moc2(m);
          if es.is_empty() { "_".to_string() } else { es.iter().map(|(t, s)| format!("{}@{}", cells_of(t, tunit()), cells_of(s, sunit()))).collect::<Vec<_>>().join(";") }
        }));
        let btxt = if unit_cells.is_empty() { "_".to_string() } else { unit_cells.iter().map(|(t, s)| format!("{}:{}", t, s)).collect::<Vec<_>>().join(",") };
        match res2 { Err(_) => sink.emit(&format!("st_buff {}", btxt), &panic_answer(), true), Ok(a) => sink.emit(&format!("st_buff {}", btxt), &a, nobs > 1) }
      }
      let opu = format!("st_obs {} {} {}", utxt, tp, sp);
      match res { Err(_) => sink.emit(&opu, &panic_answer(), true), Ok(out) => { sink.emit(&opu, &bits_of(&out), nobs > 1);
        if !out.is_empty() { sink.emit(&format!("st_valid {}", st_txt(&out)), "true", true); } } }
      // (e) (microseconds, lon, lat) observations: an instant inside the time cell, the centre of the space cell
      if cap == 1 || cap == 100 {
        let coos: Vec<(u64, f64, f64)> = unit_obs.iter().map(|(t, s)| { let (lon, lat) = cdshealpix::nested::center(DS, *s); (t0() + t * tunit() + tunit() / 3, lon, lat) }).collect();
        let res = std::panic::catch_unwind(AssertUnwindSafe(|| {
          from_moc2(RangeMOC2::<u64, Time<u64>, u64, Hpx<u64>>::from_time_and_coos(DT_(), DS, coos.iter().cloned(), Some(cap)))
        }));
        sink.count("path:time-and-coos-builder");
        match res { Err(_) => sink.emit(&opu, &panic_answer(), true), Ok(out) => { sink.emit(&opu, &bits_of(&out), nobs > 1); } }
      }
    }
    // (c) the range-2D path used by the store and MOCPy
    let mut times: Vec<Range<u64>> = aobs.iter().map(|(t, _)| t.clone()).collect();
    let mut cov: Vec<moc::elemset::range::HpxRanges<u64>> = aobs.iter().map(|(_, s)| Ranges::new_unchecked(vec![s * sunit()..(s + 1) * sunit()]).into()).collect();
    let ptimes = times.clone();
    // 1 list in 3: an observation whose space coverage is EMPTY (it covers no pair), second in the list
    if nobs % 3 == 0 && nobs > 0 {
      let t = (obs[0].0.start + 2) % NT;
      times.insert(1, t0() + t * tunit()..t0() + (t + 1) * tunit());
      cov.insert(1, Ranges::new_unchecked(vec![]).into());
      sink.count("obs:empty-coverage");
    }
    let all_entries: Vec<Elem> = times.iter().zip(cov.iter()).map(|(t, c)| (vec![t.clone()], to_u64_ranges(&c.0 .0))).collect();
    if !obs.is_empty() {
      // (c') the (time range, cell) variant of the range-2D path
      let res = std::panic::catch_unwind(AssertUnwindSafe(|| TimeSpaceMoc::<u64, u64>::create_from_time_ranges_positions(ptimes.clone(), aobs.iter().map(|(_, s)| *s).collect(), DT_(), DS)));
      sink.count("path:ranges2d-positions");
      match res { Err(_) => sink.emit(&op, &panic_answer(), true), Ok(o) => sink.emit(&op, &bits_of(&from_flat(&o)), nobs > 1) }
      let res = std::panic::catch_unwind(AssertUnwindSafe(|| TimeSpaceMoc::<u64, u64>::create_from_time_ranges_spatial_coverage(times.clone(), cov.clone(), DT_())));
      sink.count("path:ranges2d");
      match res {
        Err(_) => sink.emit(&op, &panic_answer(), true),
        Ok(o) => {
          let out = from_flat(&o);
          sink.emit(&op, &bits_of(&out), nobs > 1);
          // the exact entries against the transliterated `make_consistent` (`Consistent2D.makeConsistent`)
          let entries: Vec<Elem> = aobs.iter().filter(|(t, _)| t.start < t.end).map(|(t, s)| (vec![t.clone()], vec![s * sunit()..(s + 1) * sunit()])).collect();
          sink.emit(&format!("st_mkc {}", st_txt(&entries)), &st_txt(&out), nobs > 1);
          // ... and against the whole construction on ALL the observations (empty time ranges / coverages included)
          sink.emit(&format!("st_fromobs {}", st_txt(&all_entries)), &st_txt(&out), nobs > 1);
          if !out.is_empty() { sink.emit(&format!("st_valid {}", st_txt(&out)), "true", true); }
        }
      }
      // (d) the same, converted to a RangeMOC2 by `time_space_iter` (what the store and the CLI do)
      let res = std::panic::catch_unwind(AssertUnwindSafe(|| {
        let o = TimeSpaceMoc::<u64, u64>::create_from_time_ranges_spatial_coverage(times.clone(), cov.clone(), DT_());
        from_moc2(RangeMOC2::new(DT_(), DS, o.time_space_iter(DT_(), DS).collect()))
      }));
      sink.count("path:ranges2d-time_space_iter");
      match res {
        Err(_) => sink.emit(&op, &panic_answer(), true),
        Ok(out) => {
          sink.emit(&op, &bits_of(&out), nobs > 1);
          // the exact elements against the transliterated `time_space_iter` (`Merge2D.regroup`) run on the flat result
          if let Ok(o) = std::panic::catch_unwind(AssertUnwindSafe(|| TimeSpaceMoc::<u64, u64>::create_from_time_ranges_spatial_coverage(times.clone(), cov.clone(), DT_()))) {
            sink.emit(&format!("st_regroup {}", st_txt(&from_flat(&o))), &st_txt(&out), nobs > 1);
            sink.emit(&format!("st_valid {}", st_txt(&out)), "true", !out.is_empty());
          }
        }
      }
    }
  }
}

// ---------------------------------------------------------------- C11: ST serialisation
/// (start, end) rows of the data unit of an ST FITS file (u64 rows), from NAXIS2 of the table HDU.
fn st_rows(buf: &[u8]) -> Option<Vec<(u64, u64)>> {
  let mut pos = 0usize;
  let mut hdu = 0;
  let mut n2 = 0u64;
  while pos + 80 <= buf.len() {
    let card = std::str::from_utf8(&buf[pos..pos + 80]).ok()?;
    pos += 80;
    if let Some(v) = card.strip_prefix("NAXIS2  =") {
      n2 = v.split('/').next()?.trim().parse().ok()?;
    }
    if card.starts_with("END ") || card.trim_end() == "END" {
      pos = (pos + 2879) / 2880 * 2880;
      hdu += 1;
      if hdu == 2 {
        let mut rows = Vec::new();
        // one u64 per row, two rows per range
        for k in 0..(n2 as usize / 2) {
          let a = u64::from_be_bytes(buf.get(pos + 16 * k..pos + 16 * k + 8)?.try_into().ok()?);
          let b = u64::from_be_bytes(buf.get(pos + 16 * k + 8..pos + 16 * k + 16)?.try_into().ok()?);
          rows.push((a, b));
        }
        return Some(rows);
      }
    }
  }
  None
}

fn c11_pass(sink: &mut Sink, rng: &mut Rng, thorough: bool) {
  use moc::deser::ascii::moc2d_from_ascii_ivoa;
  use moc::deser::fits::{from_fits_ivoa, rangemoc2d_to_fits_ivoa, MocIdxType, MocQtyType, STMocType};
  use moc::deser::json::cellmoc2d_from_json_aladin;
  use moc::moc2d::{
    CellMOC2IntoIterator, CellMOC2Iterator, CellOrCellRangeMOC2IntoIterator, CellOrCellRangeMOC2Iterator,
    RangeMOC2IntoIterator, RangeMOC2Iterator,
  };
  let n = if thorough { 15_000 } else { 400 };
  for k in 0..n {
    let mut m = if k % 25 == 0 { Vec::new() } else { random_st(rng) };
    // time indices using the highest usable bits (bit 61/62 region of the u64 time domain)
    if k % 5 == 1 && t0() == 0 {
      if let Some(last) = m.last_mut() {
        let top = (1u64 << 62) - tunit();
        if last.0.last().map(|r| r.end < top).unwrap_or(false) {
          last.0.push(top..(1u64 << 62));
        }
      }
    }
    // 1 in 6: the space part of the first element reaches the LAST cell of the space domain (a range token ending
    // on the last cell of its depth: base cells 9-11), and 1 in 12 the time part covers the WHOLE time domain
    if k % 6 == 3 {
      if let Some(first) = m.first_mut() {
        let hi = 12u64 << 58;
        first.1.retain(|r| r.end < 9 * sunit());
        first.1.push(9 * sunit()..hi);
        sink.count("st-moc:space-reaches-domain-end");
      }
    }
    if k % 12 == 7 {
      let sp = m.first().map(|e| e.1.clone()).unwrap_or(vec![0..sunit()]);
      m = vec![(vec![0..(1u64 << 62)], sp)];
      sink.count("st-moc:whole-time-domain");
    }
    let txt = st_txt(&m);
    // 1 in 4: the declared depths are deeper than every element's own depth (deepest levels unoccupied): only the
    // depth-only last element / the header keywords carry them
    let deeper = k % 4 == 2;
    let moc2 = if deeper {
      RangeMOC2::new((DT_() + 1).min(61), DS + 1, m.iter().map(|e| RangeMOC2Elem::new(mk_moc(DT_(), &e.0), mk_moc(DS, &e.1))).collect())
    } else {
      to_moc2(&m)
    };
    if deeper { sink.count("st-moc:deepest-levels-unoccupied"); }
    let nontrivial = !m.is_empty();
    // ---- FITS v2
    let mut buf = Vec::new();
    if let Err(e) = rangemoc2d_to_fits_ivoa(&moc2, None, None, &mut buf) {
      sink.impl_failures.push(format!("st-fits-write-error: {}: {}", txt, e));
      continue;
    }
    if buf.len() % 2880 != 0 {
      sink.impl_failures.push(format!("st-fits-not-2880: {} len {}", txt, buf.len()));
    }
    let rows = st_rows(&buf);
    let rows_txt = match &rows {
      Some(r) if r.is_empty() => "_".to_string(),
      Some(r) => r.iter().map(|(a, b)| format!("{}-{}", a, b)).collect::<Vec<_>>().join(","),
      None => "unreadable".to_string(),
    };
    // span and number of ranges (what the FITS writer declares in NAXIS2)
    sink.emit(&format!("st_span {}", txt), &format!("{}|{}|{}",
      moc2.min_index_left().map(|x| x.to_string()).unwrap_or("_".into()),
      moc2.max_index_left().map(|x| x.to_string()).unwrap_or("_".into()), moc2.compute_n_ranges()), nontrivial);
    // writer rows = model rows
    sink.emit(&format!("st_fits_enc 64 {}", txt), &rows_txt, nontrivial);
    {
      // the whole file, byte for byte (header cards included), against the model's file
      let mut h: u64 = 14695981039346656037;
      for x in buf.iter() { h = (h ^ (*x as u64)).wrapping_mul(1099511628211); }
      sink.emit(&format!("st_fits_file 64 {} {} {}", moc2.depth_max_1(), moc2.depth_max_2(), txt), &format!("{}:{}", buf.len(), h), nontrivial);
    }
    // reader on the real rows = model reader
    let back = guarded(AssertUnwindSafe(|| match from_fits_ivoa(std::io::Cursor::new(&buf)) {
      Ok(MocIdxType::U64(MocQtyType::TimeHpx(STMocType::V2(it)))) => {
        let (d1, d2) = (it.depth_max_1(), it.depth_max_2());
        let r = it.into_range_moc2();
        format!("{} {} {}", d1, d2, st_txt(&from_moc2(r)))
      }
      Ok(_) => "wrong-kind".to_string(),
      Err(e) => format!("err {}", e),
    }));
    let expect = format!("{} {} {}", moc2.depth_max_1(), moc2.depth_max_2(), txt);
    if back != expect {
      sink.impl_failures.push(format!("st-fits-roundtrip: {} -> {}", expect, back));
    }
    if rows.is_some() {
      let only = back.splitn(3, ' ').nth(2).unwrap_or("?").to_string();
      sink.emit(&format!("st_fits_dec 64 {}", rows_txt), &only, nontrivial);
    }
    // idempotence: re-serialising the decoded value gives the same bytes
    if let Ok(MocIdxType::U64(MocQtyType::TimeHpx(STMocType::V2(it)))) = from_fits_ivoa(std::io::Cursor::new(&buf)) {
      let r = it.into_range_moc2();
      let mut buf2 = Vec::new();
      let _ = rangemoc2d_to_fits_ivoa(&r, None, None, &mut buf2);
      if buf2 != buf {
        sink.impl_failures.push(format!("st-fits-not-idempotent: {}", txt));
      }
    }
    sink.count("direct:st-fits");
    // ---- ASCII
    let mut t = Vec::new();
    let res = (&moc2).into_range_moc2_iter().into_cellcellrange_moc2_iter().to_ascii_ivoa(Some(80), false, &mut t);
    if res.is_ok() {
      let t = String::from_utf8(t).unwrap();
      let a = guarded(AssertUnwindSafe(|| match moc2d_from_ascii_ivoa::<u64, Time<u64>, u64, Hpx<u64>>(&t) {
        Ok(c) => {
          let r = c.into_cellcellrange_moc2_iter().into_range_moc2_iter().into_range_moc2();
          format!("{} {} {}", r.depth_max_1(), r.depth_max_2(), st_txt(&from_moc2(r)))
        }
        Err(e) => format!("err {}", e),
      }));
      sink.count("direct:st-ascii");
      // tie to the text model: the real reader on the real (folded) text = the model reader
      let hx: String = t.as_bytes().iter().map(|b| format!("{:02x}", b)).collect();
      sink.emit(&format!("st_ascii_dec 64 {}", hx), &a, nontrivial);
      if a != expect {
        sink.impl_failures.push(format!("st-ascii-roundtrip: {} -> {:?} -> {}", expect, t, a));
      }
    }
    // unfolded text: the real writer's bytes = the model's text
    let mut t = Vec::new();
    if !deeper && (&moc2).into_range_moc2_iter().into_cellcellrange_moc2_iter().to_ascii_ivoa(None, false, &mut t).is_ok() {
      let hx: String = t.iter().map(|b| format!("{:02x}", b)).collect();
      sink.emit(&format!("st_ascii_enc 64 {} {} {}", moc2.depth_max_1(), moc2.depth_max_2(), txt), &hx, nontrivial);
    }
    // ---- JSON (several fold widths: a line break may fall before the very first cell of an order)
    for fold in [Some(40usize), Some(24), Some(12), None] {
    let mut t = Vec::new();
    let res = (&moc2).into_range_moc2_iter().into_cell_moc2_iter().to_json_aladin(&fold, &mut t);
    if res.is_ok() {
      let t = String::from_utf8(t).unwrap();
      let a = guarded(AssertUnwindSafe(|| match cellmoc2d_from_json_aladin::<u64, Time<u64>, u64, Hpx<u64>>(&t) {
        Ok(c) => {
          let r = c.into_cell_moc2_iter().into_range_moc2_iter().into_range_moc2();
          format!("{} {} {}", r.depth_max_1(), r.depth_max_2(), st_txt(&from_moc2(r)))
        }
        Err(e) => format!("err {}", e),
      }));
      sink.count("direct:st-json");
      // tie to the text model: the JSON document reduced to the 't.. s..' ASCII document (white space removed;
      // "t": -> t, "s": -> s; quotes, braces, brackets dropped; ':' -> '/', ',' -> ' '), read by the model's ST reader
      {
        let compact: String = t.chars().filter(|c| !c.is_whitespace()).collect();
        let compact = compact.replace("\"t\":", "t").replace("\"s\":", "s");
        let norm: String = compact.chars().filter_map(|c| match c { '{' | '}' | '[' | ']' | '"' => None, ':' => Some('/'), ',' => Some(' '), c => Some(c) }).collect();
        let hx: String = norm.as_bytes().iter().map(|b| format!("{:02x}", b)).collect();
        sink.emit(&format!("st_ascii_dec 64 {}", hx), &a, nontrivial);
      }
      if a != expect {
        sink.impl_failures.push(format!("st-json-roundtrip: fold {:?}: {} -> {}", fold, expect, a));
      }
    }
    }
  }
}

/// The three passes of every ST check: coarse time cells; one-microsecond cells (depth 61) from 0; the same just
/// below the top of the time domain (indices above 2^53, highest usable bits).
const PASSES: [(u8, u64); 3] = [(2, 0), (61, 0), (61, (1u64 << 62) - 16)];
fn passes(sink: &mut Sink, rng: &mut Rng, thorough: bool, f: fn(&mut Sink, &mut Rng, bool)) {
  for (dt, t0) in PASSES {
    set_pass(dt, t0);
    sink.count(&format!("pass:time-depth-{}-offset-{}", dt, if t0 == 0 { "0" } else { "top" }));
    f(sink, rng, thorough);
  }
  set_pass(2, 0);
}
pub fn c08(sink: &mut Sink, rng: &mut Rng, thorough: bool) { passes(sink, rng, thorough, c08_pass) }
pub fn c09(sink: &mut Sink, rng: &mut Rng, thorough: bool) { passes(sink, rng, thorough, c09_pass) }
pub fn c10(sink: &mut Sink, rng: &mut Rng, thorough: bool) { passes(sink, rng, thorough, c10_pass) }
pub fn c11(sink: &mut Sink, rng: &mut Rng, thorough: bool) { passes(sink, rng, thorough, c11_pass) }

/// C12 (space-time text readers): single-field mutations of valid ST ASCII documents, read by the real
/// `moc2d_from_ascii_ivoa` and by the model's ST reader (same verdict, depths and elements).
pub fn c12_st(sink: &mut Sink, rng: &mut Rng, thorough: bool) {
  use moc::deser::ascii::moc2d_from_ascii_ivoa;
  use moc::moc2d::{CellOrCellRangeMOC2IntoIterator, CellOrCellRangeMOC2Iterator, RangeMOC2IntoIterator, RangeMOC2Iterator};
  set_pass(2, 0);
  let n = if thorough { 3000 } else { 300 };
  for _ in 0..n {
    let m = random_st(rng);
    let moc2 = to_moc2(&m);
    let mut t = Vec::new();
    if (&moc2).into_range_moc2_iter().into_cellcellrange_moc2_iter().to_ascii_ivoa(None, false, &mut t).is_err() { continue; }
    let text = String::from_utf8(t).unwrap();
    for _ in 0..4 {
      let mut doc = text.clone();
      let choice = rng.below(9);
      match choice {
        0 => {} // unmutated
        1 => { let cut = rng.below(doc.len() as u64 + 1) as usize; doc.truncate(cut); }
        2 | 3 => {
          if !doc.is_empty() {
            let pos = rng.below(doc.len() as u64) as usize;
            let c = *rng.pick(&[b't', b's', b'/', b'-', b' ', b'9', b'0', b'x', b'\n']);
            let mut b = doc.into_bytes(); b[pos] = c; doc = String::from_utf8_lossy(&b).to_string();
          }
        }
        4 => doc = format!("t62/1 s0/1 {}", doc),          // time depth above the maximum
        5 => doc = format!("t2/8 s0/1 {}", doc),           // time index outside the depth-2 domain (8 cells)
        6 => doc = format!("t2/1 s0/12 {}", doc),          // space index outside the domain
        7 => doc = format!("t2/1-3 2 s0/1 {}", doc),       // overlapping time cells inside one element
        _ => doc = doc.replacen('s', " ", 1),             // an element without its space part
      }
      if !doc.is_ascii() { continue; }
      let a = guarded(AssertUnwindSafe(|| match moc2d_from_ascii_ivoa::<u64, Time<u64>, u64, Hpx<u64>>(&doc) {
        Ok(c) => {
          let r = c.into_cellcellrange_moc2_iter().into_range_moc2_iter().into_range_moc2();
          format!("{} {} {}", r.depth_max_1(), r.depth_max_2(), st_txt(&from_moc2(r)))
        }
        Err(_) => "err".to_string(),
      }));
      sink.count(&format!("st-mut:{}:{}", choice, if a == "err" { "err" } else if a.starts_with("panic") { "panic" } else { "ok" }));
      let hx: String = doc.as_bytes().iter().map(|b| format!("{:02x}", b)).collect();
      sink.emit(&format!("st_ascii_dec 64 {}", if hx.is_empty() { "_".to_string() } else { hx }), &a, true);
    }
  }
}

/// C19, space-time variants of `moc op`: inter / union / minus on two ST-MOC FITS files, tfold (T-MOC x ST-MOC
/// -> S-MOC) and sfold (S-MOC x ST-MOC -> T-MOC), driven through the REAL binary; the decoded output is compared,
/// as a point set on the grid, with the model's point-wise semantics (`st_sem`, `st_tfold`, `st_sfold`).
pub fn c19_st(sink: &mut Sink, rng: &mut Rng, thorough: bool, dir: &std::path::Path) {
  for (dt, t0v) in PASSES {
    set_pass(dt, t0v);
    sink.count(&format!("st-pass:time-depth-{}-offset-{}", dt, if t0v == 0 { "0" } else { "top" }));
    c19_st_pass(sink, rng, thorough, dir);
  }
  set_pass(2, 0);
}

fn nar(rs: &[Range<u64>], k: u32) -> Vec<Range<u64>> { rs.iter().map(|r| (r.start >> k)..(r.end >> k)).collect() }

fn cli_panic_site(err: &str) -> String {
  // "thread 'main' panicked at src/moc2d/range/op/or.rs:618:38:"
  match err.find("panicked at ") {
    Some(i) => {
      let rest = &err[i + 12..];
      let mut parts = rest.split(':');
      let file = parts.next().unwrap_or("?");
      let line = parts.next().unwrap_or("?");
      let file = file.rsplit("/repo/").next().unwrap_or(file);
      format!("panic@{}:{}", file, line)
    }
    None => "panic@?".to_string(),
  }
}

fn c19_st_pass(sink: &mut Sink, rng: &mut Rng, thorough: bool, dir: &std::path::Path) {
  use crate::c19::moc as run_moc;
  use moc::deser::fits::{from_fits_ivoa, rangemoc2d_to_fits_ivoa, MocIdxType, MocQtyType, STMocType};
  use moc::moc::{RangeMOCIntoIterator, RangeMOCIterator};
  let n = if thorough { 120 } else { 10 };
  let (gt, gs) = (grid_t(), grid_s());
  let (tp, sp) = (nats(&gt), nats(&gs));
  let read_st = |p: &std::path::Path| -> Result<(u8, u8, Vec<Elem>), String> {
    let bytes = std::fs::read(p).map_err(|e| format!("unreadable: {}", e))?;
    match from_fits_ivoa(std::io::Cursor::new(&bytes)) {
      Ok(MocIdxType::U64(MocQtyType::TimeHpx(STMocType::V2(it)))) => {
        let (d1, d2) = (it.depth_max_1(), it.depth_max_2());
        Ok((d1, d2, from_moc2(it.into_range_moc2())))
      }
      Ok(_) => Err("wrong-kind".to_string()),
      Err(e) => Err(format!("unreadable: {}", e)),
    }
  };
  // 1-D result: (depth, ranges on 64 bits)
  fn read_1d(p: &std::path::Path, time: bool) -> Result<(u8, Vec<Range<u64>>), String> {
    let bytes = std::fs::read(p).map_err(|e| format!("unreadable: {}", e))?;
    match crate::c07::read_fits(&bytes) {
      Ok((q, w, d, rs)) => {
        if q != (if time { "time" } else { "hpx" }) { return Err(format!("wrong-quantity {}", q)); }
        let k = 64 - w;
        Ok((d, rs.iter().map(|r| (r.start << k)..(r.end << k)).collect()))
      }
      Err(e) => Err(format!("unreadable: {}", e)),
    }
  }
  // finer grid: the four quarters of every time cell and of every space cell (operands of different depths)
  let gt2: Vec<u64> = { let mut v = Vec::new(); for c in 0..NT { for q in 0..4u64 { v.push(t0() + c * tunit() + q * (tunit() / 4)); } } v.push(t0() + NT * tunit() - 1); v };
  let gs2: Vec<u64> = { let mut v = Vec::new(); for c in 0..=NS { for q in 0..4u64 { v.push(c * sunit() + q * (sunit() / 4) + 5); } } v };
  let bits2 = |m: &[Elem]| -> String {
    let mut s = String::new();
    for t in &gt2 { for p in &gs2 { s.push(if m.iter().any(|e| mem(&e.0, *t) && mem(&e.1, *p)) { '1' } else { '0' }); } }
    s
  };
  let (tp2, sp2) = (nats(&gt2), nats(&gs2));
  let to_moc2_d = |m: &[Elem], dt: u8, ds: u8| -> RangeMOC2<u64, Time<u64>, u64, Hpx<u64>> {
    RangeMOC2::new(dt, ds, m.iter().map(|e| RangeMOC2Elem::new(mk_moc(dt, &e.0), mk_moc(ds, &e.1))).collect())
  };
  for i in 0..n {
    let mut a = random_st(rng);
    let mut b = match i % 5 { 0 => a.clone(), 1 => vec![], 2 | 3 => related_st(rng, &a), _ => random_st(rng) };
    // 1 pair out of 3: ONE operand is deeper than the other (space depth 1 instead of 0, time depth + 1 when
    // possible), with a sub-cell range so that the result needs the deeper depths
    let (mut da, mut db) = ((DT_(), DS), (DT_(), DS));
    if i % 3 == 2 {
      let right = rng.chance(2, 3);
      let ddt: u8 = if DT_() < 61 && rng.chance(1, 2) { 1 } else { 0 };
      let dds: u8 = if ddt == 0 || rng.chance(1, 2) { 1 } else { 0 };
      let m = if right { &mut b } else { &mut a };
      if let Some(e) = m.first_mut() {
        if dds == 1 { let r0 = e.1[0].clone(); e.1[0] = r0.start..r0.start + sunit() / 4; }
        if ddt == 1 { let r0 = e.0[0].clone(); e.0[0] = r0.start..r0.start + tunit() / 2; }
      }
      if right { db = (DT_() + ddt, DS + dds); } else { da = (DT_() + ddt, DS + dds); }
      sink.count(&format!("st-op:operands-of-different-depths:{}-deeper", if right { "right" } else { "left" }));
    }
    let (dmax1, dmax2) = (da.0.max(db.0), da.1.max(db.1));
    let (pa, pb) = (dir.join("st_a.fits"), dir.join("st_b.fits"));
    rangemoc2d_to_fits_ivoa(&to_moc2_d(&a, da.0, da.1), None, None, std::fs::File::create(&pa).unwrap()).unwrap();
    rangemoc2d_to_fits_ivoa(&to_moc2_d(&b, db.0, db.1), None, None, std::fs::File::create(&pb).unwrap()).unwrap();
    let (ta, tb) = (st_txt(&a), st_txt(&b));
    for (tt, name) in [(14u32, "union"), (8, "inter"), (4, "minus")] {
      let outp = dir.join("st_out.fits");
      let _ = std::fs::remove_file(&outp);
      let o = run_moc(&["op", name, pa.to_str().unwrap(), pb.to_str().unwrap(), "fits", outp.to_str().unwrap()], None);
      sink.count(&format!("st-op:{}", name));
      let line = format!("st_sem {} {} {} {} {}", tt, ta, tb, tp2, sp2);
      let ans = if o.code == 0 {
        match read_st(&outp) {
          Ok((d1, d2, out)) => {
            if !(a.is_empty() && b.is_empty()) && (d1 != dmax1 || d2 != dmax2) {
              sink.impl_failures.push(format!("cli-st-depths: moc op {} on ST-MOCs of depths ({}, {}) and ({}, {}) wrote depths ({}, {})", name, da.0, da.1, db.0, db.1, d1, d2));
            }
            bits2(&out)
          }
          Err(e) => e,
        }
      } else if o.code == 101 {
        cli_panic_site(&o.err)
      } else {
        format!("exit {} {}", o.code, o.err.lines().next().unwrap_or(""))
      };
      sink.emit(&line, &ans, !(a.is_empty() && b.is_empty()));
    }
    // tfold: T-MOC (any width that can hold the depth) x ST-MOC -> S-MOC
    let tm = tranges_of_mask(rng.below(1 << NT));
    let pt = dir.join("st_t.fits");
    {
      let w = if DT_() <= 13 { *rng.pick(&[16u32, 32, 64]) } else { 64 };
      let f = std::fs::File::create(&pt).unwrap();
      match w {
        16 => { let m: RangeMOC<u16, Time<u16>> = mk_moc(DT_(), &nar(&tm, 48)); m.into_range_moc_iter().to_fits_ivoa(None, None, f).unwrap() }
        32 => { let m: RangeMOC<u32, Time<u32>> = mk_moc(DT_(), &nar(&tm, 32)); m.into_range_moc_iter().to_fits_ivoa(None, None, f).unwrap() }
        _ => { let m: RangeMOC<u64, Time<u64>> = mk_moc(DT_(), &tm); m.into_range_moc_iter().to_fits_ivoa(None, None, f).unwrap() }
      }
      sink.count(&format!("st-op:tfold:tmoc-u{}", w));
    }
    let outp = dir.join("st_fold.fits");
    let _ = std::fs::remove_file(&outp);
    let o = run_moc(&["op", "tfold", pt.to_str().unwrap(), pa.to_str().unwrap(), "fits", outp.to_str().unwrap()], None);
    let ans = if o.code == 0 {
      match read_1d(&outp, false) {
        Ok((d, rs)) => {
          if d != da.1 { sink.impl_failures.push(format!("cli-st-depths: tfold wrote an S-MOC of depth {} (ST space depth {})", d, da.1)); }
          gs.iter().map(|p| if mem(&rs, *p) { '1' } else { '0' }).collect()
        }
        Err(e) => e,
      }
    } else if o.code == 101 { cli_panic_site(&o.err) } else { format!("exit {} {}", o.code, o.err.lines().next().unwrap_or("")) };
    sink.emit(&format!("st_tfold {} {} {}", fmt_ranges(&tm), ta, sp), &ans, !a.is_empty());
    // sfold: S-MOC x ST-MOC -> T-MOC
    let sm = ranges_of_mask(rng.below(1 << NS), NS as u32, sunit());
    let ps = dir.join("st_s.fits");
    {
      let w = *rng.pick(&[16u32, 32, 64]);
      let f = std::fs::File::create(&ps).unwrap();
      match w {
        16 => { let m: RangeMOC<u16, Hpx<u16>> = mk_moc(DS, &nar(&sm, 48)); m.into_range_moc_iter().to_fits_ivoa(None, None, f).unwrap() }
        32 => { let m: RangeMOC<u32, Hpx<u32>> = mk_moc(DS, &nar(&sm, 32)); m.into_range_moc_iter().to_fits_ivoa(None, None, f).unwrap() }
        _ => { let m: RangeMOC<u64, Hpx<u64>> = mk_moc(DS, &sm); m.into_range_moc_iter().to_fits_ivoa(None, None, f).unwrap() }
      }
      sink.count(&format!("st-op:sfold:smoc-u{}", w));
    }
    let _ = std::fs::remove_file(&outp);
    let o = run_moc(&["op", "sfold", ps.to_str().unwrap(), pa.to_str().unwrap(), "fits", outp.to_str().unwrap()], None);
    let ans = if o.code == 0 {
      match read_1d(&outp, true) {
        Ok((d, rs)) => {
          if d != da.0 { sink.impl_failures.push(format!("cli-st-depths: sfold wrote a T-MOC of depth {} (ST time depth {})", d, da.0)); }
          gt.iter().map(|p| if mem(&rs, *p) { '1' } else { '0' }).collect()
        }
        Err(e) => e,
      }
    } else if o.code == 101 { cli_panic_site(&o.err) } else { format!("exit {} {}", o.code, o.err.lines().next().unwrap_or("")) };
    sink.emit(&format!("st_sfold {} {} {}", fmt_ranges(&sm), ta, tp), &ans, !a.is_empty());
  }
}

/// C19: `moc from timestamppos` / `timerangepos` (microseconds, decimal degrees): the ST-MOC written must cover
/// exactly the (time cell or degraded time range) x (space cell) products; the cell of a position is computed by
/// cdshealpix (oracle for the hash only).
pub fn c19_st_from(sink: &mut Sink, rng: &mut Rng, thorough: bool, dir: &std::path::Path) {
  use crate::c19::moc as run_moc;
  use moc::deser::fits::{from_fits_ivoa, MocIdxType, MocQtyType, STMocType};
  for it in 0..(if thorough { 120 } else { 16 }) {
    let td: u8 = *rng.pick(&[61u8, 61, 40, 20, 5]);
    let sd: u8 = rng.below(6) as u8;
    let tu = 1u64 << (61 - td as u32);
    let su = 1u64 << (2 * (29 - sd as u32));
    let k = 1 + rng.below(5) as usize;
    let ranges = it % 2 == 1;
    let base = if rng.chance(1, 3) { (1u64 << 62) - 40 * tu.min(1 << 50) } else { rng.below(1 << 40) };
    let mut obs: Vec<(Range<u64>, Range<u64>)> = Vec::new();
    let mut input = String::new();
    for j in 0..k {
      let lon = rng.below(3_600_000) as f64 / 10_000.0;
      let lat = rng.below(1_799_000) as f64 / 10_000.0 - 89.95;
      let cell = cdshealpix::nested::hash(sd, lon.to_radians(), lat.to_radians());
      // timestamps around a common base: equal, adjacent and distant instants; ranges that overlap / touch
      let t1 = (base + match rng.below(4) { 0 => 0, 1 => tu, 2 => 3 * tu + rng.below(tu.max(2)), _ => rng.below(20 * tu.min(1 << 40) + 1) }).min((1u64 << 62) - 2);
      if ranges {
        let t2 = (t1 + 1 + rng.below(3 * tu.min(1 << 40) + 2)).min((1u64 << 62) - 1);
        input.push_str(&format!("{} {} {} {}\n", t1, t2, lon, lat));
        // degraded to the time depth: start floored, end rounded up
        obs.push(((t1 / tu) * tu..((t2 + tu - 1) / tu) * tu, cell * su..(cell + 1) * su));
      } else {
        input.push_str(&format!("{} {} {}\n", t1, lon, lat));
        obs.push(((t1 / tu) * tu..(t1 / tu + 1) * tu, cell * su..(cell + 1) * su));
      }
      if j == 0 && rng.chance(1, 3) && !ranges { input.push_str(&format!("{} {} {}\n", t1, lon, lat)); }
    }
    let outp = dir.join("from_st.fits");
    let _ = std::fs::remove_file(&outp);
    let (tds, sds) = (td.to_string(), sd.to_string());
    let sub = if ranges { "timerangepos" } else { "timestamppos" };
    let o = run_moc(&["from", sub, "--time-type", "usec", &tds, &sds, "-", "fits", outp.to_str().unwrap()], Some(&input));
    // grid: both ends of every observation and their neighbours
    let mut gt: Vec<u64> = Vec::new();
    let mut gs: Vec<u64> = Vec::new();
    for (t, sp) in &obs {
      gt.extend([t.start, t.end - 1, t.end, t.start.saturating_sub(1)]);
      gs.extend([sp.start, sp.end - 1, sp.end, sp.start.saturating_sub(1)]);
    }
    gt.sort_unstable(); gt.dedup(); gs.sort_unstable(); gs.dedup();
    let ans = if o.code == 0 {
      match std::fs::read(&outp).map_err(|e| e.to_string()).and_then(|b| match from_fits_ivoa(std::io::Cursor::new(&b)) {
        Ok(MocIdxType::U64(MocQtyType::TimeHpx(STMocType::V2(it)))) => { let (d1, d2) = (it.depth_max_1(), it.depth_max_2()); Ok((d1, d2, from_moc2(it.into_range_moc2()))) }
        Ok(_) => Err("wrong-kind".to_string()),
        Err(e) => Err(format!("unreadable: {}", e)),
      }) {
        Ok((d1, d2, out)) => {
          if d1 != td || d2 != sd { sink.impl_failures.push(format!("cli-st-depths: moc from {} {} {} wrote depths ({}, {})", sub, td, sd, d1, d2)); }
          let mut s = String::new();
          for t in &gt { for p in &gs { s.push(if out.iter().any(|e| mem(&e.0, *t) && mem(&e.1, *p)) { '1' } else { '0' }); } }
          s
        }
        Err(e) => e,
      }
    } else if o.code == 101 { cli_panic_site(&o.err) } else { format!("exit {} {}", o.code, o.err.lines().next().unwrap_or("")) };
    sink.count(&format!("from:{}", sub));
    let otxt = obs.iter().map(|(t, sp)| format!("{}-{}@{}-{}", t.start, t.end, sp.start, sp.end)).collect::<Vec<_>>().join(";");
    sink.emit(&format!("st_obs {} {} {}", otxt, nats(&gt), nats(&gs)), &ans, true);
  }
}
