//! C17 — expansion, borders, hole filling and splitting obey their definitions.
//! Time/Frequency: exact correspondence with the Lean model (+ the definition `contracted = not(expanded(not))`
//! evaluated by the model). Space: the implementation is compared with an INDEPENDENT brute-force oracle
//! (flat cell set + cdshealpix neighbour relation); those comparisons are reported as direct
//! implementation-vs-oracle checks (no Lean model of the HEALPix geometry).
use std::collections::{BTreeSet, HashMap};
use std::ops::Range;
use std::panic::AssertUnwindSafe;

use cdshealpix::nested;
use moc::moc::range::RangeMOC;
use moc::moc::{CellMOCIntoIterator, CellMOCIterator, RangeMOCIterator};
use moc::qty::{Frequency, Hpx, MocQty, Time};

use crate::gen::*;
use crate::srcs::*;
use crate::util::*;

macro_rules! tf {
  ($sink:expr, $rng:expr, $thorough:expr, $combo:ty, $Q:ident) => {{
    type T = <$combo as Combo>::T;
    let (q, w) = (<$combo as Combo>::QNAME, <$combo as Combo>::W);
    let max_depth = <$Q<T> as MocQty<T>>::MAX_DEPTH;
    let mut cases: Vec<(u8, Vec<Range<u64>>)> = Vec::new();
    // every MOC of the whole-domain universe at depth 2 (8 cells) and a sample at depth 3 (16 cells)
    for m in 0..256u64 {
      cases.push((2, ranges_of_mask(m, 8, cell_size::<T, $Q<T>>(2))));
    }
    for _ in 0..(if $thorough { 12000 } else { 300 }) {
      cases.push((3, ranges_of_mask($rng.below(1 << 16), 16, cell_size::<T, $Q<T>>(3))));
      let d = $rng.below(max_depth as u64 + 1) as u8;
      cases.push((d, random_moc_ranges::<T, $Q<T>>($rng, d, 6)));
    }
    for (d, l) in cases {
      let m: RangeMOC<T, $Q<T>> = mk_moc(d, &l);
      let fl = fmt_ranges(&l);
      let ub = n_cells_max::<T, $Q<T>>();
      $sink.count(&format!("tf-shape:{}", shape_class(&l, ub)));
      let ans = guarded(AssertUnwindSafe(|| describe_moc(&m.expanded())));
      $sink.emit(&format!("tf_exp {} {} {} {}", q, w, d, fl), &ans, !l.is_empty());
      let ans = guarded(AssertUnwindSafe(|| describe_moc(&m.contracted())));
      $sink.emit(&format!("tf_con {} {} {} {}", q, w, d, fl), &ans, !l.is_empty());
      // the property's definition (model side: complement ∘ expanded ∘ complement)
      $sink.emit(&format!("tf_con_def {} {} {} {}", q, w, d, fl), &ans, !l.is_empty());
    }
  }};
}

// ---------------------------------------------------------------- space oracle

fn flat_cells(m: &RangeMOC<u64, Hpx<u64>>) -> BTreeSet<u64> {
  m.flatten_to_fixed_depth_cells().collect()
}
fn neighbours(depth: u8, c: u64, with_vertices: bool) -> Vec<u64> {
  let map = nested::get(depth).neighbours(c, false);
  let mut v = Vec::new();
  for (dir, n) in map.entries_vec() {
    use cdshealpix::compass_point::MainWind::*;
    let is_edge = matches!(dir, NE | NW | SE | SW);
    if with_vertices || is_edge {
      v.push(n);
    }
  }
  v
}
fn moc_of_cells(depth: u8, cells: &BTreeSet<u64>) -> RangeMOC<u64, Hpx<u64>> {
  RangeMOC::from_fixed_depth_cells(depth, cells.iter().cloned(), None)
}
fn oracle_expand(depth: u8, s: &BTreeSet<u64>) -> BTreeSet<u64> {
  let mut out = s.clone();
  for c in s {
    for n in neighbours(depth, *c, true) {
      out.insert(n);
    }
  }
  out
}
fn components(depth: u8, s: &BTreeSet<u64>, with_vertices: bool) -> Vec<BTreeSet<u64>> {
  let mut seen: BTreeSet<u64> = BTreeSet::new();
  let mut comps = Vec::new();
  for c in s {
    if seen.contains(c) {
      continue;
    }
    let mut comp = BTreeSet::new();
    let mut stack = vec![*c];
    seen.insert(*c);
    while let Some(x) = stack.pop() {
      comp.insert(x);
      for n in neighbours(depth, x, with_vertices) {
        if s.contains(&n) && seen.insert(n) {
          stack.push(n);
        }
      }
    }
    comps.push(comp);
  }
  comps
}

fn cells_txt(s: &BTreeSet<u64>) -> String {
  if s.is_empty() { "_".to_string() } else { s.iter().map(|x| x.to_string()).collect::<Vec<_>>().join(",") }
}

fn space(sink: &mut Sink, rng: &mut Rng, thorough: bool) {
  // the adjacency the Lean model is parametrised by: neighbour lists of cdshealpix, per depth and connectivity
  for depth in 0..3u8 {
    for v in [false, true] {
      let ncell = 12u64 << (2 * depth);
      let a = (0..ncell).map(|c| { let ns: BTreeSet<u64> = neighbours(depth, c, v).into_iter().collect(); format!("{}:{}", c, cells_txt(&ns)) }).collect::<Vec<_>>().join(";");
      sink.emit(&format!("adj {} {} {}", depth, v as u8, a), "ok", false);
    }
  }
  let n = if thorough { 20000 } else { 600 };
  for i in 0..n {
    let depth = ((i / 10 + i) % 3) as u8; // depths 0, 1, 2: 12 / 48 / 192 cells
    let ncell = 12u64 << (2 * depth);
    let all: BTreeSet<u64> = (0..ncell).collect();
    // cell sets: sparse, dense, blobs around base-cell corners and poles, empty, full
    // mixed-depth MOCs: whole coarser cells (all 4^k descendants) plus a few isolated deepest cells, so that
    // the hierarchical view holds cells of several depths (flood fill across depths)
    let mixed = |rng: &mut Rng, num: u64, den: u64, extra: u64| -> BTreeSet<u64> {
      let mut b = BTreeSet::new();
      if depth >= 1 {
        for c in 0..(ncell >> 2) { if rng.chance(num, den) { for k in 0..4 { b.insert((c << 2) | k); } } }
      }
      if depth >= 2 && rng.chance(1, 3) {
        let c = rng.below(ncell >> 4);
        for k in 0..16 { b.insert((c << 4) | k); }
      }
      for _ in 0..extra { b.insert(rng.below(ncell)); }
      b
    };
    let s: BTreeSet<u64> = match i % 10 {
      7 => mixed(rng, 1, 8, 0),
      8 => { let e = rng.below(4); mixed(rng, 1, 4, e) }
      9 => { let e = 1 + rng.below(6); mixed(rng, 1, 12, e) }
      0 => (0..ncell).filter(|_| rng.chance(1, 6)).collect(),
      // almost everything, with HOLES of different shapes: a whole coarse cell (few big cells once normalised), a small
      // ragged hole made of deepest cells, single cells (which holes `fill_holes` keeps must follow the AREA, not the
      // number of cells of the normalised component)
      1 if depth >= 1 && i % 20 == 1 => {
        sink.count("space-shape:holes-of-mixed-granularity");
        let shift = 2 * depth as u64;
        let big = rng.below(12);
        let mut holes: BTreeSet<u64> = ((big << shift)..((big + 1) << shift)).collect();
        let other = (big + 1 + rng.below(11)) % 12;
        let base = other << shift;
        for k in 0..(2 + rng.below(2)) { holes.insert(base + k); }
        if rng.chance(1, 2) { holes.insert(((other + 5) % 12) << shift); }
        all.iter().cloned().filter(|c| !holes.contains(c)).collect()
      }
      1 => (0..ncell).filter(|_| rng.chance(4, 5)).collect(),
      2 => {
        let c = rng.below(ncell);
        let mut b: BTreeSet<u64> = [c].into_iter().collect();
        for _ in 0..rng.below(3) {
          b = oracle_expand(depth, &b);
        }
        b
      }
      3 => all.iter().cloned().filter(|c| *c % 4 != (rng.0 % 4)).collect(),
      4 => BTreeSet::new(),
      5 => all.clone(),
      // ONE z-order interval of cells (a single range of the MOC): often not connected
      6 if i % 20 == 6 => { let a = rng.below(ncell); let len = 2 + rng.below((ncell / 3).max(2)); sink.count("space-shape:one-z-order-interval"); (a..(a + len).min(ncell)).collect() }
      _ => (0..ncell).filter(|_| rng.chance(1, 2)).collect(),
    };
    let m = moc_of_cells(depth, &s);
    if (7..=9).contains(&(i % 10)) { sink.count("space-shape:mixed-depth"); }
    let tag = format!("space depth={} cells={:?}", depth, s.iter().take(40).collect::<Vec<_>>());
    sink.count(&format!("space-depth:{}", depth));
    let compl: BTreeSet<u64> = all.difference(&s).cloned().collect();
    let exp = oracle_expand(depth, &s);
    let con: BTreeSet<u64> = all.difference(&oracle_expand(depth, &compl)).cloned().collect();
    {
    // the same operations against the Lean model over the adjacency sent above
      let st = cells_txt(&s);
      let mut model_op = |name: &str, got: std::thread::Result<BTreeSet<u64>>| {
        let ans = match got { Ok(g) => cells_txt(&g), Err(_) => panic_answer() };
        sink.emit(&format!("{} {} {}", name, depth, st), &ans, !s.is_empty());
      };
      model_op("sp_exp", std::panic::catch_unwind(AssertUnwindSafe(|| flat_cells(&m.expanded()))));
      model_op("sp_con", std::panic::catch_unwind(AssertUnwindSafe(|| flat_cells(&m.contracted()))));
      model_op("sp_ext", std::panic::catch_unwind(AssertUnwindSafe(|| flat_cells(&m.external_border()))));
      model_op("sp_int", std::panic::catch_unwind(AssertUnwindSafe(|| flat_cells(&m.internal_border()))));
      // the same four operations on the NARROWER index types (u32, u16: the edge cells go through a u64 -> T
      // conversion the u64 MOCs never exercise): same cells expected
      macro_rules! narrow {
        ($T:ty, $w:expr) => {{
          let mt: RangeMOC<$T, Hpx<$T>> = RangeMOC::from_fixed_depth_cells(depth, s.iter().map(|c| *c as $T), None);
          let fl = |x: RangeMOC<$T, Hpx<$T>>| -> BTreeSet<u64> { x.flatten_to_fixed_depth_cells().map(|c| c as u64).collect() };
          model_op("sp_exp", std::panic::catch_unwind(AssertUnwindSafe(|| fl(mt.expanded()))));
          model_op("sp_con", std::panic::catch_unwind(AssertUnwindSafe(|| fl(mt.contracted()))));
          model_op("sp_ext", std::panic::catch_unwind(AssertUnwindSafe(|| fl(mt.external_border()))));
          model_op("sp_int", std::panic::catch_unwind(AssertUnwindSafe(|| fl(mt.internal_border()))));
        }};
      }
      if i % 3 == 0 { narrow!(u32, 32); }
      if i % 3 == 1 { narrow!(u16, 16); }
      for indirect in [false, true] {
        let got = std::panic::catch_unwind(AssertUnwindSafe(|| {
          let mut parts: Vec<Vec<u64>> = m.split_into_joint_mocs(indirect).into_iter()
            .map(|cm| flat_cells(&cm.into_cell_moc_iter().ranges().into_range_moc()).into_iter().collect::<Vec<u64>>()).collect();
          parts.sort();
          if parts.is_empty() { "_".to_string() } else { parts.iter().map(|p| p.iter().map(|x| x.to_string()).collect::<Vec<_>>().join(",")).collect::<Vec<_>>().join("|") }
        }));
        let ans = match got { Ok(a) => a, Err(_) => panic_answer() };
        sink.emit(&format!("sp_split {} {} {}", depth, indirect as u8, st), &ans, !s.is_empty());
      }
    }
    let mut check = |name: &str, got: Result<BTreeSet<u64>, ()>, want: &BTreeSet<u64>| {
      sink.count(&format!("space-op:{}", name));
      match got {
        Ok(g) if &g == want => {}
        Ok(g) => sink.impl_failures.push(format!("C17 {} differs from the definition: {} got={:?} want={:?}", name, tag, g.iter().take(30).collect::<Vec<_>>(), want.iter().take(30).collect::<Vec<_>>())),
        Err(()) => sink.impl_failures.push(format!("C17 {} panicked: {}", name, tag)),
      }
    };
    check("expanded", std::panic::catch_unwind(AssertUnwindSafe(|| flat_cells(&m.expanded()))).map_err(|_| ()), &exp);
    check("contracted", std::panic::catch_unwind(AssertUnwindSafe(|| flat_cells(&m.contracted()))).map_err(|_| ()), &con);
    check("external_border", std::panic::catch_unwind(AssertUnwindSafe(|| flat_cells(&m.external_border()))).map_err(|_| ()), &exp.difference(&s).cloned().collect());
    check("internal_border", std::panic::catch_unwind(AssertUnwindSafe(|| flat_cells(&m.internal_border()))).map_err(|_| ()), &s.difference(&con).cloned().collect());
    // splitting, both connectivities
    for indirect in [false, true] {
      let want = components(depth, &s, indirect);
      let got = std::panic::catch_unwind(AssertUnwindSafe(|| {
        m.split_into_joint_mocs(indirect)
          .into_iter()
          .map(|cm| flat_cells(&cm.into_cell_moc_iter().ranges().into_range_moc()))
          .collect::<Vec<BTreeSet<u64>>>()
      }));
      sink.count("space-op:split");
      match got {
        Err(_) => sink.impl_failures.push(format!("C17 split({}) panicked: {}", indirect, tag)),
        Ok(parts) => {
          let mut a: Vec<Vec<u64>> = parts.iter().map(|p| p.iter().cloned().collect()).collect();
          let mut b: Vec<Vec<u64>> = want.iter().map(|p| p.iter().cloned().collect()).collect();
          a.sort();
          b.sort();
          if a != b {
            sink.impl_failures.push(format!("C17 split(indirect={}) is not the partition into connected components: {} got {} parts, want {}", indirect, tag, a.len(), b.len()));
          }
        }
      }
    }
    // hole filling against the model (`Graph.fillHoles`): the MOC plus every component of its complement (edge-or-vertex
    // adjacency) except the 1 + n largest; skipped when two components of the same size sit on both sides of the cut
    // (which one is kept then depends on the discovery order, which the definition does not fix)
    {
      let comps = components(depth, &compl, true);
      let mut sizes: Vec<usize> = comps.iter().map(|c| c.len()).collect();
      sizes.sort_unstable_by(|a, b| b.cmp(a));
      for n in [0usize, 1] {
        let k = 1 + n;
        let tie = k < sizes.len() && sizes[k - 1] == sizes[k];
        if tie { sink.count("space-op:fill_holes-tie-skipped"); continue; }
        let got = std::panic::catch_unwind(AssertUnwindSafe(|| flat_cells(&m.fill_holes(if n == 0 { None } else { Some(n) }))));
        let ans = match got { Ok(g) => cells_txt(&g), Err(_) => panic_answer() };
        sink.emit(&format!("sp_fill {} {} {}", depth, n, cells_txt(&s)), &ans, !s.is_empty());
      }
    }
    // `fill_holes_smaller_than(f)`: f chosen strictly between k / n_cells and (k + 1) / n_cells, so that "coverage <= f" means
    // "at most k cells of this depth" whatever the rounding of the division
    for k in [1u64, 3] {
      let f = (k as f64 + 0.5) / (ncell as f64);
      let got = std::panic::catch_unwind(AssertUnwindSafe(|| flat_cells(&m.fill_holes_smaller_than(f))));
      sink.count("space-op:fill_holes_smaller_than");
      let ans = match got { Ok(g) => cells_txt(&g), Err(_) => panic_answer() };
      sink.emit(&format!("sp_fillk {} {} {}", depth, k, cells_txt(&s)), &ans, !s.is_empty());
    }
    // hole filling: superset that only adds whole connected components of the complement
    let got = std::panic::catch_unwind(AssertUnwindSafe(|| flat_cells(&m.fill_holes(None))));
    sink.count("space-op:fill_holes");
    match got {
      Err(_) => sink.impl_failures.push(format!("C17 fill_holes panicked: {}", tag)),
      Ok(f) => {
        let added: BTreeSet<u64> = f.difference(&s).cloned().collect();
        let comps = components(depth, &compl, true);
        let mut idx: HashMap<u64, usize> = HashMap::new();
        for (k, c) in comps.iter().enumerate() {
          for x in c {
            idx.insert(*x, k);
          }
        }
        let whole = comps.iter().all(|c| c.iter().all(|x| added.contains(x)) || c.iter().all(|x| !added.contains(x)));
        if !s.is_subset(&f) || !whole {
          sink.impl_failures.push(format!("C17 fill_holes is not a superset adding whole components of the complement: {}", tag));
        }
      }
    }
  }
}

pub fn run(sink: &mut Sink, rng: &mut Rng, thorough: bool) {
  tf!(sink, rng, thorough, T16, Time);
  tf!(sink, rng, thorough, T32, Time);
  tf!(sink, rng, thorough, T64, Time);
  tf!(sink, rng, thorough, F16, Frequency);
  tf!(sink, rng, thorough, F32, Frequency);
  tf!(sink, rng, thorough, F64, Frequency);
  space(sink, rng, thorough);
}
