//! C13 — the in-memory MOC store (`U64MocStore::get_global_store()`), feature `storage`.
//!
//! Part 1 (correspondence with the Lean slab/registry model): ONE long sequential history of public
//! calls on the process-wide store (it cannot be reset, so the history is continuous and the model
//! driver keeps the state from line to line): add / copy / drop / get / not / degrade / and / or / xor /
//! minus / multi_union / multi_intersection / multi_symmetric_difference, on S-, T- and F-MOCs, with
//! dead indices, mismatched kinds, 255-copy saturation, bursts of drops (slot reuse order).
//!
//! Part 2 (runtime behaviour the model cannot exhibit): several threads issue private histories on
//! shared read-only operands; every result is compared with the value computed from the operands,
//! indices handed out are checked to be pairwise distinct while live, a watchdog detects a stall
//! (deadlock) and any "lock poisoned" answer is a failure. Reported as direct implementation checks.
use std::collections::HashSet;
use std::ops::Range;
use std::panic::AssertUnwindSafe;
use std::sync::atomic::{AtomicBool, AtomicU64, Ordering};
use std::sync::{Arc, Mutex};
use std::time::{Duration, Instant};

use moc::moc::range::RangeMOC;
use moc::qty::{Frequency, Hpx, MocQty, Time};
use moc::storage::u64idx::common::MocQType;
use moc::storage::u64idx::U64MocStore;

use crate::gen::*;
use crate::util::*;

/// Lock sections recorded by the `verif_hooks` feature for the calls issued since the last take.
fn take_trace() -> String {
  moc::storage::u64idx::verif_take_lock_trace().concat()
}

fn err_class(e: &str) -> &'static str {
  if e.contains("not found") {
    "err-notfound"
  } else if e.contains("255 copies") {
    "err-full"
  } else if e.contains("must be the same") || e.contains("same MOC type") || e.contains("is not a ") {
    "err-kind"
  } else if e.contains("oisoned") {
    "err-poisoned"
  } else {
    "err-other"
  }
}
fn idx_ans(r: Result<usize, String>) -> String {
  match r {
    Ok(i) => format!("idx {}", i),
    Err(e) => err_class(&e).to_string(),
  }
}
fn unit_ans(r: Result<(), String>) -> String {
  match r {
    Ok(()) => "ok".to_string(),
    Err(e) => err_class(&e).to_string(),
  }
}
fn get_ans(store: &U64MocStore, i: usize) -> String {
  let k = match store.get_qty_type(i) {
    Ok(MocQType::Space) => 0,
    Ok(MocQType::Time) => 1,
    Ok(MocQType::Frequency) => 2,
    Ok(MocQType::TimeSpace) => 3,
    Err(e) => return err_class(&e).to_string(),
  };
  let d = match k {
    0 => store.get_smoc_depth(i),
    1 => store.get_tmoc_depth(i),
    _ => store.get_fmoc_depth(i),
  };
  match (d, store.to_ranges(i)) {
    (Ok(d), Ok(rs)) => format!("val {} {}|{}", k, d, fmt_ranges(&rs)),
    (Err(e), _) | (_, Err(e)) => err_class(&e).to_string(),
  }
}
/// `get` is observed through up to three read-only calls: each must be one read section; the trace
/// reported is that of ONE read-only call (what the model's `get` is) when they all are.
fn collapse_get_trace(t: &str) -> String {
  let n = t.len() / 4;
  if !t.is_empty() && t.len() % 4 == 0 && (0..n).all(|k| &t[4 * k..4 * k + 4] == "R+R-") { "R+R-".to_string() } else { t.to_string() }
}

fn max_depth(kind: u64) -> u8 {
  match kind {
    0 => Hpx::<u64>::MAX_DEPTH,
    1 => Time::<u64>::MAX_DEPTH,
    _ => Frequency::<u64>::MAX_DEPTH,
  }
}

fn random_val(rng: &mut Rng, kind: u64) -> (u8, Vec<Range<u64>>) {
  // small depths most of the time so that operands overlap
  let d = if rng.chance(3, 4) { rng.below(4) as u8 + 1 } else { rng.below(max_depth(kind) as u64 + 1) as u8 };
  let rs = match kind {
    0 => random_moc_ranges::<u64, Hpx<u64>>(rng, d, 5),
    1 => random_moc_ranges::<u64, Time<u64>>(rng, d, 5),
    _ => random_moc_ranges::<u64, Frequency<u64>>(rng, d, 5),
  };
  (d, rs)
}

fn add(store: &U64MocStore, kind: u64, d: u8, rs: &[Range<u64>]) -> Result<usize, String> {
  match kind {
    0 => store.insert_smoc(mk_moc::<u64, Hpx<u64>>(d, rs)),
    1 => store.insert_tmoc(mk_moc::<u64, Time<u64>>(d, rs)),
    _ => store.insert_fmoc(mk_moc::<u64, Frequency<u64>>(d, rs)),
  }
}

pub fn run(sink: &mut Sink, rng: &mut Rng, thorough: bool) {
  let store = U64MocStore::get_global_store();
  sink.emit("store reset", "ok", false);
  // indices the history knows about: live ones (with kind) and a few dead / never allocated ones
  let mut known: Vec<usize> = Vec::new();
  let n_calls = if thorough { 80_000 } else { 12_000 };
  let pick_idx = |rng: &mut Rng, known: &Vec<usize>| -> usize {
    if known.is_empty() || rng.chance(1, 12) {
      rng.below(40) as usize // possibly dead / never allocated
    } else {
      *rng.pick(known)
    }
  };
  let mut phase_drain = false;
  for step in 0..n_calls {
    if step % 500 == 0 {
      phase_drain = rng.chance(1, 3);
    }
    let choice = rng.below(100);
    let _ = take_trace();
    let (op, ans): (String, String) = if known.len() < 3 || choice < (if phase_drain { 8 } else { 22 }) {
      let kind = rng.below(3);
      let (d, rs) = random_val(rng, kind);
      let r = guarded(AssertUnwindSafe(|| idx_ans(add(store, kind, d, &rs))));
      (format!("store add {} {} {}", kind, d, fmt_ranges(&rs)), r)
    } else if choice < 30 {
      let i = pick_idx(rng, &known);
      // saturation: sometimes copy the same index many times
      if rng.chance(1, 60) {
        for _ in 0..259 {
          let r = guarded(AssertUnwindSafe(|| unit_ans(store.copy(i))));
          let tr = take_trace();
          sink.emit(&format!("storelk copy {}", i), &format!("{} {}", r, tr), true);
        }
        sink.count("burst:copy260");
        (format!("store copy {}", i), guarded(AssertUnwindSafe(|| unit_ans(store.copy(i)))))
      } else {
        (format!("store copy {}", i), guarded(AssertUnwindSafe(|| unit_ans(store.copy(i)))))
      }
    } else if choice < (if phase_drain { 62 } else { 46 }) {
      let i = pick_idx(rng, &known);
      if i % 5 == 3 {
        // typed drop, of the kind of the MOC or of another one (no RNG draw): a mismatch is an error WITHOUT effect
        let k = (i / 5) % 4;
        sink.count("call:typed-drop");
        (format!("store dropk {} {}", k, i), guarded(AssertUnwindSafe(|| unit_ans(match k { 0 => store.drop_smoc(i).map(|_| ()), 1 => store.drop_tmoc(i).map(|_| ()), 2 => store.drop_fmoc(i).map(|_| ()), _ => store.drop_stmoc(i).map(|_| ()) }))))
      } else {
      (format!("store drop {}", i), guarded(AssertUnwindSafe(|| unit_ans(store.drop(i)))))
      }
    } else if choice < 60 {
      let i = pick_idx(rng, &known);
      (format!("store get {}", i), guarded(AssertUnwindSafe(|| get_ans(store, i))))
    } else if choice < 63 {
      // read-only queries on one or two indices (same index twice, dead indices included)
      let i = pick_idx(rng, &known);
      if rng.chance(1, 3) {
        let which = rng.below(4);
        let name = ["min", "max", "nranges", "sum"][which as usize];
        let opt = |r: Result<Option<u64>, String>| match r { Ok(Some(v)) => v.to_string(), Ok(None) => "none".to_string(), Err(e) => err_class(&e).to_string() };
        let r = guarded(AssertUnwindSafe(|| match which {
          0 => opt(store.get_1st_axis_min(i)),
          1 => opt(store.get_1st_axis_max(i)),
          2 => match store.get_n_ranges(i) { Ok(v) => v.to_string(), Err(e) => err_class(&e).to_string() },
          _ => match store.get_ranges_sum(i) { Ok(v) => v.to_string(), Err(e) => err_class(&e).to_string() },
        }));
        (format!("store q1 {} {}", name, i), r)
      } else if rng.chance(1, 2) {
        let j = if rng.chance(1, 2) { i } else { pick_idx(rng, &known) };
        let r = guarded(AssertUnwindSafe(|| match store.eq(i, j) { Ok(b) => b.to_string(), Err(e) => err_class(&e).to_string() }));
        (format!("store eq {} {}", i, j), r)
      } else {
        let r = guarded(AssertUnwindSafe(|| match store.is_empty(i) { Ok(b) => b.to_string(), Err(e) => err_class(&e).to_string() }));
        (format!("store isempty {}", i), r)
      }
    } else if choice < 66 {
      let i = pick_idx(rng, &known);
      (format!("store not {}", i), guarded(AssertUnwindSafe(|| idx_ans(store.not(i)))))
    } else if choice < 72 {
      let i = pick_idx(rng, &known);
      let nd = rng.below(8) as u8;
      (format!("store degrade {} {}", i, nd), guarded(AssertUnwindSafe(|| idx_ans(store.degrade(i, nd)))))
    } else if choice < 89 {
      let (i, j) = (pick_idx(rng, &known), pick_idx(rng, &known));
      let which = rng.below(4);
      let name = ["and", "or", "xor", "minus"][which as usize];
      let r = guarded(AssertUnwindSafe(|| {
        idx_ans(match which {
          0 => store.and(i, j),
          1 => store.or(i, j),
          2 => store.xor(i, j),
          _ => store.minus(i, j),
        })
      }));
      (format!("store {} {} {}", name, i, j), r)
    } else if choice >= 96 {
      // export + re-import: FITS (generic loader, or the loader of ONE kind — possibly not the MOC's),
      // ASCII and JSON through the loader of the MOC's own kind
      let i = pick_idx(rng, &known);
      let kind = match store.get_qty_type(i) { Ok(MocQType::Space) => Some(0u64), Ok(MocQType::Time) => Some(1), Ok(MocQType::Frequency) => Some(2), _ => None };
      let _ = take_trace();
      match rng.below(4) {
        0 => {
          let r = guarded(AssertUnwindSafe(|| match store.to_fits_buff(i, None) { Ok(b) => idx_ans(store.load_from_fits_buff(&b)), Err(e) => err_class(&e).to_string() }));
          (format!("store reimp {}", i), r)
        }
        1 => {
          let k = rng.below(3);
          let r = guarded(AssertUnwindSafe(|| match store.to_fits_buff(i, None) {
            Ok(b) => match (match k { 0 => store.load_smoc_from_fits_buff(&b), 1 => store.load_tmoc_from_fits_buff(&b), _ => store.load_fmoc_from_fits_buff(&b) }) { Ok(j) => format!("idx {}", j), Err(_) => "err-other".to_string() },
            Err(e) => err_class(&e).to_string(),
          }));
          (format!("store reimpk {} {}", k, i), r)
        }
        w => {
          let fold = if rng.chance(1, 2) { Some(30usize) } else { None };
          let r = guarded(AssertUnwindSafe(|| {
            let txt = if w == 2 { store.to_ascii_str(i, fold) } else { store.to_json_str(i, fold) };
            match (txt, kind) {
              (Ok(t), Some(k)) => idx_ans(match (w, k) {
                (2, 0) => store.load_smoc_from_ascii(&t), (2, 1) => store.load_tmoc_from_ascii(&t), (2, _) => store.load_fmoc_from_ascii(&t),
                (_, 0) => store.load_smoc_from_json(&t), (_, 1) => store.load_tmoc_from_json(&t), (_, _) => store.load_fmoc_from_json(&t),
              }),
              (Ok(_), None) => "err-other".to_string(),
              (Err(e), _) => err_class(&e).to_string(),
            }
          }));
          (format!("store reimp {}", i), r)
        }
      }
    } else {
      let n = rng.below(6) as usize;
      let mut is: Vec<usize> = (0..n).map(|_| pick_idx(rng, &known)).collect();
      // 1 list out of 3: one index appears twice (an even number of occurrences matters for the xor)
      if !is.is_empty() && rng.chance(1, 3) {
        let d = is[rng.below(is.len() as u64) as usize];
        is.push(d);
        sink.count("multi:duplicate-index");
      }
      let which = rng.below(3);
      let name = ["mand", "mor", "mxor"][which as usize];
      let r = guarded(AssertUnwindSafe(|| {
        idx_ans(match which {
          0 => store.multi_intersection(&is),
          1 => store.multi_union(&is),
          _ => store.multi_symmetric_difference(&is),
        })
      }));
      let l = if is.is_empty() { "_".to_string() } else { is.iter().map(|x| x.to_string()).collect::<Vec<_>>().join(",") };
      (format!("store {} {}", name, l), r)
    };
    if let Some(rest) = ans.strip_prefix("idx ") {
      if let Ok(i) = rest.parse::<usize>() {
        if !known.contains(&i) {
          known.push(i);
        }
      }
    }
    sink.count(&format!("answer:{}", ans.split(' ').next().unwrap_or("?")));
    // lock sections of the call (the bursts of copies above are emitted without)
    let tr = take_trace();
    let tr = if op.starts_with("store get ") { collapse_get_trace(&tr) } else { tr };
    sink.count(&format!("locks:{}", tr));
    sink.emit(&op.replacen("store ", "storelk ", 1), &format!("{} {}", ans, tr), true);
    if known.len() > 30 {
      // forget some indices (they stay live in the store: the model must keep them too)
      let k = rng.below(known.len() as u64) as usize;
      known.swap_remove(k);
    }
  }
  // final observation of every slot the history may have touched
  for i in 0..80usize {
    sink.emit(&format!("store get {}", i), &guarded(AssertUnwindSafe(|| get_ans(store, i))), true);
  }
  concurrent(sink, rng, thorough);
}

/// Threads on shared read-only operands; direct checks + watchdog.
fn concurrent(sink: &mut Sink, rng: &mut Rng, thorough: bool) {
  let store = U64MocStore::get_global_store();
  let n_threads = 8usize;
  let run_for = Duration::from_millis(if thorough { 30_000 } else { 2_500 });
  let stall_limit = Duration::from_secs(10);
  // shared read-only operands (space, depth 3) and the expected results computed by the library itself
  let mut shared: Vec<(usize, RangeMOC<u64, Hpx<u64>>)> = Vec::new();
  for _ in 0..4 {
    let rs = random_moc_ranges::<u64, Hpx<u64>>(rng, 3, 6);
    let m = mk_moc::<u64, Hpx<u64>>(3, &rs);
    let i = store.insert_smoc(m.clone()).expect("insert shared operand");
    shared.push((i, m));
  }
  let shared = Arc::new(shared);
  let live: Arc<Mutex<HashSet<usize>>> = Arc::new(Mutex::new(shared.iter().map(|x| x.0).collect()));
  let failures: Arc<Mutex<Vec<String>>> = Arc::new(Mutex::new(Vec::new()));
  let progress = Arc::new(AtomicU64::new(0));
  let stop = Arc::new(AtomicBool::new(false));
  let finished = Arc::new(AtomicU64::new(0));
  for t in 0..n_threads {
    let (shared, live, failures, progress, stop, finished) =
      (shared.clone(), live.clone(), failures.clone(), progress.clone(), stop.clone(), finished.clone());
    let mut trng = Rng::new(rng.next_u64() ^ t as u64);
    std::thread::spawn(move || {
      let store = U64MocStore::get_global_store();
      let fail = |s: String| {
        let mut f = failures.lock().unwrap();
        if f.len() < 50 {
          f.push(s);
        }
      };
      let mut mine: Vec<(usize, Vec<Range<u64>>, u8)> = Vec::new(); // private live results: index, expected ranges, copies
      while !stop.load(Ordering::Relaxed) {
        let c = trng.below(100);
        if c < 45 || mine.is_empty() {
          // binary / n-ary operation on shared operands
          let (a, b) = (trng.below(shared.len() as u64) as usize, trng.below(shared.len() as u64) as usize);
          let which = trng.below(5);
          let (res, expected) = match which {
            0 => (store.and(shared[a].0, shared[b].0), shared[a].1.and(&shared[b].1)),
            1 => (store.or(shared[a].0, shared[b].0), shared[a].1.or(&shared[b].1)),
            2 => (store.xor(shared[a].0, shared[b].0), shared[a].1.xor(&shared[b].1)),
            3 => (store.minus(shared[a].0, shared[b].0), shared[a].1.minus(&shared[b].1)),
            _ => (store.multi_union(&[shared[a].0, shared[b].0]), shared[a].1.or(&shared[b].1)),
          };
          match res {
            Ok(i) => {
              if !live.lock().unwrap().insert(i) {
                fail(format!("conc-index-reused-while-live: thread {} got index {} which another live MOC holds", t, i));
              }
              mine.push((i, moc_ranges_u64(&expected), 0));
            }
            Err(e) => fail(format!("conc-op-error: thread {} op {} on live shared operands: {}", t, which, e)),
          }
        } else if c < 65 {
          let k = trng.below(mine.len() as u64) as usize;
          match store.to_ranges(mine[k].0) {
            Ok(rs) if rs == mine[k].1 => {}
            Ok(rs) => fail(format!(
              "conc-wrong-value: thread {} index {} holds {} expected {}",
              t,
              mine[k].0,
              fmt_ranges(&rs),
              fmt_ranges(&mine[k].1)
            )),
            Err(e) => fail(format!("conc-live-index-error: thread {} index {}: {}", t, mine[k].0, e)),
          }
        } else if c < 75 {
          let k = trng.below(mine.len() as u64) as usize;
          match store.copy(mine[k].0) {
            Ok(()) => mine[k].2 += 1,
            Err(e) => fail(format!("conc-copy-error: thread {} index {}: {}", t, mine[k].0, e)),
          }
        } else {
          let k = trng.below(mine.len() as u64) as usize;
          let last = mine[k].2 == 0;
          if last {
            live.lock().unwrap().remove(&mine[k].0);
          }
          match store.drop(mine[k].0) {
            Ok(()) => {
              if last {
                mine.swap_remove(k);
              } else {
                mine[k].2 -= 1;
              }
            }
            Err(e) => fail(format!("conc-drop-error: thread {} index {}: {}", t, mine[k].0, e)),
          }
        }
        progress.fetch_add(1, Ordering::Relaxed);
      }
      // clean up
      for (i, _, copies) in mine {
        live.lock().unwrap().remove(&i);
        for _ in 0..=copies {
          let _ = store.drop(i);
        }
      }
      finished.fetch_add(1, Ordering::Relaxed);
    });
  }
  let t0 = Instant::now();
  let mut last_progress = 0u64;
  let mut last_change = Instant::now();
  let mut stalled = false;
  loop {
    std::thread::sleep(Duration::from_millis(50));
    let p = progress.load(Ordering::Relaxed);
    if p != last_progress {
      last_progress = p;
      last_change = Instant::now();
    }
    if t0.elapsed() > run_for {
      stop.store(true, Ordering::Relaxed);
    }
    if finished.load(Ordering::Relaxed) == n_threads as u64 {
      break;
    }
    if last_change.elapsed() > stall_limit {
      stalled = true;
      break;
    }
  }
  if stalled {
    sink.impl_failures.push(format!(
      "conc-stall: no store call completed for {} s with {} threads (deadlock) after {} calls",
      stall_limit.as_secs(),
      n_threads,
      last_progress
    ));
  }
  for f in failures.lock().unwrap().iter() {
    sink.impl_failures.push(f.clone());
  }
  *sink.stats.entry("conc:calls".to_string()).or_insert(0) += last_progress;
  *sink.stats.entry("conc:threads".to_string()).or_insert(0) += n_threads as u64;
  if !stalled {
    // poisoning: the store must still answer
    if let Err(e) = store.to_ranges(shared[0].0) {
      sink.impl_failures.push(format!("conc-store-unusable-after-run: {}", e));
    }
  }
}
