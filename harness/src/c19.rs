//! C19 — drives the REAL `moc` binary (rebuilt from /repo): `op` (2-operand and 1-operand), `convert`,
//! `from`, and invalid inputs.  Answers are normalised to the 64-bit index space (`depth|ranges`) so
//! that outputs written with different index widths or in text formats compare with the model.
use std::fs;
use std::io::Write;
use std::ops::Range;
use std::path::{Path, PathBuf};
use std::process::{Command, Stdio};

use moc::deser::ascii::from_ascii_ivoa;
use moc::deser::json::from_json_aladin;
use moc::idx::Idx;
use moc::moc::range::RangeMOC;
use moc::moc::{
  CellHpxMOCIterator, CellMOCIntoIterator, CellMOCIterator, CellOrCellRangeMOCIntoIterator, CellOrCellRangeMOCIterator,
  HasMaxDepth, RangeMOCIntoIterator, RangeMOCIterator,
};
use moc::qty::{Frequency, Hpx, MocQty, Time};

use crate::c07::read_fits;
use crate::gen::*;
use crate::mocset::bin;
use crate::srcs::*;
use crate::util::*;

pub struct Out {
  pub code: i32,
  pub out: String,
  pub err: String,
}
pub fn moc(args: &[&str], stdin: Option<&str>) -> Out {
  let mut cmd = Command::new(bin("moc"));
  cmd.args(args).stdin(Stdio::piped()).stdout(Stdio::piped()).stderr(Stdio::piped());
  let mut child = cmd.spawn().expect("spawn moc");
  if let Some(s) = stdin {
    let _ = child.stdin.as_mut().unwrap().write_all(s.as_bytes());
  }
  drop(child.stdin.take());
  let o = child.wait_with_output().expect("wait");
  Out {
    code: o.status.code().unwrap_or(-1),
    out: String::from_utf8_lossy(&o.stdout).to_string(),
    err: String::from_utf8_lossy(&o.stderr).to_string(),
  }
}

fn to64(w: u32, rs: &[Range<u64>]) -> Vec<Range<u64>> {
  let k = 64 - w;
  rs.iter().map(|r| (r.start << k)..(r.end.checked_shl(k).unwrap_or(0))).collect()
}

/// Decode an output file of the tool into `depth|ranges64` (or `unreadable: ..`).
fn decode(path: &Path, fmt: &str, q: &str) -> String {
  let bytes = match fs::read(path) {
    Ok(b) => b,
    Err(e) => return format!("unreadable: {}", e),
  };
  match fmt {
    "fits" => match read_fits(&bytes) {
      Ok((qq, w, d, rs)) => {
        if qq != q {
          format!("wrong-quantity {}", qq)
        } else {
          format!("{}|{}", d, fmt_ranges(&to64(w, &rs)))
        }
      }
      Err(e) => format!("unreadable: {}", e),
    },
    "ascii" | "json" => {
      let text = String::from_utf8_lossy(&bytes).to_string();
      macro_rules! txt {
        ($Q:ident) => {
          if fmt == "ascii" {
            match from_ascii_ivoa::<u64, $Q<u64>>(&text) {
              Ok(m) => {
                let d = m.depth_max();
                let r: RangeMOC<u64, $Q<u64>> = m.into_cellcellrange_moc_iter().ranges().into_range_moc();
                format!("{}|{}", d, fmt_ranges(&moc_ranges_u64(&r)))
              }
              Err(e) => format!("unreadable: {}", e),
            }
          } else {
            match from_json_aladin::<u64, $Q<u64>>(&text) {
              Ok(m) => {
                let d = m.depth_max();
                let r: RangeMOC<u64, $Q<u64>> = m.into_cell_moc_iter().ranges().into_range_moc();
                format!("{}|{}", d, fmt_ranges(&moc_ranges_u64(&r)))
              }
              Err(e) => format!("unreadable: {}", e),
            }
          }
        };
      }
      match q {
        "hpx" => txt!(Hpx),
        "time" => txt!(Time),
        _ => txt!(Frequency),
      }
    }
    _ => "unreadable: format".to_string(),
  }
}

fn write_fits<C: Combo>(path: &Path, m: &RangeMOC<C::T, C::Q>) {
  let mut f = fs::File::create(path).unwrap();
  m.into_range_moc_iter().to_fits_ivoa(None, None, &mut f).unwrap();
}

fn shallow_moc<C: Combo>(rng: &mut Rng) -> (u8, Vec<Range<u64>>) {
  let md = <C::Q as MocQty<C::T>>::MAX_DEPTH;
  let d = match rng.below(8) {
    0 => md,
    1 => 0,
    // depths on both sides of the automatic narrowing thresholds of the FITS writer (5/6 and 13/14 for space)
    2 => (5 + rng.below(3) as u8).min(md),
    3 => (12 + rng.below(4) as u8).min(md),
    // ... and of every quantity at every stored width: MAX_DEPTH of u16 / u32 for space (5, 13), time (13, 29)
    // and frequency (11, 27), one below to two above
    4 => {
      let t = *rng.pick(&[5u8, 13, 29, 11, 27]);
      (t - 1 + rng.below(4) as u8).min(md)
    }
    _ => rng.below(4.min(md as u64) + 1) as u8,
  };
  let l = match rng.below(8) {
    0 => vec![],
    1 => vec![0..n_cells_max::<C::T, C::Q>()],
    _ => random_moc_ranges::<C::T, C::Q>(rng, d, 5),
  };
  (d, l)
}

fn pair<CL: Combo, CR: Combo>(sink: &mut Sink, rng: &mut Rng, n: usize, dir: &Path) {
  let q = CL::QNAME;
  for _ in 0..n {
    let (dl, ll) = shallow_moc::<CL>(rng);
    let (dr, lr) = if rng.chance(1, 3) {
      // related operand: same set expressed at the other width when representable, else random
      shallow_moc::<CR>(rng)
    } else {
      shallow_moc::<CR>(rng)
    };
    let ml: RangeMOC<CL::T, CL::Q> = mk_moc(dl, &ll);
    let mr: RangeMOC<CR::T, CR::Q> = mk_moc(dr, &lr);
    let (pl, pr) = (dir.join("l.fits"), dir.join("r.fits"));
    write_fits::<CL>(&pl, &ml);
    write_fits::<CR>(&pr, &mr);
    let (sl, sr) = (describe_src::<CL>(4, &ml), describe_src::<CR>(4, &mr));
    for op in ["inter", "union", "symdiff", "minus"] {
      let fmt = *rng.pick(&["fits", "fits", "ascii", "json"]);
      let outp = dir.join(format!("out.{}", fmt));
      let _ = fs::remove_file(&outp);
      let o = moc(&["op", op, pl.to_str().unwrap(), pr.to_str().unwrap(), fmt, outp.to_str().unwrap()], None);
      let ans = if o.code == 0 { decode(&outp, fmt, q) } else { format!("exit {} {}", o.code, o.err.lines().next().unwrap_or("")) };
      sink.count(&format!("op2:{}:{}x{}:{}", op, CL::W, CR::W, fmt));
      if o.code == 101 {
        sink.impl_failures.push(format!("cli-panic: moc op {} on valid {} files u{} x u{}: {}", op, q, CL::W, CR::W, o.err.lines().next().unwrap_or("")));
      }
      sink.emit(&format!("cli_op2 {} {} {} {} {} {}", op, q, CL::W, sl, CR::W, sr), &ans, !(ll.is_empty() && lr.is_empty()));
    }
  }
}

fn single<C: Combo>(sink: &mut Sink, rng: &mut Rng, n: usize, dir: &Path) {
  let q = C::QNAME;
  let md = <C::Q as MocQty<C::T>>::MAX_DEPTH;
  for _ in 0..n {
    let (d, l) = shallow_moc::<C>(rng);
    let m: RangeMOC<C::T, C::Q> = mk_moc(d, &l);
    let p = dir.join("in.fits");
    write_fits::<C>(&p, &m);
    let s = describe_src::<C>(4, &m);
    // complement, degrade
    for which in 0..2 {
      let fmt = *rng.pick(&["fits", "ascii", "json"]);
      let outp = dir.join(format!("out1.{}", fmt));
      let _ = fs::remove_file(&outp);
      let nd = rng.below(md as u64 + 1) as u8;
      let nds = nd.to_string();
      let (name, o) = if which == 0 {
        ("complement".to_string(), moc(&["op", "complement", p.to_str().unwrap(), fmt, outp.to_str().unwrap()], None))
      } else {
        (format!("degrade:{}", nd), moc(&["op", "degrade", &nds, p.to_str().unwrap(), fmt, outp.to_str().unwrap()], None))
      };
      let ans = if o.code == 0 { decode(&outp, fmt, q) } else { format!("exit {} {}", o.code, o.err.lines().next().unwrap_or("")) };
      if o.code == 101 {
        sink.impl_failures.push(format!("cli-panic: moc op {} on a valid {} u{} file: {}", name, q, C::W, o.err.lines().next().unwrap_or("")));
      }
      sink.count(&format!("op1:{}:{}", if which == 0 { "complement" } else { "degrade" }, fmt));
      sink.emit(&format!("cli_op1 {} {} {} {}", name, q, C::W, s), &ans, !l.is_empty());
    }
    // convert: every input format x every output format
    let tflag = match q { "hpx" => "smoc", "time" => "tmoc", _ => "fmoc" };
    let mut inputs: Vec<(String, PathBuf)> = vec![("fits".to_string(), p.clone())];
    {
      let pa = dir.join("in.ascii");
      let mut f = fs::File::create(&pa).unwrap();
      (&m).into_range_moc_iter().cells().cellranges().to_ascii_ivoa(if rng.chance(1, 2) { Some(40) } else { None }, rng.chance(1, 3), &mut f).unwrap();
      inputs.push(("ascii".to_string(), pa));
      let pj = dir.join("in.json");
      let mut f = fs::File::create(&pj).unwrap();
      (&m).into_range_moc_iter().cells().to_json_aladin(if rng.chance(1, 2) { Some(40) } else { None }, &mut f).unwrap();
      inputs.push(("json".to_string(), pj));
    }
    for (ifmt, ipath) in &inputs {
      let mut first_fits_out = true;
      for ofmt in ["fits", "fits", "ascii", "json"] {
        let outp = dir.join(format!("conv.{}", ofmt));
        let _ = fs::remove_file(&outp);
        // FITS output options: plain, --force-v1 (NUNIQ for space), --force-u64, both; the first FITS output of
        // every input format is always written with --force-u64 alone
        let flags: Vec<&str> = if ofmt == "fits" { if first_fits_out { first_fits_out = false; vec!["-f"] } else { match rng.below(4) { 0 => vec![], 1 => vec!["-p"], 2 => vec!["-f"], _ => vec!["-p", "-f"] } } } else { vec![] };
        let mut args: Vec<&str> = vec!["convert", "-f", ifmt, "-t", tflag, ipath.to_str().unwrap(), ofmt];
        args.extend(flags.iter());
        args.push(outp.to_str().unwrap());
        sink.count(&format!("convert-flags:{}", if flags.is_empty() { "none".to_string() } else { flags.join("") }));
        let o = moc(&args, None);
        let ans = if o.code == 0 { decode(&outp, ofmt, q) } else { format!("exit {} {}", o.code, o.err.lines().next().unwrap_or("")) };
        if o.code == 101 {
          sink.impl_failures.push(format!("cli-panic: moc convert {}->{} on a valid {} u{} MOC: {}", ifmt, ofmt, q, C::W, o.err.lines().next().unwrap_or("")));
        }
        sink.count(&format!("convert:{}->{}", ifmt, ofmt));
        sink.emit(&format!("cli_id {} {} {} {}", q, C::W, d, fmt_ranges(&l)), &ans, !l.is_empty());
      }
    }
  }
}

fn threshold_sweep<C: Combo>(sink: &mut Sink, rng: &mut Rng, dir: &Path, depths: &[u8]) {
  let q = C::QNAME;
  let tflag = match q { "hpx" => "smoc", "time" => "tmoc", _ => "fmoc" };
  for &d in depths {
    let mut l = random_moc_ranges::<C::T, C::Q>(rng, d, 4);
    if l.is_empty() {
      let u = cell_size::<C::T, C::Q>(d);
      l = vec![u..2 * u, 5 * u..6 * u];
    }
    let m: RangeMOC<C::T, C::Q> = mk_moc(d, &l);
    let pa = dir.join("sweep.ascii");
    (&m).into_range_moc_iter().cells().cellranges().to_ascii_ivoa(None, false, fs::File::create(&pa).unwrap()).unwrap();
    let pj = dir.join("sweep.json");
    (&m).into_range_moc_iter().cells().to_json_aladin(None, fs::File::create(&pj).unwrap()).unwrap();
    for (ifmt, ipath) in [("ascii", &pa), ("json", &pj)] {
      for flags in [vec![], vec!["-p"]] {
        let outp = dir.join("sweep_out.fits");
        let _ = fs::remove_file(&outp);
        let mut args: Vec<&str> = vec!["convert", "-f", ifmt, "-t", tflag, ipath.to_str().unwrap(), "fits"];
        args.extend(flags.iter());
        args.push(outp.to_str().unwrap());
        let o = moc(&args, None);
        let ans = if o.code == 0 { decode(&outp, "fits", q) } else { format!("exit {} {}", o.code, o.err.lines().next().unwrap_or("")) };
        if o.code == 101 {
          sink.impl_failures.push(format!("cli-panic: moc convert {}->fits on a valid {} MOC of depth {}: {}", ifmt, q, d, o.err.lines().next().unwrap_or("")));
        }
        sink.count(&format!("convert-narrowing-sweep:{}:{}", q, d));
        sink.emit(&format!("cli_id {} {} {} {}", q, C::W, d, fmt_ranges(&l)), &ans, true);
      }
    }
  }
}

fn expect_error(sink: &mut Sink, what: &str, o: &Out, outp: Option<&Path>) {
  sink.count(&format!("invalid:{}", what.split(':').next().unwrap_or("?")));
  if o.code == 101 || o.code < 0 {
    sink.impl_failures.push(format!("cli-crash-on-invalid-input: {} -> exit {} {}", what, o.code, o.err.lines().next().unwrap_or("")));
  } else if o.code == 0 {
    sink.impl_failures.push(format!("cli-accepts-invalid-input: {} -> exit 0", what));
  } else if o.err.trim().is_empty() && o.out.trim().is_empty() {
    sink.impl_failures.push(format!("cli-silent-failure: {} -> exit {} without message", what, o.code));
  }
  if let Some(p) = outp {
    if o.code != 0 {
      if let Ok(md) = fs::metadata(p) {
        if md.len() > 0 {
          // an output file after a failure must not look like a result
          sink.count("invalid:output-file-left");
        }
      }
    }
  }
}

pub fn run(sink: &mut Sink, rng: &mut Rng, thorough: bool, dir: &Path) {
  fs::create_dir_all(dir).unwrap();
  let n = if thorough { 24 } else { 3 };
  macro_rules! pairs {
    ($a:ident, $b:ident, $c:ident) => {
      pair::<$a, $a>(sink, rng, n, dir);
      pair::<$a, $b>(sink, rng, n, dir);
      pair::<$a, $c>(sink, rng, n, dir);
      pair::<$b, $a>(sink, rng, n, dir);
      pair::<$b, $b>(sink, rng, n, dir);
      pair::<$b, $c>(sink, rng, n, dir);
      pair::<$c, $a>(sink, rng, n, dir);
      pair::<$c, $b>(sink, rng, n, dir);
      pair::<$c, $c>(sink, rng, n, dir);
    };
  }
  pairs!(H16, H32, H64);
  pairs!(T16, T32, T64);
  pairs!(F16, F32, F64);
  let n1 = if thorough { 24 } else { 2 };
  single::<H16>(sink, rng, n1, dir);
  single::<H32>(sink, rng, n1, dir);
  single::<H64>(sink, rng, n1, dir);
  single::<T16>(sink, rng, n1, dir);
  single::<T32>(sink, rng, n1, dir);
  single::<T64>(sink, rng, n1, dir);
  single::<F16>(sink, rng, n1, dir);
  single::<F32>(sink, rng, n1, dir);
  single::<F64>(sink, rng, n1, dir);

  // Deterministic sweep of the automatic narrowing of the FITS writer: text input (decoded on 64 bits), FITS
  // output without --force-u64, at every depth around MAX_DEPTH of u16 / u32 of each quantity.
  threshold_sweep::<H64>(sink, rng, dir, &[4, 5, 6, 7, 12, 13, 14, 15, 29]);
  threshold_sweep::<T64>(sink, rng, dir, &[12, 13, 14, 15, 28, 29, 30, 31, 61]);
  threshold_sweep::<F64>(sink, rng, dir, &[10, 11, 12, 13, 14, 26, 27, 28, 29, 30, 59]);

  // space-time variants of `moc op`
  crate::st::c19_st(sink, rng, thorough, dir);
  // `moc from timestamppos / timerangepos`
  crate::st::c19_st_from(sink, rng, thorough, dir);
  // `moc from vcells` (ASCII multi-order map) against the C20 model
  crate::c20::cli_vcells(sink, rng, thorough, dir);

  // NUNIQ (v1) inputs for space
  for _ in 0..(if thorough { 40 } else { 8 }) {
    let (dl, ll) = shallow_moc::<H64>(rng);
    let (dr, lr) = shallow_moc::<H32>(rng);
    let ml: RangeMOC<u64, Hpx<u64>> = mk_moc(dl, &ll);
    let mr: RangeMOC<u32, Hpx<u32>> = mk_moc(dr, &lr);
    let (pl, pr) = (dir.join("l1.fits"), dir.join("r1.fits"));
    (&ml).into_range_moc_iter().cells().hpx_cells_to_fits_ivoa(None, None, fs::File::create(&pl).unwrap()).unwrap();
    write_fits::<H32>(&pr, &mr);
    let outp = dir.join("out_nuniq.fits");
    let _ = fs::remove_file(&outp);
    let op = *rng.pick(&["inter", "union", "symdiff", "minus"]);
    let o = moc(&["op", op, pl.to_str().unwrap(), pr.to_str().unwrap(), "fits", outp.to_str().unwrap()], None);
    let ans = if o.code == 0 { decode(&outp, "fits", "hpx") } else { format!("exit {} {}", o.code, o.err.lines().next().unwrap_or("")) };
    sink.count("op2:nuniq-input");
    sink.emit(&format!("cli_op2 {} hpx 64 {} 32 {}", op, describe_src::<H64>(2, &ml), describe_src::<H32>(4, &mr)), &ans, true);
  }

  // moc from timestamp / timerange (microseconds since JD 0)
  for _ in 0..(if thorough { 150 } else { 25 }) {
    let depth = if rng.chance(1, 4) { 61 } else { rng.below(62) as u8 };
    let k = rng.below(7) as usize;
    let top = 1u64 << 62;
    let mut ts: Vec<u64> = (0..k).map(|_| match rng.below(4) { 0 => rng.below(1000), 1 => top - 1 - rng.below(1000), _ => rng.below(top) }).collect();
    if k > 1 && rng.chance(1, 3) { ts[1] = ts[0]; }
    let input = ts.iter().map(|t| t.to_string()).collect::<Vec<_>>().join("\n") + "\n";
    let outp = dir.join("from_t.fits");
    let _ = fs::remove_file(&outp);
    let o = moc(&["from", "timestamp", "--time-type", "usec", &depth.to_string(), "-", "fits", outp.to_str().unwrap()], Some(&input));
    let ans = if o.code == 0 { decode(&outp, "fits", "time") } else { format!("exit {} {}", o.code, o.err.lines().next().unwrap_or("")) };
    if o.code == 101 {
      sink.impl_failures.push(format!("cli-panic: moc from timestamp usec depth {} on {:?}: {}", depth, ts, o.err.lines().next().unwrap_or("")));
    }
    let l = if ts.is_empty() { "_".to_string() } else { ts.iter().map(|t| t.to_string()).collect::<Vec<_>>().join(",") };
    sink.emit(&format!("cli_from_usec {} {}", depth, l), &ans, !ts.is_empty());
    // ranges
    let mut rs: Vec<(u64, u64)> = (0..k).map(|_| { let a = rng.below(top - 2); let small = rng.chance(1, 2); let len = 1 + rng.below(if small { 1000 } else { top - 1 - a }); (a, a + len) }).collect();
    if k > 1 && rng.chance(1, 3) { rs[1] = (rs[0].1, rs[0].1 + 5.min(top - rs[0].1)); }
    rs.retain(|r| r.0 < r.1);
    // a line `t t` is a valid, empty, time range: it must add nothing to the MOC written
    if depth % 3 == 1 && !rs.is_empty() { let t = ((rs[0].0 + (1u64 << 61)) % top) | 1; rs.push((t, t)); }
    let input = rs.iter().map(|r| format!("{} {}", r.0, r.1)).collect::<Vec<_>>().join("\n") + "\n";
    let outp = dir.join("from_tr.fits");
    let _ = fs::remove_file(&outp);
    let o = moc(&["from", "timerange", "--time-type", "usec", &depth.to_string(), "-", "fits", outp.to_str().unwrap()], Some(&input));
    let ans = if o.code == 0 { decode(&outp, "fits", "time") } else { format!("exit {} {}", o.code, o.err.lines().next().unwrap_or("")) };
    if o.code == 101 {
      sink.impl_failures.push(format!("cli-panic: moc from timerange usec depth {} on {:?}: {}", depth, rs, o.err.lines().next().unwrap_or("")));
    }
    let l = if rs.is_empty() { "_".to_string() } else { rs.iter().map(|r| format!("{}-{}", r.0, r.1)).collect::<Vec<_>>().join(",") };
    sink.emit(&format!("cli_from_uranges {} {}", depth, l), &ans, !rs.is_empty());
  }

  // moc from pos: the cell of every position is computed with cdshealpix (oracle for the hash only)
  for _ in 0..(if thorough { 100 } else { 20 }) {
    let depth = match rng.below(3) { 0 => rng.below(30) as u8, 1 => 6 + rng.below(8) as u8, _ => rng.below(8) as u8 };
    let k = rng.below(6) as usize;
    let mut cells: Vec<u64> = Vec::new();
    let mut input = String::new();
    for _ in 0..k {
      let lon = rng.below(3_600_000) as f64 / 10_000.0;
      let lat = rng.below(1_799_000) as f64 / 10_000.0 - 89.95;
      input.push_str(&format!("{} {}\n", lon, lat));
      cells.push(cdshealpix::nested::hash(depth, lon.to_radians(), lat.to_radians()));
    }
    let outp = dir.join("from_p.fits");
    let _ = fs::remove_file(&outp);
    let pflags: Vec<&str> = match rng.below(4) { 0 => vec![], 1 => vec!["-p"], 2 => vec!["-f"], _ => vec!["-p", "-f"] };
    let ds = depth.to_string();
    let mut pargs: Vec<&str> = vec!["from", "pos", &ds, "-", "fits"];
    pargs.extend(pflags.iter());
    pargs.push(outp.to_str().unwrap());
    let o = moc(&pargs, Some(&input));
    let ans = if o.code == 0 { decode(&outp, "fits", "hpx") } else { format!("exit {} {}", o.code, o.err.lines().next().unwrap_or("")) };
    if o.code == 101 {
      sink.impl_failures.push(format!("cli-panic: moc from pos depth {}: {}", depth, o.err.lines().next().unwrap_or("")));
    }
    let l = if cells.is_empty() { "_".to_string() } else { cells.iter().map(|t| t.to_string()).collect::<Vec<_>>().join(",") };
    sink.emit(&format!("cli_from_cells hpx {} {}", depth, l), &ans, !cells.is_empty());
  }

  // moc from freqval / freqrange: hertz values given as shortest round-trip decimal text (exact bit patterns),
  // depths on both sides of the automatic FITS narrowing thresholds of the frequency quantity (11 / 27)
  for it in 0..(if thorough { 120 } else { 24 }) {
    let depth: u8 = match it % 4 { 0 => 10 + rng.below(5) as u8, 1 => 26 + rng.below(5) as u8, 2 => rng.below(60) as u8, _ => 59 };
    let k = 1 + rng.below(5) as usize;
    let bits: Vec<u64> = (0..k).map(|_| (929u64 << 52) + rng.below((256u64 << 52) - 1)).collect();
    let input = bits.iter().map(|b| format!("{:?}", f64::from_bits(*b))).collect::<Vec<_>>().join("\n") + "\n";
    let outp = dir.join("from_f.fits");
    let _ = fs::remove_file(&outp);
    let flags: Vec<&str> = if rng.chance(1, 4) { vec!["-f"] } else { vec![] };
    let ds = depth.to_string();
    let mut args: Vec<&str> = vec!["from", "freqval", &ds, "-", "fits"];
    args.extend(flags.iter());
    args.push(outp.to_str().unwrap());
    let o = moc(&args, Some(&input));
    let ans = if o.code == 0 { decode(&outp, "fits", "freq") } else { format!("exit {} {}", o.code, o.err.lines().next().unwrap_or("")) };
    if o.code == 101 {
      sink.impl_failures.push(format!("cli-panic: moc from freqval depth {}: {}", depth, o.err.lines().next().unwrap_or("")));
    }
    sink.count("from:freqval");
    sink.emit(&format!("f_moc 64 {} 100000 {}", depth, bits.iter().map(|b| b.to_string()).collect::<Vec<_>>().join(",")), &ans, true);
    // ranges
    let mut rs: Vec<(u64, u64)> = Vec::new();
    for c in bits.chunks(2) { if c.len() == 2 && c[0] != c[1] { rs.push((c[0].min(c[1]), c[0].max(c[1]))); } }
    if rs.is_empty() { continue; }
    let input = rs.iter().map(|r| format!("{:?} {:?}", f64::from_bits(r.0), f64::from_bits(r.1))).collect::<Vec<_>>().join("\n") + "\n";
    let outp = dir.join("from_fr.fits");
    let _ = fs::remove_file(&outp);
    let mut args: Vec<&str> = vec!["from", "freqrange", &ds, "-", "fits"];
    args.extend(flags.iter());
    args.push(outp.to_str().unwrap());
    let o = moc(&args, Some(&input));
    let ans = if o.code == 0 { decode(&outp, "fits", "freq") } else { format!("exit {} {}", o.code, o.err.lines().next().unwrap_or("")) };
    if o.code == 101 {
      sink.impl_failures.push(format!("cli-panic: moc from freqrange depth {}: {}", depth, o.err.lines().next().unwrap_or("")));
    }
    sink.count("from:freqrange");
    sink.emit(&format!("f_mocr 64 {} 100000 {}", depth, rs.iter().map(|r| format!("{}-{}", r.0, r.1)).collect::<Vec<_>>().join(",")), &ans, true);
  }

  // ---------------- invalid inputs: non-zero status + message, never a crash
  let good = dir.join("good.fits");
  let m: RangeMOC<u64, Hpx<u64>> = mk_moc(3, &random_moc_ranges::<u64, Hpx<u64>>(rng, 3, 4));
  write_fits::<H64>(&good, &m);
  let tgood = dir.join("tgood.fits");
  let tm: RangeMOC<u64, Time<u64>> = mk_moc(3, &random_moc_ranges::<u64, Time<u64>>(rng, 3, 4));
  write_fits::<T64>(&tgood, &tm);
  let outp = dir.join("bad_out.fits");
  let g = good.to_str().unwrap();
  let tg = tgood.to_str().unwrap();
  let op_ = outp.to_str().unwrap();
  let missing = dir.join("missing.fits");
  let miss = missing.to_str().unwrap();
  let _ = fs::remove_file(&outp);
  expect_error(sink, "missing-file: op union missing good", &moc(&["op", "union", miss, g, "fits", op_], None), Some(&outp));
  expect_error(sink, "missing-file: convert missing", &moc(&["convert", miss, "fits", op_], None), Some(&outp));
  expect_error(sink, "mismatch: op union S-MOC T-MOC", &moc(&["op", "union", g, tg, "fits", op_], None), Some(&outp));
  expect_error(sink, "mismatch: op minus T-MOC S-MOC", &moc(&["op", "minus", tg, g, "ascii", op_], None), Some(&outp));
  expect_error(sink, "stream-input: op union -l stream", &moc(&["op", "union", "-l", "stream", g, g, "fits", op_], None), Some(&outp));
  expect_error(sink, "stream-input: op complement -f stream", &moc(&["op", "complement", "-f", "stream", g, "fits", op_], None), Some(&outp));
  // a depth above the maximum: an error or a no-op, never a crash
  for nd in ["30", "62", "200"] {
    let o = moc(&["op", "degrade", nd, g, "ascii", op_], None);
    sink.count("invalid:degrade-depth");
    if o.code == 101 || o.code < 0 {
      sink.impl_failures.push(format!("cli-crash-on-invalid-input: op degrade {} on a depth-3 S-MOC -> exit {} {}", nd, o.code, o.err.lines().next().unwrap_or("")));
    }
  }
  let bytes = fs::read(&good).unwrap();
  // deterministic case: the data unit cut in its middle (rows missing)
  if let Some((hlen, n1, n2)) = crate::c07::fits_structure(&bytes) {
    if n1 * n2 >= 16 {
      let bad = dir.join("cut.fits");
      fs::write(&bad, &bytes[..hlen + (n1 * n2) as usize / 2]).unwrap();
      let _ = fs::remove_file(&outp);
      expect_error(sink, "truncated-fits: data unit cut in its middle, convert", &moc(&["convert", "-f", "fits", bad.to_str().unwrap(), "ascii", op_], None), Some(&outp));
      expect_error(sink, "truncated-fits: data unit cut in its middle, op union", &moc(&["op", "union", bad.to_str().unwrap(), g, "fits", op_], None), Some(&outp));
    }
  }
  for k in 0..(if thorough { 60 } else { 12 }) {
    let bad = dir.join("bad.fits");
    let mut b = bytes.clone();
    let what = match k % 4 {
      0 => {
        let cut = rng.below(b.len() as u64) as usize;
        b.truncate(cut);
        // rows missing (cut before the end of the data unit) = invalid; cut inside the padding = harmless
        match crate::c07::fits_structure(&bytes) {
          Some((hlen, n1, n2)) if cut >= hlen + (n1 * n2) as usize => "header-byte",
          _ => "truncated-fits",
        }
      }
      1 => { let pos = 2880 + rng.below(1200) as usize; b[pos] = *rng.pick(&[b'X', b'9', b' ', b'=']); "header-byte" }
      2 => { b = (0..rng.below(200)).map(|_| rng.below(256) as u8).collect(); "random-bytes" }
      _ => { b = b"3/1-5 77 4/".to_vec(); "ascii-as-fits" }
    };
    fs::write(&bad, &b).unwrap();
    let bp = bad.to_str().unwrap();
    let _ = fs::remove_file(&outp);
    let o = moc(&["op", "union", bp, g, "fits", op_], None);
    // a mutated header byte may still be a valid file: only crashes are failures then
    if what == "header-byte" {
      sink.count("invalid:header-byte");
      if o.code == 101 || o.code < 0 {
        sink.impl_failures.push(format!("cli-crash-on-invalid-input: {} (op union) -> exit {} {}", what, o.code, o.err.lines().next().unwrap_or("")));
      }
    } else {
      expect_error(sink, &format!("{}: op union", what), &o, Some(&outp));
    }
    let o = moc(&["convert", "-f", "fits", bp, "ascii", op_], None);
    if what == "header-byte" {
      if o.code == 101 || o.code < 0 {
        sink.impl_failures.push(format!("cli-crash-on-invalid-input: {} (convert) -> exit {} {}", what, o.code, o.err.lines().next().unwrap_or("")));
      }
    } else {
      expect_error(sink, &format!("{}: convert", what), &o, Some(&outp));
    }
  }
  // invalid text inputs to convert / from
  for (what, doc, ty) in [
    ("ascii-out-of-domain", "0/12", "smoc"),
    ("ascii-depth-too-large", "30/1", "smoc"),
    ("ascii-overlap", "1/0-3 2/1", "smoc"),
    ("ascii-garbage", "hello world", "smoc"),
    ("ascii-reversed", "3/9-2", "tmoc"),
  ] {
    let p = dir.join("bad.ascii");
    fs::write(&p, doc).unwrap();
    let _ = fs::remove_file(&outp);
    expect_error(sink, &format!("{}: convert ascii '{}'", what, doc), &moc(&["convert", "-f", "ascii", "-t", ty, p.to_str().unwrap(), "fits", op_], None), Some(&outp));
  }
  // ISO timestamps: every second of a day is a whole number of microseconds (the time of day must not go through a
  // fraction of day in floating point); 2020-01-01T00:00:00 = JD 2458849.5 = 212444596800000000 us since JD 0
  {
    let day0: u64 = 212_444_596_800_000_000;
    let secs: Vec<u64> = vec![0, 1, 59, 3599, 8850, 12345, 30000, 43199, 43200, 43201, 45678, 50000, 61234, 77777, 86399];
    for (depth, tt) in [(61u8, "isosimple"), (56, "isosimple"), (61, "isorfc"), (58, "isorfc")] {
      let input: String = secs.iter().map(|x| format!("2020-01-01T{:02}:{:02}:{:02}{}\n", x / 3600, (x / 60) % 60, x % 60, if tt == "isorfc" { "Z" } else { "" })).collect();
      let outp = dir.join("from_iso.fits");
      let _ = fs::remove_file(&outp);
      let o = moc(&["from", "timestamp", "--time-type", tt, &depth.to_string(), "-", "fits", outp.to_str().unwrap()], Some(&input));
      let ans = if o.code == 0 { decode(&outp, "fits", "time") } else { format!("exit {} {}", o.code, o.err.lines().next().unwrap_or("")) };
      sink.count("from-timestamp:iso");
      let l = secs.iter().map(|x| (day0 + x * 1_000_000).to_string()).collect::<Vec<_>>().join(",");
      sink.emit(&format!("cli_from_usec {} {}", depth, l), &ans, true);
    }
  }
  // RFC 3339 timestamps with a FRACTION of a second (milli- and microsecond digits), as timestamps and as ranges:
  // the instant is day + h:m:s + the fraction, in whole microseconds
  {
    let day0: u64 = 212_444_596_800_000_000;
    let inst: Vec<(u64, u64)> = vec![(0, 250_000), (1, 4), (59, 999_999), (43_199, 500_000), (43_200, 1), (45_678, 123_456), (86_399, 999_000), (30_000, 0), (61_234, 70)];
    let iso = |x: &(u64, u64)| -> String {
      let frac = if x.1 == 0 { String::new() } else { let f = format!("{:06}", x.1); format!(".{}", f.trim_end_matches('0')) };
      format!("2020-01-01T{:02}:{:02}:{:02}{}Z", x.0 / 3600, (x.0 / 60) % 60, x.0 % 60, frac)
    };
    for depth in [61u8, 51, 42] {
      let input: String = inst.iter().map(|x| format!("{}\n", iso(x))).collect();
      let outp = dir.join("from_isofrac.fits");
      let _ = fs::remove_file(&outp);
      let o = moc(&["from", "timestamp", "--time-type", "isorfc", &depth.to_string(), "-", "fits", outp.to_str().unwrap()], Some(&input));
      let ans = if o.code == 0 { decode(&outp, "fits", "time") } else { format!("exit {} {}", o.code, o.err.lines().next().unwrap_or("")) };
      sink.count("from-timestamp:iso-fraction");
      let l = inst.iter().map(|x| (day0 + x.0 * 1_000_000 + x.1).to_string()).collect::<Vec<_>>().join(",");
      sink.emit(&format!("cli_from_usec {} {}", depth, l), &ans, true);
      // the same instants, pairwise, as time ranges [a, b)
      let mut sorted = inst.clone();
      sorted.sort();
      let pairs: Vec<((u64, u64), (u64, u64))> = sorted.chunks(2).filter(|c| c.len() == 2).map(|c| (c[0], c[1])).collect();
      let input: String = pairs.iter().map(|(a, b)| format!("{} {}\n", iso(a), iso(b))).collect();
      let outp = dir.join("from_isofrac_r.fits");
      let _ = fs::remove_file(&outp);
      let o = moc(&["from", "timerange", "--time-type", "isorfc", &depth.to_string(), "-", "fits", outp.to_str().unwrap()], Some(&input));
      let ans = if o.code == 0 { decode(&outp, "fits", "time") } else { format!("exit {} {}", o.code, o.err.lines().next().unwrap_or("")) };
      sink.count("from-timerange:iso-fraction");
      let l = pairs.iter().map(|(a, b)| format!("{}-{}", day0 + a.0 * 1_000_000 + a.1, day0 + b.0 * 1_000_000 + b.1)).collect::<Vec<_>>().join(",");
      sink.emit(&format!("cli_from_uranges {} {}", depth, l), &ans, true);
    }
  }
  // RANDOM civil dates (years 1583..2400: ends of months, 28 / 29 February, century years, 31 December) against the
  // MODEL of the tool's date conversion (`Calendar.isoUsec`: gregorian2jd proved to count days)
  {
    let n = if thorough { 60 } else { 8 };
    for k in 0..n {
      let mut dates: Vec<(u64, u64, u64, u64, u64, u64, u64)> = Vec::new();
      if k < 2 {
        // directed: January / February / 1 March of century years (leap and not), 29 February 2000 and 2400, 31 December
        let fixed: [(u64, u64, u64); 12] = [(1900, 1, 1), (1900, 2, 28), (1900, 3, 1), (2100, 1, 15), (2100, 2, 28), (1800, 2, 1),
          (2000, 2, 29), (2000, 1, 31), (1700, 2, 28), (2400, 2, 29), (1999, 12, 31), (2000, 3, 1)];
        for j in 0..6 { let f = fixed[(6 * k + j) as usize]; dates.push((f.0, f.1, f.2, rng.below(24), rng.below(60), rng.below(60), 0)); }
      }
      for j in 0..(if k < 2 { 0 } else { 6 }) {
        let y = match (k + j) % 5 { 0 => [1600u64, 1700, 1800, 1900, 2000, 2100, 2400][rng.below(7) as usize], 1 => 4 * (400 + rng.below(200)), _ => 1583 + rng.below(818) };
        let leap = y % 4 == 0 && (y % 100 != 0 || y % 400 == 0);
        let m = if j % 3 == 0 { 2 } else { 1 + rng.below(12) };
        let len = match m { 2 => if leap { 29 } else { 28 }, 4 | 6 | 9 | 11 => 30, _ => 31 };
        let d = match rng.below(4) { 0 => len, 1 => 1, 2 => len.min(28), _ => 1 + rng.below(len) };
        let (h, mi, s) = (rng.below(24), rng.below(60), rng.below(60));
        let us = if k % 2 == 0 { 0 } else { [0u64, 1, 250_000, 999_999, 123_456][rng.below(5) as usize] };
        dates.push((y, m, d, h, mi, s, us));
      }
      let tt = if k % 2 == 0 { "isosimple" } else { "isorfc" };
      let depth = [61u8, 40, 27, 14][(k % 4) as usize];
      let input: String = dates.iter().map(|x| {
        let frac = if x.6 == 0 { String::new() } else { let f = format!("{:06}", x.6); format!(".{}", f.trim_end_matches('0')) };
        format!("{:04}-{:02}-{:02}T{:02}:{:02}:{:02}{}{}\n", x.0, x.1, x.2, x.3, x.4, x.5, frac, if tt == "isorfc" { "Z" } else { "" })
      }).collect();
      let outp = dir.join("from_isodate.fits");
      let _ = fs::remove_file(&outp);
      let o = moc(&["from", "timestamp", "--time-type", tt, &depth.to_string(), "-", "fits", outp.to_str().unwrap()], Some(&input));
      let ans = if o.code == 0 { decode(&outp, "fits", "time") } else { format!("exit {} {}", o.code, o.err.lines().next().unwrap_or("")) };
      sink.count("from-timestamp:iso-random-dates");
      let l = dates.iter().map(|x| format!("{}-{}-{}-{}-{}-{}-{}", x.0, x.1, x.2, x.3, x.4, x.5, x.6)).collect::<Vec<_>>().join(",");
      sink.emit(&format!("cli_from_iso {} {}", depth, l), &ans, true);
    }
  }
  // instants that are not in the time domain [0, 2^62) us: no cell exists for them; the tool must not write one
  for (tt, val) in [("usec", "4611686018427387904"), ("usec", "18446744073709551615"), ("jd", "nan"), ("jd", "-5"), ("jd", "1e10"), ("jd", "inf"), ("mjd", "-2400001")] {
    let outp = dir.join("from_ood.ascii");
    let _ = fs::remove_file(&outp);
    let o = moc(&["from", "timestamp", "--time-type", tt, "61", "-", "ascii", outp.to_str().unwrap()], Some(&format!("{}\n", val)));
    sink.count("from-timestamp:out-of-domain");
    let txt = fs::read_to_string(&outp).unwrap_or_default();
    if o.code == 101 || o.code < 0 {
      sink.impl_failures.push(format!("cli-crash-on-invalid-input: from timestamp {} '{}' -> exit {} {}", tt, val, o.code, o.err.lines().next().unwrap_or("")));
    } else if o.code == 0 && txt.split_whitespace().any(|tok| tok.split('/').nth(1).map(|x| !x.is_empty()).unwrap_or(false) || (!tok.contains('/') && !tok.is_empty())) {
      sink.impl_failures.push(format!("cli-out-of-domain-instant: from timestamp {} '{}' (no such instant in [0, 2^62) us) wrote the MOC {:?}", tt, val, txt.trim()));
    }
  }
  // an empty list of regions gives the empty MOC of the requested depth, whatever the variant
  {
    let p = dir.join("empty.csv");
    fs::write(&p, "").unwrap();
    let out_a = dir.join("empty_out.ascii");
    for args in [vec!["from", "cones", "10"], vec!["from", "cones", "-m", "10"], vec!["from", "multi", "10"], vec!["from", "pos", "10"]] {
      let mut a: Vec<&str> = args.clone();
      a.push(p.to_str().unwrap());
      a.push("ascii");
      a.push(out_a.to_str().unwrap());
      let _ = fs::remove_file(&out_a);
      let o = moc(&a, None);
      sink.count("from-empty-list");
      let got = if o.code == 0 { decode(&out_a, "ascii", "hpx") } else { format!("exit {} {}", o.code, o.err.lines().next().unwrap_or("")) };
      if got != "10|_" {
        sink.impl_failures.push(format!("cli-from-empty-list: moc {} <empty file> ascii -> {} instead of the empty MOC of depth 10", args.join(" "), got));
      }
    }
  }
  // --moc-id: up to 68 characters fit a FITS card ('...' in columns 11-80); a longer one cannot be written and
  // must be refused with a message (never a crash), a shorter one must not change the MOC written
  {
    let p = dir.join("good.ascii");
    fs::write(&p, "3/1-4 5/2000 7/").unwrap();
    let _ = fs::remove_file(&outp);
    let reference = { let _ = moc(&["convert", "-f", "ascii", "-t", "smoc", p.to_str().unwrap(), "fits", op_], None); decode(&outp, "fits", "hpx") };
    for len in [1usize, 40, 68, 69, 70, 100, 300] {
      let id: String = std::iter::repeat("abcdefghij").flat_map(|s| s.chars()).take(len).collect();
      let _ = fs::remove_file(&outp);
      let o = moc(&["convert", "-f", "ascii", "-t", "smoc", p.to_str().unwrap(), "fits", "--moc-id", &id, op_], None);
      sink.count("moc-id-length");
      if len <= 68 {
        let got = if o.code == 0 { decode(&outp, "fits", "hpx") } else { format!("exit {} {}", o.code, o.err.lines().next().unwrap_or("")) };
        if got != reference {
          sink.impl_failures.push(format!("cli-moc-id: convert ... fits --moc-id <{} chars> wrote {} instead of {}", len, got, reference));
        }
      } else {
        expect_error(sink, &format!("moc-id-too-long: convert ... fits --moc-id <{} chars>", len), &o, Some(&outp));
      }
    }
  }
  expect_error(sink, "from-garbage: from timestamp usec 'abc'", &moc(&["from", "timestamp", "--time-type", "usec", "10", "-", "ascii"], Some("abc\n")), None);
  expect_error(sink, "from-garbage: from timerange usec '300 200' (tmin > tmax)", &moc(&["from", "timerange", "--time-type", "usec", "10", "-", "ascii"], Some("300 200\n")), None);
  expect_error(sink, "from-depth: from timestamp depth 62", &moc(&["from", "timestamp", "--time-type", "usec", "62", "-", "ascii"], Some("5\n")), None);
  expect_error(sink, "from-depth: from pos depth 30", &moc(&["from", "pos", "30", "-", "ascii"], Some("1.0 2.0\n")), None);
}
