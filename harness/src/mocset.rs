//! C14 / C15 — drives the REAL `mocset` binary (built from /repo) on generated command histories and
//! queries; one op line = the whole history (stateless model), answer = exit status + `list` rows.
use std::fs;
use std::io::Write;
use std::ops::Range;
use std::path::{Path, PathBuf};
use std::process::{Command, Stdio};

use moc::moc::range::RangeMOC;
use moc::moc::{CellMOCIterator, CellOrCellRangeMOCIterator, RangeMOCIntoIterator, RangeMOCIterator};
use moc::qty::{Hpx, MocQty};

use crate::gen::*;
use crate::util::*;

pub fn bin(name: &str) -> PathBuf {
  PathBuf::from(std::env::var("VERIF_REPO_BIN").unwrap_or_else(|_| "/verif/.cache/repo-target/debug".to_string())).join(name)
}

pub struct Run {
  pub ok: bool,
  pub out: String,
  pub err: String,
}
pub fn run(bin_name: &str, args: &[&str], stdin: Option<&str>, envs: &[(&str, &str)]) -> Run {
  let mut cmd = Command::new(bin(bin_name));
  cmd.args(args).stdin(Stdio::piped()).stdout(Stdio::piped()).stderr(Stdio::piped());
  for (k, v) in envs {
    cmd.env(k, v);
  }
  let mut child = cmd.spawn().expect("spawn binary");
  if let Some(s) = stdin {
    let _ = child.stdin.as_mut().unwrap().write_all(s.as_bytes());
  }
  drop(child.stdin.take());
  let o = child.wait_with_output().expect("wait");
  Run { ok: o.status.success(), out: String::from_utf8_lossy(&o.stdout).to_string(), err: String::from_utf8_lossy(&o.stderr).to_string() }
}

#[derive(Clone)]
pub struct Entry {
  pub id: u64,
  pub status: u8, // 2 deprecated, 3 valid
  pub depth: u8,
  pub ranges: Vec<Range<u64>>,
}
impl Entry {
  pub fn txt(&self) -> String {
    format!("{}/{}/{}/{}", self.id, self.status, self.depth, fmt_ranges(&self.ranges))
  }
  pub fn ascii(&self) -> String {
    let m: RangeMOC<u64, Hpx<u64>> = mk_moc(self.depth, &self.ranges);
    let mut buf = Vec::new();
    (&m).into_range_moc_iter().cells().cellranges().to_ascii_ivoa(None, false, &mut buf).unwrap();
    String::from_utf8(buf).unwrap()
  }
  /// FITS file as the tools exchange them: u32 indices when the depth allows it (sometimes u64 to exercise
  /// the conversion in `append`), u64 otherwise.
  pub fn write_fits(&self, path: &Path, force64: bool) {
    let mut f = fs::File::create(path).unwrap();
    if self.depth <= 13 && !force64 {
      let rs: Vec<Range<u64>> = self.ranges.iter().map(|r| (r.start >> 32)..(r.end >> 32)).collect();
      let m: RangeMOC<u32, Hpx<u32>> = mk_moc(self.depth, &rs);
      m.into_range_moc_iter().to_fits_ivoa(None, None, &mut f).unwrap();
    } else {
      let m: RangeMOC<u64, Hpx<u64>> = mk_moc(self.depth, &self.ranges);
      m.into_range_moc_iter().to_fits_ivoa(None, None, &mut f).unwrap();
    }
  }
}

pub fn random_entry(rng: &mut Rng, id: u64) -> Entry {
  // shallow (32-bit storage) and deep (64-bit storage) MOCs, sometimes empty
  let depth = match rng.below(5) {
    0 => 14 + rng.below(4) as u8,
    1 => 13,
    _ => rng.below(13) as u8,
  };
  let ranges = if rng.chance(1, 8) { vec![] } else { random_moc_ranges::<u64, Hpx<u64>>(rng, depth, 4) };
  Entry { id, status: if rng.chance(1, 5) { 2 } else { 3 }, depth, ranges }
}

pub fn status_name(s: u8) -> &'static str {
  match s {
    1 => "removed",
    2 => "deprecated",
    _ => "valid",
  }
}

fn list_rows(file: &Path) -> String {
  let r = run("mocset", &["list", file.to_str().unwrap()], None, &[]);
  if !r.ok {
    return format!("list-failed:{}", r.err.replace('\n', " "));
  }
  let rows: Vec<String> = r.out.lines().skip(1).map(|l| l.trim().to_string()).collect();
  if rows.is_empty() { "_".to_string() } else { rows.join(";") }
}

/// C14: random command histories.
pub fn histories(sink: &mut Sink, rng: &mut Rng, thorough: bool, work: &Path) {
  let n_hist = if thorough { 400 } else { 45 };
  for h in 0..n_hist {
    let dir = work.join(format!("h{}", h));
    fs::create_dir_all(&dir).unwrap();
    let file = dir.join("set.bin");
    let n128 = 1u64;
    // population of 8 ids; in 1 history out of 6 the file is filled completely (127 slots)
    let fill = h % 6 == 5;
    let n0 = if fill { 127 } else { rng.below(5) as usize };
    let mut hist: Vec<String> = Vec::new();
    let mut known: Vec<Entry> = Vec::new(); // what was added under each id (latest), for extract
    // ---- make
    let mut list_txt = String::new();
    let mut mk: Vec<Entry> = Vec::new();
    for k in 0..n0 {
      let id = if fill { 100 + k as u64 } else { 1 + rng.below(8) };
      if mk.iter().any(|e| e.id == id) {
        continue;
      }
      let mut e = random_entry(rng, id);
      if fill {
        e.ranges.truncate(1);
      }
      let p = dir.join(format!("m{}_{}.fits", k, id));
      e.write_fits(&p, rng.chance(1, 4));
      list_txt.push_str(&format!("{} {}\n", if e.status == 2 { -(id as i64) } else { id as i64 }, p.display()));
      mk.push(e);
    }
    let lp = dir.join("list.txt");
    fs::write(&lp, &list_txt).unwrap();
    let r = run("mocset", &["make", "-n", &n128.to_string(), "-l", lp.to_str().unwrap(), file.to_str().unwrap()], None, &[]);
    hist.push(format!("mk:{}", if mk.is_empty() { "_".to_string() } else { mk.iter().map(|e| e.txt()).collect::<Vec<_>>().join(";") }));
    known.extend(mk.iter().cloned());
    let mut emit = |sink: &mut Sink, hist: &Vec<String>, ok: bool, file: &Path| {
      let ans = format!("{}#{}", if ok { "ok" } else { "err" }, list_rows(file));
      sink.emit(&format!("ms {} {}", n128, hist.join("|")), &ans, hist.len() > 1);
    };
    emit(sink, &hist, r.ok, &file);
    if !r.ok {
      continue;
    }
    // ---- further commands
    let n_cmd = if fill { 4 } else { 3 + rng.below(8) as usize };
    for c in 0..n_cmd {
      let before = fs::read(&file).unwrap_or_default();
      let kind = rng.below(10);
      let ok;
      if kind < 4 {
        // append (valid or deprecated; ids already present / removed / new)
        let id = if fill && rng.chance(1, 2) { 100 + rng.below(127) } else { 1 + rng.below(8) };
        let e = random_entry(rng, id);
        let p = dir.join(format!("a{}_{}.fits", c, id));
        e.write_fits(&p, rng.chance(1, 4));
        let sid = if e.status == 2 { format!("-{}", id) } else { id.to_string() };
        let r = run("mocset", &["append", file.to_str().unwrap(), &sid, p.to_str().unwrap()], None, &[]);
        ok = r.ok;
        hist.push(format!("ap:{}", e.txt()));
        sink.count("cmd:append");
        if ok {
          known.push(e);
        } else {
          sink.count("cmd:append-refused");
          if fs::read(&file).unwrap_or_default() != before {
            sink.impl_failures.push(format!("C14 refused append modified the file: history {}", hist.join("|")));
          }
        }
      } else if kind < 8 {
        let st = 1 + rng.below(3) as u8;
        let n_ids = 1 + rng.below(2);
        let ids: Vec<u64> = (0..n_ids).map(|_| if fill { 100 + rng.below(127) } else { 1 + rng.below(9) }).collect();
        let idtxt = ids.iter().map(|x| x.to_string()).collect::<Vec<_>>().join(",");
        let r = run("mocset", &["chgstatus", file.to_str().unwrap(), status_name(st), &idtxt], None, &[]);
        ok = r.ok;
        hist.push(format!("cs:{}:{}", st, idtxt));
        sink.count("cmd:chgstatus");
      } else if kind < 9 {
        let r = run("mocset", &["purge", file.to_str().unwrap()], None, &[]);
        ok = r.ok;
        hist.push("pg:-".to_string());
        sink.count("cmd:purge");
      } else {
        // concurrent writer: a stale lock makes every update fail and leaves the file unchanged
        let lock = dir.join("set.\"bin\".lock");
        fs::write(&lock, b"").unwrap();
        let r = run("mocset", &["chgstatus", file.to_str().unwrap(), "removed", "1"], None, &[]);
        let _ = fs::remove_file(&lock);
        sink.count("cmd:locked");
        if r.ok || fs::read(&file).unwrap_or_default() != before {
          sink.impl_failures.push(format!("C14 update proceeded although the lock file exists: history {}", hist.join("|")));
        }
        continue;
      }
      emit(sink, &hist, ok, &file);
      if dir.join("set.\"bin\".lock").exists() {
        sink.impl_failures.push(format!("C14 lock file left behind after: {}", hist.join("|")));
        let _ = fs::remove_file(dir.join("set.\"bin\".lock"));
      }
    }
    // ---- extract every id that is valid / deprecated: exactly the MOC that was added (latest append of that id)
    let rows = list_rows(&file);
    for row in rows.split(';') {
      let f: Vec<&str> = row.split(',').collect();
      if f.len() < 5 || f[1] == "removed" {
        continue;
      }
      let id: u64 = f[0].parse().unwrap_or(0);
      if let Some(e) = known.iter().rev().find(|e| e.id == id) {
        let r = run("mocset", &["extract", file.to_str().unwrap(), &id.to_string(), "ascii"], None, &[]);
        sink.count("cmd:extract");
        if !r.ok || r.out.split_whitespace().collect::<Vec<_>>() != e.ascii().split_whitespace().collect::<Vec<_>>() {
          sink.impl_failures.push(format!("C14 extract of id {} differs from the MOC added: history {} got {:?} want {:?}", id, hist.join("|"), r.out.trim(), e.ascii().trim()));
        }
      }
    }
    let _ = fs::remove_dir_all(&dir);
  }
}

/// C15: queries with MOC regions deeper / shallower than the 32-bit storage depth, and positions.
pub fn queries(sink: &mut Sink, rng: &mut Rng, thorough: bool, work: &Path) {
  let n_sets = if thorough { 120 } else { 14 };
  for h in 0..n_sets {
    let dir = work.join(format!("q{}", h));
    fs::create_dir_all(&dir).unwrap();
    let file = dir.join("set.bin");
    // stored population: shallow (32-bit) and deep (64-bit) MOCs around a common area so that regions hit them
    let base_d13 = rng.below(12u64 << 26);
    let mut entries: Vec<Entry> = Vec::new();
    let mut list_txt = String::new();
    for id in 1..=(3 + rng.below(4)) {
      let deep = rng.chance(1, 3);
      let depth = if deep { 14 + rng.below(3) as u8 } else { 11 + rng.below(3) as u8 };
      let unit = 1u64 << (2 * (29 - depth as u32));
      let c0 = (base_d13 << 32) / unit; // cell index at `depth` of the base depth-13 cell
      let s = c0 + rng.below(6);
      let l = 1 + rng.below(5);
      let mut ranges = vec![s * unit..(s + l) * unit];
      if rng.chance(1, 2) {
        let s2 = s + l + 1 + rng.below(3);
        ranges.push(s2 * unit..(s2 + 1 + rng.below(3)) * unit);
      }
      let e = Entry { id, status: if rng.chance(1, 4) { 2 } else { 3 }, depth, ranges };
      let p = dir.join(format!("m{}.fits", id));
      e.write_fits(&p, rng.chance(1, 4));
      list_txt.push_str(&format!("{} {}\n", if e.status == 2 { -(id as i64) } else { id as i64 }, p.display()));
      entries.push(e);
    }
    fs::write(dir.join("list.txt"), &list_txt).unwrap();
    let r = run("mocset", &["make", "-l", dir.join("list.txt").to_str().unwrap(), file.to_str().unwrap()], None, &[]);
    if !r.ok {
      continue;
    }
    let etxt = entries.iter().map(|e| e.txt()).collect::<Vec<_>>().join(";");
    // regions: cells / cell pairs at depths 12..16 inside, on the first / last cell of, and just outside a stored range
    let n_reg = if thorough { 40 } else { 24 };
    for _ in 0..n_reg {
      let e = rng.pick(&entries).clone();
      let rd = 12 + rng.below(5) as u8;
      let unit = 1u64 << (2 * (29 - rd as u32));
      let r0 = rng.pick(&e.ranges).clone();
      let anchor = match rng.below(4) {
        0 => r0.start,
        1 => r0.end,
        2 => r0.start + (r0.end - r0.start) / 2,
        _ => r0.end - 1,
      };
      let c = (anchor / unit + rng.below(3)).saturating_sub(1);
      let len = 1 + rng.below(2);
      let region = vec![c * unit..(c + len) * unit];
      let reg_entry = Entry { id: 0, status: 3, depth: rd, ranges: region.clone() };
      let rp = dir.join("region.txt");
      fs::write(&rp, reg_entry.ascii()).unwrap();
      for included in [false, true] {
        for dep in [false, true] {
          for par in [false, true] {
            let mut args: Vec<String> = vec!["query".into()];
            if dep { args.push("-d".into()); }
            if par { args.push("-p".into()); args.push("3".into()); }
            args.push(file.to_str().unwrap().into());
            args.push("moc".into());
            args.push("-f".into());
            args.push("ascii".into());
            if included { args.push("-i".into()); }
            args.push(rp.to_str().unwrap().into());
            let a: Vec<&str> = args.iter().map(|s| s.as_str()).collect();
            let r = run("mocset", &a, None, &[]);
            let mut ids: Vec<u64> = r.out.lines().skip(1).filter_map(|l| l.trim().split(',').next().and_then(|x| x.parse().ok())).collect();
            ids.sort_unstable();
            let ans = if !r.ok { "err".to_string() } else if ids.is_empty() { "_".to_string() } else { ids.iter().map(|x| x.to_string()).collect::<Vec<_>>().join(",") };
            sink.count(&format!("query:depth{}-{}", rd, if included { "included" } else { "intersect" }));
            sink.emit(&format!("mq {} {} {} {}", etxt, included as u8, dep as u8, fmt_ranges(&region)), &ans, true);
          }
        }
      }
    }
    let _ = fs::remove_dir_all(&dir);
  }
  let _ = <Hpx<u64> as MocQty<u64>>::MAX_DEPTH;
}
