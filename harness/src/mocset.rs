//! C14 / C15 — drives the REAL `mocset` binary (built from /repo) on generated command histories and
//! queries; one op line = the whole history (stateless model), answer = exit status + `list` rows.
use std::fs;
use std::io::Write;
use std::ops::Range;
use std::path::{Path, PathBuf};
use std::process::{Command, Stdio};

use moc::moc::range::RangeMOC;
use moc::moc::{CellMOCIterator, CellOrCellRangeMOCIterator, RangeMOCIntoIterator, RangeMOCIterator};
use moc::qty::{Hpx, MocQty};

use crate::gen::*;
use crate::util::*;

pub fn bin(name: &str) -> PathBuf {
  PathBuf::from(std::env::var("VERIF_REPO_BIN").unwrap_or_else(|_| "/verif/.cache/repo-target/debug".to_string())).join(name)
}

pub struct Run {
  pub ok: bool,
  pub out: String,
  pub err: String,
}
pub fn run(bin_name: &str, args: &[&str], stdin: Option<&str>, envs: &[(&str, &str)]) -> Run {
  let mut cmd = Command::new(bin(bin_name));
  cmd.args(args).stdin(Stdio::piped()).stdout(Stdio::piped()).stderr(Stdio::piped());
  for (k, v) in envs {
    cmd.env(k, v);
  }
  let mut child = cmd.spawn().expect("spawn binary");
  if let Some(s) = stdin {
    let _ = child.stdin.as_mut().unwrap().write_all(s.as_bytes());
  }
  drop(child.stdin.take());
  let o = child.wait_with_output().expect("wait");
  Run { ok: o.status.success(), out: String::from_utf8_lossy(&o.stdout).to_string(), err: String::from_utf8_lossy(&o.stderr).to_string() }
}

#[derive(Clone)]
pub struct Entry {
  pub id: u64,
  pub status: u8, // 2 deprecated, 3 valid
  pub depth: u8,
  pub ranges: Vec<Range<u64>>,
}
impl Entry {
  pub fn txt(&self) -> String {
    format!("{}/{}/{}/{}", self.id, self.status, self.depth, fmt_ranges(&self.ranges))
  }
  pub fn ascii(&self) -> String {
    let m: RangeMOC<u64, Hpx<u64>> = mk_moc(self.depth, &self.ranges);
    let mut buf = Vec::new();
    (&m).into_range_moc_iter().cells().cellranges().to_ascii_ivoa(None, false, &mut buf).unwrap();
    String::from_utf8(buf).unwrap()
  }
  /// FITS file as the tools exchange them: u32 indices when the depth allows it (sometimes u64 to exercise
  /// the conversion in `append`), u64 otherwise.
  pub fn write_fits(&self, path: &Path, force64: bool) {
    let mut f = fs::File::create(path).unwrap();
    if self.depth <= 13 && !force64 {
      let rs: Vec<Range<u64>> = self.ranges.iter().map(|r| (r.start >> 32)..(r.end >> 32)).collect();
      let m: RangeMOC<u32, Hpx<u32>> = mk_moc(self.depth, &rs);
      m.into_range_moc_iter().to_fits_ivoa(None, None, &mut f).unwrap();
    } else {
      let m: RangeMOC<u64, Hpx<u64>> = mk_moc(self.depth, &self.ranges);
      m.into_range_moc_iter().to_fits_ivoa(None, None, &mut f).unwrap();
    }
  }
}

pub fn random_entry(rng: &mut Rng, id: u64) -> Entry {
  // shallow (32-bit storage) and deep (64-bit storage) MOCs, sometimes empty
  let depth = match rng.below(5) {
    0 => 14 + rng.below(4) as u8,
    1 => 13,
    _ => rng.below(13) as u8,
  };
  let ranges = if rng.chance(1, 8) { vec![] } else { random_moc_ranges::<u64, Hpx<u64>>(rng, depth, 4) };
  Entry { id, status: if rng.chance(1, 5) { 2 } else { 3 }, depth, ranges }
}

pub fn status_name(s: u8) -> &'static str {
  match s {
    1 => "removed",
    2 => "deprecated",
    _ => "valid",
  }
}

fn list_rows(file: &Path) -> String {
  let r = run("mocset", &["list", file.to_str().unwrap()], None, &[]);
  if !r.ok {
    return format!("list-failed:{}", r.err.replace('\n', " "));
  }
  let rows: Vec<String> = r.out.lines().skip(1).map(|l| l.trim().to_string()).collect();
  if rows.is_empty() { "_".to_string() } else { rows.join(";") }
}

/// C14: random command histories.
/// `n128;metadata words;index words;data length:FNV-1a of the data bytes` (trailing zero words trimmed).
fn file_dump(file: &Path) -> String {
  let b = match fs::read(file) { Ok(b) => b, Err(_) => return "nofile".to_string() };
  if b.len() < 8 { return format!("short:{}", b.len()); }
  let word = |i: usize| -> u64 { if 8 * i + 8 <= b.len() { u64::from_le_bytes(b[8 * i..8 * i + 8].try_into().unwrap()) } else { 0 } };
  let n128 = word(0) as usize;
  if n128 == 0 || n128 > 64 || b.len() < n128 * 2048 { return format!("bad-header:{}:{}", n128, b.len()); }
  let cap = n128 * 128 - 1;
  let trim = |v: Vec<u64>| -> String {
    let mut v = v;
    while v.last() == Some(&0) { v.pop(); }
    if v.is_empty() { "_".to_string() } else { v.iter().map(|x| x.to_string()).collect::<Vec<_>>().join(",") }
  };
  let meta: Vec<u64> = (1..1 + cap).map(word).collect();
  let index: Vec<u64> = (1 + cap..2 + 2 * cap).map(word).collect();
  let data = &b[n128 * 2048..];
  let mut h: u64 = 14695981039346656037;
  for x in data { h = (h ^ (*x as u64)).wrapping_mul(1099511628211); }
  format!("{};{};{};{}:{}", n128, trim(meta), trim(index), data.len(), h)
}

pub fn histories(sink: &mut Sink, rng: &mut Rng, thorough: bool, work: &Path) {
  let n_hist = if thorough { 400 } else { 45 };
  for h in 0..n_hist {
    let dir = work.join(format!("h{}", h));
    fs::create_dir_all(&dir).unwrap();
    let file = dir.join("set.bin");
    let n128 = 1u64;
    // population of 8 ids; in 1 history out of 6 the file is filled completely (127 slots)
    let fill = h % 6 == 5;
    let n0 = if fill { 127 } else { rng.below(5) as usize };
    let mut hist: Vec<String> = Vec::new();
    let mut known: Vec<Entry> = Vec::new(); // what was added under each id (latest), for extract
    // ---- make
    let mut list_txt = String::new();
    let mut mk: Vec<Entry> = Vec::new();
    for k in 0..n0 {
      let id = if fill { 100 + k as u64 } else { 1 + rng.below(8) };
      if mk.iter().any(|e| e.id == id) {
        continue;
      }
      let mut e = random_entry(rng, id);
      if fill {
        e.ranges.truncate(1);
      }
      let p = dir.join(format!("m{}_{}.fits", k, id));
      e.write_fits(&p, rng.chance(1, 4));
      list_txt.push_str(&format!("{} {}\n", if e.status == 2 { -(id as i64) } else { id as i64 }, p.display()));
      mk.push(e);
    }
    // 1 list out of 4: an identifier given TWICE (right after the first occurrence or further down the list,
    // same or opposite sign = same or different status): `make` must refuse it and create nothing
    if !fill && !mk.is_empty() && rng.chance(1, 4) {
      let id = if rng.chance(1, 2) { mk[0].id } else { mk[rng.below(mk.len() as u64) as usize].id };
      let e = random_entry(rng, id);
      let p = dir.join(format!("mdup_{}.fits", id));
      e.write_fits(&p, false);
      list_txt.push_str(&format!("{} {}\n", if e.status == 2 { -(id as i64) } else { id as i64 }, p.display()));
      mk.push(e);
      sink.count("make:duplicate-identifier");
    }
    let lp = dir.join("list.txt");
    fs::write(&lp, &list_txt).unwrap();
    let r = run("mocset", &["make", "-n", &n128.to_string(), "-l", lp.to_str().unwrap(), file.to_str().unwrap()], None, &[]);
    hist.push(format!("mk:{}", if mk.is_empty() { "_".to_string() } else { mk.iter().map(|e| e.txt()).collect::<Vec<_>>().join(";") }));
    known.extend(mk.iter().cloned());
    let mut emit = |sink: &mut Sink, hist: &Vec<String>, ok: bool, file: &Path| {
      let ans = if !ok && !file.exists() { "err#nofile".to_string() } else { format!("{}#{}", if ok { "ok" } else { "err" }, list_rows(file)) };
      sink.emit(&format!("ms {} {}", n128, hist.join("|")), &ans, hist.len() > 1);
      // the FILE itself against the word / byte level model: every metadata and index word, the data bytes
      sink.emit(&format!("msf {} {}", n128, hist.join("|")), &file_dump(file), hist.len() > 1);
    };
    emit(sink, &hist, r.ok, &file);
    if !r.ok {
      continue;
    }
    // ---- further commands
    let n_cmd = if fill { 4 } else { 3 + rng.below(10) as usize };
    // a FOCUS identifier per history: most commands hit it, so that sequences such as
    // add / remove / re-add / change status (without a purge in between) are frequent
    let focus = 1 + rng.below(8);
    // 1 history out of 7 starts with a SCRIPTED prefix on the focus identifier: add, remove, re-add (no purge in
    // between: the removed entry is still in the file), deprecate, remove
    let scripted = !fill && h % 7 == 2;
    let n_cmd = if scripted { n_cmd.max(8) } else { n_cmd };
    if scripted { sink.count("history:scripted-readd-prefix"); }
    for c in 0..n_cmd {
      let before = fs::read(&file).unwrap_or_default();
      let in_script = scripted && c < 5;
      let kind = if in_script { [0u64, 4, 0, 4, 4][c] } else if scripted && c == 5 { 20 } else if scripted && c == 6 { 21 } else { rng.below(10) };
      let ok;
      if kind == 20 {
        // an identifier that does not fit 48 bits (2^48 + the id of a MOC of the set, and 2^48 itself): refused, the
        // file is unchanged — stored truncated it would be a second live occurrence of that id
        let base = known.iter().rev().map(|e| e.id).next().unwrap_or(focus);
        let id = (1u64 << 48) + if h % 2 == 0 { base } else { 0 };
        let e = random_entry(rng, id);
        let p = dir.join(format!("a{}_wrap.fits", c));
        e.write_fits(&p, false);
        let sid = if e.status == 2 { format!("-{}", id) } else { id.to_string() };
        let r = run("mocset", &["append", file.to_str().unwrap(), &sid, p.to_str().unwrap()], None, &[]);
        ok = r.ok;
        hist.push(format!("ap:{}", e.txt()));
        sink.count("cmd:append-id-beyond-48-bits");
        if ok { known.push(e); } else if fs::read(&file).unwrap_or_default() != before {
          sink.impl_failures.push(format!("C14 refused append modified the file: history {}", hist.join("|")));
        }
      } else if kind == 21 {
        // `void` is the end-of-list marker, not a status: refused, file unchanged, no lock left behind
        let r = run("mocset", &["chgstatus", file.to_str().unwrap(), "void", &focus.to_string()], None, &[]);
        ok = r.ok;
        hist.push(format!("cs:0:{}", focus));
        sink.count("cmd:chgstatus-void");
        if r.err.contains("panicked at") {
          sink.impl_failures.push(format!("C14 mocset chgstatus void panicked: history {}: {}", hist.join("|"), r.err.lines().next().unwrap_or("")));
        }
        if fs::read(&file).unwrap_or_default() != before {
          sink.impl_failures.push(format!("C14 refused chgstatus modified the file: history {}", hist.join("|")));
        }
      } else if kind < 4 {
        // append (valid or deprecated; ids already present / removed / new)
        let id = if in_script { focus } else if fill && rng.chance(1, 2) { 100 + rng.below(127) } else if rng.chance(3, 5) { focus } else { 1 + rng.below(8) };
        let e = random_entry(rng, id);
        let p = dir.join(format!("a{}_{}.fits", c, id));
        e.write_fits(&p, rng.chance(1, 4));
        let sid = if e.status == 2 { format!("-{}", id) } else { id.to_string() };
        let r = run("mocset", &["append", file.to_str().unwrap(), &sid, p.to_str().unwrap()], None, &[]);
        ok = r.ok;
        hist.push(format!("ap:{}", e.txt()));
        sink.count("cmd:append");
        if ok {
          known.push(e);
        } else {
          sink.count("cmd:append-refused");
          if fs::read(&file).unwrap_or_default() != before {
            sink.impl_failures.push(format!("C14 refused append modified the file: history {}", hist.join("|")));
          }
        }
      } else if kind < 8 {
        let st = if in_script { [0u8, 1, 0, 2, 1][c] } else { 1 + rng.below(3) as u8 };
        let n_ids = 1 + rng.below(2);
        let ids: Vec<u64> = if in_script { vec![focus] } else { (0..n_ids).map(|_| if fill { 100 + rng.below(127) } else if rng.chance(3, 5) { focus } else { 1 + rng.below(9) }).collect() };
        let idtxt = ids.iter().map(|x| x.to_string()).collect::<Vec<_>>().join(",");
        let r = run("mocset", &["chgstatus", file.to_str().unwrap(), status_name(st), &idtxt], None, &[]);
        ok = r.ok;
        hist.push(format!("cs:{}:{}", st, idtxt));
        sink.count("cmd:chgstatus");
      } else if kind < 9 {
        let r = run("mocset", &["purge", file.to_str().unwrap()], None, &[]);
        ok = r.ok;
        hist.push("pg:-".to_string());
        sink.count("cmd:purge");
      } else {
        // concurrent writer: a stale lock makes every update fail and leaves the file unchanged
        let lock = dir.join("set.\"bin\".lock");
        fs::write(&lock, b"").unwrap();
        let r = run("mocset", &["chgstatus", file.to_str().unwrap(), "removed", "1"], None, &[]);
        let _ = fs::remove_file(&lock);
        sink.count("cmd:locked");
        if r.ok || fs::read(&file).unwrap_or_default() != before {
          sink.impl_failures.push(format!("C14 update proceeded although the lock file exists: history {}", hist.join("|")));
        }
        continue;
      }
      emit(sink, &hist, ok, &file);
      if dir.join("set.\"bin\".lock").exists() {
        sink.impl_failures.push(format!("C14 lock file left behind after: {}", hist.join("|")));
        let _ = fs::remove_file(dir.join("set.\"bin\".lock"));
      }
    }
    // ---- extract every id that is valid / deprecated: exactly the MOC that was added (latest append of that id)
    let rows = list_rows(&file);
    for row in rows.split(';') {
      let f: Vec<&str> = row.split(',').collect();
      if f.len() < 5 || f[1] == "removed" {
        continue;
      }
      let id: u64 = f[0].parse().unwrap_or(0);
      if let Some(e) = known.iter().rev().find(|e| e.id == id) {
        let r = run("mocset", &["extract", file.to_str().unwrap(), &id.to_string(), "ascii"], None, &[]);
        sink.count("cmd:extract");
        if !r.ok || r.out.split_whitespace().collect::<Vec<_>>() != e.ascii().split_whitespace().collect::<Vec<_>>() {
          sink.impl_failures.push(format!("C14 extract of id {} differs from the MOC added: history {} got {:?} want {:?}", id, hist.join("|"), r.out.trim(), e.ascii().trim()));
        }
      }
    }
    let _ = fs::remove_dir_all(&dir);
  }
}

/// C15: queries with MOC regions deeper / shallower than the 32-bit storage depth, and positions.
pub fn queries(sink: &mut Sink, rng: &mut Rng, thorough: bool, work: &Path) {
  let n_sets = if thorough { 120 } else { 14 };
  for h in 0..n_sets {
    let dir = work.join(format!("q{}", h));
    fs::create_dir_all(&dir).unwrap();
    let file = dir.join("set.bin");
    // stored population: shallow (32-bit) and deep (64-bit) MOCs around a common area so that regions hit them
    let base_d13 = rng.below(12u64 << 26);
    let mut entries: Vec<Entry> = Vec::new();
    let mut list_txt = String::new();
    for id in 1..=(3 + rng.below(4)) {
      let deep = rng.chance(1, 3);
      let depth = if deep { 14 + rng.below(3) as u8 } else { 11 + rng.below(3) as u8 };
      let unit = 1u64 << (2 * (29 - depth as u32));
      let c0 = (base_d13 << 32) / unit; // cell index at `depth` of the base depth-13 cell
      let s = c0 + rng.below(6);
      let l = 1 + rng.below(5);
      let mut ranges = vec![s * unit..(s + l) * unit];
      if rng.chance(1, 2) {
        let s2 = s + l + 1 + rng.below(3);
        ranges.push(s2 * unit..(s2 + 1 + rng.below(3)) * unit);
      }
      let e = Entry { id, status: if rng.chance(1, 4) { 2 } else { 3 }, depth, ranges };
      let p = dir.join(format!("m{}.fits", id));
      e.write_fits(&p, rng.chance(1, 4));
      list_txt.push_str(&format!("{} {}\n", if e.status == 2 { -(id as i64) } else { id as i64 }, p.display()));
      entries.push(e);
    }
    fs::write(dir.join("list.txt"), &list_txt).unwrap();
    let r = run("mocset", &["make", "-l", dir.join("list.txt").to_str().unwrap(), file.to_str().unwrap()], None, &[]);
    if !r.ok {
      continue;
    }
    let etxt = entries.iter().map(|e| e.txt()).collect::<Vec<_>>().join(";");
    // regions: cells / cell pairs at depths 12..16 inside, on the first / last cell of, and just outside a stored range
    let n_reg = if thorough { 40 } else { 24 };
    for _ in 0..n_reg {
      let e = rng.pick(&entries).clone();
      let rd = 12 + rng.below(5) as u8;
      let unit = 1u64 << (2 * (29 - rd as u32));
      let r0 = rng.pick(&e.ranges).clone();
      let anchor = match rng.below(4) {
        0 => r0.start,
        1 => r0.end,
        2 => r0.start + (r0.end - r0.start) / 2,
        _ => r0.end - 1,
      };
      let c = (anchor / unit + rng.below(3)).saturating_sub(1);
      let len = 1 + rng.below(2);
      let mut region = vec![c * unit..(c + len) * unit];
      // multi-range regions (1 out of 2): further cells anchored in a GAP between two stored ranges, exactly on
      // the start / end of a stored range or straddling it, so that the scan over (region range, stored range)
      // pairs meets "region range before the stored range", "touching" and "overlapping" in sequence
      if rng.chance(1, 2) {
        let mut cells: Vec<u64> = vec![c, c + len - 1];
        for _ in 0..(1 + rng.below(3)) {
          let r1 = rng.pick(&e.ranges).clone();
          let a = match rng.below(6) {
            0 => r1.start / unit,
            1 => (r1.start / unit).saturating_sub(1),
            2 => r1.end / unit,
            3 => (r1.end - 1) / unit,
            4 => if e.ranges.len() > 1 { (e.ranges[0].end + (e.ranges[1].start - e.ranges[0].end) / 2) / unit } else { r1.end / unit + 2 },
            _ => r1.start / unit + rng.below(3),
          };
          cells.push(a);
        }
        cells.sort_unstable();
        cells.dedup();
        region = Vec::new();
        for x in cells {
          match region.last_mut() {
            Some(l) if l.end == x * unit => l.end = (x + 1) * unit,
            _ => region.push(x * unit..(x + 1) * unit),
          }
        }
        sink.count("query:multi-range-region");
      }
      let reg_entry = Entry { id: 0, status: 3, depth: rd, ranges: region.clone() };
      let rp = dir.join("region.txt");
      fs::write(&rp, reg_entry.ascii()).unwrap();
      for included in [false, true] {
        for dep in [false, true] {
          for par in [false, true] {
            let mut args: Vec<String> = vec!["query".into()];
            if dep { args.push("-d".into()); }
            if par { args.push("-p".into()); args.push("3".into()); }
            args.push(file.to_str().unwrap().into());
            args.push("moc".into());
            args.push("-f".into());
            args.push("ascii".into());
            if included { args.push("-i".into()); }
            args.push(rp.to_str().unwrap().into());
            let a: Vec<&str> = args.iter().map(|s| s.as_str()).collect();
            let r = run("mocset", &a, None, &[]);
            let mut ids: Vec<u64> = r.out.lines().skip(1).filter_map(|l| l.trim().split(',').next().and_then(|x| x.parse().ok())).collect();
            ids.sort_unstable();
            let ans = if !r.ok { "err".to_string() } else if ids.is_empty() { "_".to_string() } else { ids.iter().map(|x| x.to_string()).collect::<Vec<_>>().join(",") };
            sink.count(&format!("query:depth{}-{}", rd, if included { "included" } else { "intersect" }));
            sink.emit(&format!("mq {} {} {} {}", etxt, included as u8, dep as u8, fmt_ranges(&region)), &ans, true);
          }
        }
      }
    }
    // `union`: same regions through `mocset union <depth> moc`, explicit identifier lists, and positions
    let parse_ascii = |out: &str| -> String {
      match moc::deser::ascii::from_ascii_ivoa::<u64, Hpx<u64>>(out) {
        Ok(m) => {
          use moc::moc::{CellOrCellRangeMOCIntoIterator, CellOrCellRangeMOCIterator, HasMaxDepth};
          let d = m.depth_max();
          let r: RangeMOC<u64, Hpx<u64>> = m.into_cellcellrange_moc_iter().ranges().into_range_moc();
          format!("{}|{}", d, fmt_ranges(&moc_ranges_u64(&r)))
        }
        Err(e) => format!("unreadable: {}", e),
      }
    };
    for _ in 0..(if thorough { 12 } else { 6 }) {
      let e = rng.pick(&entries).clone();
      let rd = 12 + rng.below(5) as u8;
      let unit = 1u64 << (2 * (29 - rd as u32));
      let r0 = rng.pick(&e.ranges).clone();
      let c = ((if rng.chance(1, 2) { r0.start } else { r0.end - 1 }) / unit + rng.below(3)).saturating_sub(1);
      let region = vec![c * unit..(c + 1 + rng.below(2)) * unit];
      let reg_entry = Entry { id: 0, status: 3, depth: rd, ranges: region.clone() };
      let rp = dir.join("uregion.txt");
      fs::write(&rp, reg_entry.ascii()).unwrap();
      // output depth: shallower than, equal to, deeper than the stored depths
      let od = *rng.pick(&[3u8, 10, 12, 13, 14, 16, 29]);
      let ods = od.to_string();
      for included in [false, true] {
        let dep = rng.chance(1, 2);
        let mut args: Vec<&str> = vec!["union"];
        if dep { args.push("-d"); }
        args.push(file.to_str().unwrap());
        args.push(&ods);
        args.extend(["moc", "-f", "ascii"]);
        if included { args.push("-i"); }
        args.push(rp.to_str().unwrap());
        args.push("ascii");
        let r = run("mocset", &args, None, &[]);
        let ans = if r.ok { parse_ascii(&r.out) } else { format!("err {}", r.err.lines().next().unwrap_or("")) };
        sink.count(&format!("union:moc-{}", if included { "included" } else { "intersect" }));
        sink.emit(&format!("mu {} {} {} {} {}", etxt, included as u8, dep as u8, fmt_ranges(&region), od), &ans, true);
      }
      // ids: a random subset, possibly with unknown identifiers
      let mut ids: Vec<u64> = entries.iter().filter(|_| rng.chance(1, 2)).map(|e| e.id).collect();
      if rng.chance(1, 3) { ids.push(99); }
      if ids.is_empty() { ids.push(entries[0].id); }
      let idl = ids.iter().map(|x| x.to_string()).collect::<Vec<_>>().join(",");
      let r = run("mocset", &["union", file.to_str().unwrap(), &ods, "ids", &idl, "ascii"], None, &[]);
      let ans = if r.ok { parse_ascii(&r.out) } else { format!("err {}", r.err.lines().next().unwrap_or("")) };
      sink.count("union:ids");
      sink.emit(&format!("mui {} {} {}", etxt, idl, od), &ans, true);
      // position: the centre of a depth-16 cell chosen inside / at the edge of / outside a stored range; its
      // deepest-level index is computed by cdshealpix (oracle for the hash only)
      let cell16 = { let u16_ = 1u64 << (2 * (29 - 16)); ((if rng.chance(1, 2) { r0.start } else { r0.end - 1 }) / u16_ + rng.below(3)).saturating_sub(1) };
      let (lon, lat) = cdshealpix::nested::center(16, cell16);
      let (lon_deg, lat_deg) = (lon.to_degrees(), lat.to_degrees());
      if lon_deg >= 0.0 && lon_deg < 360.0 && lat_deg > -90.0 && lat_deg < 90.0 {
        let (lon_s, lat_s) = (format!("{:.12}", lon_deg), format!("{:.12}", lat_deg));
        let (lon_p, lat_p): (f64, f64) = (lon_s.parse().unwrap(), lat_s.parse().unwrap());
        let idx = cdshealpix::nested::hash(29, lon_p.to_radians(), lat_p.to_radians());
        for dep in [false, true] {
          let mut args: Vec<&str> = vec!["query"];
          if dep { args.push("-d"); }
          args.extend([file.to_str().unwrap(), "pos", &lon_s, &lat_s]);
          let r = run("mocset", &args, None, &[]);
          let mut got: Vec<u64> = r.out.lines().skip(1).filter_map(|l| l.trim().split(',').next().and_then(|x| x.parse().ok())).collect();
          got.sort_unstable();
          let ans = if !r.ok { "err".to_string() } else if got.is_empty() { "_".to_string() } else { got.iter().map(|x| x.to_string()).collect::<Vec<_>>().join(",") };
          sink.count("query:pos");
          sink.emit(&format!("mqp {} {} {}", etxt, dep as u8, idx), &ans, true);
          let mut args: Vec<&str> = vec!["union"];
          if dep { args.push("-d"); }
          args.extend([file.to_str().unwrap(), &ods, "pos", &lon_s, &lat_s, "ascii"]);
          let r = run("mocset", &args, None, &[]);
          let ans = if r.ok { parse_ascii(&r.out) } else { format!("err {}", r.err.lines().next().unwrap_or("")) };
          sink.count("union:pos");
          sink.emit(&format!("mup {} {} {} {}", etxt, dep as u8, idx, od), &ans, true);
        }
        // cone queries around the same position: the cone MOC is computed by the library's own `from_cone`
        // (cdshealpix geometry = trusted oracle for the region only) at the depth the documentation gives
        // (best starting depth of the radius + precision, at most 29); selection judged by the model
        let r_arcsec = *rng.pick(&[0.05f64, 0.5, 5.0, 60.0, 600.0]);
        let prec = *rng.pick(&[0u8, 1, 2, 3]);
        let r_rad = (r_arcsec / 3600.0).to_radians();
        let cdepth = if !cdshealpix::has_best_starting_depth(r_rad) { prec } else { (cdshealpix::best_starting_depth(r_rad) + prec).min(29) };
        let cone: RangeMOC<u64, Hpx<u64>> = RangeMOC::from_cone(lon_p.to_radians(), lat_p.to_radians(), r_rad, cdepth, 2, moc::moc::range::CellSelection::All);
        let region = moc_ranges_u64(&cone);
        let (rs, ps) = (format!("{}", r_arcsec), prec.to_string());
        for included in [false, true] {
          let dep = rng.chance(1, 2);
          let par = rng.chance(1, 2);
          let mut args: Vec<&str> = vec!["query"];
          if dep { args.push("-d"); }
          if par { args.extend(["-p", "3"]); }
          args.extend([file.to_str().unwrap(), "cone", &lon_s, &lat_s, &rs, "-p", &ps]);
          if included { args.push("-i"); }
          let r = run("mocset", &args, None, &[]);
          let mut got: Vec<u64> = r.out.lines().skip(1).filter_map(|l| l.trim().split(',').next().and_then(|x| x.parse().ok())).collect();
          got.sort_unstable();
          let ans = if !r.ok { format!("err {}", r.err.lines().next().unwrap_or("")) } else if got.is_empty() { "_".to_string() } else { got.iter().map(|x| x.to_string()).collect::<Vec<_>>().join(",") };
          sink.count(&format!("query:cone-{}", if included { "included" } else { "intersect" }));
          sink.emit(&format!("mq {} {} {} {}", etxt, included as u8, dep as u8, fmt_ranges(&region)), &ans, true);
        }
      }
    }
    let _ = fs::remove_dir_all(&dir);
  }
  // ---- the poles: lat = +90 and -90 degrees are positions of the sphere like the others
  {
    let dir = work.join("qpoles");
    fs::create_dir_all(&dir).unwrap();
    let file = dir.join("set.bin");
    let half_pi = std::f64::consts::FRAC_PI_2;
    let unit3 = 1u64 << (2 * (29 - 3));
    let (cn, cs) = (cdshealpix::nested::hash(3, 0.3, half_pi), cdshealpix::nested::hash(3, 0.3, -half_pi));
    let entries = vec![
      Entry { id: 1, status: 3, depth: 3, ranges: vec![cn * unit3..(cn + 1) * unit3] },
      Entry { id: 2, status: 3, depth: 3, ranges: vec![cs * unit3..(cs + 1) * unit3] },
    ];
    let mut list_txt = String::new();
    for e in &entries {
      let p = dir.join(format!("p{}.fits", e.id));
      e.write_fits(&p, false);
      list_txt.push_str(&format!("{} {}\n", e.id, p.display()));
    }
    let lp = dir.join("list.txt");
    fs::write(&lp, &list_txt).unwrap();
    let r = run("mocset", &["make", "-l", lp.to_str().unwrap(), file.to_str().unwrap()], None, &[]);
    if r.ok {
      let etxt = entries.iter().map(|e| e.txt()).collect::<Vec<_>>().join(";");
      for (lon_s, lat_s, lat) in [("0.0", "90.0", half_pi), ("123.5", "90", half_pi), ("0.0", "-90.0", -half_pi), ("359.9", "-90", -half_pi)] {
        let lon: f64 = lon_s.parse::<f64>().unwrap().to_radians();
        let idx = cdshealpix::nested::hash(29, lon, lat);
        let r = run("mocset", &["query", file.to_str().unwrap(), "pos", lon_s, lat_s], None, &[]);
        let mut got: Vec<u64> = r.out.lines().skip(1).filter_map(|l| l.trim().split(',').next().and_then(|x| x.parse().ok())).collect();
        got.sort_unstable();
        let ans = if !r.ok { format!("err {}", r.err.lines().next().unwrap_or("")) } else if got.is_empty() { "_".to_string() } else { got.iter().map(|x| x.to_string()).collect::<Vec<_>>().join(",") };
        sink.count("query:pos-at-a-pole");
        sink.emit(&format!("mqp {} 0 {}", etxt, idx), &ans, true);
        let r = run("mocset", &["union", file.to_str().unwrap(), "5", "pos", lon_s, lat_s, "ascii"], None, &[]);
        let ans = if r.ok { match moc::deser::ascii::from_ascii_ivoa::<u64, Hpx<u64>>(&r.out) {
          Ok(m) => { use moc::moc::{CellOrCellRangeMOCIntoIterator, CellOrCellRangeMOCIterator, HasMaxDepth}; let d = m.depth_max(); let rr: RangeMOC<u64, Hpx<u64>> = m.into_cellcellrange_moc_iter().ranges().into_range_moc(); format!("{}|{}", d, fmt_ranges(&moc_ranges_u64(&rr))) }
          Err(e) => format!("unparsable {}", e) } } else { format!("err {}", r.err.lines().next().unwrap_or("")) };
        sink.count("union:pos-at-a-pole");
        sink.emit(&format!("mup {} 0 {} 5", etxt, idx), &ans, true);
        // a small cone centred on the pole
        let cone: RangeMOC<u64, Hpx<u64>> = RangeMOC::from_cone(lon, lat, (60.0f64 / 3600.0).to_radians(), { let rr = (60.0f64 / 3600.0).to_radians(); (cdshealpix::best_starting_depth(rr) + 2).min(29) }, 2, moc::moc::range::CellSelection::All);
        let region = moc_ranges_u64(&cone);
        let r = run("mocset", &["query", file.to_str().unwrap(), "cone", lon_s, lat_s, "60", "-p", "2"], None, &[]);
        let mut got: Vec<u64> = r.out.lines().skip(1).filter_map(|l| l.trim().split(',').next().and_then(|x| x.parse().ok())).collect();
        got.sort_unstable();
        let ans = if !r.ok { format!("err {}", r.err.lines().next().unwrap_or("")) } else if got.is_empty() { "_".to_string() } else { got.iter().map(|x| x.to_string()).collect::<Vec<_>>().join(",") };
        sink.count("query:cone-at-a-pole");
        sink.emit(&format!("mq {} 0 0 {}", etxt, fmt_ranges(&region)), &ans, true);
      }
    } else {
      sink.impl_failures.push(format!("C15 mocset make failed on the two polar MOCs: {}", r.err.lines().next().unwrap_or("")));
    }
    let _ = fs::remove_dir_all(&dir);
  }
  let _ = <Hpx<u64> as MocQty<u64>>::MAX_DEPTH;
}

/// C16: kill the updater at every named point (cargo feature `verif_hooks`), then a reader / a second writer /
/// a recovery update must behave as the property says. Everything here is a direct check on the real binary;
/// the op lines record the point and the observed listing (`before` / `after`) for the evidence.
pub fn crash_points(sink: &mut Sink, rng: &mut Rng, thorough: bool, work: &Path) {
  let append_points = ["append.before_data_write", "append.after_data_write", "append.after_index_store", "append.after_meta_store", "append.after_data_flush", "append.after_msync"];
  let chg_points = ["chgstatus.after_meta_store"];
  let purge_points = ["purge.before_tmp_flush", "purge.after_tmp_flush", "purge.after_rename"];
  let reps = if thorough { 30 } else { 2 };
  let mut case = 0;
  for rep in 0..reps {
    for (kind, points) in [("append", &append_points[..]), ("chgstatus", &chg_points[..]), ("chgstatus2", &chg_points[..]), ("purge", &purge_points[..])] {
      for point in points {
        case += 1;
        let dir = work.join(format!("c{}", case));
        fs::create_dir_all(&dir).unwrap();
        let file = dir.join("set.bin");
        let lock = dir.join("set.\"bin\".lock");
        let tmp = dir.join("set.\"bin\".tmp");
        // preceding history: a set with a few MOCs (one removed, so that purge has work to do)
        let mut entries: Vec<Entry> = Vec::new();
        let mut list_txt = String::new();
        for id in 1..=(3 + rng.below(2)) {
          let mut e = random_entry(rng, id);
          e.status = 3;
          if e.ranges.is_empty() { e.ranges = vec![0..(1u64 << (2 * (29 - e.depth as u32)))]; }
          if id == 2 {
            // always one survivor at the deepest 32-bit storage depth with an ODD number of ranges
            e.depth = 13;
            let u = 1u64 << (2 * (29 - 13));
            e.ranges = vec![u..2 * u, 5 * u..6 * u, 9 * u..10 * u];
          }
          let p = dir.join(format!("m{}.fits", id));
          e.write_fits(&p, false);
          list_txt.push_str(&format!("{} {}\n", id, p.display()));
          entries.push(e);
        }
        fs::write(dir.join("list.txt"), &list_txt).unwrap();
        assert!(run("mocset", &["make", "-l", dir.join("list.txt").to_str().unwrap(), file.to_str().unwrap()], None, &[]).ok);
        assert!(run("mocset", &["chgstatus", file.to_str().unwrap(), "removed", "1"], None, &[]).ok);
        let before = list_rows(&file);
        // the update, killed at `point`; a large MOC (> BufWriter capacity) every other repetition
        let mut newe = random_entry(rng, 50);
        newe.status = 3;
        if rep % 2 == 0 && newe.ranges.is_empty() {
          // even repetitions: always a SMALL non-empty MOC (its ranges fit in the writer's buffer)
          newe.ranges = vec![0..(1u64 << (2 * (29 - newe.depth as u32)))];
        }
        if rep % 2 == 1 {
          newe.depth = 16;
          let unit = 1u64 << (2 * (29 - 16));
          newe.ranges = (0..1200u64).map(|k| (3 * k) * unit..(3 * k + 1) * unit).collect(); // 19 kB of ranges
        }
        let np = dir.join("new.fits");
        newe.write_fits(&np, false);
        let envs = [("MOCSET_VERIF_KILL", *point)];
        let r = match kind {
          "append" => run("mocset", &["append", file.to_str().unwrap(), "50", np.to_str().unwrap()], None, &envs),
          "chgstatus" => run("mocset", &["chgstatus", file.to_str().unwrap(), "deprecated", "2"], None, &envs),
          // two identifiers in one command: the kill falls between the two status stores
          "chgstatus2" => run("mocset", &["chgstatus", file.to_str().unwrap(), "deprecated", "2,3"], None, &envs),
          _ => run("mocset", &["purge", file.to_str().unwrap()], None, &envs),
        };
        sink.count(&format!("kill:{}", point));
        if r.ok {
          sink.impl_failures.push(format!("C16 hook point {} was not reached by {}", point, kind));
        }
        // (1) a reader started now: list / extract of every listed live id / a query must succeed
        let l = run("mocset", &["list", file.to_str().unwrap()], None, &[]);
        let mut reader_ok = l.ok;
        let rows_now = list_rows(&file);
        for row in rows_now.split(';') {
          let f: Vec<&str> = row.split(',').collect();
          if f.len() >= 5 && f[1] != "removed" {
            let x = run("mocset", &["extract", file.to_str().unwrap(), f[0], "ascii"], None, &[]);
            reader_ok &= x.ok;
            let want = if f[0] == "50" { Some(&newe) } else { entries.iter().find(|e| e.id.to_string() == f[0]) };
            if let Some(w) = want {
              if x.out.split_whitespace().collect::<Vec<_>>() != w.ascii().split_whitespace().collect::<Vec<_>>() {
                sink.impl_failures.push(format!("C16 after a kill at {} the listed MOC {} has wrong / incomplete data", point, f[0]));
              }
            }
          }
        }
        let q = run("mocset", &["query", file.to_str().unwrap(), "pos", "10.0", "10.0"], None, &[]);
        reader_ok &= q.ok;
        if !reader_ok {
          sink.impl_failures.push(format!("C16 reader (list/extract/query) FAILED after a kill at {} (update {}): {}", point, kind, (l.err + &q.err).replace('\n', " ").chars().take(200).collect::<String>()));
        }
        // (2) the listing is the one before or the one after the update
        let expected_after: String = match kind {
          "append" => format!("{};50,valid,{},{},{}", before, newe.depth, newe.ranges.len(), newe.ranges.len() * 2 * if newe.depth <= 13 { 4 } else { 8 }),
          "chgstatus" => before.replace("2,valid", "2,deprecated"),
          "chgstatus2" => before.replace("2,valid", "2,deprecated").replace("3,valid", "3,deprecated"),
          _ => before.split(';').filter(|r| !r.contains(",removed,")).collect::<Vec<_>>().join(";"),
        };
        let view = if rows_now == before { "before" } else if rows_now == expected_after { "after" } else { "OTHER" };
        let mixed = view == "OTHER" && kind == "chgstatus2" && {
          let (b, a, n): (Vec<&str>, Vec<&str>, Vec<&str>) = (before.split(';').collect(), expected_after.split(';').collect(), rows_now.split(';').collect());
          b.len() == n.len() && a.len() == n.len() && (0..n.len()).all(|i| n[i] == b[i] || n[i] == a[i])
        };
        if mixed {
          // every entry is intact and carries its old or its new status, but the listing as a whole is neither
          // the state before nor the state after the command
          sink.impl_failures.push(format!("C16 chgstatus-multi-id-not-atomic: after a kill between the status stores of `chgstatus deprecated 2,3` the listing mixes old and new statuses: {} (before {}; after {})", rows_now, before, expected_after));
        } else if view == "OTHER" {
          sink.impl_failures.push(format!("C16 after a kill at {} the listing is neither the state before nor after: {} (before {}; after {})", point, rows_now, before, expected_after));
        }
        sink.emit(&format!("crashpoint {} {}", kind, point), "consistent", true);
        if kind == "chgstatus" || kind == "chgstatus2" {
          // the file a `chgstatus` killed right after its FIRST store leaves, against the model (`fileChgPrefix`, k = 1)
          let hist = format!("mk:{}|cs:1:1", entries.iter().map(|e| e.txt()).collect::<Vec<_>>().join(";"));
          sink.emit(&format!("msfc 1 {} 2 {} 1", hist, if kind == "chgstatus" { "2" } else { "2,3" }), &file_dump(&file), true);
        }
        if kind == "append" {
          // the FILE the killed writer left, word for word and byte for byte, against the model of the stores
          // already performed at that point (`fileAppendPrefix`)
          let hist = format!("mk:{}|cs:1:1|ap:{}", entries.iter().map(|e| e.txt()).collect::<Vec<_>>().join(";"), newe.txt());
          sink.emit(&format!("msfk 1 {} {}", hist, point), &file_dump(&file), true);
        }
        // (3) while the (stale) lock exists no second updater proceeds
        if lock.exists() {
          let bytes = fs::read(&file).unwrap();
          let w2 = run("mocset", &["chgstatus", file.to_str().unwrap(), "deprecated", "3"], None, &[]);
          if w2.ok || fs::read(&file).unwrap() != bytes {
            sink.impl_failures.push(format!("C16 a second updater proceeded while the lock was held (kill at {})", point));
          }
        } else if *point != "purge.after_rename" && !point.ends_with("after_msync") {
          // the lock must still be there when the updater died before releasing it
          sink.impl_failures.push(format!("C16 no lock file found after a kill at {}", point));
        }
        // (4) recovery: remove the stale lock and temporary file, then a new update must succeed and be correct
        let _ = fs::remove_file(&lock);
        let _ = fs::remove_file(&tmp);
        let mut e2 = random_entry(rng, 60);
        e2.status = 3;
        if e2.ranges.is_empty() { e2.ranges = vec![0..(1u64 << (2 * (29 - e2.depth as u32)))]; }
        let p2 = dir.join("rec.fits");
        e2.write_fits(&p2, false);
        let a = run("mocset", &["append", file.to_str().unwrap(), "60", p2.to_str().unwrap()], None, &[]);
        let x = run("mocset", &["extract", file.to_str().unwrap(), "60", "ascii"], None, &[]);
        if !a.ok || !x.ok || x.out.split_whitespace().collect::<Vec<_>>() != e2.ascii().split_whitespace().collect::<Vec<_>>() {
          sink.impl_failures.push(format!("C16 recovery append after a kill at {} failed or yields a wrong MOC: {}", point, a.err.replace('\n', " ").chars().take(200).collect::<String>()));
        }
        // and everything listed is still extractable and right
        for row in list_rows(&file).split(';') {
          let f: Vec<&str> = row.split(',').collect();
          if f.len() >= 5 && f[1] != "removed" {
            let x = run("mocset", &["extract", file.to_str().unwrap(), f[0], "ascii"], None, &[]);
            let want = match f[0] { "50" => Some(&newe), "60" => Some(&e2), _ => entries.iter().find(|e| e.id.to_string() == f[0]) };
            if let Some(w) = want {
              if !x.ok || x.out.split_whitespace().collect::<Vec<_>>() != w.ascii().split_whitespace().collect::<Vec<_>>() {
                sink.impl_failures.push(format!("C16 after recovery from a kill at {} MOC {} is wrong", point, f[0]));
              }
            }
          }
        }
        // (5) the interrupted kind of update, run again to completion, must succeed and leave every MOC right
        let redo = match kind {
          "append" => None,
          "chgstatus" => Some(run("mocset", &["chgstatus", file.to_str().unwrap(), "deprecated", "2"], None, &[])),
          "chgstatus2" => Some(run("mocset", &["chgstatus", file.to_str().unwrap(), "deprecated", "2,3"], None, &[])),
          _ => Some(run("mocset", &["purge", file.to_str().unwrap()], None, &[])),
        };
        if let Some(r2) = redo {
          if !r2.ok {
            sink.impl_failures.push(format!("C16 `{}` fails when run again after recovery from a kill at {}: {}", kind, point, r2.err.replace('\n', " ").chars().take(200).collect::<String>()));
          }
          for row in list_rows(&file).split(';') {
            let f: Vec<&str> = row.split(',').collect();
            if f.len() >= 5 && f[1] != "removed" {
              let x = run("mocset", &["extract", file.to_str().unwrap(), f[0], "ascii"], None, &[]);
              let want = match f[0] { "50" => Some(&newe), "60" => Some(&e2), _ => entries.iter().find(|e| e.id.to_string() == f[0]) };
              if let Some(w) = want {
                if !x.ok || x.out.split_whitespace().collect::<Vec<_>>() != w.ascii().split_whitespace().collect::<Vec<_>>() {
                  sink.impl_failures.push(format!("C16 after `{}` re-run following a kill at {} MOC {} is wrong", kind, point, f[0]));
                }
              }
            }
          }
        }
        let _ = fs::remove_dir_all(&dir);
      }
    }
  }
  reader_in_progress(sink, work);
}

/// C16: a reader that has ALREADY opened the moc-set and is half-way through its walk when an append completes must still
/// succeed, with the state before or the state after the append.  Deterministic: the reader's stdout is a pipe nobody
/// drains (it blocks after ~64 KiB of output, in the middle of its lazy walk over the metadata), the append runs to
/// completion, then the pipe is drained.
fn reader_in_progress(sink: &mut Sink, work: &Path) {
  use std::io::Read;
  let dir = work.join("reader_race");
  let _ = fs::remove_dir_all(&dir);
  fs::create_dir_all(&dir).unwrap();
  let file = dir.join("set.bin");
  let all = Entry { id: 0, status: 3, depth: 0, ranges: vec![0..(12u64 << 58)] };
  let p = dir.join("all.fits");
  all.write_fits(&p, false);
  // 16000 all-sky MOCs: the answer of a position query (one line per MOC) is larger than any pipe buffer
  let n = 16000u64;
  let mut list_txt = String::new();
  for id in 0..n { list_txt.push_str(&format!("{} {}\n", 1_000_000_000 + id, p.display())); }
  let lp = dir.join("list.txt");
  fs::write(&lp, &list_txt).unwrap();
  let r = run("mocset", &["make", "-n", "128", "-l", lp.to_str().unwrap(), file.to_str().unwrap()], None, &[]);
  if !r.ok { sink.count("reader-in-progress:make-failed"); let _ = fs::remove_dir_all(&dir); return; }
  let mut child = Command::new(bin("mocset")).args(["query", file.to_str().unwrap(), "pos", "10", "10"]).stdin(Stdio::null()).stdout(Stdio::piped()).stderr(Stdio::piped()).spawn().expect("spawn reader");
  std::thread::sleep(std::time::Duration::from_millis(1500));
  let a = run("mocset", &["append", file.to_str().unwrap(), "7", p.to_str().unwrap()], None, &[]);
  let mut out = String::new();
  let _ = child.stdout.take().unwrap().read_to_string(&mut out);
  let mut err = String::new();
  let _ = child.stderr.take().unwrap().read_to_string(&mut err);
  let st = child.wait().expect("wait reader");
  let ids: Vec<&str> = out.lines().skip(1).filter_map(|l| l.split(',').next()).collect();
  sink.count("reader-in-progress:case");
  if !a.ok {
    sink.impl_failures.push(format!("C16 append failed while a reader was in progress: {}", a.err.lines().next().unwrap_or("")));
  }
  let before = ids.len() as u64 == n && !ids.contains(&"7");
  let after = ids.len() as u64 == n + 1 && ids.contains(&"7");
  if !st.success() || !(before || after) {
    sink.impl_failures.push(format!("C16 reader-in-progress: a `mocset query` started before an append and finishing after it: exit {:?}, {} ids listed (state before = {}, after = {}); {}", st.code(), ids.len(), n, n + 1, err.lines().next().unwrap_or("")));
  }
  let _ = fs::remove_dir_all(&dir);
}
