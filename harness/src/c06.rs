//! C06 — builders and n-ary operators are insensitive to order, duplication and batching.
use std::ops::Range;
use std::panic::AssertUnwindSafe;

use moc::idx::Idx;
use moc::moc::builder::fixed_depth::FixedDepthMocBuilder;
use moc::moc::range::op::multi_op::{kway_and, kway_and_it, kway_or, kway_or_it, kway_xor, kway_xor_it};
use moc::moc::range::RangeMOC;
use moc::moc::RangeMOCIntoIterator;
use moc::qty::MocQty;

use crate::gen::*;
use crate::srcs::*;
use crate::util::*;

fn fmt_nats(v: &[u64]) -> String {
  if v.is_empty() {
    "_".to_string()
  } else {
    v.iter().map(|x| x.to_string()).collect::<Vec<_>>().join(",")
  }
}

/// Arrival orders of the same multiset of elements.
fn orders<X: Clone + Ord>(rng: &mut Rng, base: &[X]) -> Vec<(&'static str, Vec<X>)> {
  let mut sorted = base.to_vec();
  sorted.sort();
  let mut rev = sorted.clone();
  rev.reverse();
  let mut shuf = base.to_vec();
  rng.shuffle(&mut shuf);
  let mut dup = base.to_vec();
  dup.extend_from_slice(base);
  rng.shuffle(&mut dup);
  let mut adjdup: Vec<X> = Vec::new();
  for x in &sorted {
    adjdup.push(x.clone());
    adjdup.push(x.clone());
  }
  vec![("sorted", sorted), ("reversed", rev), ("shuffled", shuf), ("dup-shuffled", dup), ("adjacent-dups", adjdup)]
}

fn real_cap<T>(cap: usize) -> usize {
  // the builder flushes when `len == Vec::with_capacity(cap).capacity()`
  Vec::<T>::with_capacity(cap).capacity()
}

fn builders<C: Combo>(sink: &mut Sink, rng: &mut Rng, thorough: bool) {
  let (q, w) = (C::QNAME, C::W);
  let max_depth = <C::Q as MocQty<C::T>>::MAX_DEPTH;
  let n = if thorough { 4500 } else { 120 };
  for _ in 0..n {
    let d = rng.below(max_depth as u64 + 1) as u8;
    let ncell = n_cells::<C::T, C::Q>(d);
    let base_cell = rng.below(ncell);
    let len = rng.below(9) as usize;
    let span = 1 + rng.below(12);
    let mut cells: Vec<u64> = (0..len).map(|_| (base_cell + rng.below(span)).min(ncell - 1)).collect();
    if rng.chance(1, 4) {
      cells.push(0);
    }
    if rng.chance(1, 4) {
      cells.push(ncell - 1);
    }
    for (oname, cs) in orders(rng, &cells) {
      for cap in [1usize, 2, 3, 5, 8, cs.len().max(1), cs.len() + 1, 100_000] {
        let rc = real_cap::<C::T>(cap);
        sink.count(&format!("order:{}", oname));
        sink.count(&format!("cap:{}", if cap > cs.len() { "larger-than-input".to_string() } else { cap.min(9).to_string() }));
        let it = cs.iter().map(|c| <C::T as Idx>::from_u64(*c));
        let ans = guarded(AssertUnwindSafe(|| {
          describe_moc(&RangeMOC::<C::T, C::Q>::from_fixed_depth_cells(d, it, Some(cap)))
        }));
        sink.emit(&format!("b_fd {} {} {} {} {}", q, w, d, rc, fmt_nats(&cs)), &ans, cs.len() > 1);
        // documented variant `push_v2` / `into_moc_v2`
        let ans = guarded(AssertUnwindSafe(|| {
          let mut b = FixedDepthMocBuilder::<C::T, C::Q>::new(d, Some(cap));
          for c in &cs {
            b.push_v2(<C::T as Idx>::from_u64(*c));
          }
          describe_moc(&b.into_moc_v2())
        }));
        sink.emit(&format!("b_fd {} {} {} {} {}", q, w, d, rc, fmt_nats(&cs)), &ans, cs.len() > 1);
      }
    }
    // append to an existing MOC
    let prev = random_moc_ranges::<C::T, C::Q>(rng, d, 4);
    let pm: RangeMOC<C::T, C::Q> = mk_moc(d, &prev);
    let cap = 1 + rng.below(4) as usize;
    let it = cells.iter().map(|c| <C::T as Idx>::from_u64(*c));
    let ans = guarded(AssertUnwindSafe(|| describe_moc(&pm.clone().append_fixed_depth_cells(d, it, Some(cap)))));
    sink.emit(
      &format!("b_fdapp {} {} {} {} {} {}", q, w, d, real_cap::<C::T>(cap), fmt_ranges(&prev), fmt_nats(&cells)),
      &ans,
      !cells.is_empty(),
    );
    // ranges at max depth, not aligned, overlapping / touching / nested
    let ub = n_cells_max::<C::T, C::Q>();
    let unit = cell_size::<C::T, C::Q>(d);
    let base = (base_cell * unit).min(ub - 1);
    let mut rs: Vec<Range<u64>> = (0..len)
      .map(|_| {
        let s = (base + rng.below(6 * unit)).min(ub - 1);
        let l = 1 + rng.below(3 * unit);
        s..(s + l).min(ub)
      })
      .collect();
    if rng.chance(1, 3) && !rs.is_empty() {
      let r0 = rs[0].clone();
      rs.push(r0.end..(r0.end + 1).min(ub).max(r0.end + 1).min(ub)); // touching
      rs.retain(|r| r.start < r.end);
    }
    // empty ranges (the empty set: a zero-duration observation, a zero-width band) must contribute nothing,
    // whether or not their bound is aligned on the cells of the builder depth (no RNG draw: the stream of the
    // other cases is unchanged)
    if len % 3 == 1 {
      rs.push(base..base);
      let u = (base + unit / 2 + 1).min(ub - 1);
      rs.insert(0, u..u);
    }
    for (oname, rr) in orders(rng, &rs.iter().map(|r| (r.start, r.end)).collect::<Vec<_>>()) {
      let rr: Vec<Range<u64>> = rr.iter().map(|(a, b)| *a..*b).collect();
      for cap in [1usize, 2, 3, 5, rr.len().max(1), rr.len() + 1] {
        let rc = real_cap::<Range<C::T>>(cap);
        sink.count(&format!("rg-order:{}", oname));
        let it = rr.iter().map(|r| <C::T as Idx>::from_u64(r.start)..<C::T as Idx>::from_u64(r.end));
        let ans = guarded(AssertUnwindSafe(|| describe_moc(&RangeMOC::<C::T, C::Q>::from_maxdepth_ranges(d, it, Some(cap)))));
        sink.emit(&format!("b_rg {} {} {} {} {}", q, w, d, rc, fmt_ranges(&rr)), &ans, rr.len() > 1);
      }
    }
    // (depth, idx) cells of mixed depths
    let dc: Vec<(u8, u64)> = (0..len)
      .map(|_| {
        let dd = rng.below(d as u64 + 1) as u8;
        let sh = <C::Q as MocQty<C::T>>::shift_from_depth_max(dd) as u32;
        let nn = n_cells::<C::T, C::Q>(dd);
        (dd, ((base >> sh) + rng.below(3)).min(nn - 1))
      })
      .collect();
    for (_, cc) in orders(rng, &dc) {
      for cap in [1usize, 2, 4, cc.len() + 1] {
        let rc = real_cap::<Range<C::T>>(cap);
        let it = cc.iter().map(|(dd, c)| (*dd, <C::T as Idx>::from_u64(*c)));
        let ans = guarded(AssertUnwindSafe(|| describe_moc(&RangeMOC::<C::T, C::Q>::from_cells(d, it, Some(cap)))));
        let txt = if cc.is_empty() { "_".to_string() } else { cc.iter().map(|(a, b)| format!("{}/{}", a, b)).collect::<Vec<_>>().join(",") };
        sink.emit(&format!("b_cells {} {} {} {} {}", q, w, d, rc, txt), &ans, cc.len() > 1);
      }
    }
  }
}

fn nary<C: Combo>(sink: &mut Sink, rng: &mut Rng, thorough: bool) {
  let max_depth = <C::Q as MocQty<C::T>>::MAX_DEPTH;
  let reps = if thorough { 40 } else { 4 };
  // list lengths 0..=18: every remainder of the 4-by-4 grouping, recursion entered (>= 16 => two levels)
  for len in 0..=18usize {
    for _ in 0..reps {
      let small = rng.chance(1, 2);
      let mocs: Vec<RangeMOC<C::T, C::Q>> = (0..len)
        .map(|_| {
          if small {
            let d0 = if C::QNAME == "hpx" { 0 } else { 2 };
            let k = n_cells::<C::T, C::Q>(d0) as u32;
            let unit = cell_size::<C::T, C::Q>(d0);
            let mask = rng.below(1u64 << k) | rng.below(1u64 << k); // dense: intersections stay non-trivial
            mk_moc(d0 + rng.below(3) as u8, &ranges_of_mask(mask, k, unit))
          } else {
            let d = rng.below(max_depth as u64 + 1) as u8;
            mk_moc(d, &random_moc_ranges::<C::T, C::Q>(rng, d, 5))
          }
        })
        .collect();
      let txt = if mocs.is_empty() {
        "_".to_string()
      } else {
        mocs.iter().map(|m| format!("{}:{}", m.depth_max(), fmt_ranges(&moc_ranges_u64(m)))).collect::<Vec<_>>().join(";")
      };
      sink.count(&format!("nary-len:{}", len));
      macro_rules! run {
        ($op:expr, $f:ident, $fit:ident) => {{
          let ms = mocs.clone();
          let ans = guarded(AssertUnwindSafe(|| describe_moc(&$f(Box::new(ms.into_iter())))));
          sink.emit(&format!("kway {} {}", $op, txt), &ans, len > 1);
          // the property: n-ary = left fold of the binary operator (model `fold` op)
          sink.emit(&format!("fold {} {}", $op, txt), &ans, len > 1);
          let ms = mocs.clone();
          let ans = guarded(AssertUnwindSafe(|| describe_moc(&$fit(Box::new(ms.into_iter().map(|m| m.into_range_moc_iter()))))));
          sink.emit(&format!("kway {} {}", $op, txt), &ans, len > 1);
        }};
      }
      run!("or", kway_or, kway_or_it);
      run!("and", kway_and, kway_and_it);
      run!("xor", kway_xor, kway_xor_it);
    }
  }
}

pub fn run(sink: &mut Sink, rng: &mut Rng, thorough: bool) {
  // builders over an EMPTY list of regions: every variant gives the empty MOC of the REQUESTED depth
  // (no geometry involved: nothing is pushed)
  {
    use moc::moc::range::CellSelection;
    use moc::qty::Hpx;
    for depth in [0u8, 1, 10, 29] {
      let variants: Vec<(&str, RangeMOC<u64, Hpx<u64>>)> = vec![
        ("from_large_cones", RangeMOC::<u64, Hpx<u64>>::from_large_cones(depth, 2, CellSelection::All, std::iter::empty())),
        ("from_small_cones", RangeMOC::<u64, Hpx<u64>>::from_small_cones(depth, 2, std::iter::empty(), None)),
        ("from_large_boxes", RangeMOC::<u64, Hpx<u64>>::from_large_boxes(depth, CellSelection::All, std::iter::empty())),
        ("from_small_boxes", RangeMOC::<u64, Hpx<u64>>::from_small_boxes(depth, std::iter::empty(), None)),
        ("from_fixed_depth_cells", RangeMOC::<u64, Hpx<u64>>::from_fixed_depth_cells(depth, std::iter::empty(), None)),
      ];
      for (name, m) in variants {
        sink.count("builder-empty-list");
        if m.depth_max() != depth || !m.is_empty() {
          sink.impl_failures.push(format!("builder-empty-list: {}({}, no region) -> {}", name, depth, describe_moc(&m)));
        }
      }
    }
  }

  for_all_combos!(builders, sink, rng, thorough);
  for_all_combos!(nary, sink, rng, thorough);
}
