//! C01 — 1-D operators compute exactly the set-theoretic result.
//! Ops: p_* (plain `Ranges` primitives), e_* (eager `RangeMOC` methods), l_* (lazy operators over
//! every kind of source).
use std::ops::Range;
use std::panic::AssertUnwindSafe;

use moc::idx::Idx;
use moc::moc::range::RangeMOC;
use moc::moc::RangeMOCIterator;
use moc::qty::MocQty;
use moc::ranges::{Ranges, SNORanges};

use crate::gen::*;
use crate::srcs::*;
use crate::util::*;

fn ranges_t<T: Idx>(rs: &[Range<u64>]) -> Ranges<T> {
  Ranges::new_unchecked(from_u64_ranges::<T>(rs))
}
fn fmt_t<T: Idx>(r: &Ranges<T>) -> String {
  fmt_ranges(&to_u64_ranges(&r.0))
}

fn op_of_tt(tt: u32) -> impl Fn(bool, bool) -> bool {
  move |a, b| (tt >> ((a as u32) * 2 + (b as u32))) & 1 == 1
}

/// Plain primitives on `Ranges<u64>`.
pub fn primitives(sink: &mut Sink, a: &[Range<u64>], b: &[Range<u64>], ub: u64) {
  let (fa, fb) = (fmt_ranges(a), fmt_ranges(b));
  let nontrivial = !(a.is_empty() && b.is_empty());
  let (ra, rb) = (ranges_t::<u64>(a), ranges_t::<u64>(b));
  sink.count(&format!("pair:{}", pair_class(a, b)));
  let ans = guarded(AssertUnwindSafe(|| fmt_t(&ra.union(&rb))));
  sink.emit(&format!("p_union {} {}", fa, fb), &ans, nontrivial);
  let ans = guarded(AssertUnwindSafe(|| fmt_t(&ra.intersection(&rb))));
  sink.emit(&format!("p_inter {} {}", fa, fb), &ans, nontrivial);
  let ans = guarded(AssertUnwindSafe(|| fmt_t(&ra.difference(&rb))));
  sink.emit(&format!("p_diff {} {}", fa, fb), &ans, nontrivial);
  for tt in [2u32, 4, 6, 8, 10, 12, 14] {
    // all truth tables with op(false,false) = false
    let ans = guarded(AssertUnwindSafe(|| fmt_t(&ra.merge(&rb, op_of_tt(tt)))));
    sink.emit(&format!("p_merge {} {} {}", tt, fa, fb), &ans, nontrivial);
  }
  let ans = guarded(AssertUnwindSafe(|| fmt_t(&ra.complement_with_upper_bound(ub))));
  sink.emit(&format!("p_compl {} {}", ub, fa), &ans, true);
}

fn eager_pair<C: Combo>(sink: &mut Sink, da: u8, a: &[Range<u64>], db: u8, b: &[Range<u64>]) {
  let (q, w) = (C::QNAME, C::W);
  let ma: RangeMOC<C::T, C::Q> = mk_moc(da, a);
  let mb: RangeMOC<C::T, C::Q> = mk_moc(db, b);
  let ub = n_cells_max::<C::T, C::Q>();
  let nontrivial = !((a.is_empty() || shape_class(a, ub) == "full") && (b.is_empty() || shape_class(b, ub) == "full"));
  let args = format!("{} {} {} {} {} {}", q, w, da, fmt_ranges(a), db, fmt_ranges(b));
  sink.count(&format!("pair:{}", pair_class(a, b)));
  sink.count(&format!("shapeL:{}", shape_class(a, ub)));
  sink.count(&format!("combo:{}{}", q, w));
  let ans = guarded(AssertUnwindSafe(|| describe_moc(&ma.and(&mb))));
  sink.emit(&format!("e_and {}", args), &ans, nontrivial);
  let ans = guarded(AssertUnwindSafe(|| describe_moc(&ma.or(&mb))));
  sink.emit(&format!("e_or {}", args), &ans, nontrivial);
  let ans = guarded(AssertUnwindSafe(|| describe_moc(&ma.xor(&mb))));
  sink.emit(&format!("e_xor {}", args), &ans, nontrivial);
  let ans = guarded(AssertUnwindSafe(|| describe_moc(&ma.minus(&mb))));
  sink.emit(&format!("e_minus {}", args), &ans, nontrivial);
}

fn eager_unary<C: Combo>(sink: &mut Sink, d: u8, a: &[Range<u64>], new_depths: &[u8]) {
  let (q, w) = (C::QNAME, C::W);
  let ma: RangeMOC<C::T, C::Q> = mk_moc(d, a);
  let ans = guarded(AssertUnwindSafe(|| describe_moc(&ma.not())));
  sink.emit(&format!("e_not {} {} {} {}", q, w, d, fmt_ranges(a)), &ans, true);
  for nd in new_depths {
    let ans = guarded(AssertUnwindSafe(|| describe_moc(&ma.degraded(*nd))));
    sink.emit(&format!("e_degrade {} {} {} {} {}", q, w, d, fmt_ranges(a), nd), &ans, !a.is_empty());
  }
}

/// Kinds usable for this MOC (the builder-iterator kind needs the flat cell list).
fn pick_kind<C: Combo>(rng: &mut Rng, m: &RangeMOC<C::T, C::Q>) -> u64 {
  loop {
    let k = rng.below(N_KINDS);
    if k == 5 && m.n_depth_max_cells().to_u64() > 4096 {
      continue;
    }
    return k;
  }
}

fn lazy_pair<C: Combo>(sink: &mut Sink, rng: &mut Rng, da: u8, a: &[Range<u64>], db: u8, b: &[Range<u64>]) {
  let ma: RangeMOC<C::T, C::Q> = mk_moc(da, a);
  let mb: RangeMOC<C::T, C::Q> = mk_moc(db, b);
  let (ka, kb) = (pick_kind::<C>(rng, &ma), pick_kind::<C>(rng, &mb));
  sink.count(&format!("srcL:{}", KIND_NAMES[ka as usize]));
  sink.count(&format!("srcR:{}", KIND_NAMES[kb as usize]));
  let (sa, sb) = (describe_src::<C>(ka, &ma), describe_src::<C>(kb, &mb));
  let nontrivial = !(a.is_empty() && b.is_empty());
  macro_rules! run {
    ($name:expr, $m:ident) => {{
      let ans = guarded(AssertUnwindSafe(|| {
        describe_result(make_src::<C>(ka, &ma).$m(make_src::<C>(kb, &mb)))
      }));
      sink.emit(&format!("{} {} {}", $name, sa, sb), &ans, nontrivial);
    }};
  }
  run!("l_and", and);
  run!("l_or", or);
  run!("l_xor", xor);
  run!("l_minus", minus);
}

fn lazy_unary<C: Combo>(sink: &mut Sink, rng: &mut Rng, d: u8, a: &[Range<u64>], new_depths: &[u8]) {
  let (q, w) = (C::QNAME, C::W);
  let ma: RangeMOC<C::T, C::Q> = mk_moc(d, a);
  let ka = pick_kind::<C>(rng, &ma);
  sink.count(&format!("srcU:{}", KIND_NAMES[ka as usize]));
  let sa = describe_src::<C>(ka, &ma);
  let ans = guarded(AssertUnwindSafe(|| describe_result(make_src::<C>(ka, &ma).not())));
  sink.emit(&format!("l_not {} {} {}", q, w, sa), &ans, true);
  for nd in new_depths {
    let ans = guarded(AssertUnwindSafe(|| describe_result(make_src::<C>(ka, &ma).degrade(*nd))));
    sink.emit(&format!("l_degrade {} {} {} {}", q, w, nd, sa), &ans, !a.is_empty());
  }
}

/// Small scope: the universe is the WHOLE domain at a shallow depth (so 0 and n_cells_max are reached).
fn small_scope_depth<C: Combo>() -> u8 {
  if C::QNAME == "hpx" {
    0 // 12 cells
  } else {
    2 // 8 cells
  }
}

fn combo_small<C: Combo>(sink: &mut Sink, rng: &mut Rng, thorough: bool) {
  let d = small_scope_depth::<C>();
  let k = n_cells::<C::T, C::Q>(d) as u32;
  let unit = cell_size::<C::T, C::Q>(d);
  let n_mocs = 1u64 << k;
  let max_depth = <C::Q as MocQty<C::T>>::MAX_DEPTH;
  // unary: every MOC of the universe
  let new_depths: Vec<u8> = vec![0, 1, d, d + 1, max_depth];
  let stride = if thorough || n_mocs <= 256 { 1 } else { 7 };
  let mut m = 0;
  while m < n_mocs {
    let a = ranges_of_mask(m, k, unit);
    let decl = if m % 3 == 0 { d } else { (d + (m % 3) as u8).min(max_depth) };
    eager_unary::<C>(sink, decl, &a, &new_depths);
    lazy_unary::<C>(sink, rng, decl, &a, &new_depths);
    m += stride;
  }
  // pairs: exhaustive for the 8-cell universes in the thorough tier, seeded sample otherwise
  let exhaustive_pairs = thorough && n_mocs <= 256;
  if exhaustive_pairs {
    for ma in 0..n_mocs {
      let a = ranges_of_mask(ma, k, unit);
      for mb in 0..n_mocs {
        let b = ranges_of_mask(mb, k, unit);
        eager_pair::<C>(sink, d, &a, d, &b);
        if (ma * 31 + mb) % 4 == 0 {
          lazy_pair::<C>(sink, rng, d, &a, d + 1, &b);
        }
      }
    }
  } else {
    let n_pairs = if thorough { 60_000 } else { 2_500 };
    for _ in 0..n_pairs {
      let (ma, mb) = (rng.below(n_mocs), rng.below(n_mocs));
      let a = ranges_of_mask(ma, k, unit);
      let b = ranges_of_mask(mb, k, unit);
      let da = d + rng.below(2) as u8;
      let db = d + rng.below(3) as u8;
      eager_pair::<C>(sink, da, &a, db, &b);
      lazy_pair::<C>(sink, rng, da, &a, db, &b);
    }
  }
}

/// A MOC related to `a`: bounds of `a` moved by one cell, ranges dropped / fused — so that equal,
/// touching and straddling configurations are the common case.
pub fn related<C: Combo>(rng: &mut Rng, depth: u8, a: &[Range<u64>]) -> Vec<Range<u64>> {
  let unit = cell_size::<C::T, C::Q>(depth);
  let n = n_cells::<C::T, C::Q>(depth);
  // 1 in 4: a MOC lying entirely just AFTER (or just BEFORE) the extent of `a`, 0..3 cells away —
  // the configuration that selects the quick-rejection / disjoint fast paths of the lazy operators
  if !a.is_empty() && rng.chance(1, 4) {
    let (first, last) = (a[0].start / unit, (a[a.len() - 1].end + unit - 1) / unit);
    let gap = rng.below(4);
    let len = 1 + rng.below(3);
    if rng.chance(1, 2) {
      let s = (last + gap).min(n);
      let e = (s + len).min(n);
      return if s < e { vec![s * unit..e * unit] } else { vec![] };
    } else {
      let e = first.saturating_sub(gap);
      let s = e.saturating_sub(len);
      return if s < e { vec![s * unit..e * unit] } else { vec![] };
    }
  }
  let mut bounds: Vec<u64> = Vec::new();
  for r in a {
    for v in [r.start / unit, (r.end + unit - 1) / unit] {
      match rng.below(6) {
        0 => {}
        1 => bounds.push(v.saturating_sub(1)),
        2 => bounds.push((v + 1).min(n)),
        3 => {
          bounds.push(v);
          bounds.push(rng.below(n + 1));
        }
        _ => bounds.push(v),
      }
    }
  }
  bounds.sort_unstable();
  bounds.dedup();
  if bounds.len() % 2 == 1 {
    bounds.pop();
  }
  bounds.chunks(2).map(|c| c[0] * unit..c[1] * unit).collect()
}

fn combo_random<C: Combo>(sink: &mut Sink, rng: &mut Rng, thorough: bool) {
  let max_depth = <C::Q as MocQty<C::T>>::MAX_DEPTH;
  let n = if thorough { 6_000 } else { 500 };
  for i in 0..n {
    let da = rng.below(max_depth as u64 + 1) as u8;
    let db = if rng.chance(1, 2) { da } else { rng.below(max_depth as u64 + 1) as u8 };
    let a = random_moc_ranges::<C::T, C::Q>(rng, da, 20);
    let b = if rng.chance(1, 2) { related::<C>(rng, db, &a) } else { random_moc_ranges::<C::T, C::Q>(rng, db, 20) };
    eager_pair::<C>(sink, da, &a, db, &b);
    lazy_pair::<C>(sink, rng, da, &a, db, &b);
    if i % 4 == 0 {
      let nds = [rng.below(max_depth as u64 + 1) as u8, da.saturating_sub(1), da, 0];
      eager_unary::<C>(sink, da, &a, &nds);
      lazy_unary::<C>(sink, rng, da, &a, &nds);
    }
  }
}

pub fn run(sink: &mut Sink, rng: &mut Rng, thorough: bool) {
  // (A) plain primitives, exhaustive over a 6-cell (quick) / 7-cell (thorough) universe: every ordered pair
  let k: u32 = if thorough { 7 } else { 6 };
  for ma in 0..(1u64 << k) {
    let a = ranges_of_mask(ma, k, 1);
    for mb in 0..(1u64 << k) {
      let b = ranges_of_mask(mb, k, 1);
      primitives(sink, &a, &b, k as u64);
    }
  }
  // unsorted / overlapping input of `Ranges::new_from`
  for _ in 0..(if thorough { 20_000 } else { 2_000 }) {
    let n = rng.below(7);
    let rs: Vec<Range<u64>> = (0..n)
      .map(|_| {
        let s = rng.below(12);
        s..s + 1 + rng.below(5)
      })
      .collect();
    let ans = guarded(AssertUnwindSafe(|| fmt_t(&Ranges::<u64>::new_from(rs.clone()))));
    sink.emit(&format!("p_newfrom {}", fmt_ranges(&rs)), &ans, n > 1);
  }
  // (B) small scope per (quantity, width)
  for_all_combos!(combo_small, sink, rng, thorough);
  // (C) boundary-biased random, all depths
  for_all_combos!(combo_random, sink, rng, thorough);
}
