//! The (index type, quantity) combinations and the kinds of streaming sources the real code offers.
use std::io::Cursor;
use std::marker::PhantomData;
use std::ops::Range;

use moc::deser::fits::{from_fits_ivoa, MocIdxType, MocQtyType, MocType, RangeMocIterFromFits};
use moc::idx::Idx;
use moc::moc::{CellMOCIntoIterator, CellOrCellRangeMOCIntoIterator};
use moc::moc::builder::fixed_depth::OwnedOrderedFixedDepthCellsToRanges;
use moc::moc::range::RangeMOC;
use moc::moc::{
  CellMOCIterator, CellOrCellRangeMOCIterator, HasMaxDepth, MOCProperties, NonOverlapping, RangeMOCIntoIterator,
  RangeMOCIterator, ZSorted,
};
use moc::qty::{Frequency, Hpx, MocQty, Time};

use crate::gen::{moc_ranges_u64, to_u64_ranges};
use crate::util::{fmt_hint, fmt_opt_range, fmt_ranges};

pub type FitsIt<T, Q> = RangeMocIterFromFits<T, Q, Cursor<Vec<u8>>>;

/// One (index width, quantity) instantiation of the generic code.
pub trait Combo: 'static {
  type T: Idx;
  type Q: MocQty<Self::T>;
  const QNAME: &'static str;
  const W: u32;
  fn fits_ranges(bytes: Vec<u8>) -> Option<FitsIt<Self::T, Self::Q>>;
}

macro_rules! combo {
  ($name:ident, $t:ty, $q:ident, $qname:expr, $w:expr, $idx:ident, $qty:ident) => {
    pub struct $name;
    impl Combo for $name {
      type T = $t;
      type Q = $q<$t>;
      const QNAME: &'static str = $qname;
      const W: u32 = $w;
      fn fits_ranges(bytes: Vec<u8>) -> Option<FitsIt<$t, $q<$t>>> {
        match from_fits_ivoa(Cursor::new(bytes)) {
          Ok(MocIdxType::$idx(MocQtyType::$qty(MocType::Ranges(it)))) => Some(it),
          _ => None,
        }
      }
    }
  };
}
combo!(H16, u16, Hpx, "hpx", 16, U16, Hpx);
combo!(H32, u32, Hpx, "hpx", 32, U32, Hpx);
combo!(H64, u64, Hpx, "hpx", 64, U64, Hpx);
combo!(T16, u16, Time, "time", 16, U16, Time);
combo!(T32, u32, Time, "time", 32, U32, Time);
combo!(T64, u64, Time, "time", 64, U64, Time);
combo!(F16, u16, Frequency, "freq", 16, U16, Freq);
combo!(F32, u32, Frequency, "freq", 32, U32, Freq);
combo!(F64, u64, Frequency, "freq", 64, U64, Freq);

/// Call a generic function for every combination.
#[macro_export]
macro_rules! for_all_combos {
  ($f:ident, $($arg:expr),*) => {{
    $f::<$crate::srcs::H16>($($arg),*);
    $f::<$crate::srcs::H32>($($arg),*);
    $f::<$crate::srcs::H64>($($arg),*);
    $f::<$crate::srcs::T16>($($arg),*);
    $f::<$crate::srcs::T32>($($arg),*);
    $f::<$crate::srcs::T64>($($arg),*);
    $f::<$crate::srcs::F16>($($arg),*);
    $f::<$crate::srcs::F32>($($arg),*);
    $f::<$crate::srcs::F64>($($arg),*);
  }};
}

/// Object-safe view of a `RangeMOCIterator` (forwards *every* hint unchanged).
pub trait DynRangeIt<T: Idx> {
  fn dyn_next(&mut self) -> Option<Range<T>>;
  fn dyn_size_hint(&self) -> (usize, Option<usize>);
  fn dyn_peek_last(&self) -> Option<&Range<T>>;
  fn dyn_depth_max(&self) -> u8;
}
impl<T: Idx, I: RangeMOCIterator<T>> DynRangeIt<T> for I {
  fn dyn_next(&mut self) -> Option<Range<T>> {
    self.next()
  }
  fn dyn_size_hint(&self) -> (usize, Option<usize>) {
    self.size_hint()
  }
  fn dyn_peek_last(&self) -> Option<&Range<T>> {
    self.peek_last()
  }
  fn dyn_depth_max(&self) -> u8 {
    self.depth_max()
  }
}

/// A boxed `RangeMOCIterator`, so that operator trees of any shape have one Rust type.
pub struct BoxIt<'a, T: Idx, Q: MocQty<T>>(pub Box<dyn DynRangeIt<T> + 'a>, PhantomData<Q>);
impl<'a, T: Idx, Q: MocQty<T>> BoxIt<'a, T, Q> {
  pub fn new<I: RangeMOCIterator<T, Qty = Q> + 'a>(it: I) -> Self {
    BoxIt(Box::new(it), PhantomData)
  }
}
impl<'a, T: Idx, Q: MocQty<T>> HasMaxDepth for BoxIt<'a, T, Q> {
  fn depth_max(&self) -> u8 {
    self.0.dyn_depth_max()
  }
}
impl<'a, T: Idx, Q: MocQty<T>> ZSorted for BoxIt<'a, T, Q> {}
impl<'a, T: Idx, Q: MocQty<T>> NonOverlapping for BoxIt<'a, T, Q> {}
impl<'a, T: Idx, Q: MocQty<T>> MOCProperties for BoxIt<'a, T, Q> {}
impl<'a, T: Idx, Q: MocQty<T>> Iterator for BoxIt<'a, T, Q> {
  type Item = Range<T>;
  fn next(&mut self) -> Option<Range<T>> {
    self.0.dyn_next()
  }
  fn size_hint(&self) -> (usize, Option<usize>) {
    self.0.dyn_size_hint()
  }
}
impl<'a, T: Idx, Q: MocQty<T>> RangeMOCIterator<T> for BoxIt<'a, T, Q> {
  type Qty = Q;
  fn peek_last(&self) -> Option<&Range<T>> {
    self.0.dyn_peek_last()
  }
}

pub const N_KINDS: u64 = 9;
pub const KIND_NAMES: [&str; 9] = ["owned", "borrowed", "cells-adapter", "cellranges-adapter", "fits-stream", "builder-iter", "ascii-parsed-borrowed", "json-parsed-borrowed", "user-cells-with-hint"];

/// A user implementation of the public `CellMOCIterator` trait over a vector of cells which, unlike the
/// crate's own cell iterators, forwards the (exact) size hint of the vector iterator.
pub struct HintedCells<T: Idx, Q: MocQty<T>> {
  depth: u8,
  last: Option<moc::elem::cell::Cell<T>>,
  it: std::vec::IntoIter<moc::elem::cell::Cell<T>>,
  _q: PhantomData<Q>,
}
impl<T: Idx, Q: MocQty<T>> HasMaxDepth for HintedCells<T, Q> {
  fn depth_max(&self) -> u8 {
    self.depth
  }
}
impl<T: Idx, Q: MocQty<T>> ZSorted for HintedCells<T, Q> {}
impl<T: Idx, Q: MocQty<T>> NonOverlapping for HintedCells<T, Q> {}
impl<T: Idx, Q: MocQty<T>> MOCProperties for HintedCells<T, Q> {}
impl<T: Idx, Q: MocQty<T>> Iterator for HintedCells<T, Q> {
  type Item = moc::elem::cell::Cell<T>;
  fn next(&mut self) -> Option<Self::Item> {
    self.it.next()
  }
  fn size_hint(&self) -> (usize, Option<usize>) {
    self.it.size_hint()
  }
}
impl<T: Idx, Q: MocQty<T>> CellMOCIterator<T> for HintedCells<T, Q> {
  type Qty = Q;
  fn peek_last(&self) -> Option<&moc::elem::cell::Cell<T>> {
    self.last.as_ref()
  }
}

/// Build a source of the given kind over `moc`.
pub fn make_src<'a, C: Combo>(kind: u64, moc: &'a RangeMOC<C::T, C::Q>) -> BoxIt<'a, C::T, C::Q> {
  match kind {
    0 => BoxIt::new(moc.clone().into_range_moc_iter()),
    1 => BoxIt::new(moc.into_range_moc_iter()),
    2 => BoxIt::new(moc.into_range_moc_iter().cells().ranges()),
    3 => BoxIt::new(moc.into_range_moc_iter().cells().cellranges().ranges()),
    4 => {
      let mut buf: Vec<u8> = Vec::new();
      moc
        .into_range_moc_iter()
        .to_fits_ivoa(None, None, &mut buf)
        .expect("in-memory FITS write");
      BoxIt::new(C::fits_ranges(buf).expect("in-memory FITS read"))
    }
    6 => {
      // a MOC parsed from ASCII (cells and cell ranges kept in memory), BORROWED and read back as ranges: the
      // borrowed element iterator advertises an exact size hint (the parsed value is leaked: it must outlive
      // the boxed iterator)
      let mut txt: Vec<u8> = Vec::new();
      moc.into_range_moc_iter().cells().cellranges().to_ascii_ivoa(None, false, &mut txt).expect("in-memory ASCII write");
      let parsed = moc::deser::ascii::from_ascii_ivoa::<C::T, C::Q>(std::str::from_utf8(&txt).unwrap()).expect("in-memory ASCII read");
      let leaked: &'static moc::moc::cellcellrange::CellOrCellRangeMOC<C::T, C::Q> = Box::leak(Box::new(parsed));
      BoxIt::new(leaked.into_cellcellrange_moc_iter().ranges())
    }
    7 => {
      // the same through JSON (cells only)
      let mut txt: Vec<u8> = Vec::new();
      moc.into_range_moc_iter().cells().to_json_aladin(None, &mut txt).expect("in-memory JSON write");
      let parsed = moc::deser::json::from_json_aladin::<C::T, C::Q>(std::str::from_utf8(&txt).unwrap()).expect("in-memory JSON read");
      let leaked: &'static moc::moc::cell::CellMOC<C::T, C::Q> = Box::leak(Box::new(parsed));
      BoxIt::new(leaked.into_cell_moc_iter().ranges())
    }
    8 => {
      let cells: Vec<moc::elem::cell::Cell<C::T>> = moc.into_range_moc_iter().cells().collect();
      BoxIt::new(
        HintedCells::<C::T, C::Q> { depth: moc.depth_max(), last: cells.last().cloned(), it: cells.into_iter(), _q: PhantomData }
          .ranges(),
      )
    }
    _ => {
      let cells: Vec<C::T> = moc.flatten_to_fixed_depth_cells().collect();
      BoxIt::new(OwnedOrderedFixedDepthCellsToRanges::<C::T, C::Q, _>::new(
        moc.depth_max(),
        cells.into_iter(),
      ))
    }
  }
}

/// `S:<depth>:<ranges>:<last>:<hint0>;<hint1>;<hint2>` — the source as the model sees it: the ranges it
/// yields and the hints this kind of source advertises at creation and after 1 and 2 `next()`.
pub fn describe_src<C: Combo>(kind: u64, moc: &RangeMOC<C::T, C::Q>) -> String {
  let s0 = make_src::<C>(kind, moc);
  let depth = s0.depth_max();
  let last = s0.peek_last().map(|r| r.start.to_u64()..r.end.to_u64());
  let h0 = s0.size_hint();
  let mut s1 = make_src::<C>(kind, moc);
  s1.next();
  let h1 = s1.size_hint();
  s1.next();
  let h2 = s1.size_hint();
  let items: Vec<Range<C::T>> = s0.collect();
  format!(
    "S:{}:{}:{}:{};{};{}",
    depth,
    fmt_ranges(&to_u64_ranges(&items)),
    fmt_opt_range(last),
    fmt_hint(h0),
    fmt_hint(h1),
    fmt_hint(h2)
  )
}

/// Result of a lazy operator as the model prints it: `depth|ranges|last|lo/hi` (hints at creation).
pub fn describe_result<T: Idx, I: RangeMOCIterator<T>>(it: I) -> String {
  let depth = it.depth_max();
  let last = it.peek_last().map(|r| r.start.to_u64()..r.end.to_u64());
  let h = it.size_hint();
  let items: Vec<Range<T>> = it.collect();
  format!(
    "{}|{}|{}|{}",
    depth,
    fmt_ranges(&to_u64_ranges(&items)),
    fmt_opt_range(last),
    fmt_hint(h)
  )
}

pub fn describe_moc<T: Idx, Q: MocQty<T>>(m: &RangeMOC<T, Q>) -> String {
  format!("{}|{}", m.depth_max(), fmt_ranges(&moc_ranges_u64(m)))
}
