//! Structured MOC generators: exhaustive small scope + boundary-biased random.
use std::ops::Range;

use moc::idx::Idx;
use moc::moc::range::RangeMOC;
use moc::qty::MocQty;
use moc::ranges::Ranges;

use crate::util::Rng;

pub fn to_u64_ranges<T: Idx>(rs: &[Range<T>]) -> Vec<Range<u64>> {
  rs.iter().map(|r| r.start.to_u64()..r.end.to_u64()).collect()
}
pub fn from_u64_ranges<T: Idx>(rs: &[Range<u64>]) -> Vec<Range<T>> {
  rs.iter().map(|r| T::from_u64(r.start)..T::from_u64(r.end)).collect()
}
pub fn moc_ranges_u64<T: Idx, Q: MocQty<T>>(m: &RangeMOC<T, Q>) -> Vec<Range<u64>> {
  to_u64_ranges(&m.moc_ranges().0 .0)
}
pub fn mk_moc<T: Idx, Q: MocQty<T>>(depth: u8, rs: &[Range<u64>]) -> RangeMOC<T, Q> {
  RangeMOC::new(depth, Ranges::new_unchecked(from_u64_ranges::<T>(rs)).into())
}

pub fn cell_size<T: Idx, Q: MocQty<T>>(depth: u8) -> u64 {
  1u64 << (Q::shift_from_depth_max(depth) as u32)
}
pub fn n_cells<T: Idx, Q: MocQty<T>>(depth: u8) -> u64 {
  Q::n_cells(depth).to_u64()
}
pub fn n_cells_max<T: Idx, Q: MocQty<T>>() -> u64 {
  Q::n_cells_max().to_u64()
}

/// Canonical ranges of the set of depth-`depth` cells selected by `mask` (bit i = cell i),
/// the universe being the first `k` cells of that depth scaled by `unit` deepest-level indices.
pub fn ranges_of_mask(mask: u64, k: u32, unit: u64) -> Vec<Range<u64>> {
  let mut out: Vec<Range<u64>> = Vec::new();
  let mut i = 0;
  while i < k {
    if mask >> i & 1 == 1 {
      let s = i;
      while i < k && mask >> i & 1 == 1 {
        i += 1;
      }
      out.push(s as u64 * unit..i as u64 * unit);
    } else {
      i += 1;
    }
  }
  out
}

/// Shape classes used in the evidence distribution.
pub fn shape_class(rs: &[Range<u64>], ub: u64) -> &'static str {
  if rs.is_empty() {
    "empty"
  } else if rs.len() == 1 && rs[0].start == 0 && rs[0].end == ub {
    "full"
  } else if rs[0].start == 0 && rs[rs.len() - 1].end == ub {
    "touch-both-bounds"
  } else if rs[0].start == 0 {
    "touch-0"
  } else if rs[rs.len() - 1].end == ub {
    "touch-max"
  } else {
    "interior"
  }
}

/// Relative position class of two MOCs (selects the branch families of the two-pointer loops).
pub fn pair_class(a: &[Range<u64>], b: &[Range<u64>]) -> &'static str {
  if a.is_empty() || b.is_empty() {
    return "one-empty";
  }
  if a == b {
    return "equal";
  }
  let (a0, a1) = (a[0].start, a[a.len() - 1].end);
  let (b0, b1) = (b[0].start, b[b.len() - 1].end);
  if a1 < b0 || b1 < a0 {
    return "separated";
  }
  if a1 == b0 || b1 == a0 {
    return "adjacent";
  }
  // any shared bound?
  let mut touching = false;
  let mut overlap = false;
  for x in a {
    for y in b {
      if x.end == y.start || y.end == x.start {
        touching = true;
      }
      if x.start < y.end && y.start < x.end {
        overlap = true;
      }
    }
  }
  match (overlap, touching) {
    (true, true) => "overlap+touch",
    (true, false) => "overlap",
    (false, true) => "interleaved-touch",
    (false, false) => "interleaved",
  }
}

/// Boundary-biased random canonical MOC at `depth`: bounds drawn from a pool of interesting cell
/// indices (0, 1, n-1, n, neighbours of already used values, powers of the cell arity) or uniform.
pub fn random_moc_ranges<T: Idx, Q: MocQty<T>>(rng: &mut Rng, depth: u8, max_ranges: usize) -> Vec<Range<u64>> {
  let n = n_cells::<T, Q>(depth);
  let unit = cell_size::<T, Q>(depth);
  let nb = 2 * (rng.below(max_ranges as u64 + 1) as usize);
  let mut pool: Vec<u64> = vec![0, 1, 2, n, n - 1, n.saturating_sub(2), n / 2, n / 2 + 1, n / 3];
  let mut bounds: Vec<u64> = Vec::with_capacity(nb);
  for _ in 0..nb {
    let v = match rng.below(10) {
      0..=3 => *rng.pick(&pool),
      4..=5 => {
        // a power of the arity (coarser-cell boundary)
        let sh = rng.below(64 - (n.leading_zeros() as u64)) as u32;
        (1u64 << sh).min(n)
      }
      6 => rng.below(n.min(64) + 1),
      _ => rng.below(n + 1),
    };
    let v = v.min(n);
    bounds.push(v);
    pool.push(v.saturating_sub(1));
    pool.push((v + 1).min(n));
    pool.push(v);
  }
  bounds.sort_unstable();
  bounds.dedup();
  if bounds.len() % 2 == 1 {
    bounds.pop();
  }
  bounds.chunks(2).map(|c| c[0] * unit..c[1] * unit).collect()
}
