//! C03 — membership, containment, overlap and measure queries agree with the covered set.
use std::ops::Range;
use std::panic::AssertUnwindSafe;

use moc::elem::range::MocRange;
use moc::idx::Idx;
use moc::mom::{HpxMOMIterator, HpxMomIter};
use moc::moc::range::RangeMOC;
use moc::moc::RangeMOCIterator;
use moc::qty::{Hpx, MocQty};
use moc::ranges::{Ranges, SNORanges};

use crate::c01::related;
use crate::gen::*;
use crate::srcs::*;
use crate::util::*;

fn ranges_t<T: Idx>(rs: &[Range<u64>]) -> Ranges<T> {
  Ranges::new_unchecked(from_u64_ranges::<T>(rs))
}
fn b(x: bool) -> String {
  (if x { "true" } else { "false" }).to_string()
}
fn bits(x: f64) -> String {
  x.to_bits().to_string()
}

/// Position class of a query range relative to the MOC (for the evidence distribution).
fn range_class(l: &[Range<u64>], x: &Range<u64>) -> &'static str {
  if l.is_empty() {
    return "moc-empty";
  }
  if x.start >= l[l.len() - 1].end {
    return "beyond-last";
  }
  if x.end <= l[0].start {
    return "before-first";
  }
  let on_bound = l.iter().any(|r| r.start == x.start || r.end == x.start || r.start == x.end || r.end == x.end);
  let inside = l.iter().any(|r| r.start <= x.start && x.end <= r.end);
  let meets = l.iter().any(|r| r.start < x.end && x.start < r.end);
  match (inside, meets, on_bound) {
    (true, _, true) => "inside-on-bound",
    (true, _, false) => "inside",
    (false, true, true) => "straddling-on-bound",
    (false, true, false) => "straddling",
    (false, false, true) => "gap-adjacent",
    (false, false, false) => "gap",
  }
}

fn point_and_range_queries(sink: &mut Sink, l: &[Range<u64>], points: &[u64], ranges: &[Range<u64>]) {
  let fl = fmt_ranges(l);
  let rl = ranges_t::<u64>(l);
  for x in points {
    let ans = guarded(AssertUnwindSafe(|| b(rl.contains_val(x))));
    sink.emit(&format!("q_cv {} {}", fl, x), &ans, !l.is_empty());
  }
  for x in ranges {
    sink.count(&format!("query:{}", range_class(l, x)));
    let ans = guarded(AssertUnwindSafe(|| b(rl.contains_range(x))));
    sink.emit(&format!("q_cr {} {}-{}", fl, x.start, x.end), &ans, !l.is_empty());
    let ans = guarded(AssertUnwindSafe(|| b(rl.intersects_range(x))));
    sink.emit(&format!("q_ir {} {}-{}", fl, x.start, x.end), &ans, !l.is_empty());
    let ans = guarded(AssertUnwindSafe(|| bits(rl.range_fraction(x))));
    sink.emit(&format!("q_frac {} {}-{}", fl, x.start, x.end), &ans, !l.is_empty());
  }
  let ans = guarded(AssertUnwindSafe(|| rl.range_sum().to_string()));
  sink.emit(&format!("q_sum {}", fl), &ans, !l.is_empty());
}

fn pair_queries<C: Combo>(sink: &mut Sink, d: u8, l: &[Range<u64>], r: &[Range<u64>]) {
  let (fl, fr) = (fmt_ranges(l), fmt_ranges(r));
  let (ml, mr): (RangeMOC<C::T, C::Q>, RangeMOC<C::T, C::Q>) = (mk_moc(d, l), mk_moc(d, r));
  let nontrivial = !(l.is_empty() && r.is_empty());
  sink.count(&format!("pair:{}", pair_class(l, r)));
  let ans = guarded(AssertUnwindSafe(|| b(ml.moc_ranges().intersects(mr.moc_ranges()))));
  sink.emit(&format!("q_int {} {}", fl, fr), &ans, nontrivial);
  let ans = guarded(AssertUnwindSafe(|| b(ml.moc_ranges().contains(mr.moc_ranges()))));
  sink.emit(&format!("q_sub {} {}", fl, fr), &ans, nontrivial);
  let ans = guarded(AssertUnwindSafe(|| {
    let v: Vec<Range<C::T>> = ml.overlapped_by_iter(&mr).collect();
    fmt_ranges(&to_u64_ranges(&v))
  }));
  sink.emit(&format!("q_ovl {} {}", fl, fr), &ans, nontrivial);
  // the iterator behind `overlapped_by_iter` is a RangeMOCIterator: its hints are judged against what it then
  // yields (at creation and after 1 and 2 `next()`), and the serialiser fed by it (size-hint driven fast path)
  // must write exactly those ranges
  for k in 0..3usize {
    let line = std::panic::catch_unwind(AssertUnwindSafe(|| {
      let mut it = ml.overlapped_by_iter(&mr);
      for _ in 0..k {
        it.next();
      }
      let last = it.peek_last().map(|r| r.start.to_u64()..r.end.to_u64());
      let h = it.size_hint();
      let rest: Vec<Range<C::T>> = it.collect();
      format!("{} {} {} {}", if k == 0 { "hintok0" } else { "hintok" }, fmt_ranges(&to_u64_ranges(&rest)), crate::util::fmt_opt_range(last), crate::util::fmt_hint(h))
    }));
    if let Ok(line) = line {
      sink.count("hint-node:overlapped_by");
      sink.emit(&line, "true", nontrivial);
    }
  }
  let ans = guarded(AssertUnwindSafe(|| {
    let mut buf = Vec::new();
    match ml.overlapped_by_iter(&mr).to_fits_ivoa(None, None, &mut buf) {
      Ok(()) => match C::fits_ranges(buf) {
        Some(it) => fmt_ranges(&to_u64_ranges(&it.collect::<Vec<Range<C::T>>>())),
        None => "err:unreadable".to_string(),
      },
      Err(e) => format!("err:{}", e.to_string().replace(' ', "_")),
    }
  }));
  sink.emit(&format!("q_ovl {} {}", fl, fr), &ans, nontrivial);
}

fn cell_queries<C: Combo>(sink: &mut Sink, rng: &mut Rng, d: u8, l: &[Range<u64>], n_cells_q: usize) {
  let (q, w) = (C::QNAME, C::W);
  let fl = fmt_ranges(l);
  let m: RangeMOC<C::T, C::Q> = mk_moc(d, l);
  let max_depth = <C::Q as MocQty<C::T>>::MAX_DEPTH;
  let ans = guarded(AssertUnwindSafe(|| m.n_depth_max_cells().to_u64().to_string()));
  sink.emit(&format!("q_ndmc {} {} {} {}", q, w, d, fl), &ans, !l.is_empty());
  let ans = guarded(AssertUnwindSafe(|| bits(m.coverage_percentage())));
  sink.emit(&format!("q_cov {} {} {}", q, w, fl), &ans, !l.is_empty());
  // first / last index of the MOC (`last_index` is the exclusive end of the last range) and equality of the ranges
  let ans = guarded(AssertUnwindSafe(|| {
    let same_ranges_other_depth: RangeMOC<C::T, C::Q> = mk_moc(max_depth, l);
    format!("{}|{}|{}|{}",
      m.first_index().map(|x| x.to_u64().to_string()).unwrap_or("_".into()),
      m.last_index().map(|x| x.to_u64().to_string()).unwrap_or("_".into()),
      m.eq_without_depth(&same_ranges_other_depth), m.eq_without_depth(&m.complement()))
  }));
  sink.emit(&format!("q_fl {}", fl), &ans, !l.is_empty());
  // the smallest depth at which the ranges are a union of whole cells
  let ans = guarded(AssertUnwindSafe(|| m.moc_ranges().compute_min_depth().to_string()));
  sink.emit(&format!("q_mindepth {} {} {}", q, w, fl), &ans, !l.is_empty());
  // cells around the bounds of the MOC, at depths shallower / equal / deeper than the MOC depth
  let mut bounds: Vec<u64> = l.iter().flat_map(|r| [r.start, r.end]).collect();
  bounds.push(0);
  bounds.push(n_cells_max::<C::T, C::Q>());
  for _ in 0..n_cells_q {
    let cd = rng.below(max_depth as u64 + 1) as u8;
    let sh = <C::Q as MocQty<C::T>>::shift_from_depth_max(cd) as u32;
    let nn = n_cells::<C::T, C::Q>(cd);
    let bnd = *rng.pick(&bounds);
    let idx = ((bnd >> sh) + rng.below(3)).saturating_sub(1).min(nn - 1);
    let ti = <C::T as Idx>::from_u64(idx);
    let cr = MocRange::<C::T, C::Q>::from((cd, ti)).0;
    sink.count(&format!("query:{}", range_class(l, &(cr.start.to_u64()..cr.end.to_u64()))));
    let ans = guarded(AssertUnwindSafe(|| b(m.contains_cell(cd, ti))));
    sink.emit(&format!("q_cc {} {} {} {} {}", q, w, fl, cd, idx), &ans, !l.is_empty());
    let ans = guarded(AssertUnwindSafe(|| bits(m.cell_fraction(cd, ti))));
    sink.emit(&format!("q_cellfrac {} {} {} {} {}", q, w, fl, cd, idx), &ans, !l.is_empty());
    if cd == d {
      let ans = guarded(AssertUnwindSafe(|| b(m.contains_depth_max_val(&ti))));
      sink.emit(&format!("q_cdmv {} {} {} {} {}", q, w, d, fl, idx), &ans, !l.is_empty());
    }
  }
}

/// Weighted sum of a multi-order map over an Hpx MOC (values: small integers => exact sums).
fn mom_queries(sink: &mut Sink, rng: &mut Rng, d: u8, l: &[Range<u64>]) {
  let m: RangeMOC<u64, Hpx<u64>> = mk_moc(d, l);
  let n = 1 + rng.below(6) as usize;
  let mut toks = String::new();
  let mut cells: Vec<(u64, f64)> = Vec::new();
  for _ in 0..n {
    let cd = rng.below(4) as u8;
    let idx = rng.below(12u64 << (2 * cd));
    let v = 1 + rng.below(8);
    toks.push_str(&format!(" {}/{}/{}", cd, idx, v));
    cells.push((Hpx::<u64>::uniq_hpx(cd, idx), v as f64));
  }
  let ans = guarded(AssertUnwindSafe(|| {
    let it: HpxMomIter<u64, Hpx<u64>, f64, _> = HpxMomIter::new(cells.clone().into_iter());
    bits(it.sum_values_in_hpxmoc(&m))
  }));
  sink.emit(&format!("q_mom hpx 64 {}{}", fmt_ranges(l), toks), &ans, !l.is_empty());
}

fn combo<C: Combo>(sink: &mut Sink, rng: &mut Rng, thorough: bool) {
  let max_depth = <C::Q as MocQty<C::T>>::MAX_DEPTH;
  // whole-domain small scope
  let d0 = if C::QNAME == "hpx" { 0 } else { 2 };
  let k = n_cells::<C::T, C::Q>(d0) as u32;
  let unit = cell_size::<C::T, C::Q>(d0);
  let n_mocs = 1u64 << k;
  let stride = if thorough { 1 } else if n_mocs > 256 { 37 } else { 3 };
  let mut mi = 0;
  while mi < n_mocs {
    let l = ranges_of_mask(mi, k, unit);
    cell_queries::<C>(sink, rng, d0, &l, 6);
    let other = ranges_of_mask(rng.below(n_mocs), k, unit);
    pair_queries::<C>(sink, d0, &l, &other);
    pair_queries::<C>(sink, d0, &l, &[]);
    pair_queries::<C>(sink, d0, &[], &l);
    mi += stride;
  }
  // random deep
  let n = if thorough { 9000 } else { 250 };
  for _ in 0..n {
    let d = rng.below(max_depth as u64 + 1) as u8;
    let l = random_moc_ranges::<C::T, C::Q>(rng, d, 12);
    let r = if rng.chance(1, 2) { related::<C>(rng, d, &l) } else { random_moc_ranges::<C::T, C::Q>(rng, d, 12) };
    cell_queries::<C>(sink, rng, d, &l, 8);
    pair_queries::<C>(sink, d, &l, &r);
    // point / range queries on and around the bounds
    let mut bounds: Vec<u64> = l.iter().chain(r.iter()).flat_map(|r| [r.start, r.end]).collect();
    bounds.push(0);
    bounds.push(n_cells_max::<C::T, C::Q>());
    let ub = n_cells_max::<C::T, C::Q>();
    let mut points = Vec::new();
    let mut qranges = Vec::new();
    for _ in 0..6 {
      let p = *rng.pick(&bounds);
      points.push((p + rng.below(3)).saturating_sub(1).min(ub));
      let a = (*rng.pick(&bounds) + rng.below(3)).saturating_sub(1).min(ub - 1);
      let bb = (*rng.pick(&bounds) + rng.below(3)).saturating_sub(1).min(ub);
      if a < bb {
        qranges.push(a..bb);
      } else if bb < a {
        qranges.push(bb..a);
      }
    }
    if C::W == 64 {
      point_and_range_queries(sink, &l, &points, &qranges);
      if C::QNAME == "hpx" {
        mom_queries(sink, rng, d, &l);
      }
    }
  }
}

pub fn run(sink: &mut Sink, rng: &mut Rng, thorough: bool) {
  // exhaustive: every canonical set over a 6-cell universe (cell = 2 indices, so that bounds and
  // interior points differ) x EVERY point and EVERY non-empty range of the universe
  let k = 6u32;
  let ub = 2 * k as u64 + 1;
  let points: Vec<u64> = (0..=ub).collect();
  let mut ranges = Vec::new();
  for a in 0..ub {
    for bb in (a + 1)..=ub {
      ranges.push(a..bb);
    }
  }
  for m in 0..(1u64 << k) {
    let l = ranges_of_mask(m, k, 2);
    point_and_range_queries(sink, &l, &points, &ranges);
  }
  let kk = if thorough { 7 } else { 6 };
  for ma in 0..(1u64 << kk) {
    let a = ranges_of_mask(ma, kk, 1);
    for mb in 0..(1u64 << kk) {
      let bb = ranges_of_mask(mb, kk, 1);
      pair_queries::<T64>(sink, 61, &a, &bb);
    }
  }
  for_all_combos!(combo, sink, rng, thorough);
}
