//! C02 — every produced MOC is canonical.
//! `expr_e` / `expr_l`: random operator trees evaluated by the real eager methods / lazy iterators;
//! `valid q w d rs` with expected answer `true` for EVERY intermediate and final result and for the
//! outputs of constructors, builders, adapters and geometry constructors (the Lean `validB`, proved
//! equivalent to `Valid`, is the judge).
use std::ops::Range;
use std::panic::AssertUnwindSafe;

use moc::moc::range::{CellSelection, RangeMOC};
use moc::moc::{CellMOCIterator, CellOrCellRangeMOCIterator, HasMaxDepth, RangeMOCIntoIterator, RangeMOCIterator};
use moc::qty::{Hpx, MocQty};

use crate::c01::related;
use crate::gen::*;
use crate::srcs::*;
use crate::util::*;

pub enum Tree {
  Leaf(usize),
  And(Box<Tree>, Box<Tree>),
  Or(Box<Tree>, Box<Tree>),
  Xor(Box<Tree>, Box<Tree>),
  Minus(Box<Tree>, Box<Tree>),
  Not(Box<Tree>),
  Degrade(u8, Box<Tree>),
}

pub struct Leaves<C: Combo> {
  pub mocs: Vec<RangeMOC<C::T, C::Q>>,
  pub kinds: Vec<u64>,
}

pub fn gen_tree<C: Combo>(rng: &mut Rng, height: u32, leaves: &mut Leaves<C>, small: bool) -> Tree {
  let max_depth = <C::Q as MocQty<C::T>>::MAX_DEPTH;
  if height == 0 || rng.chance(1, 5) {
    let (d, rs) = if small {
      let d0 = if C::QNAME == "hpx" { 0 } else { 2 };
      let k = n_cells::<C::T, C::Q>(d0) as u32;
      let unit = cell_size::<C::T, C::Q>(d0);
      let mask = rng.below(1u64 << k);
      (d0 + rng.below(3) as u8, ranges_of_mask(mask, k, unit))
    } else {
      let d = rng.below(max_depth as u64 + 1) as u8;
      let rs = if !leaves.mocs.is_empty() && rng.chance(1, 2) {
        let prev = moc_ranges_u64(&leaves.mocs[rng.below(leaves.mocs.len() as u64) as usize]);
        related::<C>(rng, d, &prev)
      } else {
        random_moc_ranges::<C::T, C::Q>(rng, d, 8)
      };
      (d, rs)
    };
    let m: RangeMOC<C::T, C::Q> = mk_moc(d, &rs);
    let mut kind = rng.below(N_KINDS);
    if kind == 5 && m.n_depth_max_cells().to_u64_idx_safe() > 4096 {
      kind = 1;
    }
    leaves.mocs.push(m);
    leaves.kinds.push(kind);
    return Tree::Leaf(leaves.mocs.len() - 1);
  }
  // 1 in 6: a binary operator over `degrade(leaf A)` and a leaf related to A (touching / just after /
  // just before A), in either order: hint-driven fast paths fed by an adapter that changes the ranges
  if !small && rng.chance(1, 6) {
    let d = 1 + rng.below(max_depth as u64) as u8;
    let a = random_moc_ranges::<C::T, C::Q>(rng, d, 4);
    let db = rng.below(max_depth as u64 + 1) as u8;
    let b = related::<C>(rng, db, &a);
    let nd = rng.below(d as u64) as u8;
    for (dd, rs) in [(d, a), (db, b)] {
      let m: RangeMOC<C::T, C::Q> = mk_moc(dd, &rs);
      let mut kind = rng.below(N_KINDS);
      if kind == 5 && m.n_depth_max_cells().to_u64_idx_safe() > 4096 {
        kind = 1;
      }
      leaves.mocs.push(m);
      leaves.kinds.push(kind);
    }
    let ia = leaves.mocs.len() - 2;
    let x = Box::new(Tree::Degrade(nd, Box::new(Tree::Leaf(ia))));
    let y = Box::new(Tree::Leaf(ia + 1));
    let (x, y) = if rng.chance(1, 2) { (x, y) } else { (y, x) };
    return match rng.below(4) {
      0 => Tree::And(x, y),
      1 => Tree::Or(x, y),
      2 => Tree::Xor(x, y),
      _ => Tree::Minus(x, y),
    };
  }
  // 1 in 6: a binary operator over the two HALVES of one MOC cut at a random point (inside a range: the
  // halves touch exactly; at a gap: they are separated), in either order and with any leaf kinds — operands
  // with disjoint extents, the configuration every "one operand entirely before the other" fast path tests
  if rng.chance(1, 6) {
    let d = if small { if C::QNAME == "hpx" { 1 } else { 3 } } else { rng.below(max_depth as u64 + 1) as u8 };
    let unit = cell_size::<C::T, C::Q>(d);
    let whole = random_moc_ranges::<C::T, C::Q>(rng, d, 6);
    if let (Some(first), Some(last)) = (whole.first(), whole.last()) {
      let (lo_c, hi_c) = (first.start / unit, last.end / unit);
      let cut = (lo_c + rng.below(hi_c - lo_c + 1)) * unit;
      let mut low: Vec<Range<u64>> = Vec::new();
      let mut high: Vec<Range<u64>> = Vec::new();
      for r in &whole {
        if r.end <= cut { low.push(r.clone()); }
        else if r.start >= cut { high.push(r.clone()); }
        else { low.push(r.start..cut); high.push(cut..r.end); }
      }
      for rs in [low, high] {
        let m: RangeMOC<C::T, C::Q> = mk_moc(d, &rs);
        let mut kind = rng.below(N_KINDS);
        if kind == 5 && m.n_depth_max_cells().to_u64_idx_safe() > 4096 {
          kind = 1;
        }
        leaves.mocs.push(m);
        leaves.kinds.push(kind);
      }
      let il = leaves.mocs.len() - 2;
      let (x, y) = (Box::new(Tree::Leaf(il)), Box::new(Tree::Leaf(il + 1)));
      let (x, y) = if rng.chance(1, 2) { (x, y) } else { (y, x) };
      return match rng.below(5) {
        0 => Tree::And(x, y),
        1 | 2 => Tree::Or(x, y),
        3 => Tree::Xor(x, y),
        _ => Tree::Minus(x, y),
      };
    }
  }
  let mut sub = |rng: &mut Rng, leaves: &mut Leaves<C>| Box::new(gen_tree::<C>(rng, height - 1, leaves, small));
  match rng.below(8) {
    0 | 1 => {
      let a = sub(rng, leaves);
      Tree::And(a, sub(rng, leaves))
    }
    2 | 3 => {
      let a = sub(rng, leaves);
      Tree::Or(a, sub(rng, leaves))
    }
    4 => {
      let a = sub(rng, leaves);
      Tree::Xor(a, sub(rng, leaves))
    }
    5 => {
      let a = sub(rng, leaves);
      Tree::Minus(a, sub(rng, leaves))
    }
    6 => Tree::Not(sub(rng, leaves)),
    _ => {
      let nd = if small { rng.below(4) as u8 } else { rng.below(max_depth as u64 + 1) as u8 };
      Tree::Degrade(nd, sub(rng, leaves))
    }
  }
}

trait SafeU64 {
  fn to_u64_idx_safe(&self) -> u64;
}
impl<T: moc::idx::Idx> SafeU64 for T {
  fn to_u64_idx_safe(&self) -> u64 {
    moc::idx::Idx::to_u64(*self)
  }
}

pub fn tree_tokens<C: Combo>(t: &Tree, leaves: &Leaves<C>, out: &mut String) {
  match t {
    Tree::Leaf(i) => {
      out.push_str(" L ");
      out.push_str(&describe_src::<C>(leaves.kinds[*i], &leaves.mocs[*i]));
    }
    Tree::And(a, b) | Tree::Or(a, b) | Tree::Xor(a, b) | Tree::Minus(a, b) => {
      out.push_str(match t {
        Tree::And(..) => " and",
        Tree::Or(..) => " or",
        Tree::Xor(..) => " xor",
        _ => " minus",
      });
      tree_tokens::<C>(a, leaves, out);
      tree_tokens::<C>(b, leaves, out);
    }
    Tree::Not(a) => {
      out.push_str(" not");
      tree_tokens::<C>(a, leaves, out);
    }
    Tree::Degrade(nd, a) => {
      out.push_str(&format!(" deg {}", nd));
      tree_tokens::<C>(a, leaves, out);
    }
  }
}

/// Eager evaluation with the `RangeMOC` methods; every node result is pushed to `inter`.
pub fn eval_eager<C: Combo>(t: &Tree, leaves: &Leaves<C>, inter: &mut Vec<RangeMOC<C::T, C::Q>>) -> RangeMOC<C::T, C::Q> {
  let r = match t {
    Tree::Leaf(i) => leaves.mocs[*i].clone(),
    Tree::And(a, b) => eval_eager::<C>(a, leaves, inter).and(&eval_eager::<C>(b, leaves, inter)),
    Tree::Or(a, b) => eval_eager::<C>(a, leaves, inter).or(&eval_eager::<C>(b, leaves, inter)),
    Tree::Xor(a, b) => eval_eager::<C>(a, leaves, inter).xor(&eval_eager::<C>(b, leaves, inter)),
    Tree::Minus(a, b) => eval_eager::<C>(a, leaves, inter).minus(&eval_eager::<C>(b, leaves, inter)),
    Tree::Not(a) => eval_eager::<C>(a, leaves, inter).not(),
    Tree::Degrade(nd, a) => eval_eager::<C>(a, leaves, inter).degraded(*nd),
  };
  inter.push(r.clone());
  r
}

/// Lazy evaluation: the tree of streaming iterators over the leaf sources.
pub fn eval_lazy<'a, C: Combo>(t: &Tree, leaves: &'a Leaves<C>) -> BoxIt<'a, C::T, C::Q> {
  match t {
    Tree::Leaf(i) => make_src::<C>(leaves.kinds[*i], &leaves.mocs[*i]),
    Tree::And(a, b) => BoxIt::new(eval_lazy::<C>(a, leaves).and(eval_lazy::<C>(b, leaves))),
    Tree::Or(a, b) => BoxIt::new(eval_lazy::<C>(a, leaves).or(eval_lazy::<C>(b, leaves))),
    Tree::Xor(a, b) => BoxIt::new(eval_lazy::<C>(a, leaves).xor(eval_lazy::<C>(b, leaves))),
    Tree::Minus(a, b) => BoxIt::new(eval_lazy::<C>(a, leaves).minus(eval_lazy::<C>(b, leaves))),
    Tree::Not(a) => BoxIt::new(eval_lazy::<C>(a, leaves).not()),
    Tree::Degrade(nd, a) => BoxIt::new(eval_lazy::<C>(a, leaves).degrade(*nd)),
  }
}

pub fn emit_valid<C: Combo>(sink: &mut Sink, tag: &str, m: &RangeMOC<C::T, C::Q>) {
  let rs = moc_ranges_u64(m);
  sink.count(&format!("producer:{}", tag));
  sink.emit(
    &format!("valid {} {} {} {}", C::QNAME, C::W, m.depth_max(), fmt_ranges(&rs)),
    "true",
    rs.len() > 0,
  );
}

fn trees<C: Combo>(sink: &mut Sink, rng: &mut Rng, thorough: bool) {
  let n = if thorough { 12000 } else { 350 };
  let max_h = if thorough { 8 } else { 5 };
  for i in 0..n {
    let small = i % 2 == 0;
    let mut leaves: Leaves<C> = Leaves { mocs: vec![], kinds: vec![] };
    let h = 1 + rng.below(max_h) as u32;
    let t = gen_tree::<C>(rng, h, &mut leaves, small);
    let mut toks = String::new();
    tree_tokens::<C>(&t, &leaves, &mut toks);
    sink.count(&format!("tree-height:{}", h));
    sink.count(&format!("tree-leaves:{}", leaves.mocs.len().min(9)));
    let mut inter = Vec::new();
    let ans = guarded(AssertUnwindSafe(|| describe_moc(&eval_eager::<C>(&t, &leaves, &mut inter))));
    sink.emit(&format!("expr_e {} {}{}", C::QNAME, C::W, toks), &ans, leaves.mocs.len() > 1);
    for m in &inter {
      emit_valid::<C>(sink, "expr-node", m);
    }
    let ans = guarded(AssertUnwindSafe(|| {
      // the Rust `CheckedIterator` wraps the lazy result: it must not panic
      let it = eval_lazy::<C>(&t, &leaves).into_checked();
      let d = it.depth_max();
      let rs: Vec<Range<C::T>> = it.collect();
      format!("{}|{}", d, fmt_ranges(&to_u64_ranges(&rs)))
    }));
    sink.emit(&format!("expr_l {} {}{}", C::QNAME, C::W, toks), &ans, leaves.mocs.len() > 1);
  }
}

fn producers<C: Combo>(sink: &mut Sink, rng: &mut Rng, thorough: bool) {
  let max_depth = <C::Q as MocQty<C::T>>::MAX_DEPTH;
  for d in [0u8, 1, max_depth / 2, max_depth] {
    emit_valid::<C>(sink, "new_full_domain", &RangeMOC::<C::T, C::Q>::new_full_domain(d));
    emit_valid::<C>(sink, "new_empty", &RangeMOC::<C::T, C::Q>::new_empty(d));
  }
  let n = if thorough { 9000 } else { 300 };
  for _ in 0..n {
    let d = rng.below(max_depth as u64 + 1) as u8;
    let ncell = n_cells::<C::T, C::Q>(d);
    // builders fed with unsorted / duplicated / adjacent cells
    let base = rng.below(ncell);
    let len = rng.below(12) as usize;
    let cells: Vec<u64> = (0..len).map(|_| (base + rng.below(10)).min(ncell - 1)).collect();
    let cap = Some(1 + rng.below(6) as usize);
    let it = cells.iter().map(|c| <C::T as moc::idx::Idx>::from_u64(*c));
    let m = RangeMOC::<C::T, C::Q>::from_fixed_depth_cells(d, it, cap);
    emit_valid::<C>(sink, "from_fixed_depth_cells", &m);
    // (depth, idx) cells of mixed depths
    let dc: Vec<(u8, u64)> = (0..len)
      .map(|_| {
        let dd = rng.below(d as u64 + 1) as u8;
        let nn = n_cells::<C::T, C::Q>(dd);
        (dd, rng.below(nn))
      })
      .collect();
    let it = dc.iter().map(|(dd, c)| (*dd, <C::T as moc::idx::Idx>::from_u64(*c)));
    let m2 = RangeMOC::<C::T, C::Q>::from_cells(d, it, cap);
    emit_valid::<C>(sink, "from_cells", &m2);
    // arbitrary max-depth ranges (not aligned): the builder degrades them to depth d
    let ub = n_cells_max::<C::T, C::Q>();
    let rs: Vec<Range<u64>> = (0..len)
      .map(|_| {
        let s = rng.below(ub);
        let cap_len = 1u64 << rng.below(40);
        let l = 1 + rng.below((ub - s).min(cap_len));
        s..(s + l).min(ub)
      })
      .collect();
    let it = rs.iter().map(|r| <C::T as moc::idx::Idx>::from_u64(r.start)..<C::T as moc::idx::Idx>::from_u64(r.end));
    let m3 = RangeMOC::<C::T, C::Q>::from_maxdepth_ranges(d, it, cap);
    emit_valid::<C>(sink, "from_maxdepth_ranges", &m3);
    // adapters: ranges -> cells -> ranges, ranges -> cells -> cellranges -> ranges
    let m4: RangeMOC<C::T, C::Q> = (&m2).into_range_moc_iter().cells().ranges().into_range_moc();
    emit_valid::<C>(sink, "cells-adapter", &m4);
    let m5: RangeMOC<C::T, C::Q> = (&m3).into_range_moc_iter().cells().cellranges().ranges().into_range_moc();
    emit_valid::<C>(sink, "cellranges-adapter", &m5);
  }
}

/// Geometry constructors are NOT modelled: only the executable `validB` is run on their output
/// (a test, labelled as such in the evidence).
fn geometry(sink: &mut Sink, rng: &mut Rng, thorough: bool) {
  let n = if thorough { 600 } else { 60 };
  let pi = std::f64::consts::PI;
  for _ in 0..n {
    let depth = rng.below(9) as u8;
    let lon = (rng.below(3600) as f64) / 3600.0 * 2.0 * pi;
    let lat = ((rng.below(1790) as f64) / 1790.0 - 0.5) * pi * 0.99;
    let radius = (1 + rng.below(800)) as f64 / 1000.0;
    let r = std::panic::catch_unwind(|| RangeMOC::<u64, Hpx<u64>>::from_cone(lon, lat, radius, depth, 2, CellSelection::All));
    if let Ok(m) = r {
      emit_valid::<H64>(sink, "from_cone(test-only)", &m);
    }
    let (lon2, lat2) = ((lon + 0.1).min(2.0 * pi - 1e-9), (lat + 0.1).min(pi / 2.0 - 1e-9));
    let r = std::panic::catch_unwind(|| RangeMOC::<u64, Hpx<u64>>::from_zone(lon.min(lon2 - 0.05), lat.min(lat2 - 0.05), lon2, lat2, depth, CellSelection::All));
    if let Ok(m) = r {
      emit_valid::<H64>(sink, "from_zone(test-only)", &m);
    }
    let verts = [(lon, lat), ((lon + 0.2) % (2.0 * pi), lat), (lon, (lat + 0.2).min(1.5))];
    let r = std::panic::catch_unwind(|| RangeMOC::<u64, Hpx<u64>>::from_polygon(&verts, false, depth, CellSelection::All));
    if let Ok(m) = r {
      emit_valid::<H64>(sink, "from_polygon(test-only)", &m);
    }
  }
}

pub fn run(sink: &mut Sink, rng: &mut Rng, thorough: bool) {
  for_all_combos!(trees, sink, rng, thorough);
  for_all_combos!(producers, sink, rng, thorough);
  geometry(sink, rng, thorough);
}
