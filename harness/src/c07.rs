//! C07 — 1-D serialisation round trips on REAL bytes, and C12 — decoders on mutated documents.
//!
//! Model ties (op lines): `ascii_enc` (writer text without fold = model text), `ascii_dec` (reader on a
//! text = model reader: same verdict, same depth, same ranges), `fits_payload` (data unit bytes + padded
//! length = model). Everything else (fold widths, offset notation, streaming ASCII, JSON, FITS headers,
//! NUNIQ, lazy writers, mutated FITS/JSON/stream documents) is a direct check on the implementation.
use std::io::Cursor;
use std::ops::Range;
use std::panic::AssertUnwindSafe;

use moc::deser::ascii::{from_ascii_ivoa, from_ascii_stream};
use moc::deser::fits::{from_fits_ivoa, MocIdxType, MocQtyType, MocType};
use moc::deser::json::from_json_aladin;
use moc::idx::Idx;
use moc::moc::range::RangeMOC;
use moc::moc::{
  CellHpxMOCIterator, CellMOCIntoIterator, CellMOCIterator, CellOrCellRangeMOCIntoIterator, CellOrCellRangeMOCIterator,
  HasMaxDepth, RangeMOCIntoIterator, RangeMOCIterator,
};
use moc::qty::{Frequency, Hpx, MocQty, Time};

use crate::gen::*;
use crate::srcs::*;
use crate::util::*;

fn hex(b: &[u8]) -> String {
  if b.is_empty() {
    return "_".to_string();
  }
  b.iter().map(|x| format!("{:02x}", x)).collect()
}

fn dec_ascii<T: Idx, Q: MocQty<T>>(text: &str) -> String {
  guarded(AssertUnwindSafe(|| match from_ascii_ivoa::<T, Q>(text) {
    Ok(m) => {
      let d = m.depth_max();
      let r: RangeMOC<T, Q> = m.into_cellcellrange_moc_iter().ranges().into_range_moc();
      format!("ok {}|{}", d, fmt_ranges(&moc_ranges_u64(&r)))
    }
    Err(_) => "err".to_string(),
  }))
}

/// (qty name, width, depth, ranges) of any 1-D FITS MOC.
pub fn read_fits(buf: &[u8]) -> Result<(String, u32, u8, Vec<Range<u64>>), String> {
  macro_rules! one {
    ($mt:expr, $q:expr, $w:expr) => {
      match $mt {
        MocType::Ranges(it) => {
          let d = it.depth_max();
          let m = it.into_range_moc();
          Ok(($q.to_string(), $w, d, moc_ranges_u64(&m)))
        }
        MocType::Cells(c) => {
          let d = c.depth_max();
          let m = c.into_cell_moc_iter().ranges().into_range_moc();
          Ok(($q.to_string(), $w, d, moc_ranges_u64(&m)))
        }
      }
    };
  }
  macro_rules! qty {
    ($mq:expr, $w:expr) => {
      match $mq {
        MocQtyType::Hpx(mt) => one!(mt, "hpx", $w),
        MocQtyType::Time(mt) => one!(mt, "time", $w),
        MocQtyType::Freq(mt) => one!(mt, "freq", $w),
        MocQtyType::TimeHpx(_) => Err("unexpected ST-MOC".to_string()),
      }
    };
  }
  match from_fits_ivoa(Cursor::new(buf)).map_err(|e| e.to_string())? {
    MocIdxType::U16(mq) => qty!(mq, 16),
    MocIdxType::U32(mq) => qty!(mq, 32),
    MocIdxType::U64(mq) => qty!(mq, 64),
  }
}

/// Header cards up to END; returns (header length in bytes, NAXIS1, NAXIS2) of the SECOND HDU (the table).
pub fn fits_structure(buf: &[u8]) -> Option<(usize, u64, u64)> {
  let mut pos = 0usize;
  let mut hdu = 0;
  let (mut n1, mut n2) = (0u64, 0u64);
  while pos + 80 <= buf.len() {
    let card = std::str::from_utf8(&buf[pos..pos + 80]).ok()?;
    pos += 80;
    if let Some(v) = card.strip_prefix("NAXIS1  =") {
      n1 = v.split('/').next()?.trim().parse().ok()?;
    }
    if let Some(v) = card.strip_prefix("NAXIS2  =") {
      n2 = v.split('/').next()?.trim().parse().ok()?;
    }
    if card.starts_with("END ") || card.trim_end() == "END" {
      pos = (pos + 2879) / 2880 * 2880;
      hdu += 1;
      if hdu == 2 {
        return Some((pos, n1, n2));
      }
    }
  }
  None
}

macro_rules! combo {
  ($sink:expr, $rng:expr, $thorough:expr, $combo:ty, $Q:ident, $mutate:expr) => {{
    type T = <$combo as Combo>::T;
    type QQ = $Q<T>;
    let (q, w) = (<$combo as Combo>::QNAME, <$combo as Combo>::W);
    let max_depth = <QQ as MocQty<T>>::MAX_DEPTH;
    let ub = n_cells_max::<T, QQ>();
    let n = if $thorough { 400 } else { 60 };
    for k in 0..n {
      // shapes: empty, full, deepest level unoccupied, random shallow / deep
      let (d, l): (u8, Vec<Range<u64>>) = match k % 8 {
        0 => ($rng.below(max_depth as u64 + 1) as u8, vec![]),
        1 => ($rng.below(max_depth as u64 + 1) as u8, vec![0..ub]),
        2 => {
          let dd = $rng.below(max_depth as u64) as u8;
          (max_depth.min(dd + 1 + $rng.below(3) as u8), random_moc_ranges::<T, QQ>($rng, dd, 5))
        }
        3 | 4 => {
          let dd = $rng.below(4.min(max_depth as u64) + 1) as u8;
          (dd, random_moc_ranges::<T, QQ>($rng, dd, 6))
        }
        _ => {
          let dd = $rng.below(max_depth as u64 + 1) as u8;
          (dd, random_moc_ranges::<T, QQ>($rng, dd, 6))
        }
      };
      let m: RangeMOC<T, QQ> = mk_moc(d, &l);
      let fl = fmt_ranges(&l);
      let expect = format!("ok {}|{}", d, fl);
      $sink.count(&format!("shape:{}", shape_class(&l, ub)));
      let nontrivial = !l.is_empty();
      if !$mutate {
        // --- ASCII, no fold, range notation: text = model text; reader = model reader
        let mut text = Vec::new();
        (&m).into_range_moc_iter().cells().cellranges().to_ascii_ivoa(None, false, &mut text).unwrap();
        $sink.emit(&format!("ascii_enc {} {} {} {}", q, w, d, fl), &hex(&text), nontrivial);
        let text = String::from_utf8(text).unwrap();
        let ans = dec_ascii::<T, QQ>(&text);
        if ans != expect {
          $sink.impl_failures.push(format!("ascii-roundtrip: {} u{} depth {} {} -> {:?} -> {}", q, w, d, fl, text, ans));
        }
        $sink.emit(&format!("ascii_dec {} {} {}", q, w, hex(text.as_bytes())), &ans, nontrivial);
        // --- other ASCII options, fed by a lazy source of a random kind
        for (fold, off) in [(Some(20usize), false), (Some(80), true), (None, true), (Some(1), false)] {
          let kind = $rng.below(5);
          let mut t2 = Vec::new();
          make_src::<$combo>(kind, &m).cells().cellranges().to_ascii_ivoa(fold, off, &mut t2).unwrap();
          let t2 = String::from_utf8(t2).unwrap();
          let a2 = dec_ascii::<T, QQ>(&t2);
          $sink.count("direct:ascii-options");
          if a2 != expect {
            $sink.impl_failures.push(format!(
              "ascii-roundtrip-options: {} u{} depth {} {} fold {:?} offset {} src {} -> {:?} -> {}",
              q, w, d, fl, fold, off, kind, t2, a2
            ));
          }
          // the model reader must agree on folded / offset documents too
          $sink.emit(&format!("ascii_dec {} {} {}", q, w, hex(t2.as_bytes())), &a2, nontrivial);
        }
        // --- streaming ASCII
        for off in [false, true] {
          let mut t3 = Vec::new();
          (&m).into_range_moc_iter().cells().cellranges().to_ascii_stream(off, &mut t3).unwrap();
          let a3 = guarded(AssertUnwindSafe(|| match from_ascii_stream::<T, QQ, _>(Cursor::new(&t3)) {
            Ok(it) => {
              let dd = it.depth_max();
              let r: RangeMOC<T, QQ> = it.ranges().into_range_moc();
              format!("ok {}|{}", dd, fmt_ranges(&moc_ranges_u64(&r)))
            }
            Err(e) => format!("err {}", e),
          }));
          $sink.count("direct:ascii-stream");
          if a3 != expect {
            $sink.impl_failures.push(format!("stream-roundtrip: {} u{} depth {} {} offset {} -> {}", q, w, d, fl, off, a3));
          }
        }
        // --- JSON
        for fold in [None, Some(30usize)] {
          let mut t4 = Vec::new();
          (&m).into_range_moc_iter().cells().to_json_aladin(fold, &mut t4).unwrap();
          let t4 = String::from_utf8(t4).unwrap();
          let a4 = guarded(AssertUnwindSafe(|| match from_json_aladin::<T, QQ>(&t4) {
            Ok(c) => {
              let dd = c.depth_max();
              let r: RangeMOC<T, QQ> = c.into_cell_moc_iter().ranges().into_range_moc();
              format!("ok {}|{}", dd, fmt_ranges(&moc_ranges_u64(&r)))
            }
            Err(e) => format!("err {}", e),
          }));
          $sink.count("direct:json");
          if a4 != expect {
            $sink.impl_failures.push(format!("json-roundtrip: {} u{} depth {} {} fold {:?} -> {}", q, w, d, fl, fold, a4));
          }
        }
        // --- FITS, range encoding, in-memory and lazy writers
        for kind in [0u64, 1 + $rng.below(4)] {
          let mut buf = Vec::new();
          let res = make_src::<$combo>(kind, &m).to_fits_ivoa(None, None, &mut buf);
          $sink.count("direct:fits-ranges");
          if let Err(e) = res {
            $sink.impl_failures.push(format!("fits-write-error: {} u{} depth {} {} src {}: {}", q, w, d, fl, kind, e));
            continue;
          }
          if buf.len() % 2880 != 0 {
            $sink.impl_failures.push(format!("fits-not-2880: {} u{} depth {} {} len {}", q, w, d, fl, buf.len()));
          }
          match fits_structure(&buf) {
            Some((hlen, n1, n2)) => {
              let datalen = buf.len() - hlen;
              let used = (n1 * n2) as usize;
              if n2 != 2 * l.len() as u64 || n1 != (w as u64 / 8) || used > datalen {
                $sink.impl_failures.push(format!(
                  "fits-header-mismatch: {} u{} depth {} {}: NAXIS1 {} NAXIS2 {} data {}",
                  q, w, d, fl, n1, n2, datalen
                ));
              } else if kind == 0 {
                $sink.emit(&format!("fits_payload {} {}", w, fl), &format!("{}|{}", if used == 0 { String::new() } else { hex(&buf[hlen..hlen + used]) }, datalen), nontrivial);
              }
            }
            None => $sink.impl_failures.push(format!("fits-structure-unreadable: {} u{} depth {} {}", q, w, d, fl)),
          }
          let back = guarded(AssertUnwindSafe(|| match read_fits(&buf) {
            Ok((qq, ww, dd, rs)) => format!("{} {} ok {}|{}", qq, ww, dd, fmt_ranges(&rs)),
            Err(e) => format!("err {}", e),
          }));
          if back != format!("{} {} {}", q, w, expect) {
            $sink.impl_failures.push(format!("fits-roundtrip: {} u{} depth {} {} src {} -> {}", q, w, d, fl, kind, back));
          }
        }
      } else {
        // ---------------- C12: single-field mutations of a valid ASCII document
        let mut text = Vec::new();
        (&m).into_range_moc_iter().cells().cellranges().to_ascii_ivoa(None, $rng.chance(1, 4), &mut text).unwrap();
        let text = String::from_utf8(text).unwrap();
        let nc = |dd: u8| -> u64 { if dd <= max_depth { n_cells::<T, QQ>(dd) } else { 0 } };
        let wmax: u128 = (1u128 << w) - 1;
        for _ in 0..(if $thorough { 40 } else { 12 }) {
          let mut doc = text.clone();
          let choice = $rng.below(10);
          let dd = $rng.below(max_depth as u64 + 3) as u8;
          match choice {
            0 => doc = format!("{}/{}", dd, nc(dd)),                       // first index outside the domain
            1 => doc = format!("{}/{}", dd, nc(dd).wrapping_sub(1)),       // last index inside
            2 => doc = format!("{}/0-{}", dd, nc(dd)),                     // range end outside
            3 => doc = format!("{}/{}-{}", dd, 5, $rng.below(6)),          // reversed / single
            4 => doc = format!("{}/0-{}", dd.min(max_depth), wmax),        // inclusive end = type maximum
            5 => doc = format!("{}/{}+{}", dd.min(max_depth), wmax - ($rng.below(3) as u128), $rng.below(3)),
            6 => doc = format!("{}/{} {}", dd, wmax + 1, text),            // not representable
            7 => {
              // truncation at any offset
              let cut = $rng.below(doc.len() as u64 + 1) as usize;
              doc.truncate(cut);
            }
            8 => {
              // one character replaced
              if !doc.is_empty() {
                let pos = $rng.below(doc.len() as u64) as usize;
                let c = *$rng.pick(&[b'/', b'-', b'+', b' ', b'9', b'0', b'x', b'\n', b',']);
                let mut b = doc.into_bytes();
                b[pos] = c;
                doc = String::from_utf8_lossy(&b).to_string();
              }
            }
            _ => {
              // two valid documents glued: overlapping elements, several depth tokens
              let dd2 = $rng.below(4.min(max_depth as u64) + 1) as u8;
              let l2 = random_moc_ranges::<T, QQ>($rng, dd2, 3);
              let m2: RangeMOC<T, QQ> = mk_moc(dd2, &l2);
              let mut t2 = Vec::new();
              (&m2).into_range_moc_iter().cells().cellranges().to_ascii_ivoa(None, false, &mut t2).unwrap();
              doc = format!("{} {}", doc, String::from_utf8(t2).unwrap());
            }
          }
          if !doc.is_ascii() {
            continue;
          }
          let ans = dec_ascii::<T, QQ>(&doc);
          $sink.count(&format!("mut:{}:{}", choice, ans.split(' ').next().unwrap_or("?")));
          $sink.emit(&format!("ascii_dec {} {} {}", q, w, hex(doc.as_bytes())), &ans, true);
          // what is accepted must use only legal cells: re-encode and compare depth <= max
          // JSON with the same numbers
          if choice < 3 {
            let j = format!("{{\"{}\":[{}]}}", dd, if choice == 1 { nc(dd).wrapping_sub(1) } else { nc(dd) });
            let aj = guarded(AssertUnwindSafe(|| match from_json_aladin::<T, QQ>(&j) {
              Ok(c) => {
                let r: RangeMOC<T, QQ> = c.into_cell_moc_iter().ranges().into_range_moc();
                let rs = moc_ranges_u64(&r);
                if rs.iter().any(|x| x.end > ub || x.start >= x.end) { format!("accepted-invalid {}", fmt_ranges(&rs)) } else { "ok".to_string() }
              }
              Err(_) => "err".to_string(),
            }));
            $sink.count(&format!("json-mut:{}", aj.split(' ').next().unwrap_or("?")));
            if aj == "panic" || aj.starts_with("accepted-invalid") || (choice != 1 && dd <= max_depth && aj == "ok") {
              $sink.impl_failures.push(format!("json-accepts-out-of-domain: {} u{} document {} -> {}", q, w, j, aj));
            }
          }
        }
        // ---------------- C12: mutated FITS documents (truncation, one byte of the header / data changed)
        let mut buf = Vec::new();
        (&m).into_range_moc_iter().to_fits_ivoa(None, None, &mut buf).unwrap();
        for _ in 0..(if $thorough { 30 } else { 8 }) {
          let mut b = buf.clone();
          let choice = $rng.below(4);
          match choice {
            0 => b.truncate($rng.below(b.len() as u64 + 1) as usize),
            1 => {
              // a digit of a header value changed (keeps values small: no giant allocation)
              let pos = 2880 + $rng.below(2880.min(b.len() as u64 - 2880)) as usize;
              if b[pos].is_ascii_digit() {
                b[pos] = b'0' + $rng.below(10) as u8;
              } else {
                b[pos] = *$rng.pick(&[b' ', b'=', b'X', b'1', b'\'']);
              }
            }
            2 => {
              let pos = $rng.below(b.len() as u64) as usize;
              b[pos] = $rng.below(256) as u8;
            }
            _ => {
              for _ in 0..8 {
                let pos = $rng.below(b.len() as u64) as usize;
                b[pos] = $rng.below(256) as u8;
              }
            }
          }
          let a = guarded(AssertUnwindSafe(|| match read_fits(&b) {
            Ok(_) => "ok".to_string(),
            Err(_) => "err".to_string(),
          }));
          $sink.count(&format!("fits-mut:{}:{}", choice, a));
          if a == "panic" {
            $sink.impl_failures.push(format!("fits-decoder-panic: {} u{} depth {} {} mutation {} bytes {}", q, w, d, fl, choice, hex(&b[..b.len().min(6000)])));
          }
        }
        // ---------------- C12: mutated streaming-ASCII documents
        let mut t3 = Vec::new();
        (&m).into_range_moc_iter().cells().cellranges().to_ascii_stream(false, &mut t3).unwrap();
        for _ in 0..(if $thorough { 10 } else { 4 }) {
          let mut b = t3.clone();
          if b.is_empty() { break; }
          if $rng.chance(1, 2) {
            b.truncate($rng.below(b.len() as u64 + 1) as usize);
          } else {
            let pos = $rng.below(b.len() as u64) as usize;
            b[pos] = *$rng.pick(&[b'/', b'-', b'=', b' ', b'9', b'x', b'\n']);
          }
          let a = guarded(AssertUnwindSafe(|| match from_ascii_stream::<T, QQ, _>(Cursor::new(&b)) {
            Ok(it) => { let _n = it.count(); "ok".to_string() }
            Err(_) => "err".to_string(),
          }));
          $sink.count(&format!("stream-mut:{}", a));
          if a == "panic" {
            $sink.impl_failures.push(format!("stream-decoder-panic: {} u{} document {:?}", q, w, String::from_utf8_lossy(&b)));
          }
        }
      }
    }
  }};
}

fn all(sink: &mut Sink, rng: &mut Rng, thorough: bool, mutate: bool) {
  combo!(sink, rng, thorough, H16, Hpx, mutate);
  combo!(sink, rng, thorough, H32, Hpx, mutate);
  combo!(sink, rng, thorough, H64, Hpx, mutate);
  combo!(sink, rng, thorough, T16, Time, mutate);
  combo!(sink, rng, thorough, T32, Time, mutate);
  combo!(sink, rng, thorough, T64, Time, mutate);
  combo!(sink, rng, thorough, F16, Frequency, mutate);
  combo!(sink, rng, thorough, F32, Frequency, mutate);
  combo!(sink, rng, thorough, F64, Frequency, mutate);
}

pub fn run(sink: &mut Sink, rng: &mut Rng, thorough: bool) {
  all(sink, rng, thorough, false);
  // NUNIQ encoding (space only)
  for k in 0..(if thorough { 600 } else { 100 }) {
    let d = if k % 3 == 0 { rng.below(30) as u8 } else { rng.below(5) as u8 };
    let l = if k % 10 == 0 { vec![] } else { random_moc_ranges::<u64, Hpx<u64>>(rng, d, 6) };
    let m: RangeMOC<u64, Hpx<u64>> = mk_moc(d, &l);
    let mut buf = Vec::new();
    let res = (&m).into_range_moc_iter().cells().hpx_cells_to_fits_ivoa(None, None, &mut buf);
    sink.count("direct:fits-nuniq");
    if let Err(e) = res {
      sink.impl_failures.push(format!("nuniq-write-error: depth {} {}: {}", d, fmt_ranges(&l), e));
      continue;
    }
    if buf.len() % 2880 != 0 {
      sink.impl_failures.push(format!("nuniq-not-2880: depth {} {} len {}", d, fmt_ranges(&l), buf.len()));
    }
    let back = guarded(AssertUnwindSafe(|| match read_fits(&buf) {
      Ok((qq, _ww, dd, rs)) => format!("{} ok {}|{}", qq, dd, fmt_ranges(&rs)),
      Err(e) => format!("err {}", e),
    }));
    if back != format!("hpx ok {}|{}", d, fmt_ranges(&l)) {
      sink.impl_failures.push(format!("nuniq-roundtrip: depth {} {} -> {}", d, fmt_ranges(&l), back));
    }
  }
}

pub fn run_c12(sink: &mut Sink, rng: &mut Rng, thorough: bool) {
  all(sink, rng, thorough, true);
  // random bytes
  for _ in 0..(if thorough { 3000 } else { 500 }) {
    let n = rng.below(40) as usize;
    let b: Vec<u8> = (0..n).map(|_| *rng.pick(b"0123456789/-+ \n,x{}[]\":")).collect();
    let s = String::from_utf8(b).unwrap();
    let ans = dec_ascii::<u32, Hpx<u32>>(&s);
    sink.emit(&format!("ascii_dec hpx 32 {}", hex(s.as_bytes())), &ans, true);
    let a = guarded(AssertUnwindSafe(|| match from_json_aladin::<u32, Hpx<u32>>(&s) {
      Ok(_) => "ok".to_string(),
      Err(_) => "err".to_string(),
    }));
    if a == "panic" {
      sink.impl_failures.push(format!("json-decoder-panic: document {:?}", s));
    }
    let a = guarded(AssertUnwindSafe(|| match read_fits(s.as_bytes()) {
      Ok(_) => "ok".to_string(),
      Err(_) => "err".to_string(),
    }));
    if a == "panic" {
      sink.impl_failures.push(format!("fits-decoder-panic: random document {:?}", s));
    }
  }
}
