//! C07 — 1-D serialisation round trips on REAL bytes, and C12 — decoders on mutated documents.
//!
//! Model ties (op lines): `ascii_enc` (writer text without fold = model text), `ascii_dec` (reader on a
//! text = model reader: same verdict, same depth, same ranges), `fits_payload` (data unit bytes + padded
//! length = model). Everything else (fold widths, offset notation, streaming ASCII, JSON, FITS headers,
//! NUNIQ, lazy writers, mutated FITS/JSON/stream documents) is a direct check on the implementation.
use std::io::Cursor;
use std::ops::Range;
use std::panic::AssertUnwindSafe;

use moc::deser::ascii::{from_ascii_ivoa, from_ascii_stream};
use moc::deser::fits::{from_fits_ivoa, MocIdxType, MocQtyType, MocType};
use moc::deser::json::from_json_aladin;
use moc::idx::Idx;
use moc::moc::range::RangeMOC;
use moc::moc::{
  CellHpxMOCIterator, CellMOCIntoIterator, CellMOCIterator, CellOrCellRangeMOCIntoIterator, CellOrCellRangeMOCIterator,
  HasMaxDepth, RangeMOCIntoIterator, RangeMOCIterator,
};
use moc::qty::{Frequency, Hpx, MocQty, Time};

use crate::gen::*;
use crate::srcs::*;
use crate::util::*;

fn hex(b: &[u8]) -> String {
  if b.is_empty() {
    return "_".to_string();
  }
  b.iter().map(|x| format!("{:02x}", x)).collect()
}

fn dec_ascii<T: Idx, Q: MocQty<T>>(text: &str) -> String {
  guarded(AssertUnwindSafe(|| match from_ascii_ivoa::<T, Q>(text) {
    Ok(m) => {
      let d = m.depth_max();
      let r: RangeMOC<T, Q> = m.into_cellcellrange_moc_iter().ranges().into_range_moc();
      format!("ok {}|{}", d, fmt_ranges(&moc_ranges_u64(&r)))
    }
    Err(_) => "err".to_string(),
  }))
}

/// (qty name, width, depth, ranges) of any 1-D FITS MOC.
pub fn read_fits(buf: &[u8]) -> Result<(String, u32, u8, Vec<Range<u64>>), String> {
  macro_rules! one {
    ($mt:expr, $q:expr, $w:expr) => {
      match $mt {
        MocType::Ranges(it) => {
          let d = it.depth_max();
          let m = it.into_range_moc();
          Ok(($q.to_string(), $w, d, moc_ranges_u64(&m)))
        }
        MocType::Cells(c) => {
          let d = c.depth_max();
          let m = c.into_cell_moc_iter().ranges().into_range_moc();
          Ok(($q.to_string(), $w, d, moc_ranges_u64(&m)))
        }
      }
    };
  }
  macro_rules! qty {
    ($mq:expr, $w:expr) => {
      match $mq {
        MocQtyType::Hpx(mt) => one!(mt, "hpx", $w),
        MocQtyType::Time(mt) => one!(mt, "time", $w),
        MocQtyType::Freq(mt) => one!(mt, "freq", $w),
        MocQtyType::TimeHpx(_) => Err("unexpected ST-MOC".to_string()),
      }
    };
  }
  match from_fits_ivoa(Cursor::new(buf)).map_err(|e| e.to_string())? {
    MocIdxType::U16(mq) => qty!(mq, 16),
    MocIdxType::U32(mq) => qty!(mq, 32),
    MocIdxType::U64(mq) => qty!(mq, 64),
  }
}

/// Header cards up to END; returns (header length in bytes, NAXIS1, NAXIS2) of the SECOND HDU (the table).
pub fn fits_structure(buf: &[u8]) -> Option<(usize, u64, u64)> {
  let mut pos = 0usize;
  let mut hdu = 0;
  let (mut n1, mut n2) = (0u64, 0u64);
  while pos + 80 <= buf.len() {
    let card = std::str::from_utf8(&buf[pos..pos + 80]).ok()?;
    pos += 80;
    if let Some(v) = card.strip_prefix("NAXIS1  =") {
      n1 = v.split('/').next()?.trim().parse().ok()?;
    }
    if let Some(v) = card.strip_prefix("NAXIS2  =") {
      n2 = v.split('/').next()?.trim().parse().ok()?;
    }
    if card.starts_with("END ") || card.trim_end() == "END" {
      pos = (pos + 2879) / 2880 * 2880;
      hdu += 1;
      if hdu == 2 {
        return Some((pos, n1, n2));
      }
    }
  }
  None
}

thread_local! { static STREAM_DIRECTED_DONE: std::cell::RefCell<Vec<(String, u32)>> = std::cell::RefCell::new(Vec::new()); }

/// The streaming ASCII decoder on one document: "err", or "ok" when the declared depth and every element it yields are
/// legal for the quantity (depth <= declared depth <= MAX_DEPTH, non-empty, inside the domain of its depth), else
/// "illegal-...".  (Order and overlaps are not looked at: this decoder is documented as non-validating.)
fn stream_verdict<T: Idx, Q: MocQty<T>>(b: &[u8]) -> String {
  use moc::elem::cellcellrange::CellOrCellRange;
  match from_ascii_stream::<T, Q, _>(Cursor::new(b)) {
    Ok(it) => {
      let dm = it.depth_max();
      if dm > Q::MAX_DEPTH {
        return format!("illegal-depth {} > {}", dm, Q::MAX_DEPTH);
      }
      for e in it {
        let (d, s, e_) = match e {
          CellOrCellRange::Cell(c) => (c.depth, c.idx.to_u64() as u128, c.idx.to_u64() as u128 + 1),
          CellOrCellRange::CellRange(r) => (r.depth, r.range.start.to_u64() as u128, r.range.end.to_u64() as u128),
        };
        if d > dm {
          return format!("illegal-element-depth {} > declared {}", d, dm);
        }
        let n = Q::n_cells(d).to_u64() as u128;
        if s >= e_ || e_ > n {
          return format!("illegal-element {}/{}-{} (cells at that depth: {})", d, s, e_, n);
        }
      }
      "ok".to_string()
    }
    Err(_) => "err".to_string(),
  }
}

macro_rules! combo {
  ($sink:expr, $rng:expr, $thorough:expr, $combo:ty, $Q:ident, $mutate:expr) => {{
    type T = <$combo as Combo>::T;
    type QQ = $Q<T>;
    let (q, w) = (<$combo as Combo>::QNAME, <$combo as Combo>::W);
    let max_depth = <QQ as MocQty<T>>::MAX_DEPTH;
    let ub = n_cells_max::<T, QQ>();
    let n = if $thorough { 2500 } else { 60 };
    for k in 0..n {
      // shapes: empty, full, deepest level unoccupied, random shallow / deep
      let (d, l): (u8, Vec<Range<u64>>) = match k % 8 {
        0 => ($rng.below(max_depth as u64 + 1) as u8, vec![]),
        1 => ($rng.below(max_depth as u64 + 1) as u8, vec![0..ub]),
        2 => {
          let dd = $rng.below(max_depth as u64) as u8;
          (max_depth.min(dd + 1 + $rng.below(3) as u8), random_moc_ranges::<T, QQ>($rng, dd, 5))
        }
        3 | 4 => {
          let dd = $rng.below(4.min(max_depth as u64) + 1) as u8;
          (dd, random_moc_ranges::<T, QQ>($rng, dd, 6))
        }
        // directed: as many ranges as make the FITS data unit an EXACT multiple of 2880 bytes (no padding), and one less
        5 | 6 if k < 8 => {
          let n_exact = 2880u64 / (2 * (w as u64 / 8)) - (if k == 6 { 1 } else { 0 });
          $sink.count("shape:fits-data-unit-exact-block");
          (max_depth, (0..n_exact).map(|i| 2 * i..2 * i + 1).collect())
        }
        _ => {
          let dd = $rng.below(max_depth as u64 + 1) as u8;
          (dd, random_moc_ranges::<T, QQ>($rng, dd, 6))
        }
      };
      let m: RangeMOC<T, QQ> = mk_moc(d, &l);
      let fl = fmt_ranges(&l);
      let expect = format!("ok {}|{}", d, fl);
      $sink.count(&format!("shape:{}", shape_class(&l, ub)));
      let nontrivial = !l.is_empty();
      if !$mutate {
        // --- ASCII, no fold, range notation: text = model text; reader = model reader
        let mut text = Vec::new();
        (&m).into_range_moc_iter().cells().cellranges().to_ascii_ivoa(None, false, &mut text).unwrap();
        $sink.emit(&format!("ascii_enc {} {} {} {}", q, w, d, fl), &hex(&text), nontrivial);
        let text = String::from_utf8(text).unwrap();
        let ans = dec_ascii::<T, QQ>(&text);
        if ans != expect {
          $sink.impl_failures.push(format!("ascii-roundtrip: {} u{} depth {} {} -> {:?} -> {}", q, w, d, fl, text, ans));
        }
        $sink.emit(&format!("ascii_dec {} {} {}", q, w, hex(text.as_bytes())), &ans, nontrivial);
        // --- other ASCII options, fed by a lazy source of a random kind
        for (fold, off) in [(Some(20usize), false), (Some(80), true), (None, true), (Some(1), false)] {
          let kind = $rng.below(5);
          let mut t2 = Vec::new();
          make_src::<$combo>(kind, &m).cells().cellranges().to_ascii_ivoa(fold, off, &mut t2).unwrap();
          let t2 = String::from_utf8(t2).unwrap();
          let a2 = dec_ascii::<T, QQ>(&t2);
          $sink.count("direct:ascii-options");
          if a2 != expect {
            $sink.impl_failures.push(format!(
              "ascii-roundtrip-options: {} u{} depth {} {} fold {:?} offset {} src {} -> {:?} -> {}",
              q, w, d, fl, fold, off, kind, t2, a2
            ));
          }
          // the model reader must agree on folded / offset documents too
          $sink.emit(&format!("ascii_dec {} {} {}", q, w, hex(t2.as_bytes())), &a2, nontrivial);
        }
        // --- streaming ASCII
        for off in [false, true] {
          let mut t3 = Vec::new();
          (&m).into_range_moc_iter().cells().cellranges().to_ascii_stream(off, &mut t3).unwrap();
          let a3 = guarded(AssertUnwindSafe(|| match from_ascii_stream::<T, QQ, _>(Cursor::new(&t3)) {
            Ok(it) => {
              let dd = it.depth_max();
              let r: RangeMOC<T, QQ> = it.ranges().into_range_moc();
              format!("ok {}|{}", dd, fmt_ranges(&moc_ranges_u64(&r)))
            }
            Err(e) => format!("err {}", e),
          }));
          $sink.count("direct:ascii-stream");
          if a3 != expect {
            $sink.impl_failures.push(format!("stream-roundtrip: {} u{} depth {} {} offset {} -> {}", q, w, d, fl, off, a3));
          }
        }
        // --- JSON
        // (narrow folds: a line break may fall before the very first cell of an order)
        for fold in [None, Some(30usize), Some(16), Some(10)] {
          let mut t4 = Vec::new();
          (&m).into_range_moc_iter().cells().to_json_aladin(fold, &mut t4).unwrap();
          let t4 = String::from_utf8(t4).unwrap();
          let a4 = guarded(AssertUnwindSafe(|| match from_json_aladin::<T, QQ>(&t4) {
            Ok(c) => {
              let dd = c.depth_max();
              let r: RangeMOC<T, QQ> = c.into_cell_moc_iter().ranges().into_range_moc();
              format!("ok {}|{}", dd, fmt_ranges(&moc_ranges_u64(&r)))
            }
            Err(e) => format!("err {}", e),
          }));
          $sink.count("direct:json");
          // tie to the token model: the JSON document reduced to its token stream in the ASCII token syntax
          // (quotes, braces, brackets dropped; ':' -> '/', ',' -> ' '), decoded by the model's ASCII reader, and
          // compared with the model's own token text for the single-cell view
          {
            let norm: String = t4.chars().filter_map(|c| match c { '{' | '}' | '[' | ']' | '"' => None, ':' => Some('/'), ',' => Some(' '), c => Some(c) }).collect();
            $sink.emit(&format!("ascii_dec {} {} {}", q, w, hex(norm.as_bytes())), &a4.split(' ').take(2).collect::<Vec<_>>().join(" "), nontrivial);
            if fold.is_none() {
              let mut canon = String::new();
              let mut last_depth = false;
              for tok in norm.split_whitespace() {
                if tok.ends_with('/') { canon.push_str(tok); last_depth = true; } else { canon.push_str(tok); canon.push(' '); last_depth = false; }
              }
              if last_depth { canon.push(' '); }
              $sink.emit(&format!("json_enc {} {} {} {}", q, w, d, fl), &hex(canon.as_bytes()), nontrivial);
            }
          }
          if a4 != expect {
            $sink.impl_failures.push(format!("json-roundtrip: {} u{} depth {} {} fold {:?} -> {}", q, w, d, fl, fold, a4));
          }
        }
        // --- FITS, range encoding, in-memory and lazy writers
        for kind in [0u64, 1 + $rng.below(4)] {
          let mut buf = Vec::new();
          let res = make_src::<$combo>(kind, &m).to_fits_ivoa(None, None, &mut buf);
          $sink.count("direct:fits-ranges");
          if let Err(e) = res {
            $sink.impl_failures.push(format!("fits-write-error: {} u{} depth {} {} src {}: {}", q, w, d, fl, kind, e));
            continue;
          }
          if buf.len() % 2880 != 0 {
            $sink.impl_failures.push(format!("fits-not-2880: {} u{} depth {} {} len {}", q, w, d, fl, buf.len()));
          }
          {
            // the whole file, byte for byte (header cards included), against the model's file
            let mut h: u64 = 14695981039346656037;
            for x in buf.iter() { h = (h ^ (*x as u64)).wrapping_mul(1099511628211); }
            $sink.emit(&format!("fits_file {} {} {} {}", q, w, d, fl), &format!("{}:{}", buf.len(), h), nontrivial);
          }
          match fits_structure(&buf) {
            Some((hlen, n1, n2)) => {
              let datalen = buf.len() - hlen;
              let used = (n1 * n2) as usize;
              if datalen != (used + 2879) / 2880 * 2880 {
                // the data unit is completed to the NEXT multiple of 2880 bytes, no further (padding < 2880: `padding_spec`)
                $sink.impl_failures.push(format!(
                  "fits-data-unit-length: {} u{} depth {} ({} ranges): {} data bytes written for NAXIS1*NAXIS2 = {} (expected {})",
                  q, w, d, l.len(), datalen, used, (used + 2879) / 2880 * 2880
                ));
              }
              if n2 != 2 * l.len() as u64 || n1 != (w as u64 / 8) || used > datalen {
                $sink.impl_failures.push(format!(
                  "fits-header-mismatch: {} u{} depth {} {}: NAXIS1 {} NAXIS2 {} data {}",
                  q, w, d, fl, n1, n2, datalen
                ));
              } else if kind == 0 {
                $sink.emit(&format!("fits_payload {} {}", w, fl), &format!("{}|{}", if used == 0 { String::new() } else { hex(&buf[hlen..hlen + used]) }, datalen), nontrivial);
              }
            }
            None => $sink.impl_failures.push(format!("fits-structure-unreadable: {} u{} depth {} {}", q, w, d, fl)),
          }
          let back = guarded(AssertUnwindSafe(|| match read_fits(&buf) {
            Ok((qq, ww, dd, rs)) => format!("{} {} ok {}|{}", qq, ww, dd, fmt_ranges(&rs)),
            Err(e) => format!("err {}", e),
          }));
          if back != format!("{} {} {}", q, w, expect) {
            $sink.impl_failures.push(format!("fits-roundtrip: {} u{} depth {} {} src {} -> {}", q, w, d, fl, kind, back));
          }
        }
      } else {
        // ---------------- C12: single-field mutations of a valid ASCII document
        let mut text = Vec::new();
        (&m).into_range_moc_iter().cells().cellranges().to_ascii_ivoa(None, $rng.chance(1, 4), &mut text).unwrap();
        let text = String::from_utf8(text).unwrap();
        let nc = |dd: u8| -> u64 { if dd <= max_depth { n_cells::<T, QQ>(dd) } else { 0 } };
        let wmax: u128 = (1u128 << w) - 1;
        for _ in 0..(if $thorough { 40 } else { 12 }) {
          let mut doc = text.clone();
          let choice = $rng.below(10);
          let dd = $rng.below(max_depth as u64 + 3) as u8;
          match choice {
            0 => doc = format!("{}/{}", dd, nc(dd)),                       // first index outside the domain
            1 => doc = format!("{}/{}", dd, nc(dd).wrapping_sub(1)),       // last index inside
            2 => doc = format!("{}/0-{}", dd, nc(dd)),                     // range end outside
            3 => doc = format!("{}/{}-{}", dd, 5, $rng.below(6)),          // reversed / single
            4 => doc = format!("{}/0-{}", dd.min(max_depth), wmax),        // inclusive end = type maximum
            5 => doc = format!("{}/{}+{}", dd.min(max_depth), wmax - ($rng.below(3) as u128), $rng.below(3)),
            6 => doc = format!("{}/{} {}", dd, wmax + 1, text),            // not representable
            7 => {
              // truncation at any offset
              let cut = $rng.below(doc.len() as u64 + 1) as usize;
              doc.truncate(cut);
            }
            8 => {
              // one character replaced
              if !doc.is_empty() {
                let pos = $rng.below(doc.len() as u64) as usize;
                let c = *$rng.pick(&[b'/', b'-', b'+', b' ', b'9', b'0', b'x', b'\n', b',']);
                let mut b = doc.into_bytes();
                b[pos] = c;
                doc = String::from_utf8_lossy(&b).to_string();
              }
            }
            _ => {
              // two valid documents glued: overlapping elements, several depth tokens
              let dd2 = $rng.below(4.min(max_depth as u64) + 1) as u8;
              let l2 = random_moc_ranges::<T, QQ>($rng, dd2, 3);
              let m2: RangeMOC<T, QQ> = mk_moc(dd2, &l2);
              let mut t2 = Vec::new();
              (&m2).into_range_moc_iter().cells().cellranges().to_ascii_ivoa(None, false, &mut t2).unwrap();
              doc = format!("{} {}", doc, String::from_utf8(t2).unwrap());
            }
          }
          if !doc.is_ascii() {
            continue;
          }
          let ans = dec_ascii::<T, QQ>(&doc);
          $sink.count(&format!("mut:{}:{}", choice, ans.split(' ').next().unwrap_or("?")));
          $sink.emit(&format!("ascii_dec {} {} {}", q, w, hex(doc.as_bytes())), &ans, true);
          // what is accepted must use only legal cells: re-encode and compare depth <= max
          // JSON with the same numbers
          if choice < 3 {
            let j = format!("{{\"{}\":[{}]}}", dd, if choice == 1 { nc(dd).wrapping_sub(1) } else { nc(dd) });
            let aj = guarded(AssertUnwindSafe(|| match from_json_aladin::<T, QQ>(&j) {
              Ok(c) => {
                let r: RangeMOC<T, QQ> = c.into_cell_moc_iter().ranges().into_range_moc();
                let rs = moc_ranges_u64(&r);
                if rs.iter().any(|x| x.end > ub || x.start >= x.end) { format!("accepted-invalid {}", fmt_ranges(&rs)) } else { "ok".to_string() }
              }
              Err(_) => "err".to_string(),
            }));
            $sink.count(&format!("json-mut:{}", aj.split(' ').next().unwrap_or("?")));
            if aj == "panic" || aj.starts_with("accepted-invalid") || (choice != 1 && dd <= max_depth && aj == "ok") {
              $sink.impl_failures.push(format!("json-accepts-out-of-domain: {} u{} document {} -> {}", q, w, j, aj));
            }
          }
        }
        // ---------------- C12: mutated FITS documents (truncation, one byte of the header / data changed)
        let mut buf = Vec::new();
        (&m).into_range_moc_iter().to_fits_ivoa(None, None, &mut buf).unwrap();
        for _ in 0..(if $thorough { 30 } else { 8 }) {
          let mut b = buf.clone();
          let choice = $rng.below(4);
          match choice {
            0 => b.truncate($rng.below(b.len() as u64 + 1) as usize),
            1 => {
              // a digit of a header value changed (keeps values small: no giant allocation)
              let pos = 2880 + $rng.below(2880.min(b.len() as u64 - 2880)) as usize;
              if b[pos].is_ascii_digit() {
                b[pos] = b'0' + $rng.below(10) as u8;
              } else {
                b[pos] = *$rng.pick(&[b' ', b'=', b'X', b'1', b'\'']);
              }
            }
            2 => {
              let pos = $rng.below(b.len() as u64) as usize;
              b[pos] = $rng.below(256) as u8;
            }
            _ => {
              for _ in 0..8 {
                let pos = $rng.below(b.len() as u64) as usize;
                b[pos] = $rng.below(256) as u8;
              }
            }
          }
          let a = guarded(AssertUnwindSafe(|| match read_fits(&b) {
            Ok(_) => "ok".to_string(),
            Err(_) => "err".to_string(),
          }));
          $sink.count(&format!("fits-mut:{}:{}", choice, a));
          if a == "panic" {
            $sink.impl_failures.push(format!("fits-decoder-{}: {} u{} depth {} {} mutation {} bytes {}", panic_answer(), q, w, d, fl, choice, hex(&b[..b.len().min(6000)])));
          }
        }
        // ---------------- C12: mutated streaming-ASCII documents
        let mut t3 = Vec::new();
        (&m).into_range_moc_iter().cells().cellranges().to_ascii_stream(false, &mut t3).unwrap();
        for _ in 0..(if $thorough { 10 } else { 4 }) {
          let mut b = t3.clone();
          if b.is_empty() { break; }
          if $rng.chance(1, 2) {
            b.truncate($rng.below(b.len() as u64 + 1) as usize);
          } else {
            let pos = $rng.below(b.len() as u64) as usize;
            b[pos] = *$rng.pick(&[b'/', b'-', b'=', b' ', b'9', b'x', b'\n']);
          }
          let a = guarded(AssertUnwindSafe(|| stream_verdict::<T, QQ>(&b)));
          $sink.count(&format!("stream-mut:{}", a.split(' ').next().unwrap_or("?")));
          if a == "panic" || a.starts_with("illegal") {
            $sink.impl_failures.push(format!("stream-decoder-{}: {} u{} document {:?}", if a == "panic" { panic_answer() } else { a.clone() }, q, w, String::from_utf8_lossy(&b)));
          }
        }
        // directed: arithmetic on the numbers of a line, depths the quantity does not have, cells outside their depth
        if !STREAM_DIRECTED_DONE.with(|c| c.borrow().contains(&(q.to_string(), w))) {
          STREAM_DIRECTED_DONE.with(|c| c.borrow_mut().push((q.to_string(), w)));
          let tmax: u128 = (1u128 << w) - 1;
          let qn = <QQ as moc::qty::MocableQty>::NAME;
          let mut docs: Vec<String> = Vec::new();
          for d in [0u32, 1, max_depth as u32] {
            docs.push(format!("qty={}\ndepth={}\n{}/{}+1\n", qn, d, d, tmax));
            docs.push(format!("qty={}\ndepth={}\n{}/{}+{}\n", qn, d, d, tmax - 1, tmax));
            docs.push(format!("qty={}\ndepth={}\n{}/{}\n", qn, d, d, nc(d as u8)));
            docs.push(format!("qty={}\ndepth={}\n{}/0-{}\n", qn, d, d, nc(d as u8) + 1));
            docs.push(format!("qty={}\ndepth={}\n{}/5-5\n{}/7-3\n", qn, d, d, d));
          }
          for d in [max_depth as u32 + 1, max_depth as u32 + 2, 200, 255] {
            docs.push(format!("qty={}\ndepth={}\n", qn, d));
            docs.push(format!("qty={}\ndepth={}\n{}/1\n", qn, 0, d));
            docs.push(format!("qty={}\ndepth={}\n{}/0-1\n", qn, max_depth, d));
          }
          docs.push(format!("qty={}\ndepth=0\n1/1\n", qn)); // deeper than the declared depth
          for doc in docs {
            let a = guarded(AssertUnwindSafe(|| stream_verdict::<T, QQ>(doc.as_bytes())));
            $sink.count(&format!("stream-directed:{}", a.split(' ').next().unwrap_or("?")));
            if a == "panic" || a.starts_with("illegal") {
              $sink.impl_failures.push(format!("stream-decoder-{}: {} u{} document {:?}", if a == "panic" { panic_answer() } else { a.clone() }, q, w, doc));
            }
          }
        }
      }
    }
  }};
}

fn all(sink: &mut Sink, rng: &mut Rng, thorough: bool, mutate: bool) {
  combo!(sink, rng, thorough, H16, Hpx, mutate);
  combo!(sink, rng, thorough, H32, Hpx, mutate);
  combo!(sink, rng, thorough, H64, Hpx, mutate);
  combo!(sink, rng, thorough, T16, Time, mutate);
  combo!(sink, rng, thorough, T32, Time, mutate);
  combo!(sink, rng, thorough, T64, Time, mutate);
  combo!(sink, rng, thorough, F16, Frequency, mutate);
  combo!(sink, rng, thorough, F32, Frequency, mutate);
  combo!(sink, rng, thorough, F64, Frequency, mutate);
}

pub fn run(sink: &mut Sink, rng: &mut Rng, thorough: bool) {
  all(sink, rng, thorough, false);
  // the optional MOCID header card: whatever its length the writer either writes a FITS that reads back as the
  // same MOC or returns an error — it never fails half-way (a value of more than 68 characters does not fit a card)
  {
    let l = vec![0..(1u64 << 40), (3u64 << 50)..(7u64 << 50)];
    let m: RangeMOC<u64, Time<u64>> = mk_moc(21, &l);
    for len in [0usize, 1, 67, 68, 69, 70, 71, 200] {
      let id: String = std::iter::repeat("abcdefghij").flat_map(|s| s.chars()).take(len).collect();
      let ans = guarded(AssertUnwindSafe(|| {
        let mut buf = Vec::new();
        match (&m).into_range_moc_iter().to_fits_ivoa(Some(id.clone()), None, &mut buf) {
          Ok(()) => match read_fits(&buf) { Ok((_, _, d, rs)) => format!("{}|{}", d, fmt_ranges(&rs)), Err(e) => format!("unreadable:{}", e) },
          Err(_) => "err".to_string(),
        }
      }));
      sink.count("direct:fits-moc-id-length");
      if len >= 1 && len <= 68 {
        // the whole file with the MOCID card (and, every other length, a MOCTYPE card) against the model's file
        use moc::deser::fits::keywords::MocType as KwMocType;
        let ty = if len % 2 == 0 { Some(KwMocType::Catalog) } else if len == 67 { Some(KwMocType::Image) } else { None };
        let tytxt = match ty { Some(KwMocType::Catalog) => "CATALOG", Some(KwMocType::Image) => "IMAGE", None => "_" };
        let mut buf = Vec::new();
        if (&m).into_range_moc_iter().to_fits_ivoa(Some(id.clone()), ty, &mut buf).is_ok() {
          let mut h: u64 = 14695981039346656037;
          for x in buf.iter() { h = (h ^ (*x as u64)).wrapping_mul(1099511628211); }
          sink.emit(&format!("fits_file_id time 64 21 {} {} {}", hex(id.as_bytes()), tytxt, fmt_ranges(&l)), &format!("{}:{}", buf.len(), h), true);
        }
      }
      let expected = format!("21|{}", fmt_ranges(&l));
      if ans == "panic" || (ans != "err" && !ans.contains(&expected)) || (len <= 68 && ans == "err") {
        sink.impl_failures.push(format!("fits-moc-id: to_fits_ivoa(Some(<{} chars>)) -> {}", len, ans));
      }
    }
  }
  // NUNIQ encoding (space only)
  for k in 0..(if thorough { 5000 } else { 100 }) {
    let d = if k % 3 == 0 { rng.below(30) as u8 } else { rng.below(5) as u8 };
    let mut l = if k % 10 == 0 { vec![] } else { random_moc_ranges::<u64, Hpx<u64>>(rng, d, 6) };
    if k % 5 == 1 {
      // the smallest NUNIQ codes: base cell 0 WHOLE (code 4), or the first cell of the depth (code 4 * 4^d)
      let b0 = 1u64 << 58;
      let first = if rng.chance(1, 2) { 0..b0 } else { 0..(1u64 << (2 * (29 - d as u32))) };
      l.retain(|r| r.start > first.end);
      l.insert(0, first);
      sink.count("direct:fits-nuniq-smallest-codes");
    }
    let m: RangeMOC<u64, Hpx<u64>> = mk_moc(d, &l);
    let mut buf = Vec::new();
    let res = (&m).into_range_moc_iter().cells().hpx_cells_to_fits_ivoa(None, None, &mut buf);
    sink.count("direct:fits-nuniq");
    if let Err(e) = res {
      sink.impl_failures.push(format!("nuniq-write-error: depth {} {}: {}", d, fmt_ranges(&l), e));
      continue;
    }
    if buf.len() % 2880 != 0 {
      sink.impl_failures.push(format!("nuniq-not-2880: depth {} {} len {}", d, fmt_ranges(&l), buf.len()));
    }
    if l.iter().map(|r| ((r.end - r.start) >> (2 * (29 - d as u32))).min(1 << 20)).sum::<u64>() < 3000 {
      // the whole file, byte for byte, against the model's NUNIQ file (skipped when the MOC has very many cells)
      let mut h: u64 = 14695981039346656037;
      for x in buf.iter() { h = (h ^ (*x as u64)).wrapping_mul(1099511628211); }
      sink.emit(&format!("fits_nuniq_file 64 {} {}", d, fmt_ranges(&l)), &format!("{}:{}", buf.len(), h), !l.is_empty());
    }
    let back = guarded(AssertUnwindSafe(|| match read_fits(&buf) {
      Ok((qq, _ww, dd, rs)) => format!("{} ok {}|{}", qq, dd, fmt_ranges(&rs)),
      Err(e) => format!("err {}", e),
    }));
    if back != format!("hpx ok {}|{}", d, fmt_ranges(&l)) {
      sink.impl_failures.push(format!("nuniq-roundtrip: depth {} {} -> {}", d, fmt_ranges(&l), back));
    }
  }
}

/// JSON documents with deliberate overlaps (a cell and one of its descendants at ANY sub-position, duplicates,
/// two descendants of one ancestor) next to valid ones: the real JSON reader must give the verdict and the value
/// the model gives on the same token stream (JSON text reduced to the ASCII token syntax).
fn json_overlaps(sink: &mut Sink, rng: &mut Rng, thorough: bool) {
  macro_rules! one {
    ($T:ty, $Q:ident, $q:expr, $w:expr) => {{
      let md = (<$Q<$T> as MocQty<$T>>::MAX_DEPTH as u64).min(4);
      for _ in 0..(if thorough { 3000 } else { 250 }) {
        let mut cells: Vec<(u8, u64)> = Vec::new();
        let d0 = rng.below(md) as u8;
        let n0 = n_cells::<$T, $Q<$T>>(d0);
        let i0 = rng.below(n0);
        cells.push((d0, i0));
        for _ in 0..rng.below(4) {
          let dim = if $q == "hpx" { 2u32 } else { 1u32 };
          match rng.below(5) {
            0 => cells.push((d0, i0)), // duplicate
            1 | 2 => {
              // a descendant of the first cell, at any sub-position
              let dd = 1 + rng.below(md - d0 as u64 + 1).min(3) as u8;
              if d0 + dd <= <$Q<$T> as MocQty<$T>>::MAX_DEPTH {
                let sub = rng.below(1u64 << (dim * dd as u32));
                cells.push((d0 + dd, (i0 << (dim * dd as u32)) + sub));
              }
            }
            3 => { let d = rng.below(md + 1) as u8; cells.push((d, rng.below(n_cells::<$T, $Q<$T>>(d)))); }
            _ => { let j = (i0 + 1 + rng.below(3)) % n0; cells.push((d0, j)); } // a sibling / neighbour (valid unless equal)
          }
        }
        rng.shuffle(&mut cells);
        let mut by_depth: std::collections::BTreeMap<u8, Vec<u64>> = Default::default();
        for (d, i) in &cells { by_depth.entry(*d).or_default().push(*i); }
        let j = format!("{{{}}}", by_depth.iter().map(|(d, v)| format!("\"{}\":[{}]", d, v.iter().map(|x| x.to_string()).collect::<Vec<_>>().join(","))).collect::<Vec<_>>().join(","));
        let ans = guarded(AssertUnwindSafe(|| match from_json_aladin::<$T, $Q<$T>>(&j) {
          Ok(c) => {
            let dd = c.depth_max();
            let r: RangeMOC<$T, $Q<$T>> = c.into_cell_moc_iter().ranges().into_range_moc();
            format!("ok {}|{}", dd, fmt_ranges(&moc_ranges_u64(&r)))
          }
          Err(_) => "err".to_string(),
        }));
        let norm: String = j.chars().filter_map(|c| match c { '{' | '}' | '[' | ']' | '"' => None, ':' => Some('/'), ',' => Some(' '), c => Some(c) }).collect();
        sink.count(&format!("json-overlap-doc:{}", ans.split(' ').next().unwrap_or("?")));
        sink.emit(&format!("ascii_dec {} {} {}", $q, $w, hex(norm.as_bytes())), &ans, true);
      }
    }};
  }
  one!(u64, Hpx, "hpx", 64);
  one!(u32, Hpx, "hpx", 32);
  one!(u64, Time, "time", 64);
  one!(u16, Frequency, "freq", 16);
  // directed: numbers that do not fit the index type (they must not be narrowed before the domain check),
  // depths the quantity does not have, elements that are not unsigned integers
  macro_rules! directed {
    ($T:ty, $Q:ident, $q:expr, $w:expr) => {{
      let md = <$Q<$T> as MocQty<$T>>::MAX_DEPTH as u64;
      let tw: u128 = 1u128 << $w;
      let mut docs: Vec<(String, bool)> = Vec::new(); // (document, judged by the model on the token stream)
      for d in [0u64, 1, md.min(5), md] {
        for k in [5u128, 11] {
          docs.push((format!("{{\"{}\":[{}]}}", d, tw + k), $w < 64));
          docs.push((format!("{{\"{}\":[{}]}}", d, 3 * tw + k), $w < 64));
        }
        docs.push((format!("{{\"{}\":[-1]}}", d), false));
        docs.push((format!("{{\"{}\":[1.5]}}", d), false));
        docs.push((format!("{{\"{}\":[\"1\"]}}", d), false));
        docs.push((format!("{{\"{}\":[0, null]}}", d), false));
      }
      for d in [md + 1, md + 2, 255, 256] {
        docs.push((format!("{{\"{}\":[0]}}", d), true));
        docs.push((format!("{{\"0\":[1], \"{}\":[0]}}", d), true));
      }
      for (j, by_model) in docs {
        let ans = guarded(AssertUnwindSafe(|| match from_json_aladin::<$T, $Q<$T>>(&j) {
          Ok(c) => {
            let dd = c.depth_max();
            let r: RangeMOC<$T, $Q<$T>> = c.into_cell_moc_iter().ranges().into_range_moc();
            format!("ok {}|{}", dd, fmt_ranges(&moc_ranges_u64(&r)))
          }
          Err(_) => "err".to_string(),
        }));
        sink.count(&format!("json-directed-doc:{}", ans.split(' ').next().unwrap_or("?")));
        if by_model {
          let norm: String = j.chars().filter_map(|c| match c { '{' | '}' | '[' | ']' | '"' => None, ':' => Some('/'), ',' => Some(' '), c => Some(c) }).collect();
          let norm = norm.split_whitespace().collect::<Vec<_>>().join(" ");
          sink.emit(&format!("ascii_dec {} {} {}", $q, $w, hex(norm.as_bytes())), &ans, true);
        } else if ans != "err" {
          // an element that is not an unsigned integer is not a cell: the document must not be accepted
          sink.impl_failures.push(format!("json-accepts-non-cell-element: {} u{} document {} -> {}", $q, $w, j, ans));
        }
      }
    }};
  }
  directed!(u16, Hpx, "hpx", 16);
  directed!(u32, Hpx, "hpx", 32);
  directed!(u64, Hpx, "hpx", 64);
  directed!(u16, Time, "time", 16);
  directed!(u32, Frequency, "freq", 32);
  directed!(u64, Time, "time", 64);
}

pub fn run_c12(sink: &mut Sink, rng: &mut Rng, thorough: bool) {
  all(sink, rng, thorough, true);
  json_overlaps(sink, rng, thorough);
  other_readers(sink, rng, thorough);
  // documents whose depths DECREASE, with an index that exists at the deeper depth only (and at the boundary)
  for (q, w, n0, dim) in [("hpx", 32u32, 12u64, 2u32), ("time", 32, 2, 1), ("freq", 32, 2, 1)] {
    for (d1, d2) in [(2u32, 1u32), (3, 0), (5, 2), (1, 0)] {
      let (n1, n2) = (n0 << (dim * d1), n0 << (dim * d2));
      for i2 in [n2 - 1, n2, n2 + 1, n1 - 1] {
        for doc in [format!("{}/1 {}/{}", d1, d2, i2), format!("{}/ {}/{}", d1, d2, i2), format!("{}/{}-{} {}/0", d2, i2.saturating_sub(1), i2, d1)] {
          let ans = match q { "hpx" => dec_ascii::<u32, Hpx<u32>>(&doc), "time" => dec_ascii::<u32, Time<u32>>(&doc), _ => dec_ascii::<u32, Frequency<u32>>(&doc) };
          sink.count("ascii:decreasing-depths");
          sink.emit(&format!("ascii_dec {} {} {}", q, w, hex(doc.as_bytes())), &ans, true);
        }
      }
    }
  }
  // random bytes
  for _ in 0..(if thorough { 20000 } else { 500 }) {
    let n = rng.below(40) as usize;
    let b: Vec<u8> = (0..n).map(|_| *rng.pick(b"0123456789/-+ \n,x{}[]\":")).collect();
    let s = String::from_utf8(b).unwrap();
    let ans = dec_ascii::<u32, Hpx<u32>>(&s);
    sink.emit(&format!("ascii_dec hpx 32 {}", hex(s.as_bytes())), &ans, true);
    let a = guarded(AssertUnwindSafe(|| match from_json_aladin::<u32, Hpx<u32>>(&s) {
      Ok(_) => "ok".to_string(),
      Err(_) => "err".to_string(),
    }));
    if a == "panic" {
      sink.impl_failures.push(format!("json-decoder-{}: document {:?}", panic_answer(), s));
    }
    let a = guarded(AssertUnwindSafe(|| match read_fits(s.as_bytes()) {
      Ok(_) => "ok".to_string(),
      Err(_) => "err".to_string(),
    }));
    if a == "panic" {
      sink.impl_failures.push(format!("fits-decoder-{}: random document {:?}", panic_answer(), s));
    }
  }
}

// ---------------------------------------------------------------- C12: card-level mutations, other readers

/// Overwrite the value field (columns 11..30, right-justified like the writers do; strings start at
/// column 11) of the first card named `key` at or after byte `from`. Returns false if there is no such card.
/// Offset of the extension HDU: the primary header may span several 2880-byte blocks.
fn ext_offset(buf: &[u8]) -> usize {
  let mut pos = 0usize;
  while pos + 80 <= buf.len() {
    if buf[pos..pos + 80].starts_with(b"END ") {
      return (pos + 80 + 2879) / 2880 * 2880;
    }
    pos += 80;
  }
  2880
}

fn set_card(buf: &mut [u8], from: usize, key: &str, value: &str) -> bool {
  let ext = ext_offset(buf);
  let mut pos = from.max(ext) / 80 * 80;
  while pos + 80 <= buf.len() {
    let card = &buf[pos..pos + 80];
    if card.starts_with(key.as_bytes()) && (card[key.len()] == b' ' || card[key.len()] == b'=') {
      for b in &mut buf[pos + 10..pos + 80] {
        *b = b' ';
      }
      let v = value.as_bytes();
      if value.starts_with('\'') || v.len() > 20 {
        let n = v.len().min(70);
        buf[pos + 10..pos + 10 + n].copy_from_slice(&v[..n]);
      } else {
        let start = pos + 30 - v.len();
        buf[start..pos + 30].copy_from_slice(v);
      }
      return true;
    }
    if card.starts_with(b"END ") && pos >= ext {
      return false;
    }
    pos += 80;
  }
  false
}

const CARD_KEYS: [&str; 20] = [
  "NAXIS1", "NAXIS2", "MOCORDER", "MOCORD_S", "MOCORD_T", "MOCORD_F", "TFORM1", "ORDERING", "MOCVERS", "MOCDIM", "PCOUNT", "GCOUNT",
  "TFIELDS", "BITPIX", "NAXIS", "COORDSYS", "NSIDE", "TTYPE1", "INDXSCHM", "PIXTYPE",
];
/// Cards whose value is a character string: one non-ASCII byte is written in each of them.
const STRING_CARDS: [&str; 10] = ["XTENSION", "TTYPE1", "TFORM1", "TTYPE2", "TFORM2", "PIXTYPE", "ORDERING", "COORDSYS", "INDXSCHM", "MOCTOOL"];

/// A small valid HEALPix sky map (implicit indexing): `cols` = bytes of the extra columns to be skipped.
fn small_skymap(depth: u8, f64_vals: bool, ring: bool, nside_card: bool, extra_bytes: usize) -> Vec<u8> {
  fn card(s: String) -> Vec<u8> { let mut v = s.into_bytes(); v.resize(80, b' '); v }
  fn block(cards: Vec<String>) -> Vec<u8> {
    let mut v = Vec::new();
    for c in cards { v.extend(card(c)); }
    v.extend(card("END".to_string()));
    while v.len() % 2880 != 0 { v.push(b' '); }
    v
  }
  let ki = |k: &str, v: u64| format!("{:<8}= {:>20}", k, v);
  let ks = |k: &str, v: &str| format!("{:<8}= '{}'", k, v);
  let n = 12u64 << (2 * depth);
  let w = if f64_vals { 8 } else { 4 };
  let mut v = block(vec![format!("{:<8}= {:>20}", "SIMPLE", "T"), ki("BITPIX", 8), ki("NAXIS", 0), format!("{:<8}= {:>20}", "EXTEND", "T")]);
  let mut cards = vec![
    ks("XTENSION", "BINTABLE"), ki("BITPIX", 8), ki("NAXIS", 2), ki("NAXIS1", (w + extra_bytes) as u64), ki("NAXIS2", n),
    ki("PCOUNT", 0), ki("GCOUNT", 1), ki("TFIELDS", if extra_bytes > 0 { 2 } else { 1 }),
    ks("TTYPE1", "PROB"), ks("TFORM1", if f64_vals { "D" } else { "E" }),
  ];
  if extra_bytes > 0 { cards.push(ks("TTYPE2", "OTHER")); cards.push(ks("TFORM2", &format!("{}B", extra_bytes))); }
  cards.extend(vec![ks("PIXTYPE", "HEALPIX"), ks("ORDERING", if ring { "RING" } else { "NESTED" }), ks("COORDSYS", "C")]);
  cards.push(if nside_card { ki("NSIDE", 1u64 << depth) } else { ki("MOCORDER", depth as u64) });
  cards.push(ks("INDXSCHM", "IMPLICIT"));
  v.extend(block(cards));
  for i in 0..n {
    let x = (i as f64 + 1.0) / ((n * (n + 1) / 2) as f64);
    if f64_vals { v.extend_from_slice(&x.to_be_bytes()); } else { v.extend_from_slice(&(x as f32).to_be_bytes()); }
    v.extend(std::iter::repeat(7u8).take(extra_bytes));
  }
  while v.len() % 2880 != 0 { v.push(0); }
  v
}

/// One reader on one document in a child process: "answered" (value or error), "panic", or "aborted" (signal /
/// allocation failure / undefined behaviour), with the first line the child wrote on stderr.
fn probe_child(dir: &std::path::Path, name: &str, b: &[u8], reader: &str) -> (&'static str, String) {
  let exe = match std::env::current_exe() { Ok(e) => e, Err(_) => return ("answered", String::new()) };
  let _ = std::fs::create_dir_all(dir);
  let path = dir.join(format!("{}.fits", name));
  if std::fs::write(&path, b).is_err() { return ("answered", String::new()); }
  let cmd = format!("ulimit -v 3000000; exec {} probe {} {}", exe.display(), reader, path.display());
  let out = std::process::Command::new("sh").arg("-c").arg(&cmd).stderr(std::process::Stdio::piped()).stdout(std::process::Stdio::null()).output();
  let (code, err) = match out { Ok(o) => (o.status.code().unwrap_or(-1), String::from_utf8_lossy(&o.stderr).to_string()), Err(_) => (0, String::new()) };
  (match code { 0 => "answered", 3 => "panic", _ => "aborted" }, err.lines().next().unwrap_or("").to_string())
}
const CARD_VALUES: [&str; 29] = [
  "0", "1", "2", "3", "4", "7", "8", "15", "16", "29", "30", "31", "32", "61", "62", "63", "64", "255", "256", "100000", "-1", "",
  // powers of two around the largest NSIDE (2^29) and the bounds of the integer types a card value is parsed into
  "536870912", "1073741824", "2147483648", "4294967295", "4294967296", "9223372036854775807", "18446744073709551615",
];
const CARD_STRS: [&str; 8] = ["'1I      '", "'1J      '", "'1K      '", "'K       '", "'NUNIQ   '", "'RANGE   '", "'X'", "'"];

fn drive_all_readers(sink: &mut Sink, what: &str, b: &[u8]) {
  use moc::deser::fits::multiordermap::from_fits_multiordermap;
  use moc::deser::fits::skymap::from_fits_skymap;
  use moc::storage::u64idx::U64MocStore;
  use std::io::BufReader;
  let store = U64MocStore::get_global_store();
  let mut one = |name: &str, f: &mut dyn FnMut() -> bool| {
    let r = std::panic::catch_unwind(AssertUnwindSafe(|| f()));
    match r {
      Ok(ok) => sink.count(&format!("reader:{}:{}", name, if ok { "ok" } else { "err" })),
      Err(_) => {
        sink.count(&format!("reader:{}:panic", name));
        sink.impl_failures.push(format!("{}-{}: {} ({} bytes) {}", name, panic_answer(), what, b.len(), if b.len() <= 9000 { hex(b) } else { String::new() }));
      }
    }
  };
  one("fits", &mut || read_any_fits(b));
  one("store-fits", &mut || match store.load_from_fits_buff(b) { Ok(i) => { let _ = store.to_ranges(i); let _ = store.drop(i); true } Err(_) => false });
  one("mom", &mut || from_fits_multiordermap(BufReader::new(Cursor::new(b)), 0.0, 0.9, false, true, false, false).is_ok());
  one("store-mom", &mut || match store.from_multiordermap_fits_file_content(b, 0.0, 0.9, false, false, true, false) { Ok(i) => { let _ = store.drop(i); true } Err(_) => false });
  one("skymap", &mut || from_fits_skymap(BufReader::new(Cursor::new(b)), 0.0, 0.0, 0.9, false, true, false, false).is_ok());
  one("store-skymap", &mut || match store.from_skymap_fits_file_content(b, 0.0, 0.0, 0.9, false, false, true, false) { Ok(i) => { let _ = store.drop(i); true } Err(_) => false });
  let ill = ILLEGAL_DEPTH.swap(0, std::sync::atomic::Ordering::SeqCst);
  if ill != 0 {
    // a decoder returns a MOC or an error value: a value whose depth does not exist for the quantity is neither
    sink.impl_failures.push(format!("fits-accepted-illegal-depth: {} -> depth {} (maximum {})", what, (ill - 1_000_000) / 1000, (ill - 1_000_000) % 1000));
  }
}

/// Set when a FITS reader returned a value whose declared depth the quantity / index type does not have.
static ILLEGAL_DEPTH: std::sync::atomic::AtomicU32 = std::sync::atomic::AtomicU32::new(0);
fn depth_ok(depth: u8, max: u8) {
  if depth > max {
    ILLEGAL_DEPTH.store(1000 * depth as u32 + max as u32 + 1_000_000, std::sync::atomic::Ordering::SeqCst);
  }
}
fn qty_max_depth<T: Idx, Q: MocQty<T>, I: RangeMOCIterator<T, Qty = Q>>(_it: &I) -> u8 {
  Q::MAX_DEPTH
}
fn st_depths_ok<T: Idx>(m: &moc::moc2d::range::RangeMOC2<T, Time<T>, T, Hpx<T>>) {
  use moc::moc2d::HasTwoMaxDepth;
  depth_ok(m.depth_max_1(), <Time<T> as MocQty<T>>::MAX_DEPTH);
  depth_ok(m.depth_max_2(), <Hpx<T> as MocQty<T>>::MAX_DEPTH);
}

/// Any MOC FITS file, ST included, fully consumed.
fn read_any_fits(b: &[u8]) -> bool {
  use moc::deser::fits::STMocType;
  use moc::moc2d::RangeMOC2Iterator;
  macro_rules! q {
    ($mq:expr) => {
      match $mq {
        MocQtyType::Hpx(MocType::Ranges(it)) => { depth_ok(it.depth_max(), qty_max_depth(&it)); let _ = it.count(); true }
        MocQtyType::Hpx(MocType::Cells(c)) => { let _ = c.into_cell_moc_iter().ranges().count(); true }
        MocQtyType::Time(MocType::Ranges(it)) => { depth_ok(it.depth_max(), qty_max_depth(&it)); let _ = it.count(); true }
        MocQtyType::Time(MocType::Cells(c)) => { let _ = c.into_cell_moc_iter().ranges().count(); true }
        MocQtyType::Freq(MocType::Ranges(it)) => { depth_ok(it.depth_max(), qty_max_depth(&it)); let _ = it.count(); true }
        MocQtyType::Freq(MocType::Cells(c)) => { let _ = c.into_cell_moc_iter().ranges().count(); true }
        MocQtyType::TimeHpx(STMocType::V2(it)) => { st_depths_ok(&it.into_range_moc2()); true }
        MocQtyType::TimeHpx(STMocType::PreV2(it)) => { st_depths_ok(&it.into_range_moc2()); true }
      }
    };
  }
  match from_fits_ivoa(Cursor::new(b)) {
    Ok(MocIdxType::U16(mq)) => q!(mq),
    Ok(MocIdxType::U32(mq)) => q!(mq),
    Ok(MocIdxType::U64(mq)) => q!(mq),
    Err(_) => false,
  }
}

fn small_mom() -> Option<Vec<u8>> {
  // the first rows of the real multi-order map shipped with the repository, with a consistent NAXIS2
  let all = std::fs::read("/repo/resources/Skymap/bayestar.multiorder.fits").ok()?;
  let (hlen, n1, _n2) = fits_structure(&all)?;
  let rows = 200usize;
  let mut b = all[..hlen].to_vec();
  b.extend_from_slice(all.get(hlen..hlen + rows * n1 as usize)?);
  while b.len() % 2880 != 0 { b.push(0); }
  if !set_card(&mut b, 2880, "NAXIS2", &rows.to_string()) { return None; }
  Some(b)
}

pub fn other_readers(sink: &mut Sink, rng: &mut Rng, thorough: bool) {
  use moc::deser::fits::rangemoc2d_to_fits_ivoa;
  use moc::moc2d::range::{RangeMOC2, RangeMOC2Elem};
  // base documents: range FITS (u16/u64), NUNIQ FITS, ST FITS, small MOM, sky map
  let mut bases: Vec<(String, Vec<u8>)> = Vec::new();
  {
    let m: RangeMOC<u64, Hpx<u64>> = mk_moc(5, &random_moc_ranges::<u64, Hpx<u64>>(rng, 5, 5));
    let mut b = Vec::new();
    (&m).into_range_moc_iter().to_fits_ivoa(None, None, &mut b).unwrap();
    bases.push(("ranges-u64".into(), b));
    let mut b = Vec::new();
    (&m).into_range_moc_iter().cells().hpx_cells_to_fits_ivoa(None, None, &mut b).unwrap();
    bases.push(("nuniq-u64".into(), b));
    let m16: RangeMOC<u16, Time<u16>> = mk_moc(4, &random_moc_ranges::<u16, Time<u16>>(rng, 4, 4));
    let mut b = Vec::new();
    (&m16).into_range_moc_iter().to_fits_ivoa(None, None, &mut b).unwrap();
    bases.push(("ranges-t16".into(), b));
    let t: RangeMOC<u64, Time<u64>> = mk_moc(6, &random_moc_ranges::<u64, Time<u64>>(rng, 6, 3));
    let st = RangeMOC2::new(6, 5, vec![RangeMOC2Elem::new(t, m.clone())]);
    let mut b = Vec::new();
    if rangemoc2d_to_fits_ivoa(&st, None, None, &mut b).is_ok() {
      bases.push(("st-v2".into(), b));
    }
  }
  if let Some(b) = small_mom() {
    bases.push(("mom".into(), b));
  } else {
    sink.count("reader:mom-resource-missing");
  }
  if let Ok(b) = std::fs::read("/repo/resources/Skymap/gbuts_healpix_systematic.fits") {
    bases.push(("skymap".into(), b));
  }
  // a pre-v2 ST-MOC (no MOCVERS, ORDERING = 'RANGE29': time ranges stored as negative numbers)
  {
    fn card(s: String) -> Vec<u8> { let mut v = s.into_bytes(); v.resize(80, b' '); v }
    fn block(cards: Vec<String>) -> Vec<u8> {
      let mut v: Vec<u8> = cards.into_iter().flat_map(card).collect();
      v.extend(card("END".into()));
      while v.len() % 2880 != 0 { v.push(b' '); }
      v
    }
    let ki = |k: &str, v: &str| format!("{:<8}= {:>20}", k, v);
    let ks = |k: &str, v: &str| format!("{:<8}= '{}'", k, v);
    let mut f = block(vec![ki("SIMPLE", "T"), ki("BITPIX", "8"), ki("NAXIS", "0"), ki("EXTEND", "T")]);
    f.extend(block(vec![
      ks("XTENSION", "BINTABLE"), ki("BITPIX", "8"), ki("NAXIS", "2"), ki("NAXIS1", "8"), ki("NAXIS2", "12"),
      ki("PCOUNT", "0"), ki("GCOUNT", "1"), ki("TFIELDS", "1"),
      ks("TFORM1", "1K"), ks("ORDERING", "RANGE29"), ki("MOCORDER", "5"), ki("TORDER", "5"),
    ]));
    let ts = 1i64 << 56; // one depth-5 time cell
    let ss = 1i64 << 48; // one depth-5 space cell
    for v in [-ts, -2 * ts, 0, 4 * ss, 8 * ss, 9 * ss, -4 * ts, -5 * ts, -7 * ts, -9 * ts, ss, 2 * ss] { f.extend_from_slice(&v.to_be_bytes()); }
    while f.len() % 2880 != 0 { f.push(0); }
    bases.push(("st-prev2".into(), f));
  }
  // small synthetic sky maps: every header card can be mutated cheaply (nested / ring, f64 / f32, MOCORDER / NSIDE,
  // with and without a second column to be skipped)
  bases.push(("skymap-nested-d".into(), small_skymap(1, true, false, false, 0)));
  bases.push(("skymap-ring-e-2cols".into(), small_skymap(1, false, true, true, 8)));
  bases.push(("skymap-nested-e-2cols".into(), small_skymap(0, false, false, false, 3)));
  // a non-ASCII byte in a string card, each reader in a CHILD process (a reader that builds a `str` from these bytes
  // without checking them has undefined behaviour: it may crash the process rather than panic)
  let pdir = std::env::temp_dir().join(format!("verif_c12s_{}", std::process::id()));
  let mut unsafe_bases: Vec<String> = Vec::new();
  for (name, base) in &bases {
    if name == "skymap" { continue; }
    for key in STRING_CARDS {
      let mut b = base.clone();
      if !set_card(&mut b, 2880, key, "'PR\u{1}B    '") { continue; }
      // replace the placeholder byte by 0xE9 (ISO-8859-1 e acute): not valid UTF-8
      if let Some(p) = b.iter().position(|x| *x == 1u8) { b[p] = 0xE9; } else { continue; }
      for reader in ["fits", "store-fits", "mom", "skymap"] {
        let (verdict, first) = probe_child(&pdir, "nonascii", &b, reader);
        sink.count(&format!("non-ascii-card:{}:{}", reader, verdict));
        if verdict != "answered" {
          sink.impl_failures.push(format!("{}-{}-on-non-ascii-card: {} with a non-ASCII byte in {} ({})", reader, verdict, name, key, first));
          if !unsafe_bases.contains(name) { unsafe_bases.push(name.clone()); }
        }
      }
    }
  }
  let _ = std::fs::remove_dir_all(&pdir);
  // unmutated documents first (sanity of the harness: no panic expected)
  for (name, b) in &bases {
    drive_all_readers(sink, &format!("unmutated {}", name), b);
  }
  // exhaustive pass: every (card, value) pair of the tables below on every base document
  for (name, base) in &bases {
    for key in CARD_KEYS {
      let natural: [&str; 6] = ["'C       '", "'G       '", "'E       '", "'c       '", "'CG      '", "'        '"];
      let mut vals: Vec<&str> = CARD_VALUES.to_vec();
      vals.extend(CARD_STRS.iter());
      if key == "COORDSYS" { vals.extend(natural.iter()); }
      if name == "skymap" && !["COORDSYS", "ORDERING", "NAXIS1", "NAXIS2", "TFORM1", "BITPIX"].contains(&key) { continue; }
      for val in vals {
        let mut b = base.clone();
        if !set_card(&mut b, 2880, key, val) { break; }
        sink.count("card-pair");
        drive_all_readers(sink, &format!("{}: card {} = {:?}", name, key, val), &b);
      }
    }
  }
  let n = if thorough { 2000 } else { 60 };
  for (name, base) in &bases {
    let per = if name == "skymap" { n / 6 } else { n };
    for _ in 0..per {
      let mut b = base.clone();
      let what;
      match rng.below(10) {
        0..=4 => {
          // one header card set to a boundary value
          let key = *rng.pick(&CARD_KEYS);
          let val = if key == "COORDSYS" && rng.chance(2, 3) {
            // the values a coordinate-system card naturally takes (celestial, galactic, ecliptic) and close misses
            *rng.pick(&["'C       '", "'G       '", "'E       '", "'c       '", "'CG      '", "'        '"])
          } else if key == "TFORM1" || key == "ORDERING" || key == "COORDSYS" || (key == "MOCVERS" && rng.chance(1, 2)) { *rng.pick(&CARD_STRS) } else { *rng.pick(&CARD_VALUES) };
          if !set_card(&mut b, 2880, key, val) { continue; }
          what = format!("{}: card {} = {:?}", name, key, val);
        }
        5 | 6 => {
          // data words set to boundary values (NUNIQ codes 0..3, beyond the last code, all ones, sign bit)
          if let Some((hlen, n1, n2)) = fits_structure(&b) {
            let words = ((n1 * n2) / 8).min(((b.len() - hlen.min(b.len())) / 8) as u64);
            if words == 0 { continue; }
            let k = rng.below(words) as usize;
            let v: u64 = *rng.pick(&[0u64, 1, 2, 3, 4, 15, 16, u64::MAX, 1 << 63, (1 << 63) | 5, (4u64 << 58) + 1, 1 << 62]);
            b[hlen + 8 * k..hlen + 8 * k + 8].copy_from_slice(&v.to_be_bytes());
            what = format!("{}: data word {} = {:#x}", name, k, v);
          } else { continue; }
        }
        7 => {
          let cut = rng.below(b.len() as u64) as usize;
          b.truncate(cut);
          what = format!("{}: truncated at {}", name, cut);
        }
        8 => {
          // a whole card blanked or replaced by END
          let pos = 2880 + 80 * rng.below(30) as usize;
          if pos + 80 > b.len() { continue; }
          let endc = rng.chance(1, 2);
          for (i, x) in b[pos..pos + 80].iter_mut().enumerate() { *x = if endc && i < 3 { b"END"[i] } else { b' ' }; }
          what = format!("{}: card at {} {}", name, pos, if endc { "replaced by END" } else { "blanked" });
        }
        _ => {
          // (not in-process on a base whose reader crashed the child on a non-ASCII header byte)
          if unsafe_bases.contains(name) { continue; }
          let k = 1 + rng.below(6);
          let lim = b.len().min(2880 * 3) as u64;
          for _ in 0..k { let pos = rng.below(lim) as usize; b[pos] = rng.below(256) as u8; }
          what = format!("{}: {} random header bytes", name, k);
        }
      }
      drive_all_readers(sink, &what, &b);
    }
  }
  giant_counts(sink, &bases, &std::env::temp_dir().join(format!("verif_c12_{}", std::process::id())));
  let _ = std::fs::remove_dir_all(std::env::temp_dir().join(format!("verif_c12_{}", std::process::id())));
  // text loaders of the store
  let store = moc::storage::u64idx::U64MocStore::get_global_store();
  let docs = ["0/12", "30/1", "0/5-3", "3/1-5 77", "hello", "", "1/0-3 2/1", "0/0-18446744073709551615", "t61/1 s3/2", "t0/ s0/", "t62/1 s3/1", "t3/9-2 s30/1",
    "{\"0\":[12]}", "{\"30\":[1]}", "{\"3\":[1,1]}", "[]", "{", "[{\"t\":{\"3\":[1]},\"s\":{\"0\":[12]}}]", "[{\"t\":{\"62\":[1]},\"s\":{\"0\":[1]}}]"];
  for d in docs {
    let mut one = |name: &str, f: &mut dyn FnMut() -> Result<usize, String>| {
      match std::panic::catch_unwind(AssertUnwindSafe(|| f())) {
        Ok(Ok(i)) => {
          // whatever is accepted must be usable
          let usable = std::panic::catch_unwind(AssertUnwindSafe(|| { let _ = store.to_ascii_str(i, None); let _ = store.get_coverage_percentage(i); }));
          if usable.is_err() {
            sink.impl_failures.push(format!("store-{}-accepted-then-{}: document {:?}", name, panic_answer(), d));
          }
          let _ = store.drop(i);
          sink.count(&format!("store-text:{}:ok", name));
        }
        Ok(Err(_)) => sink.count(&format!("store-text:{}:err", name)),
        Err(_) => sink.impl_failures.push(format!("store-{}-{}: document {:?}", name, panic_answer(), d)),
      }
    };
    one("smoc-ascii", &mut || store.load_smoc_from_ascii(d));
    one("tmoc-ascii", &mut || store.load_tmoc_from_ascii(d));
    one("fmoc-ascii", &mut || store.load_fmoc_from_ascii(d));
    one("stmoc-ascii", &mut || store.load_stmoc_from_ascii(d));
    one("smoc-json", &mut || store.load_smoc_from_json(d));
    one("tmoc-json", &mut || store.load_tmoc_from_json(d));
    one("stmoc-json", &mut || store.load_stmoc_from_json(d));
  }
}

/// `verif-harness probe <reader> <file>`: one reader on one file, in its own process (so that an
/// allocation failure, which aborts, can be observed by the parent). Exit 0 = value or error, 3 = panic.
pub fn probe(reader: &str, path: &str) -> i32 {
  use moc::deser::fits::multiordermap::from_fits_multiordermap;
  use moc::deser::fits::skymap::from_fits_skymap;
  use moc::storage::u64idx::U64MocStore;
  use std::io::BufReader;
  let b = match std::fs::read(path) { Ok(b) => b, Err(_) => return 2 };
  let r = std::panic::catch_unwind(AssertUnwindSafe(|| match reader {
    "fits" => { read_any_fits(&b); }
    "store-fits" => { let _ = U64MocStore::get_global_store().load_from_fits_buff(&b); }
    "mom" => { let _ = from_fits_multiordermap(BufReader::new(Cursor::new(&b)), 0.0, 0.9, false, true, false, false); }
    "skymap" => { let _ = from_fits_skymap(BufReader::new(Cursor::new(&b)), 0.0, 0.0, 0.9, false, true, false, false); }
    _ => {}
  }));
  if r.is_ok() { 0 } else { 3 }
}

/// Header counts far larger than the file: every reader must answer within a bounded address space
/// (each probe runs in a child process limited to 3 GB; an abort on allocation is a failure).
fn giant_counts(sink: &mut Sink, bases: &[(String, Vec<u8>)], dir: &std::path::Path) {
  let exe = match std::env::current_exe() { Ok(e) => e, Err(_) => return };
  let _ = std::fs::create_dir_all(dir);
  for (name, base) in bases {
    if name == "skymap" && base.len() > 200_000 {
      // keep the probes cheap: header + first blocks of the sky map
    }
    for (key, val) in [("NAXIS2", "1000000000000"), ("NAXIS1", "1000000000000"), ("NAXIS2", "4000000000")] {
      let mut b = base.clone();
      if !set_card(&mut b, 2880, key, val) { continue; }
      let path = dir.join(format!("giant_{}_{}.fits", name, key));
      if std::fs::write(&path, &b).is_err() { continue; }
      for reader in ["fits", "store-fits", "mom", "skymap"] {
        let cmd = format!("ulimit -v 3000000; exec {} probe {} {}", exe.display(), reader, path.display());
        let out = std::process::Command::new("sh").arg("-c").arg(&cmd).stderr(std::process::Stdio::piped()).stdout(std::process::Stdio::null()).output();
        let (code, err) = match out { Ok(o) => (o.status.code().unwrap_or(-1), String::from_utf8_lossy(&o.stderr).to_string()), Err(_) => (-2, String::new()) };
        sink.count(&format!("giant:{}:{}", reader, match code { 0 => "answered", 3 => "panic", _ => "aborted" }));
        if code == 3 {
          sink.impl_failures.push(format!("{}-panic-on-giant-count: {} with {} = {}", reader, name, key, val));
        } else if code != 0 {
          let first = err.lines().next().unwrap_or("").to_string();
          sink.impl_failures.push(format!("{}-allocation-from-header-count: {} with {} = {} (child exit {}; {})", reader, name, key, val, code, first));
        }
      }
    }
  }
}
