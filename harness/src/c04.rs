//! C04 — lazy operator pipelines equal eager evaluation; hints never change results.
use std::io::Cursor;
use std::ops::Range;
use std::panic::AssertUnwindSafe;

use moc::deser::fits::{from_fits_ivoa, MocIdxType, MocQtyType, MocType};
use moc::idx::Idx;
use moc::moc::range::RangeMOC;
use moc::moc::{HasMaxDepth, RangeMOCIterator};
use moc::qty::{Frequency, Hpx, MocQty, Time};

use crate::c02::*;
use crate::gen::*;
use crate::srcs::*;
use crate::util::*;

/// Collect every subtree (pre-order).
fn subtrees<'t>(t: &'t Tree, out: &mut Vec<&'t Tree>) {
  out.push(t);
  match t {
    Tree::Leaf(_) => {}
    Tree::And(a, b) | Tree::Or(a, b) | Tree::Xor(a, b) | Tree::Minus(a, b) => {
      subtrees(a, out);
      subtrees(b, out);
    }
    Tree::Not(a) | Tree::Degrade(_, a) => subtrees(a, out),
  }
}

/// Decode FITS bytes written by the range writer back into `depth|ranges`.
fn decode_fits<C: Combo>(bytes: Vec<u8>) -> String {
  match C::fits_ranges(bytes) {
    Some(it) => {
      let d = it.depth_max();
      let rs: Vec<Range<C::T>> = it.collect();
      format!("{}|{}", d, fmt_ranges(&to_u64_ranges(&rs)))
    }
    None => "err:decode".to_string(),
  }
}

fn trees<C: Combo>(sink: &mut Sink, rng: &mut Rng, thorough: bool) {
  let n = if thorough { 9000 } else { 260 };
  let max_h = if thorough { 6 } else { 4 };
  for i in 0..n {
    let small = i % 2 == 0;
    let mut leaves: Leaves<C> = Leaves { mocs: vec![], kinds: vec![] };
    let h = 1 + rng.below(max_h) as u32;
    let t = gen_tree::<C>(rng, h, &mut leaves, small);
    let mut toks = String::new();
    tree_tokens::<C>(&t, &leaves, &mut toks);
    sink.count(&format!("tree-height:{}", h));
    // (1) lazy = eager (same model answer for both ops)
    let mut inter = Vec::new();
    let ans = guarded(AssertUnwindSafe(|| describe_moc(&eval_eager::<C>(&t, &leaves, &mut inter))));
    sink.emit(&format!("expr_e {} {}{}", C::QNAME, C::W, toks), &ans, leaves.mocs.len() > 1);
    let ans = guarded(AssertUnwindSafe(|| {
      let it = eval_lazy::<C>(&t, &leaves);
      let d = it.depth_max();
      let rs: Vec<Range<C::T>> = it.collect();
      format!("{}|{}", d, fmt_ranges(&to_u64_ranges(&rs)))
    }));
    sink.emit(&format!("expr_l {} {}{}", C::QNAME, C::W, toks), &ans, leaves.mocs.len() > 1);
    // (2) the serialiser fed by the lazy tree (its size-hint driven fast path must not change the outcome),
    //     plain and wrapped in the CheckedIterator
    let ans = guarded(AssertUnwindSafe(|| {
      let mut buf = Vec::new();
      match eval_lazy::<C>(&t, &leaves).to_fits_ivoa(None, None, &mut buf) {
        Ok(()) => decode_fits::<C>(buf),
        Err(e) => format!("err:{}", e.to_string().replace(' ', "_")),
      }
    }));
    sink.emit(&format!("expr_fits {} {}{}", C::QNAME, C::W, toks), &ans, true);
    let ans = guarded(AssertUnwindSafe(|| {
      let mut buf = Vec::new();
      match eval_lazy::<C>(&t, &leaves).into_checked().to_fits_ivoa(None, None, &mut buf) {
        Ok(()) => decode_fits::<C>(buf),
        Err(e) => format!("err:{}", e.to_string().replace(' ', "_")),
      }
    }));
    sink.emit(&format!("expr_fits {} {}{}", C::QNAME, C::W, toks), &ans, true);
    // (3) hints of EVERY node (each subtree evaluated on its own), at creation and after 1 and 2 `next()`:
    //     the Lean `hintOkB` (proved ⇔ HintOk) judges the implementation's own hints against what it then yields
    let mut subs = Vec::new();
    subtrees(&t, &mut subs);
    for st in subs.iter().take(12) {
      for k in 0..3usize {
        let line = std::panic::catch_unwind(AssertUnwindSafe(|| {
          let mut it = eval_lazy::<C>(st, &leaves);
          for _ in 0..k {
            it.next();
          }
          let last = it.peek_last().map(|r| r.start.to_u64()..r.end.to_u64());
          let h = it.size_hint();
          let rest: Vec<Range<C::T>> = it.collect();
          // at creation the announced last range must be the end of what is yielded (strict: a source that
          // announces one yields something); after some `next()` an exhausted vector source may still answer it
          format!("{} {} {} {}", if k == 0 { "hintok0" } else { "hintok" }, fmt_ranges(&to_u64_ranges(&rest)), fmt_opt_range(last), fmt_hint(h))
        }));
        if let Ok(line) = line {
          let kind = match st {
            Tree::Leaf(_) => "leaf",
            Tree::And(..) => "and",
            Tree::Or(..) => "or",
            Tree::Xor(..) => "xor",
            Tree::Minus(..) => "minus",
            Tree::Not(_) => "not",
            Tree::Degrade(..) => "degrade",
          };
          sink.count(&format!("hint-node:{}", kind));
          sink.emit(&line, "true", true);
        }
      }
    }
  }
}

fn unary_wrappers<C: Combo>(sink: &mut Sink, rng: &mut Rng, thorough: bool) {
  let max_depth = <C::Q as MocQty<C::T>>::MAX_DEPTH;
  let n = if thorough { 7500 } else { 250 };
  for i in 0..n {
    let d = rng.below(max_depth as u64 + 1) as u8;
    let rs = if i % 5 == 0 { vec![] } else { random_moc_ranges::<C::T, C::Q>(rng, d, 5) };
    let m: RangeMOC<C::T, C::Q> = mk_moc(d, &rs);
    let mut k = rng.below(N_KINDS);
    if k == 5 && m.n_depth_max_cells().to_u64() > 4096 {
      k = 0;
    }
    let s = describe_src::<C>(k, &m);
    let ans = guarded(AssertUnwindSafe(|| describe_result(make_src::<C>(k, &m).into_checked())));
    sink.emit(&format!("l_check {}", s), &ans, !rs.is_empty());
  }
}

macro_rules! convert_case {
  ($sink:expr, $rng:expr, $n:expr, $t:ty, $u:ty, $q:ident, $qn:expr, $w:expr, $w2:expr, $combo:ty) => {{
    let max_depth = <$q<$t> as MocQty<$t>>::MAX_DEPTH;
    for i in 0..$n {
      let d = $rng.below(max_depth as u64 + 1) as u8;
      let rs = if i % 7 == 0 { vec![] } else { random_moc_ranges::<$t, $q<$t>>($rng, d, 5) };
      let m: RangeMOC<$t, $q<$t>> = mk_moc(d, &rs);
      let k = $rng.below(5);
      let s = describe_src::<$combo>(k, &m);
      let ans = guarded(AssertUnwindSafe(|| {
        describe_result(make_src::<$combo>(k, &m).convert::<$u, $q<$u>>())
      }));
      $sink.emit(&format!("l_convert {} {} {} {}", $qn, $w, $w2, s), &ans, !rs.is_empty());
    }
  }};
}

/// `overlapped_by` (the iterator behind `RangeMOC::overlapped_by_iter`) is one more streaming operator exposing hints: they
/// are judged against what it then yields (at creation and after 1 and 2 `next()`), and the FITS writer fed by it must
/// write exactly the ranges it yields.  Runs AFTER the other generators (the pseudo-random stream of the trees is unchanged).
fn overlap_hints<C: Combo>(sink: &mut Sink, rng: &mut Rng, thorough: bool) {
  let max_depth = <C::Q as MocQty<C::T>>::MAX_DEPTH;
  let n = if thorough { 1500 } else { 60 };
  for i in 0..n {
    let d = rng.below(max_depth as u64 + 1) as u8;
    let l = if i % 9 == 0 { vec![] } else { random_moc_ranges::<C::T, C::Q>(rng, d, 5) };
    let r = match i % 4 { 0 => l.clone(), 1 => l.iter().take(1).cloned().collect(), _ => random_moc_ranges::<C::T, C::Q>(rng, d, 5) };
    let (ml, mr): (RangeMOC<C::T, C::Q>, RangeMOC<C::T, C::Q>) = (mk_moc(d, &l), mk_moc(d, &r));
    for k in 0..3usize {
      let line = std::panic::catch_unwind(AssertUnwindSafe(|| {
        let mut it = ml.overlapped_by_iter(&mr);
        for _ in 0..k {
          it.next();
        }
        let last = it.peek_last().map(|r| r.start.to_u64()..r.end.to_u64());
        let h = it.size_hint();
        let rest: Vec<Range<C::T>> = it.collect();
        format!("{} {} {} {}", if k == 0 { "hintok0" } else { "hintok" }, fmt_ranges(&to_u64_ranges(&rest)), fmt_opt_range(last), fmt_hint(h))
      }));
      if let Ok(line) = line {
        sink.count("hint-node:overlapped_by");
        sink.emit(&line, "true", !(l.is_empty() && r.is_empty()));
      }
    }
    let expected = std::panic::catch_unwind(AssertUnwindSafe(|| fmt_ranges(&to_u64_ranges(&ml.overlapped_by_iter(&mr).collect::<Vec<Range<C::T>>>()))));
    let written = guarded(AssertUnwindSafe(|| {
      let mut buf = Vec::new();
      match ml.overlapped_by_iter(&mr).to_fits_ivoa(None, None, &mut buf) {
        Ok(()) => match C::fits_ranges(buf) {
          Some(it) => fmt_ranges(&to_u64_ranges(&it.collect::<Vec<Range<C::T>>>())),
          None => "err:unreadable".to_string(),
        },
        Err(e) => format!("err:{}", e.to_string().replace(' ', "_")),
      }
    }));
    if let Ok(exp) = expected {
      if written != exp {
        sink.impl_failures.push(format!("C04 overlapped_by_iter(..).to_fits_ivoa wrote {} instead of the ranges the iterator yields {} ({} u{} depth {}: {} | {})", written, exp, C::QNAME, C::W, d, fmt_ranges(&l), fmt_ranges(&r)));
      }
    }
  }
}

pub fn run(sink: &mut Sink, rng: &mut Rng, thorough: bool) {
  for_all_combos!(trees, sink, rng, thorough);
  for_all_combos!(unary_wrappers, sink, rng, thorough);
  let n = if thorough { 4500 } else { 150 };
  convert_case!(sink, rng, n, u16, u32, Hpx, "hpx", 16, 32, H16);
  convert_case!(sink, rng, n, u16, u64, Hpx, "hpx", 16, 64, H16);
  convert_case!(sink, rng, n, u32, u64, Hpx, "hpx", 32, 64, H32);
  convert_case!(sink, rng, n, u16, u32, Time, "time", 16, 32, T16);
  convert_case!(sink, rng, n, u32, u64, Time, "time", 32, 64, T32);
  convert_case!(sink, rng, n, u16, u64, Frequency, "freq", 16, 64, F16);
  convert_case!(sink, rng, n, u32, u64, Frequency, "freq", 32, 64, F32);
  for_all_combos!(overlap_hints, sink, rng, thorough);
  let _ = (from_fits_ivoa::<Cursor<Vec<u8>>>, |_: MocIdxType<Cursor<Vec<u8>>>| (), |_: MocQtyType<u64, Cursor<Vec<u8>>>| (), |_: MocType<u64, Hpx<u64>, Cursor<Vec<u8>>>| ());
}
