//! C20 — cumulative-value selection on multi-order maps brackets the requested mass.
//! `vsel`: exact correspondence with the Lean model (dyadic values => exact floating point);
//! additionally the property itself (cells of the map / sub-cells, mass bracket) is evaluated on the
//! implementation's output with exact integer arithmetic (implementation-vs-definition check).
use std::ops::Range;
use std::panic::AssertUnwindSafe;

use moc::elem::valuedcell::valued_cells_to_moc_with_opt;
use moc::qty::Hpx;
use moc::ranges::SNORanges;

use crate::gen::*;
use crate::util::*;

struct VC {
  depth: u8,
  idx: u64,
  val: u64, // scaled integer value (multiple of 4^(max_depth - depth))
}

fn cell_range(depth: u8, idx: u64) -> Range<u64> {
  let sh = 2 * (29 - depth as u32);
  (idx << sh)..((idx + 1) << sh)
}

/// Exact mass (scaled integer) of the map enclosed by `sel` (ranges at depth 29).
fn mass(cells: &[VC], sel: &[Range<u64>]) -> u128 {
  let mut m: u128 = 0;
  for c in cells {
    let r = cell_range(c.depth, c.idx);
    let len = (r.end - r.start) as u128;
    let mut cov: u128 = 0;
    for s in sel {
      let a = s.start.max(r.start);
      let b = s.end.min(r.end);
      if a < b {
        cov += (b - a) as u128;
      }
    }
    // value is proportional to the area: exact since val is a multiple of 4^(max_depth-depth) and the
    // selection is made of cells not deeper than max_depth
    m += (c.val as u128) * cov / len;
  }
  m
}

fn one_case(sink: &mut Sink, rng: &mut Rng, max_depth: u8, cells: &[VC], from: u64, to: u64, asc: bool, strict: bool, no_split: bool, rev: bool) {
  let scale = 1u64 << (2 * max_depth as u32);
  let txt = if cells.is_empty() {
    "_".to_string()
  } else {
    cells
      .iter()
      .map(|c| format!("{}/{}/{}/{}", c.depth, c.idx, c.val, (c.val as u128 * (1u128 << (2 * c.depth as u32))) ))
      .collect::<Vec<_>>()
      .join(",")
  };
  let uvd: Vec<(u64, f64, f64)> = cells
    .iter()
    .map(|c| {
      let n_sub = (1u64 << (2 * (max_depth - c.depth) as u32)) as f64;
      (Hpx::<u64>::uniq_hpx(c.depth, c.idx), c.val as f64, c.val as f64 / n_sub)
    })
    .collect();
  let res = std::panic::catch_unwind(AssertUnwindSafe(|| {
    let r = valued_cells_to_moc_with_opt::<u64, f64>(max_depth, uvd.clone(), from as f64, to as f64, asc, strict, no_split, rev);
    to_u64_ranges(&r.0 .0)
  }));
  let b = |x: bool| if x { "1" } else { "0" };
  let op = format!("vsel {} {} {} {} {} {} {} {}", max_depth, txt, from, to, b(asc), b(strict), b(no_split), b(rev));
  sink.count(&format!("mode:{}{}{}{}", if asc { "asc" } else { "desc" }, if strict { "-strict" } else { "" }, if no_split { "-nosplit" } else { "-split" }, if rev { "-rev" } else { "" }));
  match res {
    Err(_) => sink.emit(&op, "fault", true),
    Ok(sel) => {
      sink.emit(&op, &fmt_ranges(&sel), !cells.is_empty());
      // ---- the property on the implementation's output (exact integers)
      let total: u64 = cells.iter().map(|c| c.val).sum();
      if from <= to && to <= total {
        let m = mass(cells, &sel);
        let target = (to - from) as u128;
        // boundary pieces: with splitting, one finest sub-cell of each boundary cell; without, the boundary cells
        // (conservative bound: the largest cell value of the map, resp. its finest piece)
        let piece: u128 = if no_split {
          2 * cells.iter().map(|c| c.val as u128).max().unwrap_or(0)
        } else {
          2 * cells.iter().map(|c| (c.val as u128) >> (2 * (max_depth - c.depth) as u32)).max().unwrap_or(0)
        };
        // EXACT bound: the boundary pieces are the pieces strictly cut by a threshold — the finest sub-cell of the cell
        // the threshold falls in when splitting is allowed, that whole cell otherwise; a threshold lying exactly on a
        // (sub-)cell boundary cuts nothing.  The enclosed value differs from the target by LESS than their sum
        // (hence not at all when nothing is cut).
        let exact_bound: u128 = {
          let mut sorted: Vec<&VC> = cells.iter().collect();
          let key = |c: &VC| (c.val as u128) << (2 * c.depth as u32);
          if asc { sorted.sort_by_key(|c| key(c)); } else { sorted.sort_by_key(|c| std::cmp::Reverse(key(c))); }
          let mut b = 0u128;
          for thr in [from, to] {
            let mut acc = 0u64;
            for c in &sorted {
              if acc < thr && thr < acc + c.val {
                let unit = if no_split { c.val } else { c.val >> (2 * (max_depth - c.depth) as u32) };
                if unit > 0 && (thr - acc) % unit != 0 { b += unit as u128; }
              }
              acc += c.val;
            }
          }
          b
        };
        let _ = piece;
        let ok = if strict { m <= target && target - m < exact_bound.max(1) } else { m >= target && m - target < exact_bound.max(1) };
        // both thresholds inside one and the same cell is a documented limitation (see DESIGN.md): classify
        let mut sorted: Vec<&VC> = cells.iter().collect();
        let key = |c: &VC| (c.val as u128) << (2 * c.depth as u32);
        if asc { sorted.sort_by_key(|c| key(c)); } else { sorted.sort_by_key(|c| std::cmp::Reverse(key(c))); }
        let mut acc = 0u64;
        let mut same_cell = false;
        for c in &sorted {
          if acc < from && from < acc + c.val && acc < to && to < acc + c.val {
            same_cell = true;
          }
          acc += c.val;
        }
        if !ok {
          let what = if same_cell { "both-thresholds-inside-one-cell" } else { "mass-bracket" };
          sink.impl_failures.push(format!("C20 {} violated: {} => selected mass {} target {} piece {} (scale {})", what, op, m, target, piece, scale));
        }
        // selected ranges are made of map cells / sub-cells: covered by the map's footprint
        let fp: Vec<Range<u64>> = cells.iter().map(|c| cell_range(c.depth, c.idx)).collect();
        let fpr = moc::ranges::Ranges::<u64>::new_from(fp);
        let selr = moc::ranges::Ranges::<u64>::new_unchecked(sel.clone());
        if !fpr.contains(&selr) {
          sink.impl_failures.push(format!("C20 selection leaves the footprint of the map: {}", op));
        }
      }
    }
  }
  let _ = rng;
}

/// The sky map reader with a positive `skip` value: the skipped (lowest) pixels are the HEAD of the ascending order
/// (their value is removed from both thresholds there) and the TAIL of the descending one (nothing to remove); a pixel
/// that is not a value (HEALPix UNSEEN = -1.6375e30, NaN) belongs to no selection and shifts no threshold.
/// Depth-1 NESTED map of 48 pixels with pairwise different consecutive values (so that the map cells are the pixels).
fn skymap_cases(sink: &mut Sink) {
  use moc::deser::fits::skymap::from_fits_skymap;
  use std::io::{BufReader, Cursor};
  fn card(s: String) -> Vec<u8> { let mut v = s.into_bytes(); v.resize(80, b' '); v }
  fn block(cards: Vec<String>) -> Vec<u8> {
    let mut v = Vec::new();
    for c in cards { v.extend(card(c)); }
    v.extend(card("END".to_string()));
    while v.len() % 2880 != 0 { v.push(b' '); }
    v
  }
  let ki = |k: &str, v: u64| format!("{:<8}= {:>20}", k, v);
  let ks = |k: &str, v: &str| format!("{:<8}= '{}'", k, v);
  for variant in 0..3u32 {
    // values: 4, 8, 12, 16 in turn (never two equal neighbours), a few small ones (1, 2) to be skipped
    let mut vals: Vec<f64> = (0..48u64).map(|i| (4 * (1 + (i * 7 + i / 5) % 4)) as f64).collect();
    for i in [3usize, 10, 22, 41] { vals[i] = if i % 2 == 0 { 2.0 } else { 1.0 }; }
    for i in 1..48 { if vals[i] == vals[i - 1] { vals[i] += 16.0; } }
    if variant == 1 { vals[47] = -1.6375e30; }
    if variant == 2 { vals[30] = f64::NAN; }
    let mut f = block(vec![format!("{:<8}= {:>20}", "SIMPLE", "T"), ki("BITPIX", 8), ki("NAXIS", 0), format!("{:<8}= {:>20}", "EXTEND", "T")]);
    f.extend(block(vec![ks("XTENSION", "BINTABLE"), ki("BITPIX", 8), ki("NAXIS", 2), ki("NAXIS1", 8), ki("NAXIS2", 48), ki("PCOUNT", 0), ki("GCOUNT", 1), ki("TFIELDS", 1),
      ks("TTYPE1", "PROB"), ks("TFORM1", "D"), ks("PIXTYPE", "HEALPIX"), ks("ORDERING", "NESTED"), ks("COORDSYS", "C"), ki("MOCORDER", 1), ks("INDXSCHM", "IMPLICIT")]));
    for x in &vals { f.extend_from_slice(&x.to_be_bytes()); }
    while f.len() % 2880 != 0 { f.push(0); }
    for skip in [0.0f64, 2.0] {
      let kept: Vec<VC> = vals.iter().enumerate().filter(|(_, v)| v.is_finite() && **v > skip).map(|(i, v)| VC { depth: 1, idx: i as u64, val: *v as u64 }).collect();
      let skipped: u64 = vals.iter().filter(|v| v.is_finite() && **v > 0.0 && **v <= skip).map(|v| *v as u64).sum();
      let total: u64 = kept.iter().map(|c| c.val).sum::<u64>() + skipped;
      for (from, to) in [(0u64, 40u64), (16, 100), (skipped, total), (0, total), (total / 2, total - 8), (3, 60)] {
        for mode in 0..8u32 {
          let (asc, strict, rev) = (mode & 1 == 1, mode & 2 == 2, mode & 4 == 4);
          let res = std::panic::catch_unwind(AssertUnwindSafe(|| from_fits_skymap(BufReader::new(Cursor::new(f.clone())), skip, from as f64, to as f64, asc, strict, true, rev)));
          // the same selection on the kept cells: thresholds shifted by the skipped value in ascending order only
          let (mf, mt) = if asc { (from.saturating_sub(skipped), to.saturating_sub(skipped)) } else { (from, to) };
          let b = |x: bool| if x { "1" } else { "0" };
          let txt = kept.iter().map(|c| format!("{}/{}/{}/{}", c.depth, c.idx, c.val, c.val as u128 * 4)).collect::<Vec<_>>().join(",");
          let op = format!("vsel 1 {} {} {} {} {} 1 {}", txt, mf, mt, b(asc), b(strict), b(rev));
          sink.count("skymap-reader:case");
          match res {
            Ok(Ok(m)) => sink.emit(&op, &fmt_ranges(&to_u64_ranges(&m.moc_ranges().0 .0)), true),
            Ok(Err(e)) => sink.emit(&op, &format!("err {}", e.to_string().replace(' ', "_")), true),
            Err(_) => sink.emit(&op, "fault", true),
          }
        }
      }
    }
  }
}

pub fn run(sink: &mut Sink, rng: &mut Rng, thorough: bool) {
  skymap_cases(sink);
  let n = if thorough { 20000 } else { 500 };
  for i in 0..n {
    let max_depth = 1 + rng.below(2) as u8; // 1 or 2
    let scale = 1u64 << (2 * max_depth as u32);
    // disjoint cells of mixed depths 0..max_depth
    let ncell = 1 + rng.below(4) as usize;
    let mut cells: Vec<VC> = Vec::new();
    let mut used: Vec<Range<u64>> = Vec::new();
    for _ in 0..ncell {
      for _try in 0..10 {
        let d = rng.below(max_depth as u64 + 1) as u8;
        let idx = rng.below((12u64 << (2 * d as u32)).min(24));
        let r = cell_range(d, idx);
        if used.iter().all(|u| u.end <= r.start || r.end <= u.start) {
          let v = rng.below(4) * scale * if rng.chance(1, 3) { 4 } else { 1 };
          cells.push(VC { depth: d, idx, val: v });
          used.push(r);
          break;
        }
      }
    }
    if i % 50 == 0 {
      cells.clear();
    }
    let total: u64 = cells.iter().map(|c| c.val).sum();
    // thresholds on and between the cumulative sums, in quarter-of-finest-piece steps
    let mut thr: Vec<u64> = vec![0, total];
    let mut acc = 0;
    for c in &cells {
      acc += c.val;
      thr.push(acc);
      thr.push(acc.saturating_sub(c.val / 2));
      thr.push(acc.saturating_sub(1));
      thr.push(acc.saturating_sub(c.val / scale.max(1)));
    }
    thr.push(rng.below(total + 1));
    thr.push(rng.below(total + 1));
    // in BOTH density orders: every boundary of a quarter and of a finest piece of every cell (a threshold lying
    // exactly on a sub-cell boundary cuts nothing: the selection must then be exact in both modes), and the middle
    // of the first finest piece
    for ascending in [true, false] {
      let mut sorted: Vec<&VC> = cells.iter().collect();
      let key = |c: &VC| (c.val as u128) << (2 * c.depth as u32);
      if ascending { sorted.sort_by_key(|c| key(c)); } else { sorted.sort_by_key(|c| std::cmp::Reverse(key(c))); }
      let mut acc = 0u64;
      for c in &sorted {
        let fin = c.val >> (2 * (max_depth - c.depth) as u32);
        for k in 0..=4u64 { thr.push(acc + k * (c.val / 4)); }
        for k in [1u64, 2, 3, 5, 7] { if k * fin <= c.val { thr.push(acc + k * fin); } }
        if fin >= 2 { thr.push(acc + fin / 2); }
        acc += c.val;
      }
    }
    thr.sort_unstable();
    thr.dedup();
    let pairs = if thorough { 10 } else { 6 };
    for _ in 0..pairs {
      let a = *rng.pick(&thr);
      let b = *rng.pick(&thr);
      let (from, to) = (a.min(b), a.max(b));
      for mode in 0..16u32 {
        one_case(sink, rng, max_depth, &cells, from, to, mode & 1 == 1, mode & 2 == 2, mode & 4 == 4, mode & 8 == 8);
      }
    }
  }
}

/// C19: `moc from vcells ... ascii <depth> -` (values given as `uniq value` lines) against the C20 model.
/// NB: the command-line flag `-p/--no-split` sets the field `split` (its help text reads "Split recursively…"):
/// the selection SPLITS the boundary cells when the flag is given and does not when it is absent; the flag is
/// driven with the meaning the tool implements.
pub fn cli_vcells(sink: &mut Sink, rng: &mut Rng, thorough: bool, dir: &std::path::Path) {
  use crate::c19::moc as run_moc;
  let n = if thorough { 60 } else { 8 };
  for _ in 0..n {
    let max_depth = 1 + rng.below(2) as u8;
    let scale = 1u64 << (2 * max_depth as u32);
    let mut cells: Vec<VC> = Vec::new();
    let mut used: Vec<Range<u64>> = Vec::new();
    for _ in 0..(1 + rng.below(4)) {
      for _try in 0..10 {
        let d = rng.below(max_depth as u64 + 1) as u8;
        let idx = rng.below((12u64 << (2 * d as u32)).min(24));
        let r = cell_range(d, idx);
        if used.iter().all(|u| u.end <= r.start || r.end <= u.start) {
          cells.push(VC { depth: d, idx, val: (1 + rng.below(3)) * scale * if rng.chance(1, 3) { 4 } else { 1 } });
          used.push(r);
          break;
        }
      }
    }
    let total: u64 = cells.iter().map(|c| c.val).sum();
    let mut thr: Vec<u64> = vec![0, total];
    let mut acc = 0;
    for c in &cells { acc += c.val; thr.push(acc); thr.push(acc - c.val / 2); }
    let (a, b) = (*rng.pick(&thr), *rng.pick(&thr));
    let (from, to) = (a.min(b), a.max(b));
    let txt = cells.iter().map(|c| format!("{}/{}/{}/{}", c.depth, c.idx, c.val, (c.val as u128 * (1u128 << (2 * c.depth as u32))))).collect::<Vec<_>>().join(",");
    let input = cells.iter().map(|c| format!("{} {}", Hpx::<u64>::uniq_hpx(c.depth, c.idx), c.val)).collect::<Vec<_>>().join("\n") + "\n";
    for mode in 0..16u32 {
      let (asc, strict, no_split, rev) = (mode & 1 == 1, mode & 2 == 2, mode & 4 == 4, mode & 8 == 8);
      let outp = dir.join("vcells.fits");
      let _ = std::fs::remove_file(&outp);
      let (fs_, ts_, ds) = (from.to_string(), to.to_string(), max_depth.to_string());
      let mut args: Vec<&str> = vec!["from", "vcells", "-f", &fs_, "-t", &ts_];
      if asc { args.push("-a"); }
      if !strict { args.push("-s"); }
      if !no_split { args.push("-p"); } // the flag turns splitting ON (see above)
      if rev { args.push("-r"); }
      args.extend(["ascii", &ds, "-", "fits", "-f"]);
      args.push(outp.to_str().unwrap());
      let o = run_moc(&args, Some(&input));
      let b = |x: bool| if x { "1" } else { "0" };
      let op = format!("vsel {} {} {} {} {} {} {} {}", max_depth, txt, from, to, b(asc), b(strict), b(no_split), b(rev));
      let ans = if o.code == 0 {
        match std::fs::read(&outp).map_err(|e| e.to_string()).and_then(|bytes| crate::c07::read_fits(&bytes)) {
          Ok((q, _w, d, rs)) => {
            if q != "hpx" || d != max_depth { sink.impl_failures.push(format!("cli-vcells: wrote a {} MOC of depth {} (expected hpx, {})", q, d, max_depth)); }
            fmt_ranges(&rs)
          }
          Err(e) => format!("unreadable: {}", e),
        }
      } else if o.code == 101 { "fault".to_string() } else { format!("exit {} {}", o.code, o.err.lines().next().unwrap_or("")) };
      sink.count("from:vcells");
      sink.emit(&op, &ans, true);
    }
  }
}
