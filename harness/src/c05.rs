//! C05 — changes of representation are lossless and yield the unique normal form.
use std::ops::Range;
use std::panic::AssertUnwindSafe;

use moc::elem::cell::Cell;
use moc::elem::cellcellrange::CellOrCellRange;
use moc::idx::Idx;
use moc::moc::range::op::convert::{convert_from_u64, convert_to_u64};
use moc::moc::range::RangeMOC;
use moc::moc::{CellMOCIterator, CellOrCellRangeMOCIterator, HasMaxDepth, RangeMOCIntoIterator, RangeMOCIterator};
use moc::qty::{Frequency, Hpx, MocQty, Time};

use crate::gen::*;
use crate::srcs::*;
use crate::util::*;

fn fmt_cells<T: Idx>(v: &[Cell<T>]) -> String {
  if v.is_empty() {
    "_".to_string()
  } else {
    v.iter().map(|c| format!("{}/{}", c.depth, c.idx.to_u64())).collect::<Vec<_>>().join(",")
  }
}
fn fmt_ccr<T: Idx>(v: &[CellOrCellRange<T>]) -> String {
  if v.is_empty() {
    "_".to_string()
  } else {
    v.iter()
      .map(|c| match c {
        CellOrCellRange::Cell(c) => format!("{}/{}", c.depth, c.idx.to_u64()),
        CellOrCellRange::CellRange(r) => format!("{}/{}-{}", r.depth, r.range.start.to_u64(), r.range.end.to_u64()),
      })
      .collect::<Vec<_>>()
      .join(",")
  }
}

fn views<C: Combo + ToU64>(sink: &mut Sink, d: u8, l: &[Range<u64>]) {
  let (q, w) = (C::QNAME, C::W);
  let fl = fmt_ranges(l);
  let m: RangeMOC<C::T, C::Q> = mk_moc(d, l);
  let nt = !l.is_empty();
  let cells: Vec<Cell<C::T>> = (&m).into_range_moc_iter().cells().collect();
  sink.emit(&format!("r_cells {} {} {} {}", q, w, d, fl), &fmt_cells(&cells), nt);
  let ccr: Vec<CellOrCellRange<C::T>> = (&m).into_range_moc_iter().cells().cellranges().collect();
  sink.emit(&format!("r_cellranges {} {} {} {}", q, w, d, fl), &fmt_ccr(&ccr), nt);
  if m.n_depth_max_cells().to_u64() <= 600 {
    let flat: Vec<u64> = m.flatten_to_fixed_depth_cells().map(|c| c.to_u64()).collect();
    let txt = if flat.is_empty() { "_".to_string() } else { flat.iter().map(|x| x.to_string()).collect::<Vec<_>>().join(",") };
    sink.emit(&format!("r_flat {} {} {} {}", q, w, d, fl), &txt, nt);
    // flat cells back to a MOC, through builders that flush every 1 / 2 / 3 / 7 cells (runs of consecutive cells
    // straddle the flush boundaries) and through the default buffer: the round trip gives back the MOC
    for cap in [Some(1usize), Some(2), Some(3), Some(7), None] {
      let rt: RangeMOC<C::T, C::Q> = RangeMOC::from_fixed_depth_cells(d, m.flatten_to_fixed_depth_cells(), cap);
      sink.emit(&format!("same flat-cap{} {} {}", cap.map(|c| c.to_string()).unwrap_or("default".to_string()), d, fl), &describe_moc(&rt), nt);
    }
  }
  // back to ranges (model evaluates its own adapters on the implementation's cells)
  let back: Vec<Range<C::T>> = (&m).into_range_moc_iter().cells().ranges().collect();
  sink.emit(&format!("r_ofcells {} {} {}", q, w, fmt_cells(&cells)), &fmt_ranges(&to_u64_ranges(&back)), nt);
  let back2: Vec<Range<C::T>> = (&m).into_range_moc_iter().cells().cellranges().ranges().collect();
  sink.emit(&format!("r_ofcellranges {} {} {}", q, w, fmt_ccr(&ccr)), &fmt_ranges(&to_u64_ranges(&back2)), nt);
  // the property: the round trips give back the MOC (depth and ranges)
  let rt = (&m).into_range_moc_iter().cells().ranges().into_range_moc();
  sink.emit(&format!("same cells {} {}", d, fl), &describe_moc(&rt), nt);
  let rt = (&m).into_range_moc_iter().cells().cellranges().ranges().into_range_moc();
  sink.emit(&format!("same cellranges {} {}", d, fl), &describe_moc(&rt), nt);
  // width round trip through u64 (every width can be widened to u64 and narrowed back)
  let ans = guarded(AssertUnwindSafe(|| {
    let it = convert_to_u64::<C::T, C::Q, _, <C as ToU64>::Q64>((&m).into_range_moc_iter());
    let wide = it.into_range_moc();
    let back: RangeMOC<C::T, C::Q> = convert_from_u64::<<C as ToU64>::Q64, C::T, C::Q, _>((&wide).into_range_moc_iter()).into_range_moc();
    describe_moc(&back)
  }));
  sink.emit(&format!("same width-roundtrip {} {}", d, fl), &ans, nt);
}

pub trait ToU64: Combo {
  type Q64: MocQty<u64>;
}
impl ToU64 for H16 { type Q64 = Hpx<u64>; }
impl ToU64 for H32 { type Q64 = Hpx<u64>; }
impl ToU64 for H64 { type Q64 = Hpx<u64>; }
impl ToU64 for T16 { type Q64 = Time<u64>; }
impl ToU64 for T32 { type Q64 = Time<u64>; }
impl ToU64 for T64 { type Q64 = Time<u64>; }
impl ToU64 for F16 { type Q64 = Frequency<u64>; }
impl ToU64 for F32 { type Q64 = Frequency<u64>; }
impl ToU64 for F64 { type Q64 = Frequency<u64>; }

fn combo<C: Combo + ToU64>(sink: &mut Sink, rng: &mut Rng, thorough: bool) {
  let max_depth = <C::Q as MocQty<C::T>>::MAX_DEPTH;
  let (q, w) = (C::QNAME, C::W);
  // whole-domain small scope: hpx depth 1 (48 cells: mixed depth 0/1 cells, full base cells), T/F depth 3 (16 cells)
  let d0 = if C::QNAME == "hpx" { 1 } else { 3 };
  let k = n_cells::<C::T, C::Q>(d0) as u32;
  let unit = cell_size::<C::T, C::Q>(d0);
  let n = if thorough { 20_000 } else { 1500 };
  for i in 0..n {
    // dense and sparse masks
    let mut mask = rng.next_u64() & ((1u64 << k.min(63)) - 1);
    match i % 4 {
      0 => mask |= rng.next_u64(),
      1 => mask &= rng.next_u64(),
      _ => {}
    }
    mask &= if k >= 64 { u64::MAX } else { (1u64 << k) - 1 };
    let l = ranges_of_mask(mask, k.min(63), unit);
    views::<C>(sink, d0 + (i % 3) as u8, &l);
  }
  views::<C>(sink, d0, &[0..n_cells_max::<C::T, C::Q>()]);
  views::<C>(sink, 0, &[]);
  let n = if thorough { 3000 } else { 300 };
  for _ in 0..n {
    let d = rng.below(max_depth as u64 + 1) as u8;
    let l = random_moc_ranges::<C::T, C::Q>(rng, d, 6);
    views::<C>(sink, d, &l);
  }
  // numbering schemes: exhaustive for shallow depths, sampled up to MAX_DEPTH
  let deep: Vec<u8> = (0..=max_depth).collect();
  for d in deep {
    let nn = n_cells::<C::T, C::Q>(d);
    let mut idxs: Vec<u64> = if nn <= 200 { (0..nn).collect() } else { vec![0, 1, 2, 3, nn / 2, nn - 2, nn - 1] };
    for _ in 0..(if thorough { 12 } else { 3 }) {
      idxs.push(rng.below(nn));
    }
    for i in idxs {
      let ti = <C::T as Idx>::from_u64(i);
      let u = <C::Q as MocQty<C::T>>::to_uniq_gen(d, ti);
      sink.emit(&format!("u_gen {} {} {}", q, d, i), &u.to_u64().to_string(), true);
      let (dd, ii) = <C::Q as MocQty<C::T>>::from_uniq_gen(u);
      sink.emit(&format!("u_fromgen {} {}", q, u.to_u64()), &format!("{}/{}", dd, ii.to_u64()), true);
      // generic uniq -> index range (must be the range of that cell, for every quantity)
      let ans = guarded(AssertUnwindSafe(|| {
        let r = <C::Q as MocQty<C::T>>::uniq_gen_to_range(u);
        fmt_ranges(&[r.start.to_u64()..r.end.to_u64()])
      }));
      sink.emit(&format!("u_genrange {} {} {}", q, w, u.to_u64()), &ans, true);
      let z = <C::Q as MocQty<C::T>>::to_zuniq(d, ti);
      sink.emit(&format!("u_z {} {} {} {}", q, w, d, i), &z.to_u64().to_string(), true);
      let (dd, ii) = <C::Q as MocQty<C::T>>::from_zuniq(z);
      sink.emit(&format!("u_fromz {} {} {}", q, w, z.to_u64()), &format!("{}/{}", dd, ii.to_u64()), true);
      // width conversions of one index
      let k = 64 - C::W as u64;
      sink.emit(&format!("w_widen {} {}", k, ti.to_u64()), &ti.to_u64_idx().to_string(), true);
      sink.emit(&format!("w_narrow {} {}", k, ti.to_u64_idx()), &<C::T as Idx>::from_u64_idx(ti.to_u64_idx()).to_u64().to_string(), true);
    }
  }
}

fn hpx_uniq<T: Idx + num::CheckedAdd>(sink: &mut Sink, rng: &mut Rng, w: u32, thorough: bool) {
  let max_depth = <Hpx<T> as MocQty<T>>::MAX_DEPTH;
  for d in 0..=max_depth {
    let nn = Hpx::<T>::n_cells(d).to_u64();
    let mut idxs: Vec<u64> = if nn <= 200 { (0..nn).collect() } else { vec![0, 1, nn / 2, nn - 2, nn - 1] };
    for _ in 0..(if thorough { 12 } else { 3 }) {
      idxs.push(rng.below(nn));
    }
    for i in idxs {
      let u = Hpx::<T>::uniq_hpx(d, T::from_u64(i));
      sink.emit(&format!("u_hpx {} {}", d, i), &u.to_u64().to_string(), true);
      let (dd, ii) = Hpx::<T>::from_uniq_hpx(u);
      sink.emit(&format!("u_fromhpx {}", u.to_u64()), &format!("{}/{}", dd, ii.to_u64()), true);
      // NUNIQ number -> range of the cell at the deepest level of the index type
      let r = Hpx::<T>::uniq_hpx_to_range(u);
      sink.emit(&format!("u_hpxrange {} {}", w, u.to_u64()), &format!("{}-{}", r.start.to_u64(), r.end.to_u64()), true);
    }
  }
  // nested ranges -> NUNIQ ranges -> nested ranges
  {
    let base = 1u64 << (Hpx::<T>::shift_from_depth_max(0) as u32);
    let directed: Vec<(u8, Vec<Range<u64>>)> = vec![
      (0, vec![0..12 * base]), (1, vec![3 * base..4 * base]), (2, vec![base..3 * base]), (0, vec![11 * base..12 * base]),
      (1, vec![base / 4..base, 2 * base..3 * base + base / 4]), (max_depth, vec![5 * base..6 * base, 7 * base..7 * base + 1]),
    ];
    for (d, l) in directed {
      let m: RangeMOC<T, Hpx<T>> = mk_moc(d, &l);
      let ans = guarded(AssertUnwindSafe(|| {
        let u = m.clone().into_moc_ranges().into_hpx_uniq();
        let mut vals: Vec<u64> = Vec::new();
        for r in u.iter() { vals.extend(r.start.to_u64()..r.end.to_u64()); }
        vals.sort_unstable();
        vals.iter().map(|x| x.to_string()).collect::<Vec<_>>().join(",")
      }));
      sink.emit(&format!("r_nuniq {} {} {}", w, d, fmt_ranges(&l)), &ans, true);
      sink.emit(&format!("r_nuniq_it {} {} {}", w, d, fmt_ranges(&l)), &ans, true);
    }
  }
  let n = if thorough { 4000 } else { 400 };
  for i in 0..n {
    let d = if i % 2 == 0 { rng.below(3) as u8 } else { rng.below(max_depth as u64 + 1) as u8 };
    let l = if i % 2 == 0 {
      let k = Hpx::<T>::n_cells(d).to_u64().min(48) as u32;
      let unit = 1u64 << (Hpx::<T>::shift_from_depth_max(d) as u32);
      ranges_of_mask(rng.next_u64() | (rng.next_u64() & 0x8000_0000_0001), k, unit)
    } else {
      random_moc_ranges::<T, Hpx<T>>(rng, d, 5)
    };
    let m: RangeMOC<T, Hpx<T>> = mk_moc(d, &l);
    let ans = guarded(AssertUnwindSafe(|| {
      let back = m.clone().into_moc_ranges().into_hpx_uniq().into_hpx();
      format!("{}|{}", d, fmt_ranges(&to_u64_ranges(&back.0 .0)))
    }));
    sink.emit(&format!("same hpx-uniq-ranges{} {} {}", w, d, fmt_ranges(&l)), &ans, !l.is_empty());
    // `iter_depth_pix` (`HpxUniq2DepthIdxIter`): the (depth, index) cells, in its own emission order
    let ans = guarded(AssertUnwindSafe(|| {
      let v: Vec<String> = m.clone().into_moc_ranges().iter_depth_pix().take(3001).map(|(dd, ii)| format!("{}/{}", dd, ii.to_u64())).collect();
      if v.len() > 3000 { "skip".to_string() } else if v.is_empty() { "_".to_string() } else { v.join(",") }
    }));
    if ans != "skip" { sink.emit(&format!("r_depthidx {} {}", w, fmt_ranges(&l)), &ans, !l.is_empty()); }
    // the NUNIQ -> nested iterator itself (`UniqToHpxIter`), range by range, on the NUNIQ ranges of this MOC
    let ans = guarded(AssertUnwindSafe(|| {
      let u = m.clone().into_moc_ranges().into_hpx_uniq();
      let urs: Vec<Range<u64>> = u.iter().map(|r| r.start.to_u64()..r.end.to_u64()).collect();
      if urs.iter().map(|r| r.end - r.start).sum::<u64>() > 3000 { return "skip".to_string(); }
      let out: Vec<Range<u64>> = moc::elemset::range::hpx::UniqToHpxIter::new(moc::elemset::range::HpxRanges::<T>::new_unchecked(
        u.iter().cloned().collect())).map(|r| r.start.to_u64()..r.end.to_u64()).collect();
      format!("{}#{}", fmt_ranges(&urs), fmt_ranges(&out))
    }));
    if ans != "skip" {
      if let Some((urs, out)) = ans.split_once('#') {
        sink.emit(&format!("u_tohpx {} {}", w, urs), out, !l.is_empty());
      } else { sink.emit(&format!("u_tohpx {} _", w), &ans, true); }
    }
    // the NUNIQ view itself must be the NORMAL form: exactly the NUNIQ numbers of the largest aligned cells
    // (a representation covering the same set with four siblings instead of their parent is not)
    let ans = guarded(AssertUnwindSafe(|| {
      let u = m.clone().into_moc_ranges().into_hpx_uniq();
      let mut vals: Vec<u64> = Vec::new();
      for r in u.iter() {
        let (a, b) = (r.start.to_u64(), r.end.to_u64());
        if b < a || b - a > 4096 || vals.len() > 20000 { return format!("too-long-run {}-{}", a, b); }
        vals.extend(a..b);
      }
      vals.sort_unstable();
      if vals.is_empty() { "_".to_string() } else { vals.iter().map(|x| x.to_string()).collect::<Vec<_>>().join(",") }
    }));
    sink.emit(&format!("r_nuniq {} {} {}", w, d, fmt_ranges(&l)), &ans, !l.is_empty());
    // ... and exactly what the transliterated iterator (`UniqIter.run`) emits
    sink.emit(&format!("r_nuniq_it {} {} {}", w, d, fmt_ranges(&l)), &ans, !l.is_empty());
  }
}

pub fn run(sink: &mut Sink, rng: &mut Rng, thorough: bool) {
  for_all_combos!(combo, sink, rng, thorough);
  hpx_uniq::<u16>(sink, rng, 16, thorough);
  hpx_uniq::<u32>(sink, rng, 32, thorough);
  hpx_uniq::<u64>(sink, rng, 64, thorough);
}
