//! PRNG, output sink, formatting helpers shared by all property modules.
use std::collections::BTreeMap;
use std::fmt::Write as _;
use std::fs::File;
use std::io::{BufWriter, Write};
use std::ops::Range;
use std::path::Path;

/// SplitMix64: every random choice of a run derives from one state seeded by VERIF_SEED.
#[derive(Clone)]
pub struct Rng(pub u64);
impl Rng {
  pub fn new(seed: u64) -> Self {
    Rng(seed ^ 0x9E37_79B9_7F4A_7C15)
  }
  pub fn next_u64(&mut self) -> u64 {
    self.0 = self.0.wrapping_add(0x9E37_79B9_7F4A_7C15);
    let mut z = self.0;
    z = (z ^ (z >> 30)).wrapping_mul(0xBF58_476D_1CE4_E5B9);
    z = (z ^ (z >> 27)).wrapping_mul(0x94D0_49BB_1331_11EB);
    z ^ (z >> 31)
  }
  /// uniform in [0, n)
  pub fn below(&mut self, n: u64) -> u64 {
    if n == 0 {
      0
    } else {
      self.next_u64() % n
    }
  }
  pub fn chance(&mut self, num: u64, den: u64) -> bool {
    self.below(den) < num
  }
  pub fn pick<'a, T>(&mut self, v: &'a [T]) -> &'a T {
    &v[self.below(v.len() as u64) as usize]
  }
  pub fn shuffle<T>(&mut self, v: &mut [T]) {
    for i in (1..v.len()).rev() {
      let j = self.below(i as u64 + 1) as usize;
      v.swap(i, j);
    }
  }
}

/// Collects op lines, implementation answers and distribution statistics.
pub struct Sink {
  ops: BufWriter<File>,
  imp: BufWriter<File>,
  pub n: u64,
  pub stats: BTreeMap<String, u64>,
  pub samples: Vec<String>,
  /// direct property failures observed on the implementation side (independent of the model)
  pub impl_failures: Vec<String>,
  distinct: std::collections::HashSet<u64>,
  pub distinct_nontrivial: u64,
}

fn hash_str(s: &str) -> u64 {
  // FNV-1a
  let mut h: u64 = 0xcbf29ce484222325;
  for b in s.as_bytes() {
    h ^= *b as u64;
    h = h.wrapping_mul(0x100000001b3);
  }
  h
}

impl Sink {
  pub fn new(dir: &Path) -> std::io::Result<Self> {
    std::fs::create_dir_all(dir)?;
    Ok(Sink {
      ops: BufWriter::new(File::create(dir.join("ops.txt"))?),
      imp: BufWriter::new(File::create(dir.join("impl.txt"))?),
      n: 0,
      stats: BTreeMap::new(),
      samples: Vec::new(),
      impl_failures: Vec::new(),
      distinct: Default::default(),
      distinct_nontrivial: 0,
    })
  }
  /// Record one case. `nontrivial`: by the property's stated rule.
  pub fn emit(&mut self, op: &str, answer: &str, nontrivial: bool) {
    debug_assert!(!op.contains('\n') && !answer.contains('\n'));
    writeln!(self.ops, "{}", op).unwrap();
    writeln!(self.imp, "{}", answer).unwrap();
    self.n += 1;
    let name = op.split(' ').next().unwrap_or("?");
    *self.stats.entry(format!("op:{}", name)).or_insert(0) += 1;
    if answer.starts_with("panic") {
      *self.stats.entry("answer:panic".to_string()).or_insert(0) += 1;
    }
    if nontrivial && self.distinct.insert(hash_str(op)) {
      self.distinct_nontrivial += 1;
    }
    if self.samples.len() < 12 && (self.n % 997 == 1 || self.samples.len() < 3) {
      self.samples.push(format!("{} => {}", op, answer));
    }
  }
  pub fn count(&mut self, key: &str) {
    *self.stats.entry(key.to_string()).or_insert(0) += 1;
  }
  pub fn finish(mut self, dir: &Path) -> std::io::Result<()> {
    self.ops.flush()?;
    self.imp.flush()?;
    let mut s = String::new();
    s.push_str("{\n");
    write!(s, "  \"evaluations\": {},\n  \"distinct_nontrivial\": {},\n", self.n, self.distinct_nontrivial).unwrap();
    s.push_str("  \"stats\": {");
    let mut first = true;
    for (k, v) in &self.stats {
      if !first {
        s.push(',');
      }
      first = false;
      write!(s, "\n    {}: {}", json_str(k), v).unwrap();
    }
    s.push_str("\n  },\n  \"samples\": [");
    for (i, x) in self.samples.iter().enumerate() {
      if i > 0 {
        s.push(',');
      }
      write!(s, "\n    {}", json_str(x)).unwrap();
    }
    s.push_str("\n  ],\n  \"impl_failures\": [");
    // at most 5 examples per failure class (class = text up to the first ':'), so that one frequent class
    // cannot hide another one
    let mut per_class: BTreeMap<String, u32> = BTreeMap::new();
    let kept: Vec<&String> = self
      .impl_failures
      .iter()
      .filter(|x| {
        let class = x.split(':').next().unwrap_or("").to_string();
        let n = per_class.entry(class).or_insert(0);
        *n += 1;
        *n <= 5
      })
      .collect();
    for (i, x) in kept.iter().take(200).enumerate() {
      if i > 0 {
        s.push(',');
      }
      write!(s, "\n    {}", json_str(x)).unwrap();
    }
    s.push_str("\n  ]\n}\n");
    std::fs::write(dir.join("stats.json"), s)
  }
}

pub fn json_str(s: &str) -> String {
  let mut o = String::with_capacity(s.len() + 2);
  o.push('"');
  for c in s.chars() {
    match c {
      '"' => o.push_str("\\\""),
      '\\' => o.push_str("\\\\"),
      '\n' => o.push_str("\\n"),
      '\t' => o.push_str("\\t"),
      c if (c as u32) < 0x20 => write!(o, "\\u{:04x}", c as u32).unwrap(),
      c => o.push(c),
    }
  }
  o.push('"');
  o
}

pub fn fmt_ranges(rs: &[Range<u64>]) -> String {
  if rs.is_empty() {
    return "_".to_string();
  }
  let mut s = String::new();
  for (i, r) in rs.iter().enumerate() {
    if i > 0 {
      s.push(',');
    }
    write!(s, "{}-{}", r.start, r.end).unwrap();
  }
  s
}
pub fn fmt_opt_range(r: Option<Range<u64>>) -> String {
  match r {
    None => "-".to_string(),
    Some(r) => format!("{}-{}", r.start, r.end),
  }
}
pub fn fmt_hint(h: (usize, Option<usize>)) -> String {
  match h.1 {
    None => format!("{}/-", h.0),
    Some(n) => format!("{}/{}", h.0, n),
  }
}

/// Source location (`file:line`) of the most recent panic, recorded by the hook installed in `main`.
pub static LAST_PANIC_SITE: std::sync::Mutex<String> = std::sync::Mutex::new(String::new());
pub fn install_panic_hook() {
  std::panic::set_hook(Box::new(|info| {
    let site = info.location().map(|l| format!("{}:{}", l.file().trim_start_matches("/repo/"), l.line())).unwrap_or_else(|| "?".to_string());
    if let Ok(mut g) = LAST_PANIC_SITE.lock() {
      *g = site;
    }
  }));
}
/// `panic@file:line` of the last recorded panic (call right after a caught panic).
pub fn panic_answer() -> String {
  format!("panic@{}", LAST_PANIC_SITE.lock().map(|g| g.clone()).unwrap_or_default())
}
/// Run `f`, mapping a panic to `"panic"`.
pub fn guarded<F: FnOnce() -> String + std::panic::UnwindSafe>(f: F) -> String {
  match std::panic::catch_unwind(f) {
    Ok(s) => s,
    Err(_) => "panic".to_string(),
  }
}
