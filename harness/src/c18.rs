//! C18 — physical quantities map to MOC indices monotonically and invertibly.
use std::ops::Range;
use std::panic::AssertUnwindSafe;

use moc::idx::Idx;
use moc::moc::range::RangeMOC;
use moc::qty::{Frequency, MocQty, Time};
use moc::storage::u64idx::U64MocStore;

use crate::srcs::*;
use crate::util::*;

fn hash_or_reject<T: Idx>(bits: u64) -> String {
  match std::panic::catch_unwind(|| Frequency::<T>::freq2hash(f64::from_bits(bits)).to_u64()) {
    Ok(h) => h.to_string(),
    Err(_) => "reject".to_string(),
  }
}

fn interesting_bits(rng: &mut Rng, thorough: bool) -> Vec<u64> {
  let mut v = Vec::new();
  let m52 = (1u64 << 52) - 1;
  // every binary exponent around and inside the accepted window x extreme and random mantissas
  for e in 926u64..=1187 {
    for m in [0u64, 1, 1 << 51, m52 - 1, m52] {
      v.push((e << 52) | m);
    }
    for _ in 0..(if thorough { 6 } else { 2 }) {
      v.push((e << 52) | (rng.next_u64() & m52));
    }
  }
  // special values: +-0, subnormals, 1.0, +-inf, NaNs, negatives
  for b in [0u64, 1, 1 << 63, (1 << 63) | 1, 0x3FF0_0000_0000_0000, 0x7FF0_0000_0000_0000, 0xFFF0_0000_0000_0000,
    0x7FF8_0000_0000_0000, 0x7FF0_0000_0000_0001, (1 << 63) | (1000u64 << 52), u64::MAX] {
    v.push(b);
  }
  // neighbours of both bounds
  let (lo, hi) = (929u64 << 52, (1184u64 << 52) | m52);
  for d in 0..3u64 {
    v.push(lo - d);
    v.push(lo + d);
    v.push(hi - d);
    v.push(hi + d);
  }
  v
}

fn freq<T: Idx>(sink: &mut Sink, rng: &mut Rng, w: u32, thorough: bool) {
  let bits = interesting_bits(rng, thorough);
  for b in &bits {
    sink.count(if (929u64 << 52) <= *b && *b <= ((1184u64 << 52) | ((1 << 52) - 1)) { "freq:inside" } else { "freq:outside" });
    sink.emit(&format!("f_hash {} {}", w, b), &hash_or_reject::<T>(*b), true);
  }
  // inverse on hashes (incl. the exclusive upper bound n_cells_max whose exponent field is 256)
  let max_depth = <Frequency<T> as MocQty<T>>::MAX_DEPTH;
  let ub = Frequency::<T>::n_cells_max().to_u64();
  let mut hs: Vec<u64> = vec![0, 1, ub / 2, ub - 1, ub];
  for _ in 0..(if thorough { 10000 } else { 300 }) {
    hs.push(rng.below(ub + 1));
  }
  for h in hs {
    let ans = match std::panic::catch_unwind(|| Frequency::<T>::hash2freq(T::from_u64(h)).to_bits()) {
      Ok(b) => b.to_string(),
      Err(_) => "reject".to_string(),
    };
    sink.emit(&format!("f_unhash {} {}", w, h), &ans, true);
  }
  // MOCs from values / ranges in Hz
  let valid: Vec<u64> = bits.iter().cloned().filter(|b| (929u64 << 52) <= *b && *b <= ((1184u64 << 52) | ((1 << 52) - 1))).collect();
  for _ in 0..(if thorough { 6000 } else { 150 }) {
    let d = rng.below(max_depth as u64 + 1) as u8;
    let n = rng.below(6) as usize;
    let vals: Vec<u64> = (0..n).map(|_| if rng.chance(1, 2) { *rng.pick(&valid) } else { (929u64 << 52) + rng.below((256u64 << 52) - 1) }).collect();
    let cap = 1 + rng.below(4) as usize;
    let txt = if vals.is_empty() { "_".to_string() } else { vals.iter().map(|x| x.to_string()).collect::<Vec<_>>().join(",") };
    let ans = guarded(AssertUnwindSafe(|| {
      describe_moc(&RangeMOC::<T, Frequency<T>>::from_freq_in_hz(d, vals.iter().map(|b| f64::from_bits(*b)), Some(cap)))
    }));
    sink.emit(&format!("f_moc {} {} {} {}", w, d, Vec::<T>::with_capacity(cap).capacity(), txt), &ans, n > 0);
    let mut rs: Vec<Range<u64>> = Vec::new();
    for c in vals.chunks(2) {
      if c.len() == 2 {
        rs.push(c[0].min(c[1])..c[0].max(c[1]));
      }
    }
    // an empty band `f..f` (no value) must add no cell, whatever the depth and the index width
    if d % 4 == 1 && !vals.is_empty() {
      rs.push(vals[0]..vals[0]);
    }
    let ans = guarded(AssertUnwindSafe(|| {
      describe_moc(&RangeMOC::<T, Frequency<T>>::from_freq_ranges_in_hz(
        d,
        rs.iter().map(|r| f64::from_bits(r.start)..f64::from_bits(r.end)),
        Some(cap),
      ))
    }));
    sink.emit(&format!("f_mocr {} {} {} {}", w, d, Vec::<Range<T>>::with_capacity(cap).capacity(), fmt_ranges(&rs)), &ans, !rs.is_empty());
  }
}

fn time<T: Idx>(sink: &mut Sink, rng: &mut Rng, w: u32, thorough: bool) {
  let max_depth = <Time<T> as MocQty<T>>::MAX_DEPTH;
  let lim = 1u64 << 62;
  let mut pool: Vec<u64> = vec![0, 1, lim - 1, lim / 2, lim / 2 - 1, 1 << 32, (1 << 32) - 1, (1 << 32) + 1];
  for k in [1u32, 8, 16, 31, 33, 47, 48, 61] {
    pool.push((1u64 << k) - 1);
    pool.push(1u64 << k);
    pool.push((1u64 << k) + 1);
  }
  for _ in 0..(if thorough { 10000 } else { 250 }) {
    let d = rng.below(max_depth as u64 + 1) as u8;
    let n = rng.below(6) as usize;
    let ts: Vec<u64> = (0..n).map(|_| if rng.chance(1, 2) { *rng.pick(&pool) } else { rng.below(lim) }).collect();
    let cap = 1 + rng.below(4) as usize;
    let txt = if ts.is_empty() { "_".to_string() } else { ts.iter().map(|x| x.to_string()).collect::<Vec<_>>().join(",") };
    let ans = guarded(AssertUnwindSafe(|| describe_moc(&RangeMOC::<T, Time<T>>::from_microsec_since_jd0(d, ts.iter().cloned(), Some(cap)))));
    sink.emit(&format!("t_moc {} {} {} {}", w, d, Vec::<T>::with_capacity(cap).capacity(), txt), &ans, n > 0);
    let mut rs: Vec<Range<u64>> = Vec::new();
    for c in ts.chunks(2) {
      if c.len() == 2 {
        rs.push(c[0].min(c[1])..c[0].max(c[1]));
      }
    }
    // an empty range `t..t` (no instant) must add no cell, whatever its alignment, the depth and the index width
    if d % 4 == 1 && !ts.is_empty() {
      rs.push(ts[0]..ts[0]);
    }
    let ans = guarded(AssertUnwindSafe(|| {
      describe_moc(&RangeMOC::<T, Time<T>>::from_microsec_ranges_since_jd0(d, rs.iter().cloned(), Some(cap)))
    }));
    sink.emit(&format!("t_mocr {} {} {} {}", w, d, Vec::<Range<T>>::with_capacity(cap).capacity(), fmt_ranges(&rs)), &ans, !rs.is_empty());
  }
}

/// Store entry points: from_hz_values / from_hz_ranges / to_hz_ranges.
fn store(sink: &mut Sink, rng: &mut Rng, thorough: bool) {
  let st = U64MocStore::get_global_store();
  for _ in 0..(if thorough { 3000 } else { 80 }) {
    let d = rng.below(60) as u8;
    let n = 1 + rng.below(5) as usize;
    let mut vals: Vec<u64> = (0..n).map(|_| (929u64 << 52) + rng.below((256u64 << 52) - 1)).collect();
    // 1 MOC out of 4 contains the LAST cell of its depth (FREQ_MAX or one of its nearest smaller values) and
    // 1 out of 4 the FIRST one (FREQ_MIN): the Hz ranges end / start on the bounds of the domain
    match rng.below(4) {
      0 => vals.push(((1184u64 << 52) | ((1u64 << 52) - 1)) - rng.below(3)),
      1 => vals.push((929u64 << 52) + rng.below(3)),
      _ => {}
    }
    let txt = vals.iter().map(|x| x.to_string()).collect::<Vec<_>>().join(",");
    let made = std::panic::catch_unwind(AssertUnwindSafe(|| st.from_hz_values(d, vals.iter().map(|b| f64::from_bits(*b)))));
    if made.is_err() {
      // every value is inside the supported interval: a panic here is a rejection of an accepted value
      sink.emit(&format!("f_moc 64 {} 100000 {}", d, txt), "panic", true);
      continue;
    }
    if let Ok(Ok(idx)) = made {
      let rs = st.to_ranges(idx).unwrap_or_default();
      sink.emit(&format!("f_moc 64 {} 100000 {}", d, txt), &format!("{}|{}", d, fmt_ranges(&rs)), true);
      if let Ok(hz) = st.to_hz_ranges(idx) {
        let hzb: Vec<Range<u64>> = hz.iter().map(|r| r.start.to_bits()..r.end.to_bits()).collect();
        sink.emit(&format!("f_tohz {}", fmt_ranges(&rs)), &fmt_ranges(&hzb), true);
        // the property: the Hz ranges enclose the values they were built from
        for v in &vals {
          let x = f64::from_bits(*v);
          if !hz.iter().any(|r| r.start <= x && x < r.end) {
            sink.impl_failures.push(format!("C18 to_hz_ranges does not enclose value bits={} depth={}", v, d));
          }
        }
      }
      let _ = st.drop(idx);
    }
  }
}

pub fn run(sink: &mut Sink, rng: &mut Rng, thorough: bool) {
  freq::<u16>(sink, rng, 16, thorough);
  freq::<u32>(sink, rng, 32, thorough);
  freq::<u64>(sink, rng, 64, thorough);
  time::<u16>(sink, rng, 16, thorough);
  time::<u32>(sink, rng, 32, thorough);
  time::<u64>(sink, rng, 64, thorough);
  store(sink, rng, thorough);
  let _ = std::marker::PhantomData::<F64>;
}
