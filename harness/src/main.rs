//! verif-harness: runs the REAL cds-moc-rust code (path dependency on /repo) on generated inputs and
//! writes, per case, one op line (for the Lean driver) and the implementation's canonicalised answer.
//!
//! usage: verif-harness gen <Cxx> <quick|thorough> <seed> <outdir>
#[macro_use]
mod srcs;
mod c01;
mod c02;
mod c03;
mod c04;
mod c05;
mod c06;
mod c07;
mod c13;
mod c17;
mod c18;
mod c19;
mod c20;
mod mocset;
mod st;
mod gen;
mod util;

use std::path::PathBuf;

fn main() {
  let args: Vec<String> = std::env::args().collect();
  if args.len() == 4 && args[1] == "probe" {
    util::install_panic_hook();
    std::process::exit(c07::probe(&args[2], &args[3]));
  }
  if args.len() < 6 || args[1] != "gen" {
    eprintln!("usage: verif-harness gen <Cxx> <quick|thorough> <seed> <outdir>");
    std::process::exit(2);
  }
  // keep panic messages of guarded cases out of the way
  util::install_panic_hook();
  let prop = args[2].as_str();
  let thorough = args[3] == "thorough";
  let seed: u64 = args[4].parse().unwrap_or(0);
  let dir = PathBuf::from(&args[5]);
  let mut sink = util::Sink::new(&dir).expect("create output dir");
  let mut rng = util::Rng::new(seed ^ util_hash(prop));
  match prop {
    "C01" => c01::run(&mut sink, &mut rng, thorough),
    "C02" => c02::run(&mut sink, &mut rng, thorough),
    "C03" => c03::run(&mut sink, &mut rng, thorough),
    "C04" => c04::run(&mut sink, &mut rng, thorough),
    "C05" => c05::run(&mut sink, &mut rng, thorough),
    "C06" => c06::run(&mut sink, &mut rng, thorough),
    "C07" => c07::run(&mut sink, &mut rng, thorough),
    "C12" => {
      c07::run_c12(&mut sink, &mut rng, thorough);
      st::c12_st(&mut sink, &mut rng, thorough);
    }
    "C13" => c13::run(&mut sink, &mut rng, thorough),
    "C17" => c17::run(&mut sink, &mut rng, thorough),
    "C18" => c18::run(&mut sink, &mut rng, thorough),
    "C19" => c19::run(&mut sink, &mut rng, thorough, &dir.join("work")),
    "C20" => c20::run(&mut sink, &mut rng, thorough),
    "C08" => st::c08(&mut sink, &mut rng, thorough),
    "C09" => st::c09(&mut sink, &mut rng, thorough),
    "C11" => st::c11(&mut sink, &mut rng, thorough),
    "C10" => st::c10(&mut sink, &mut rng, thorough),
    "C14" => mocset::histories(&mut sink, &mut rng, thorough, &dir.join("work")),
    "C16" => mocset::crash_points(&mut sink, &mut rng, thorough, &dir.join("work")),
    "C15" => mocset::queries(&mut sink, &mut rng, thorough, &dir.join("work")),
    _ => {
      eprintln!("unknown property {}", prop);
      std::process::exit(2);
    }
  }
  sink.finish(&dir).expect("write stats");
}

fn util_hash(s: &str) -> u64 {
  s.bytes().fold(1469598103934665603u64, |h, b| (h ^ b as u64).wrapping_mul(1099511628211))
}
