use moc::deser::ascii::from_ascii_ivoa;
use moc::moc::{CellMOCIntoIterator, CellMOCIterator, CellOrCellRangeMOCIntoIterator, CellOrCellRangeMOCIterator, RangeMOCIterator, RangeMOCIntoIterator};
use moc::moc::range::RangeMOC;
use moc::qty::{Hpx, Time};
use moc::ranges::Ranges;
fn main() {
  for txt in ["3/1", "3/1 3", "3/1 3 5", "3/1-2 5", "3/"] {
    let ccr = from_ascii_ivoa::<u64, Hpx<u64>>(txt).unwrap();
    let it = ccr.into_cellcellrange_moc_iter().ranges();
    println!("{:?}: ranges-from-cellcellranges size_hint={:?}", txt, it.size_hint());
    let mut buf = Vec::new();
    let r = it.to_fits_ivoa(None, None, &mut buf);
    println!("   to_fits: {:?} ({} bytes)", r.map_err(|e| e.to_string()), buf.len());
    // cells
    let ccr = from_ascii_ivoa::<u64, Hpx<u64>>(txt).unwrap();
    let rm: RangeMOC<u64, Hpx<u64>> = ccr.into_cellcellrange_moc_iter().ranges().into_range_moc();
    let d = rm.depth_max(); let cells: Vec<moc::elem::cell::Cell<u64>> = rm.into_range_moc_iter().cells().collect();
    let cm = moc::moc::cell::CellMOC::<u64, Hpx<u64>>::new(d, moc::elemset::cell::MocCells::new(moc::elemset::cell::Cells::new(cells)));
    let it = cm.into_cell_moc_iter().ranges();
    println!("   ranges-from-cells size_hint={:?}", it.size_hint());
    let mut buf = Vec::new();
    let r = it.to_fits_ivoa(None, None, &mut buf);
    println!("   to_fits: {:?} ({} bytes)", r.map_err(|e| e.to_string()), buf.len());
  }
  let _a: Option<RangeMOC<u64, Time<u64>>> = None; let _ = Ranges::<u64>::new_unchecked(vec![]);
}
