use moc::moc::range::RangeMOC;
use moc::qty::{Hpx, Time};
use moc::ranges::Ranges;
fn main() {
  let a: RangeMOC<u64, Time<u64>> = RangeMOC::new(2, Ranges::new_unchecked(vec![0..10]).into());
  let b: RangeMOC<u64, Time<u64>> = RangeMOC::new(2, Ranges::new_unchecked(vec![20..30]).into());
  println!("a minus b = {:?}", a.minus(&b).moc_ranges().0);
  println!("b minus a = {:?}", b.minus(&a).moc_ranges().0);
  let _h: Option<RangeMOC<u64, Hpx<u64>>> = None;
}
