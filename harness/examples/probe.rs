use moc::moc2d::range::RangeMOC2;
use moc::moc2d::RangeMOC2IntoIterator;
use moc::qty::{Hpx, Time};
fn show(m: RangeMOC2<u64, Time<u64>, u64, Hpx<u64>>) {
  for e in m.into_range_moc2_iter() { let (t, s) = e.mocs(); let sh = 59; println!("   t={:?} s={:?}", t.moc_ranges().0 .0.iter().map(|r| (r.start>>sh, r.end>>sh)).collect::<Vec<_>>(), s.moc_ranges().0 .0.iter().map(|r| (r.start>>58, r.end>>58)).collect::<Vec<_>>()); }
}
fn main() {
  // time depth 2 (8 cells), space depth 0
  println!("cells (0,s0),(1,s1),(2,s0):");
  show(RangeMOC2::from_fixed_depth_cells(2, 0, vec![(0u64,0u64),(1,1),(2,0)].into_iter(), None));
  println!("cells (0,s0),(2,s0),(4,s1):");
  show(RangeMOC2::from_fixed_depth_cells(2, 0, vec![(0u64,0u64),(2,0),(4,1)].into_iter(), None));
  println!("ranges (0..2,s0),(4..6,s0),(2..4,s1):");
  let u = 1u64<<59;
  show(RangeMOC2::from_ranges_and_fixed_depth_cells(2, 0, vec![(0..2*u,0u64),(4*u..6*u,0),(2*u..4*u,1)].into_iter(), None));
}
