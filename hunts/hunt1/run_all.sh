#!/bin/bash
# Re-runs every demo of /tmp/hunt1 against the UNMODIFIED sources of the worktree.
# usage: ./run_all.sh [worktree]      (default /tmp/wt_hunt1)
# A finding shows as a line starting with FAIL and / or a non-zero exit code.
WT=${1:-/tmp/wt_hunt1}
HERE=$(cd "$(dirname "$0")" && pwd)
export CARGO_NET_OFFLINE=true RUST_BACKTRACE=0
mkdir -p "$WT/examples" && cp "$HERE"/examples/h_*.rs "$WT/examples/"
cd "$WT" || exit 2
status=0
run() { # name args...
  local name=$1; shift
  echo "=== $name $*"
  cargo run -q --offline --example "$name" -- "$@" 2>&1 | grep -v "^warning\|^ *|\|^ *=\|^$\|-->\|^help\|^[0-9 ]*|" | cut -c1-400
  local rc=${PIPESTATUS[0]}
  echo "    exit code $rc"
  [ "$rc" != 0 ] && status=1
}
# finding 1: each case in its own process (some abort or crash the process)
for c in valid ttype1_non_ascii naxis1_small naxis1_zero naxis1_huge mocorder_30 mocorder_200 naxis2_overflow nside_0; do run h_skymap $c; done
run h_stream        # finding 2
run h_prev2         # finding 3
run h_fits_depth    # finding 4
run h_json          # finding 5
run h_uniq_gen      # finding 6
run h_mocid         # finding 7
run h_empty_list    # finding 8
run h_empty_range   # finding 9
run h_sizehint      # finding 10
if [ "$2" == "--harness" ]; then   # the randomized harnesses (several minutes in debug mode)
  run h_c05; run h_c06; run h_c07; run h_fuzz
fi
exit $status
