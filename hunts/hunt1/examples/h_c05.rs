//! C05 randomized harness: representation changes are lossless and give the normal form.
use std::fmt::Debug;
use std::ops::Range;

use moc::elem::cell::Cell;
use moc::elem::range::MocRange;
use moc::elemset::range::MocRanges;
use moc::idx::Idx;
use moc::moc::range::op::convert::{convert_from_u64, convert_to_u64};
use moc::moc::range::RangeMOC;
use moc::moc::{
  CellMOCIterator, CellOrCellRangeMOCIterator, HasMaxDepth, RangeMOCIntoIterator, RangeMOCIterator,
};
use moc::qty::{Frequency, Hpx, MocQty, Time};

struct Rng(u64);
impl Rng {
  fn next(&mut self) -> u64 {
    self.0 ^= self.0 << 13;
    self.0 ^= self.0 >> 7;
    self.0 ^= self.0 << 17;
    self.0
  }
  fn below(&mut self, n: u64) -> u64 {
    if n == 0 { 0 } else { self.next() % n }
  }
}

static mut NFAIL: usize = 0;
fn fail(msg: String) {
  unsafe {
    NFAIL += 1;
    if NFAIL <= 40 {
      println!("FAIL {}", msg);
    }
  }
}

static mut ONCE: Vec<String> = Vec::new();
#[allow(static_mut_refs)]
fn fail_once(key: String, msg: String) {
  unsafe {
    if !ONCE.contains(&key) {
      ONCE.push(key);
      NFAIL += 1;
      println!("FAIL {}", msg);
    }
  }
}

fn gen_moc<T: Idx, Q: MocQty<T>>(rng: &mut Rng, depth: u8, kind: u64) -> RangeMOC<T, Q> {
  let n = Q::n_cells(depth).to_u64();
  let shift = Q::shift_from_depth_max(depth) as u32;
  let mut cuts: Vec<u64> = match kind {
    0 => vec![],
    1 => vec![0, n],
    2 => vec![0, 1],
    3 => vec![n - 1, n],
    4 => vec![0, 1, n - 1, n],
    _ => {
      let k = 2 * (1 + rng.below(6));
      let span = if rng.below(2) == 0 { n } else { n.min(64) };
      let off = if span < n { rng.below(n - span + 1) } else { 0 };
      (0..k).map(|_| off + rng.below(span + 1)).collect()
    }
  };
  cuts.sort();
  cuts.dedup();
  if cuts.len() % 2 == 1 {
    cuts.pop();
  }
  let ranges: Vec<Range<T>> = cuts
    .chunks(2)
    .map(|c| T::from_u64(c[0]).unsigned_shl(shift)..T::from_u64(c[1]).unsigned_shl(shift))
    .collect();
  RangeMOC::new(depth, MocRanges::new_unchecked(ranges))
}

fn ranges_of<T: Idx, Q: MocQty<T>>(m: &RangeMOC<T, Q>) -> Vec<Range<T>> {
  m.into_range_moc_iter().collect()
}

fn check_hints<I: Iterator, F: Fn() -> I>(name: &str, ctx: &str, mk: F) {
  // size_hint must bracket the number of remaining items at each step
  let total = mk().count();
  for k in 0..=total + 1 {
    let mut it = mk();
    for _ in 0..k {
      it.next();
    }
    let (lo, up) = it.size_hint();
    let remaining = total.saturating_sub(k);
    if lo > remaining || up.map(|u| u < remaining).unwrap_or(false) {
      fail(format!("{} size_hint ({},{:?}) after {} items but {} remain [{}]", name, lo, up, k, remaining, ctx));
      break;
    }
  }
}

fn check_one<T: Idx, Q: MocQty<T>>(m: &RangeMOC<T, Q>, qn: &str) {
  let d = m.depth_max();
  let ctx = format!("{}<u{}> depth={} ranges={:?}", qn, T::N_BITS, d, ranges_of(m));
  let orig = ranges_of(m);
  // a. ranges -> cells
  let cells: Vec<Cell<T>> = m.into_range_moc_iter().cells().collect();
  // normal form
  let mut prev_end: Option<T> = None;
  for c in &cells {
    if c.depth > d {
      fail(format!("cell deeper than depth {:?} [{}]", c, ctx));
    }
    if c.idx >= Q::n_cells(c.depth) {
      fail(format!("cell out of domain {:?} [{}]", c, ctx));
    }
    let r = MocRange::<T, Q>::from(c).0;
    if let Some(pe) = prev_end {
      if r.start < pe {
        fail(format!("cells unsorted/overlap at {:?} [{}]", c, ctx));
      }
    }
    prev_end = Some(r.end);
  }
  let nsib = 1usize << Q::DIM;
  for w in cells.windows(nsib) {
    let dd = w[0].depth;
    if dd > 0
      && w.iter().all(|c| c.depth == dd)
      && w.iter().enumerate().all(|(i, c)| c.idx == w[0].idx + T::from_u64(i as u64))
      && (w[0].idx.to_u64() % nsib as u64 == 0)
    {
      fail(format!("all siblings present {:?} [{}]", w, ctx));
    }
  }
  // peek_last of cells
  {
    let it = m.into_range_moc_iter().cells();
    let pl = it.peek_last().cloned();
    let last = cells.last().cloned();
    if pl.is_some() && pl != last {
      fail(format!("cells().peek_last {:?} != last {:?} [{}]", pl, last, ctx));
    }
  }
  // back
  let back: Vec<Range<T>> = m.into_range_moc_iter().cells().ranges().collect();
  if back != orig {
    fail(format!("ranges->cells->ranges {:?} [{}]", back, ctx));
  }
  {
    let it = m.into_range_moc_iter().cells().ranges();
    if it.depth_max() != d {
      fail(format!("depth changed [{}]", ctx));
    }
    if let Some(pl) = it.peek_last() {
      if Some(pl.end) != orig.last().map(|r| r.end) {
        fail(format!("cells().ranges().peek_last {:?} [{}]", pl, ctx));
      }
    }
  }
  // b. cellranges
  let back: Vec<Range<T>> = m.into_range_moc_iter().cells().cellranges().ranges().collect();
  if back != orig {
    fail(format!("ranges->cells->cellranges->ranges {:?} [{}]", back, ctx));
  }
  {
    let it = m.into_range_moc_iter().cells().cellranges();
    let pl = it.peek_last().cloned();
    let all: Vec<_> = m.into_range_moc_iter().cells().cellranges().collect();
    if let Some(pl) = pl {
      let plr = MocRange::<T, Q>::from(&pl).0;
      let lr = MocRange::<T, Q>::from(all.last().unwrap()).0;
      if plr.end != lr.end {
        fail(format!("cellranges().peek_last {:?} vs last {:?} [{}]", pl, all.last(), ctx));
      }
    }
    let it = m.into_range_moc_iter().cells().cellranges().ranges();
    let (lo, up) = it.size_hint();
    let n = orig.len();
    if lo > n || up.map(|u| u < n).unwrap_or(false) {
      fail(format!("cellranges().ranges() size_hint ({},{:?}) n={} [{}]", lo, up, n, ctx));
    }
  }
  // c. fixed depth cells
  let expected_n: u64 = orig.iter().map(|r| (r.end - r.start).to_u64() >> Q::shift_from_depth_max(d)).sum::<u64>();
  if expected_n < 50_000 {
    let flat: Vec<T> = m.flatten_to_fixed_depth_cells().collect();
    let rebuilt = RangeMOC::<T, Q>::from_fixed_depth_cells(d, flat.iter().cloned(), Some(7));
    if ranges_of(&rebuilt) != orig || rebuilt.depth_max() != d {
      fail(format!("flatten->from_fixed_depth_cells {:?} [{}]", ranges_of(&rebuilt), ctx));
    }
    if flat.len() as u64 != expected_n {
      fail(format!("flatten count {} != {} [{}]", flat.len(), expected_n, ctx));
    }
  }
  // from_cells
  let rebuilt = RangeMOC::<T, Q>::from_cells(d, cells.iter().map(|c| (c.depth, c.idx)), Some(3));
  if ranges_of(&rebuilt) != orig {
    fail(format!("from_cells {:?} [{}]", ranges_of(&rebuilt), ctx));
  }
  // d. numbering schemes
  let mut prev_z: Option<T> = None;
  for c in &cells {
    let u = c.uniq::<Q>();
    if Cell::<T>::from_uniq::<Q>(u) != *c {
      fail(format!("uniq_gen roundtrip {:?} -> {} -> {:?} [{}]", c, u, Cell::<T>::from_uniq::<Q>(u), ctx));
    }
    let z = c.zuniq::<Q>();
    if Cell::<T>::from_zuniq::<Q>(z) != *c {
      fail(format!("zuniq roundtrip {:?} -> {} -> {:?} [{}]", c, z, Cell::<T>::from_zuniq::<Q>(z), ctx));
    }
    if let Some(pz) = prev_z {
      if pz >= z {
        fail(format!("zuniq order {:?} [{}]", c, ctx));
      }
    }
    prev_z = Some(z);
    let r2 = MocRange::<T, Q>::from(c).0;
    match std::panic::catch_unwind(std::panic::AssertUnwindSafe(|| Q::uniq_gen_to_range(u))) {
      Ok(r1) => if r1 != r2 {
        fail_once(format!("uniq_gen_to_range {}<u{}>", qn, T::N_BITS), format!("uniq_gen_to_range({}) = {:?} but cell {:?} covers {:?} [{}<u{}>]", u, r1, c, r2, qn, T::N_BITS));
      },
      Err(_) => fail_once(format!("uniq_gen_to_range panic {}<u{}>", qn, T::N_BITS), format!("uniq_gen_to_range({}) panicked, cell {:?} covers {:?} [{}<u{}>]", u, c, r2, qn, T::N_BITS)),
    }
  }
  // g. hints
  check_hints("range_iter", &ctx, || m.into_range_moc_iter());
  check_hints("not", &ctx, || m.into_range_moc_iter().not());
  check_hints("degrade", &ctx, || m.into_range_moc_iter().degrade(d / 2));
  check_hints("cells.ranges", &ctx, || m.into_range_moc_iter().cells().ranges());
  check_hints("cells.cellranges.ranges", &ctx, || m.into_range_moc_iter().cells().cellranges().ranges());
}

fn check_hpx<T: Idx>(m: &RangeMOC<T, Hpx<T>>) {
  let ctx = format!("Hpx<u{}> depth={} ranges={:?}", T::N_BITS, m.depth_max(), ranges_of(m));
  let orig = ranges_of(m);
  let cells: Vec<Cell<T>> = m.into_range_moc_iter().cells().collect();
  for c in &cells {
    let u = c.uniq_hpx();
    if Cell::<T>::from_uniq_hpx(u) != *c {
      fail(format!("uniq_hpx roundtrip {:?} [{}]", c, ctx));
    }
    if Hpx::<T>::uniq_hpx_to_range(u) != MocRange::<T, Hpx<T>>::from(c).0 {
      fail(format!("uniq_hpx_to_range {:?} [{}]", c, ctx));
    }
  }
  let uniq = m.moc_ranges().clone().into_hpx_uniq();
  let n_uniq: u64 = uniq.iter().map(|r| (r.end - r.start).to_u64()).sum();
  if n_uniq != cells.len() as u64 {
    fail(format!("into_hpx_uniq: {} uniq values but {} cells [{}]", n_uniq, cells.len(), ctx));
  }
  let back = uniq.into_hpx();
  let back: Vec<Range<T>> = back.iter().cloned().collect();
  if back != orig {
    fail(format!("into_hpx_uniq->into_hpx {:?} [{}]", back, ctx));
  }
  let mut dp: Vec<(i8, T)> = m.moc_ranges().clone().iter_depth_pix().collect();
  let sorted_by_depth = dp.windows(2).all(|w| (w[0].0, w[0].1) < (w[1].0, w[1].1));
  if !sorted_by_depth {
    fail(format!("iter_depth_pix not sorted by (depth, idx) {:?} [{}]", dp, ctx));
  }
  dp.sort_by(|a, b| Cell::new(a.0 as u8, a.1).flat_cmp::<Hpx<T>>(&Cell::new(b.0 as u8, b.1)));
  let dpc: Vec<Cell<T>> = dp.iter().map(|(d, i)| Cell::new(*d as u8, *i)).collect();
  if dpc != cells {
    fail(format!("iter_depth_pix {:?} != cells {:?} [{}]", dpc, cells, ctx));
  }
}

macro_rules! widths {
  ($q:ident, $qn:expr, $rng:expr) => {{
    // u16 -> u32 -> u64 and back
    for depth in 0..=<$q<u16> as MocQty<u16>>::MAX_DEPTH {
      for kind in 0..40u64 {
        let m16: RangeMOC<u16, $q<u16>> = gen_moc($rng, depth, kind);
        let ctx = format!("{} u16 depth={} {:?}", $qn, depth, ranges_of(&m16));
        let m32: RangeMOC<u32, $q<u32>> = (&m16).into_range_moc_iter().convert::<u32, $q<u32>>().into_range_moc();
        let m64: RangeMOC<u64, $q<u64>> = (&m32).into_range_moc_iter().convert::<u64, $q<u64>>().into_range_moc();
        let m64b: RangeMOC<u64, $q<u64>> = convert_to_u64::<u16, $q<u16>, _, $q<u64>>((&m16).into_range_moc_iter()).into_range_moc();
        if m64 != m64b { fail(format!("u16->u32->u64 != u16->u64 [{}]", ctx)); }
        if m64.depth_max() != depth { fail(format!("depth changed [{}]", ctx)); }
        let c16: Vec<Cell<u16>> = (&m16).into_range_moc_iter().cells().collect();
        let c64: Vec<Cell<u64>> = (&m64).into_range_moc_iter().cells().collect();
        if c16.len() != c64.len() || c16.iter().zip(c64.iter()).any(|(a, b)| a.depth != b.depth || a.idx as u64 != b.idx) {
          fail(format!("cells differ after widening {:?} vs {:?} [{}]", c16, c64, ctx));
        }
        let b16: RangeMOC<u16, $q<u16>> = convert_from_u64::<$q<u64>, u16, $q<u16>, _>((&m64).into_range_moc_iter()).into_range_moc();
        if b16 != m16 { fail(format!("u64->u16 {:?} [{}]", ranges_of(&b16), ctx)); }
        let b32: RangeMOC<u32, $q<u32>> = convert_from_u64::<$q<u64>, u32, $q<u32>, _>((&m64).into_range_moc_iter()).into_range_moc();
        if b32 != m32 { fail(format!("u64->u32 [{}]", ctx)); }
        {
          let it = convert_from_u64::<$q<u64>, u16, $q<u16>, _>((&m64).into_range_moc_iter());
          if let Some(pl) = it.peek_last() { if Some(pl) != ranges_of(&m16).last() { fail(format!("convert peek_last [{}]", ctx)); } }
        }
      }
    }
  }};
}

fn main() {
  std::panic::set_hook(Box::new(|_| {}));
  let mut rng = Rng(0x9E3779B97F4A7C15);
  macro_rules! run {
    ($t:ty, $q:ident, $qn:expr) => {{
      let dmax = <$q<$t> as MocQty<$t>>::MAX_DEPTH;
      for depth in 0..=dmax {
        for kind in 0..60u64 {
          let m: RangeMOC<$t, $q<$t>> = gen_moc(&mut rng, depth, kind);
          check_one(&m, $qn);
        }
      }
    }};
  }
  run!(u16, Hpx, "Hpx");
  run!(u32, Hpx, "Hpx");
  run!(u64, Hpx, "Hpx");
  run!(u16, Time, "Time");
  run!(u32, Time, "Time");
  run!(u64, Time, "Time");
  run!(u16, Frequency, "Frequency");
  run!(u32, Frequency, "Frequency");
  run!(u64, Frequency, "Frequency");
  macro_rules! runh {
    ($t:ty) => {{
      for depth in 0..=<Hpx<$t> as MocQty<$t>>::MAX_DEPTH {
        for kind in 0..40u64 {
          let m: RangeMOC<$t, Hpx<$t>> = gen_moc(&mut rng, depth, kind);
          check_hpx(&m);
        }
      }
    }};
  }
  runh!(u16);
  runh!(u32);
  runh!(u64);
  widths!(Hpx, "Hpx", &mut rng);
  widths!(Time, "Time", &mut rng);
  widths!(Frequency, "Frequency", &mut rng);
  // exhaustive numbering schemes at shallow depths
  for depth in 0..=4u8 {
    for idx in 0..Hpx::<u32>::n_cells(depth) {
      let c = Cell::new(depth, idx);
      assert_eq!(Cell::<u32>::from_uniq::<Hpx<u32>>(c.uniq::<Hpx<u32>>()), c);
      assert_eq!(Cell::<u32>::from_zuniq::<Hpx<u32>>(c.zuniq::<Hpx<u32>>()), c);
    }
  }
  let n = unsafe { NFAIL };
  println!("done, {} failures", n);
  if n > 0 { std::process::exit(1) }
}
