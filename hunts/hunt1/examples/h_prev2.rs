//! C12: pre-v2 ST-MOC FITS reader (ORDERING='RANGE29'), a time bound equal to i64::MIN.
use std::io::{BufReader, Cursor};
use moc::deser::fits::{from_fits_ivoa, MocIdxType, MocQtyType, STMocType};

fn card(s: String) -> Vec<u8> { let mut v = s.into_bytes(); v.resize(80, b' '); v }
fn block(cards: Vec<String>) -> Vec<u8> {
  let mut v: Vec<u8> = cards.into_iter().flat_map(card).collect();
  v.extend(card("END".into()));
  while v.len() % 2880 != 0 { v.push(b' '); }
  v
}
fn ki(k: &str, v: &str) -> String { format!("{:<8}= {:>20}", k, v) }
fn ks(k: &str, v: &str) -> String { format!("{:<8}= '{}'", k, v) }

fn main() {
  let mut f = block(vec![ki("SIMPLE", "T"), ki("BITPIX", "8"), ki("NAXIS", "0"), ki("EXTEND", "T")]);
  f.extend(block(vec![
    ks("XTENSION", "BINTABLE"), ki("BITPIX", "8"), ki("NAXIS", "2"), ki("NAXIS1", "8"), ki("NAXIS2", "4"),
    ki("PCOUNT", "0"), ki("GCOUNT", "1"), ki("TFIELDS", "1"),
    ks("TFORM1", "1K"), ks("ORDERING", "RANGE29"), ki("MOCORDER", "5"), ki("TORDER", "5"),
  ]));
  // one (negative => time) range followed by one space range
  for v in [i64::MIN, -5, 0, 4] { f.extend_from_slice(&v.to_be_bytes()); }
  while f.len() % 2880 != 0 { f.push(0); }
  std::fs::write("/tmp/hunt1/stmoc_prev2_i64min.fits", &f).ok();
  let res = std::panic::catch_unwind(|| match from_fits_ivoa(BufReader::new(Cursor::new(f))) {
    Ok(MocIdxType::U64(MocQtyType::TimeHpx(STMocType::PreV2(it)))) => format!("{} elements", it.count()),
    Ok(_) => "other MOC type".to_string(),
    Err(e) => format!("error value: {}", e),
  });
  match res {
    Ok(s) => println!("ok {}", s),
    Err(_) => { println!("FAIL the pre-v2 ST-MOC reader panicked on a time bound = i64::MIN"); std::process::exit(1) }
  }
}
