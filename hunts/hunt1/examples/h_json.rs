//! C12: `from_json_aladin` accepts documents with entries outside the domain.
use moc::deser::json::from_json_aladin;
use moc::moc::{CellMOCIntoIterator, HasMaxDepth};
use moc::qty::{Hpx, Time};

fn main() {
  let mut nfail = 0;
  macro_rules! t {
    ($t:ty, $q:ident, $doc:expr, $why:expr) => {
      match from_json_aladin::<$t, $q<$t>>($doc) {
        Ok(m) => { nfail += 1; let d = m.depth_max(); println!("FAIL {}<{}> accepted {} ({}) => depth {} cells {:?}", stringify!($q), stringify!($t), $doc, $why, d, m.into_cell_moc_iter().collect::<Vec<_>>()); }
        Err(e) => println!("ok   {}<{}> rejected {}: {}", stringify!($q), stringify!($t), $doc, e),
      }
    };
  }
  // control: rejected since c5af89c
  t!(u16, Hpx, r#"{"0":[12]}"#, "control");
  // (a) the index is narrowed with `as` before the domain check: 65536 + 11 becomes the valid cell 0/11
  t!(u16, Hpx, r#"{"0":[65547]}"#, "index 65547 does not exist at depth 0");
  t!(u32, Hpx, r#"{"0":[4294967297]}"#, "index 2^32+1 does not exist at depth 0");
  t!(u16, Time, r#"{"13":[65536]}"#, "index 65536 does not exist at depth 13 on 16 bits");
  // (b) elements which are not indices are silently dropped
  t!(u64, Hpx, r#"{"0":[99999999999999999999]}"#, "index above u64::MAX");
  t!(u64, Hpx, r#"{"0":[-3, 1.5, "x", null, [1]]}"#, "negative, fractional, non numeric elements");
  t!(u64, Hpx, r#"{"0": 5}"#, "not an array");
  // (c) depths above the maximum depth are silently dropped
  t!(u64, Hpx, r#"{"30":[5]}"#, "depth 30 > 29");
  t!(u16, Hpx, r#"{"6":[5]}"#, "depth 6 > 5 on 16 bits");
  if nfail > 0 { std::process::exit(1) }
}
