//! C05 / C07 (hint): `RangeMOCIteratorFromCells::size_hint` forgets the element it pre-fetched, like the
//! cell-or-cellrange adapter did before 26180bb. Not reachable with the cell iterators of the crate (none of
//! them declares a size hint), shown here with a user-defined `CellMOCIterator` which does.
use moc::deser::fits::ranges_to_fits_ivoa;
use moc::elem::cell::Cell;
use moc::moc::{CellMOCIterator, HasMaxDepth, MOCProperties, NonOverlapping, ZSorted};
use moc::qty::Hpx;

struct Cells(std::vec::IntoIter<Cell<u64>>);
impl Iterator for Cells {
  type Item = Cell<u64>;
  fn next(&mut self) -> Option<Cell<u64>> { self.0.next() }
  fn size_hint(&self) -> (usize, Option<usize>) { self.0.size_hint() } // exact
}
impl HasMaxDepth for Cells { fn depth_max(&self) -> u8 { 3 } }
impl ZSorted for Cells {}
impl NonOverlapping for Cells {}
impl MOCProperties for Cells {}
impl CellMOCIterator<u64> for Cells {
  type Qty = Hpx<u64>;
  fn peek_last(&self) -> Option<&Cell<u64>> { None }
}

fn main() {
  let mut nfail = 0;
  for cells in [vec![Cell::new(3, 5u64)], vec![Cell::new(3, 5u64), Cell::new(3, 9)]] {
    let it = Cells(cells.clone().into_iter()).ranges();
    let hint = it.size_hint();
    let n = it.count();
    if hint.0 > n || hint.1.map(|u| u < n).unwrap_or(false) {
      println!("FAIL cells {:?}: ranges().size_hint() = {:?} but {} range(s) are yielded", cells, hint, n);
      nfail += 1;
    }
    let mut buf = Vec::new();
    if let Err(e) = ranges_to_fits_ivoa(Cells(cells.clone().into_iter()).ranges(), None, None, &mut buf) {
      println!("FAIL cells {:?}: ranges_to_fits_ivoa trusts the hint and fails with {:?} after writing {} bytes", cells, e, buf.len());
      nfail += 1;
    }
  }
  if nfail > 0 { std::process::exit(1) }
}
