//! C05: `MocQty::uniq_gen_to_range` (generic uniq numbering) is only right for 2-d quantities.
use moc::elem::cell::Cell;
use moc::elem::range::MocRange;
use moc::qty::{Frequency, Hpx, MocQty, Time};

fn check<Q: MocQty<u64>>(name: &str, depth: u8, idx: u64) -> bool {
  let cell = Cell::new(depth, idx);
  let uniq = cell.uniq::<Q>();
  assert_eq!(Cell::<u64>::from_uniq::<Q>(uniq), cell);
  let expected = MocRange::<u64, Q>::from(&cell).0;
  match std::panic::catch_unwind(|| Q::uniq_gen_to_range(uniq)) {
    Ok(r) if r == expected => { println!("ok   {} cell {}/{} uniq {} -> {:?}", name, depth, idx, uniq, r); true }
    Ok(r) => { println!("FAIL {} cell {}/{} uniq {}: uniq_gen_to_range = {:?}, the cell covers {:?}", name, depth, idx, uniq, r, expected); false }
    Err(_) => { println!("FAIL {} cell {}/{} uniq {}: uniq_gen_to_range panicked, the cell covers {:?}", name, depth, idx, uniq, expected); false }
  }
}
fn main() {
  std::panic::set_hook(Box::new(|_| {}));
  let mut ok = true;
  ok &= check::<Hpx<u64>>("Hpx", 0, 11);
  ok &= check::<Hpx<u64>>("Hpx", 29, 5);
  ok &= check::<Time<u64>>("Time", 61, 5);       // right only at the maximum depth
  ok &= check::<Time<u64>>("Time", 60, 5);
  ok &= check::<Time<u64>>("Time", 40, 1);
  ok &= check::<Time<u64>>("Time", 0, 1);
  ok &= check::<Frequency<u64>>("Frequency", 30, 3);
  if !ok { std::process::exit(1) }
}
