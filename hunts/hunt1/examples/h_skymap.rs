//! C12: the sky-map FITS reader on single-field mutations of a valid (depth 0, 12 rows) sky map.
//! usage: h_skymap <case>   (each case in its own process since some abort)
use std::io::{BufReader, Cursor};
use moc::deser::fits::skymap::from_fits_skymap;

fn card(s: &str) -> Vec<u8> {
  let mut v = s.as_bytes().to_vec();
  assert!(v.len() <= 80);
  v.resize(80, b' ');
  v
}
fn block(cards: &[String]) -> Vec<u8> {
  let mut v = Vec::new();
  for c in cards { v.extend(card(c)); }
  v.extend(card("END"));
  while v.len() % 2880 != 0 { v.push(b' '); }
  v
}
fn kw_int(k: &str, v: u64) -> String { format!("{:<8}= {:>20}", k, v) }
fn kw_str(k: &str, v: &str) -> String { format!("{:<8}= '{}'", k, v) }
fn kw_l(k: &str, v: &str) -> String { format!("{:<8}= {:>20}", k, v) }

pub fn skymap(naxis1: u64, naxis2: u64, tform1: &str, order_kw: String, ordering: &str, vals: &[f64]) -> Vec<u8> {
  let mut v = block(&[kw_l("SIMPLE", "T"), kw_int("BITPIX", 8), kw_int("NAXIS", 0), kw_l("EXTEND", "T")]);
  v.extend(block(&[
    kw_str("XTENSION", "BINTABLE"), kw_int("BITPIX", 8), kw_int("NAXIS", 2),
    kw_int("NAXIS1", naxis1), kw_int("NAXIS2", naxis2),
    kw_int("PCOUNT", 0), kw_int("GCOUNT", 1), kw_int("TFIELDS", 1),
    kw_str("TTYPE1", "PROB"), kw_str("TFORM1", tform1),
    kw_str("PIXTYPE", "HEALPIX"), kw_str("ORDERING", ordering), kw_str("COORDSYS", "C"),
    order_kw, kw_str("INDXSCHM", "IMPLICIT"),
  ]));
  for x in vals { v.extend_from_slice(&x.to_be_bytes()); }
  while v.len() % 2880 != 0 { v.push(0); }
  v
}

fn main() {
  let case = std::env::args().nth(1).unwrap_or_default();
  let vals: Vec<f64> = (0..12).map(|i| (i as f64 + 1.0) / 78.0).collect();
  let bytes = match case.as_str() {
    "valid" => skymap(8, 12, "D", kw_int("MOCORDER", 0), "NESTED", &vals),
    "naxis1_small" => skymap(4, 12, "D", kw_int("MOCORDER", 0), "NESTED", &vals),
    "naxis1_zero" => skymap(0, 12, "D", kw_int("MOCORDER", 0), "RING", &vals),
    "naxis1_huge" => skymap(1_000_000_000_000, 12, "D", kw_int("MOCORDER", 0), "NESTED", &vals),
    "naxis2_overflow" => skymap(4096, 18014398509481984, "1024E", kw_int("MOCORDER", 0), "NESTED", &vals),
    "mocorder_30" => skymap(8, 12, "D", kw_int("MOCORDER", 30), "NESTED", &vals),
    "mocorder_200" => skymap(8, 12, "D", kw_int("MOCORDER", 200), "RING", &vals),
    "nside_0" => skymap(8, 12, "D", kw_int("NSIDE", 0), "NESTED", &vals),
    // one non-ASCII byte (ISO-8859-1 'e acute') in the name of the column: undefined behaviour (segfault observed)
    "ttype1_non_ascii" => {
      let mut b = skymap(8, 12, "D", kw_int("MOCORDER", 0), "NESTED", &vals);
      let pos = b.windows(16).position(|w| w == b"TTYPE1  = 'PROB'").unwrap();
      b[pos + 15] = 0xE9;
      b[pos + 16] = b'\'';
      b
    }
    _ => { eprintln!("unknown case"); std::process::exit(2) }
  };
  std::fs::write(format!("/tmp/hunt1/skymap_{}.fits", case), &bytes).unwrap();
  let res = std::panic::catch_unwind(|| {
    from_fits_skymap(BufReader::new(Cursor::new(bytes)), 0.0, 0.0, 0.9, false, true, true, false)
  });
  match res {
    Ok(Ok(moc)) => println!("{}: ok MOC depth={} n_ranges={}", case, moc.depth_max(), moc.len()),
    Ok(Err(e)) => println!("{}: ok error value: {}", case, e),
    Err(_) => { println!("FAIL {}: the reader panicked", case); std::process::exit(1) }
  }
}
