//! C06: the "large" variants of the cone / box builders (and the n-ary operators they rely on) forget
//! the requested depth when the list is empty.
use moc::moc::range::op::multi_op::{kway_and, kway_or, kway_xor};
use moc::moc::range::{CellSelection, RangeMOC};
use moc::qty::Hpx;

fn main() {
  type M = RangeMOC<u64, Hpx<u64>>;
  let mut nfail = 0;
  for depth in [0u8, 5, 10] {
    let a = M::from_large_cones(depth, 2, CellSelection::All, std::iter::empty());
    let b = M::from_small_cones(depth, 2, std::iter::empty(), None);
    let c = M::from_large_boxes(depth, CellSelection::All, std::iter::empty());
    let d = M::from_small_boxes(depth, std::iter::empty(), None);
    let ap = M::from_large_cones_par(depth, 2, CellSelection::All, rayon::iter::empty());
    if a != ap { println!("FAIL no cone, depth {}: from_large_cones gives depth {}, from_large_cones_par depth {}", depth, a.depth_max(), ap.depth_max()); nfail += 1; }
    if a != b { println!("FAIL no cone, depth {}: from_large_cones gives depth {}, from_small_cones depth {}", depth, a.depth_max(), b.depth_max()); nfail += 1; }
    if c != d { println!("FAIL no box, depth {}: from_large_boxes gives depth {}, from_small_boxes depth {}", depth, c.depth_max(), d.depth_max()); nfail += 1; }
  }
  // one cone which selects no cell (Inside selection of a tiny cone): the depth is kept => the result
  // depends on the list being empty or not although the covered set is the same
  let one = M::from_large_cones(10, 2, CellSelection::Inside, vec![(0.1, 0.1, 1e-9)].into_iter());
  println!("info one empty cone, depth 10: depth {} empty {}", one.depth_max(), one.is_empty());
  println!("info kway_or/and/xor of the empty list: depth {} {} {}", kway_or::<u64, Hpx<u64>>(Box::new(std::iter::empty())).depth_max(), kway_and::<u64, Hpx<u64>>(Box::new(std::iter::empty())).depth_max(), kway_xor::<u64, Hpx<u64>>(Box::new(std::iter::empty())).depth_max());
  if nfail > 0 { std::process::exit(1) }
}
