//! C07 randomized harness: 1-D serialisation round trips.
use std::io::{BufReader, Cursor};
use std::ops::Range;

use moc::deser::ascii::{from_ascii_ivoa, from_ascii_stream};
use moc::deser::fits::{from_fits_ivoa, hpx_cells_to_fits_ivoa, ranges_to_fits_ivoa, MocIdxType, MocQtyType, MocType};
use moc::deser::json::from_json_aladin;
use moc::elemset::range::MocRanges;
use moc::idx::Idx;
use moc::moc::range::RangeMOC;
use moc::moc::{
  CellMOCIntoIterator, CellMOCIterator, CellOrCellRangeMOCIntoIterator, CellOrCellRangeMOCIterator,
  HasMaxDepth, RangeMOCIntoIterator, RangeMOCIterator,
};
use moc::qty::{Frequency, Hpx, MocQty, Time};

struct Rng(u64);
impl Rng {
  fn next(&mut self) -> u64 { self.0 ^= self.0 << 13; self.0 ^= self.0 >> 7; self.0 ^= self.0 << 17; self.0 }
  fn below(&mut self, n: u64) -> u64 { if n == 0 { 0 } else { self.next() % n } }
}
static mut NFAIL: usize = 0;
fn fail(msg: String) { unsafe { NFAIL += 1; if NFAIL <= 40 { println!("FAIL {}", msg); } } }

fn gen_moc<T: Idx, Q: MocQty<T>>(rng: &mut Rng, depth: u8, kind: u64) -> RangeMOC<T, Q> {
  let n = Q::n_cells(depth).to_u64();
  let shift = Q::shift_from_depth_max(depth) as u32;
  let mut cuts: Vec<u64> = match kind {
    0 => vec![], 1 => vec![0, n], 2 => vec![0, 1], 3 => vec![n - 1, n], 4 => vec![0, 1, n - 1, n],
    _ => {
      let k = 2 * (1 + rng.below(8));
      let span = if rng.below(2) == 0 { n } else { n.min(200) };
      let off = if span < n { rng.below(n - span + 1) } else { 0 };
      (0..k).map(|_| off + rng.below(span + 1)).collect()
    }
  };
  cuts.sort(); cuts.dedup();
  if cuts.len() % 2 == 1 { cuts.pop(); }
  let ranges: Vec<Range<T>> = cuts.chunks(2).map(|c| T::from_u64(c[0]).unsigned_shl(shift)..T::from_u64(c[1]).unsigned_shl(shift)).collect();
  RangeMOC::new(depth, MocRanges::new_unchecked(ranges))
}
fn r<T: Idx, Q: MocQty<T>>(m: &RangeMOC<T, Q>) -> Vec<Range<T>> { m.into_range_moc_iter().collect() }

fn check_fits_structure(bytes: &[u8], ctx: &str) {
  if bytes.len() % 2880 != 0 { fail(format!("FITS len {} not multiple of 2880 [{}]", bytes.len(), ctx)); return; }
  if bytes.len() < 5760 { fail(format!("FITS too short [{}]", ctx)); return; }
  let hdr = &bytes[2880..5760];
  let get = |k: &str| -> Option<u64> {
    hdr.chunks(80).find(|c| c.starts_with(k.as_bytes())).and_then(|c| std::str::from_utf8(&c[10..30]).ok().and_then(|s| s.trim().parse().ok()))
  };
  let (n1, n2) = (get("NAXIS1  ").unwrap_or(u64::MAX), get("NAXIS2  ").unwrap_or(u64::MAX));
  let data = (n1 * n2) as usize;
  let expected = 5760 + (data + 2879) / 2880 * 2880;
  if expected != bytes.len() { fail(format!("FITS NAXIS1={} NAXIS2={} => expected len {} actual {} [{}]", n1, n2, expected, bytes.len(), ctx)); }
  if !hdr.chunks(80).any(|c| c.starts_with(b"END ")) { fail(format!("no END card in ext header [{}]", ctx)); }
}

trait ReadBack<T: Idx>: MocQty<T> {
  fn from_fits(bytes: &[u8]) -> Result<RangeMOC<T, Self>, String>;
}
macro_rules! rb {
  ($t:ty, $v:ident) => {
    impl ReadBack<$t> for Hpx<$t> {
      fn from_fits(bytes: &[u8]) -> Result<RangeMOC<$t, Self>, String> {
        match from_fits_ivoa(BufReader::new(Cursor::new(bytes))).map_err(|e| e.to_string())? {
          MocIdxType::$v(MocQtyType::Hpx(m)) => Ok(m.collect()),
          _ => Err("wrong type read back".into()),
        }
      }
    }
    impl ReadBack<$t> for Time<$t> {
      fn from_fits(bytes: &[u8]) -> Result<RangeMOC<$t, Self>, String> {
        match from_fits_ivoa(BufReader::new(Cursor::new(bytes))).map_err(|e| e.to_string())? {
          MocIdxType::$v(MocQtyType::Time(m)) => Ok(m.collect()),
          _ => Err("wrong type read back".into()),
        }
      }
    }
    impl ReadBack<$t> for Frequency<$t> {
      fn from_fits(bytes: &[u8]) -> Result<RangeMOC<$t, Self>, String> {
        match from_fits_ivoa(BufReader::new(Cursor::new(bytes))).map_err(|e| e.to_string())? {
          MocIdxType::$v(MocQtyType::Freq(m)) => Ok(m.collect()),
          _ => Err("wrong type read back".into()),
        }
      }
    }
  };
}
rb!(u16, U16);
rb!(u32, U32);
rb!(u64, U64);

fn cmp<T: Idx, Q: MocQty<T>>(what: &str, got: Result<RangeMOC<T, Q>, String>, m: &RangeMOC<T, Q>, ctx: &str) {
  match got {
    Ok(g) => if g.depth_max() != m.depth_max() || r(&g) != r(m) { fail(format!("{}: got depth={} {:?} [{}]", what, g.depth_max(), r(&g), ctx)); },
    Err(e) => fail(format!("{}: error {} [{}]", what, e, ctx)),
  }
}

fn check<T: Idx, Q: ReadBack<T>>(m: &RangeMOC<T, Q>, qn: &str) {
  let d = m.depth_max();
  let ctx = format!("{}<u{}> depth={} ranges={:?}", qn, T::N_BITS, d, r(m));
  let full = &RangeMOC::<T, Q>::new_full_domain(d);
  let empty = &RangeMOC::<T, Q>::new_empty(d);
  // FITS ranges: in-memory and lazy feeds
  macro_rules! fits {
    ($name:expr, $it:expr) => {{
      let mut buf = Vec::new();
      match ranges_to_fits_ivoa($it, None, None, &mut buf) {
        Ok(()) => { check_fits_structure(&buf, &format!("{} {}", $name, ctx)); cmp($name, Q::from_fits(&buf), m, &ctx); }
        Err(e) => fail(format!("{}: write error {} [{}]", $name, e, ctx)),
      }
    }};
  }
  fits!("fits/mem", m.into_range_moc_iter());
  fits!("fits/owned", m.clone().into_range_moc_iter());
  fits!("fits/not.not", m.into_range_moc_iter().not().not());
  fits!("fits/and full", m.into_range_moc_iter().and(full.into_range_moc_iter()));
  fits!("fits/or empty", m.into_range_moc_iter().or(empty.into_range_moc_iter()));
  fits!("fits/empty or", empty.into_range_moc_iter().or(m.into_range_moc_iter()));
  fits!("fits/xor empty", m.into_range_moc_iter().xor(empty.into_range_moc_iter()));
  fits!("fits/minus empty", m.into_range_moc_iter().minus(empty.into_range_moc_iter()));
  fits!("fits/degrade", m.into_range_moc_iter().degrade(d));
  fits!("fits/cells.ranges", m.into_range_moc_iter().cells().ranges());
  fits!("fits/cells.cellranges.ranges", m.into_range_moc_iter().cells().cellranges().ranges());
  // ASCII
  for fold in [None, Some(0usize), Some(1), Some(8), Some(30), Some(80)] {
    for rl in [false, true] {
      let mut buf = Vec::new();
      m.into_range_moc_iter().cells().cellranges().to_ascii_ivoa(fold, rl, &mut buf).unwrap();
      let s = String::from_utf8(buf).unwrap();
      let got = from_ascii_ivoa::<T, Q>(&s).map(|c| c.into_cellcellrange_moc_iter().ranges().into_range_moc()).map_err(|e| e.to_string());
      cmp(&format!("ascii fold={:?} range_len={} text={:?}", fold, rl, if s.len() < 200 { s.as_str() } else { "..." }), got, m, &ctx);
    }
  }
  for rl in [false, true] {
    let mut buf = Vec::new();
    m.into_range_moc_iter().cells().cellranges().to_ascii_stream(rl, &mut buf).unwrap();
    let got = from_ascii_stream::<T, Q, _>(Cursor::new(&buf)).map(|it| it.ranges().into_range_moc()).map_err(|e| e.to_string());
    cmp(&format!("stream range_len={}", rl), got, m, &ctx);
  }
  // JSON
  for fold in [None, Some(0usize), Some(1), Some(10), Some(80)] {
    let mut buf = Vec::new();
    m.into_range_moc_iter().cells().to_json_aladin(fold, &mut buf).unwrap();
    let s = String::from_utf8(buf).unwrap();
    let got = from_json_aladin::<T, Q>(&s).map(|c| c.into_cell_moc_iter().ranges().into_range_moc()).map_err(|e| e.to_string());
    cmp(&format!("json fold={:?} text={:?}", fold, if s.len() < 200 { s.as_str() } else { "..." }), got, m, &ctx);
  }
}

fn check_nuniq<T: Idx>(m: &RangeMOC<T, Hpx<T>>) where Hpx<T>: ReadBack<T> {
  let ctx = format!("NUNIQ Hpx<u{}> depth={} ranges={:?}", T::N_BITS, m.depth_max(), r(m));
  let mut buf = Vec::new();
  match hpx_cells_to_fits_ivoa(m.into_range_moc_iter().cells(), None, None, &mut buf) {
    Ok(()) => { check_fits_structure(&buf, &ctx); cmp("fits/nuniq", <Hpx<T> as ReadBack<T>>::from_fits(&buf), m, &ctx); }
    Err(e) => fail(format!("nuniq write error {} [{}]", e, ctx)),
  }
  // re-serialisation of what was read (MocType::to_fits_ivoa)
  if let Ok(x) = from_fits_ivoa(BufReader::new(Cursor::new(&buf))) {
    let mut buf2 = Vec::new();
    match x.to_fits_ivoa(&mut buf2) {
      Ok(()) => { check_fits_structure(&buf2, &ctx); cmp("fits/nuniq->to_fits_ivoa", <Hpx<T> as ReadBack<T>>::from_fits(&buf2), m, &ctx); }
      Err(e) => fail(format!("nuniq re-write error {} [{}]", e, ctx)),
    }
  }
}

fn main() {
  std::panic::set_hook(Box::new(|_| {}));
  let mut rng = Rng(0xDEADBEEFCAFEF00D);
  macro_rules! run {
    ($t:ty, $q:ident, $qn:expr) => {{
      for depth in 0..=<$q<$t> as MocQty<$t>>::MAX_DEPTH {
        for kind in 0..14u64 {
          let m: RangeMOC<$t, $q<$t>> = gen_moc(&mut rng, depth, kind);
          let res = std::panic::catch_unwind(std::panic::AssertUnwindSafe(|| check(&m, $qn)));
          if res.is_err() { fail(format!("panic {}<u{}> depth={} {:?}", $qn, <$t>::N_BITS, depth, r(&m))); }
        }
      }
      println!("{} {} done", $qn, stringify!($t));
    }};
  }
  run!(u16, Hpx, "Hpx"); run!(u32, Hpx, "Hpx"); run!(u64, Hpx, "Hpx");
  run!(u16, Time, "Time"); run!(u32, Time, "Time"); run!(u64, Time, "Time");
  run!(u16, Frequency, "Frequency"); run!(u32, Frequency, "Frequency"); run!(u64, Frequency, "Frequency");
  macro_rules! runn {
    ($t:ty) => {{
      for depth in 0..=<Hpx<$t> as MocQty<$t>>::MAX_DEPTH {
        for kind in 0..14u64 {
          let m: RangeMOC<$t, Hpx<$t>> = gen_moc(&mut rng, depth, kind);
          let res = std::panic::catch_unwind(std::panic::AssertUnwindSafe(|| check_nuniq(&m)));
          if res.is_err() { fail(format!("panic nuniq u{} depth={} {:?}", <$t>::N_BITS, depth, r(&m))); }
        }
      }
    }};
  }
  runn!(u16); runn!(u32); runn!(u64);
  let n = unsafe { NFAIL };
  println!("done, {} failures", n);
  if n > 0 { std::process::exit(1) }
}
