//! C06 randomized harness: builders and n-ary operators.
use std::ops::Range;

use moc::elemset::range::MocRanges;
use moc::idx::Idx;
use moc::moc::builder::fixed_depth::FixedDepthMocBuilder;
use moc::moc::builder::maxdepth_range::RangeMocBuilder;
use moc::moc::range::op::convert::convert_from_u64;
use moc::moc::range::op::multi_op::{kway_and, kway_and_it, kway_or, kway_or_it, kway_xor, kway_xor_it};
use moc::moc::range::RangeMOC;
use moc::moc::{RangeMOCIntoIterator, RangeMOCIterator};
use moc::qty::{Frequency, Hpx, MocQty, Time};

struct Rng(u64);
impl Rng {
  fn next(&mut self) -> u64 {
    self.0 ^= self.0 << 13;
    self.0 ^= self.0 >> 7;
    self.0 ^= self.0 << 17;
    self.0
  }
  fn below(&mut self, n: u64) -> u64 { if n == 0 { 0 } else { self.next() % n } }
}

static mut NFAIL: usize = 0;
fn fail(msg: String) {
  unsafe {
    NFAIL += 1;
    if NFAIL <= 40 { println!("FAIL {}", msg); }
  }
}

/// Oracle: union of ranges (u64), merging touching ones.
fn union(mut v: Vec<Range<u64>>) -> Vec<Range<u64>> {
  v.retain(|r| r.start < r.end);
  v.sort_by_key(|r| r.start);
  let mut out: Vec<Range<u64>> = Vec::new();
  for r in v {
    if let Some(l) = out.last_mut() {
      if r.start <= l.end { l.end = l.end.max(r.end); continue; }
    }
    out.push(r);
  }
  out
}
fn to64<T: Idx, Q: MocQty<T>>(m: &RangeMOC<T, Q>) -> Vec<Range<u64>> {
  m.into_range_moc_iter().map(|r| r.start.to_u64()..r.end.to_u64()).collect()
}

fn fixed_depth<T: Idx, Q: MocQty<T>>(rng: &mut Rng, qn: &str) {
  for depth in 0..=Q::MAX_DEPTH {
    let n = Q::n_cells(depth).to_u64();
    let shift = Q::shift_from_depth_max(depth) as u32;
    for trial in 0..12 {
      let len = rng.below(14) as usize;
      let span = n.min(1 + rng.below(24));
      let off = match trial % 3 { 0 => 0, 1 => n - span, _ => rng.below(n - span + 1) };
      let mut cells: Vec<u64> = (0..len).map(|_| off + rng.below(span)).collect();
      match trial % 4 { 0 => cells.sort(), 1 => { cells.sort(); cells.reverse() }, _ => {} }
      let expected = union(cells.iter().map(|c| (c << shift)..((c + 1) << shift)).collect());
      for cap in 0..=(len + 2) {
        for variant in 0..4 {
          let mut b = FixedDepthMocBuilder::<T, Q>::new(depth, Some(cap));
          for (i, c) in cells.iter().enumerate() {
            let c = T::from_u64(*c);
            match variant { 0 => b.push(c), 1 => b.push_v2(c), _ => if i % 2 == 0 { b.push(c) } else { b.push_v2(c) } }
          }
          let ctx = format!("FixedDepth {}<u{}> depth={} cap={} variant={} cells={:?}", qn, T::N_BITS, depth, cap, variant, cells);
          let res = std::panic::catch_unwind(std::panic::AssertUnwindSafe(|| if variant == 1 || variant == 3 { b.into_moc_v2() } else { b.into_moc() }));
          match res {
            Ok(m) => {
              if to64(&m) != expected || m.depth_max() != depth {
                fail(format!("got {:?} expected {:?} [{}]", to64(&m), expected, ctx));
              }
            }
            Err(_) => fail(format!("panic [{}]", ctx)),
          }
        }
      }
      // from_fixed_depth_cells + append_fixed_depth_cells in two batches
      if len > 1 {
        let k = len / 2;
        let m1 = RangeMOC::<T, Q>::from_fixed_depth_cells(depth, cells[..k].iter().map(|c| T::from_u64(*c)), Some(3));
        let m = m1.append_fixed_depth_cells(depth, cells[k..].iter().map(|c| T::from_u64(*c)), Some(2));
        if to64(&m) != expected { fail(format!("append_fixed_depth_cells {:?} != {:?} depth={} cells={:?}", to64(&m), expected, depth, cells)); }
      }
    }
  }
}

fn range_builder<T: Idx, Q: MocQty<T>>(rng: &mut Rng, qn: &str) {
  let nmax = Q::n_cells_max().to_u64();
  for depth in 0..=Q::MAX_DEPTH {
    let shift = Q::shift_from_depth_max(depth) as u32;
    let mask = (1u64 << shift) - 1;
    for trial in 0..12 {
      let len = rng.below(10) as usize;
      let span = nmax.min((1 + rng.below(40)) << shift);
      let off = match trial % 3 { 0 => 0, 1 => nmax - span, _ => rng.below(nmax - span + 1) };
      let mut ranges: Vec<Range<u64>> = (0..len).map(|_| {
        let a = off + rng.below(span + 1);
        let b = off + rng.below(span + 1);
        let (a, b) = if a <= b { (a, b) } else { (b, a) };
        if a == b { if b < nmax { a..b + 1 } else { a - 1..b } } else { a..b }
      }).collect();
      match trial % 4 { 0 => ranges.sort_by_key(|r| r.start), 1 => { ranges.sort_by_key(|r| r.start); ranges.reverse() }, _ => {} }
      if trial % 5 == 0 && len > 0 { let r = ranges[0].clone(); ranges.push(r); }
      let expected = union(ranges.iter().map(|r| (r.start & !mask)..((r.end + mask) & !mask)).collect());
      for cap in 0..=(ranges.len() + 2) {
        let ctx = format!("RangeBuilder {}<u{}> depth={} cap={} ranges={:?}", qn, T::N_BITS, depth, cap, ranges);
        let res = std::panic::catch_unwind(std::panic::AssertUnwindSafe(|| {
          let mut b = RangeMocBuilder::<T, Q>::new(depth, Some(cap));
          for r in &ranges { b.push(T::from_u64(r.start)..T::from_u64(r.end)); }
          b.into_moc()
        }));
        match res {
          Ok(m) => if to64(&m) != expected || m.depth_max() != depth { fail(format!("got {:?} expected {:?} [{}]", to64(&m), expected, ctx)); },
          Err(_) => fail(format!("panic [{}]", ctx)),
        }
      }
      // from_cells with (depth, idx) pairs of any depth
      let pairs: Vec<(u8, u64)> = (0..len).map(|_| {
        let d = rng.below(Q::MAX_DEPTH as u64 + 1) as u8;
        let n = Q::n_cells(d).to_u64();
        let i = match rng.below(4) { 0 => 0, 1 => n - 1, _ => rng.below(n) };
        (d, i)
      }).collect();
      let expected = union(pairs.iter().map(|(d, i)| {
        let s = Q::shift_from_depth_max(*d) as u32;
        let r = (i << s)..((i + 1) << s);
        (r.start & !mask)..((r.end + mask) & !mask)
      }).collect());
      for cap in [0usize, 1, 2, 3, 100] {
        let m = RangeMOC::<T, Q>::from_cells(depth, pairs.iter().map(|(d, i)| (*d, T::from_u64(*i))), Some(cap));
        if to64(&m) != expected { fail(format!("from_cells {}<u{}> depth={} cap={} pairs={:?}: {:?} != {:?}", qn, T::N_BITS, depth, cap, pairs, to64(&m), expected)); }
      }
    }
  }
}

fn time_freq<T: Idx>(rng: &mut Rng) {
  // Time
  for depth in 0..=Time::<T>::MAX_DEPTH {
    for _ in 0..6 {
      let len = rng.below(8) as usize;
      let ts: Vec<u64> = (0..len).map(|_| match rng.below(4) { 0 => rng.below(1 << 20), 1 => (1u64 << 62) - 1 - rng.below(1 << 20), _ => rng.below(1u64 << 62) }).collect();
      let m64 = RangeMOC::<u64, Time<u64>>::from_microsec_since_jd0(depth, ts.iter().cloned(), Some(3));
      let expected: RangeMOC<T, Time<T>> = convert_from_u64::<Time<u64>, T, Time<T>, _>((&m64).into_range_moc_iter()).into_range_moc();
      for cap in [1usize, 2, 100] {
        let m = RangeMOC::<T, Time<T>>::from_microsec_since_jd0(depth, ts.iter().cloned(), Some(cap));
        if m != expected { fail(format!("from_microsec_since_jd0 u{} depth={} ts={:?}: {:?} != {:?}", T::N_BITS, depth, ts, to64(&m), to64(&expected))); }
      }
      let rs: Vec<Range<u64>> = ts.chunks(2).filter(|c| c.len() == 2 && c[0] != c[1]).map(|c| c[0].min(c[1])..c[0].max(c[1])).collect();
      let m64 = RangeMOC::<u64, Time<u64>>::from_microsec_ranges_since_jd0(depth, rs.iter().cloned(), Some(3));
      let expected: RangeMOC<T, Time<T>> = convert_from_u64::<Time<u64>, T, Time<T>, _>((&m64).into_range_moc_iter()).into_range_moc();
      let m = RangeMOC::<T, Time<T>>::from_microsec_ranges_since_jd0(depth, rs.iter().cloned(), Some(2));
      if m != expected { fail(format!("from_microsec_ranges_since_jd0 u{} depth={} rs={:?}: {:?} != {:?}", T::N_BITS, depth, rs, to64(&m), to64(&expected))); }
    }
  }
  for depth in 0..=Frequency::<T>::MAX_DEPTH {
    for _ in 0..6 {
      let len = rng.below(8) as usize;
      let fs: Vec<f64> = (0..len).map(|_| match rng.below(5) {
        0 => 5.048_709_793_414_476e-29,
        1 => 5.846_006_549_323_611e48,
        _ => Frequency::<u64>::hash2freq(rng.below(1u64 << 60)),
      }).collect();
      let m64 = RangeMOC::<u64, Frequency<u64>>::from_freq_in_hz(depth, fs.iter().cloned(), Some(3));
      let expected: RangeMOC<T, Frequency<T>> = convert_from_u64::<Frequency<u64>, T, Frequency<T>, _>((&m64).into_range_moc_iter()).into_range_moc();
      let m = RangeMOC::<T, Frequency<T>>::from_freq_in_hz(depth, fs.iter().cloned(), Some(2));
      if m != expected { fail(format!("from_freq_in_hz u{} depth={} fs={:?}: {:?} != {:?}", T::N_BITS, depth, fs, to64(&m), to64(&expected))); }
      let rs: Vec<Range<f64>> = fs.chunks(2).filter(|c| c.len() == 2 && c[0] != c[1]).map(|c| c[0].min(c[1])..c[0].max(c[1])).collect();
      let m64 = RangeMOC::<u64, Frequency<u64>>::from_freq_ranges_in_hz(depth, rs.iter().cloned(), Some(3));
      let expected: RangeMOC<T, Frequency<T>> = convert_from_u64::<Frequency<u64>, T, Frequency<T>, _>((&m64).into_range_moc_iter()).into_range_moc();
      let m = RangeMOC::<T, Frequency<T>>::from_freq_ranges_in_hz(depth, rs.iter().cloned(), Some(2));
      if m != expected { fail(format!("from_freq_ranges_in_hz u{} depth={} rs={:?}: {:?} != {:?}", T::N_BITS, depth, rs, to64(&m), to64(&expected))); }
    }
  }
}

fn gen_moc<T: Idx, Q: MocQty<T>>(rng: &mut Rng, depth: u8) -> RangeMOC<T, Q> {
  let n = Q::n_cells(depth).to_u64();
  let shift = Q::shift_from_depth_max(depth) as u32;
  let k = 2 * rng.below(5);
  let span = n.min(40);
  let mut cuts: Vec<u64> = (0..k).map(|_| rng.below(span + 1)).collect();
  if rng.below(6) == 0 { cuts = vec![0, n]; }
  cuts.sort(); cuts.dedup();
  if cuts.len() % 2 == 1 { cuts.pop(); }
  let ranges: Vec<Range<T>> = cuts.chunks(2).map(|c| T::from_u64(c[0]).unsigned_shl(shift)..T::from_u64(c[1]).unsigned_shl(shift)).collect();
  RangeMOC::new(depth, MocRanges::new_unchecked(ranges))
}

fn nary<T: Idx, Q: MocQty<T>>(rng: &mut Rng, qn: &str) {
  for n in 0..=13usize {
    for _ in 0..30 {
      let mocs: Vec<RangeMOC<T, Q>> = (0..n).map(|_| { let d = rng.below(Q::MAX_DEPTH as u64 + 1) as u8; gen_moc(rng, d) }).collect();
      let ctx = format!("{}<u{}> n={} mocs={:?}", qn, T::N_BITS, n, mocs.iter().map(|m| (m.depth_max(), to64(m))).collect::<Vec<_>>());
      let fold = |f: &dyn Fn(&RangeMOC<T, Q>, &RangeMOC<T, Q>) -> RangeMOC<T, Q>| -> Option<RangeMOC<T, Q>> {
        let mut it = mocs.iter();
        let first = it.next()?.clone();
        Some(it.fold(first, |acc, m| f(&acc, m)))
      };
      let checks: Vec<(&str, Option<RangeMOC<T, Q>>, RangeMOC<T, Q>, RangeMOC<T, Q>)> = vec![
        ("or", fold(&|a, b| a.or(b)), kway_or(Box::new(mocs.clone().into_iter())), kway_or_it(Box::new(mocs.iter().map(|m| m.into_range_moc_iter())))),
        ("and", fold(&|a, b| a.and(b)), kway_and(Box::new(mocs.clone().into_iter())), kway_and_it(Box::new(mocs.iter().map(|m| m.into_range_moc_iter())))),
        ("xor", fold(&|a, b| a.xor(b)), kway_xor(Box::new(mocs.clone().into_iter())), kway_xor_it(Box::new(mocs.iter().map(|m| m.into_range_moc_iter())))),
      ];
      for (name, expected, got, got_it) in checks {
        match expected {
          Some(e) => {
            if got != e { fail(format!("kway_{} {:?} (depth {}) != fold {:?} (depth {}) [{}]", name, to64(&got), got.depth_max(), to64(&e), e.depth_max(), ctx)); }
            if got_it != e { fail(format!("kway_{}_it {:?} (depth {}) != fold {:?} (depth {}) [{}]", name, to64(&got_it), got_it.depth_max(), to64(&e), e.depth_max(), ctx)); }
          }
          None => if !got.is_empty() || !got_it.is_empty() { fail(format!("kway_{} of empty list not empty", name)); },
        }
      }
    }
  }
}

fn main() {
  std::panic::set_hook(Box::new(|_| {}));
  let mut rng = Rng(0x1234_5678_9ABC_DEF1);
  fixed_depth::<u16, Hpx<u16>>(&mut rng, "Hpx");
  fixed_depth::<u32, Hpx<u32>>(&mut rng, "Hpx");
  fixed_depth::<u64, Hpx<u64>>(&mut rng, "Hpx");
  fixed_depth::<u16, Time<u16>>(&mut rng, "Time");
  fixed_depth::<u64, Time<u64>>(&mut rng, "Time");
  fixed_depth::<u32, Frequency<u32>>(&mut rng, "Frequency");
  println!("fixed_depth done");
  range_builder::<u16, Hpx<u16>>(&mut rng, "Hpx");
  range_builder::<u32, Hpx<u32>>(&mut rng, "Hpx");
  range_builder::<u64, Hpx<u64>>(&mut rng, "Hpx");
  range_builder::<u16, Time<u16>>(&mut rng, "Time");
  range_builder::<u32, Time<u32>>(&mut rng, "Time");
  range_builder::<u64, Time<u64>>(&mut rng, "Time");
  range_builder::<u16, Frequency<u16>>(&mut rng, "Frequency");
  range_builder::<u64, Frequency<u64>>(&mut rng, "Frequency");
  println!("range_builder done");
  time_freq::<u16>(&mut rng);
  time_freq::<u32>(&mut rng);
  time_freq::<u64>(&mut rng);
  println!("time_freq done");
  nary::<u64, Hpx<u64>>(&mut rng, "Hpx");
  nary::<u16, Hpx<u16>>(&mut rng, "Hpx");
  nary::<u32, Time<u32>>(&mut rng, "Time");
  let n = unsafe { NFAIL };
  println!("done, {} failures", n);
  if n > 0 { std::process::exit(1) }
}
