//! C12: the FITS RANGE readers do not check MOCORD_S / MOCORD_T / MOCORD_F against the maximum depth
//! of the index type (the NUNIQ reader does): the MOC they return makes the next call panic
//! (debug) or print nonsense (release).
use std::io::{BufReader, Cursor};
use moc::deser::fits::{from_fits_ivoa, MocIdxType, MocQtyType, MocType};
use moc::moc::{HasMaxDepth, RangeMOCIterator};
use moc::qty::{Hpx, MocQty, Time};

fn card(s: String) -> Vec<u8> { let mut v = s.into_bytes(); v.resize(80, b' '); v }
fn block(cards: Vec<String>) -> Vec<u8> {
  let mut v: Vec<u8> = cards.into_iter().flat_map(card).collect();
  v.extend(card("END".into()));
  while v.len() % 2880 != 0 { v.push(b' '); }
  v
}
fn ki(k: &str, v: &str) -> String { format!("{:<8}= {:>20}", k, v) }
fn ks(k: &str, v: &str) -> String { format!("{:<8}= '{}'", k, v) }
fn fits(naxis1: &str, tform: &str, dim: &str, extra: Vec<String>, data: Vec<u8>) -> Vec<u8> {
  let mut f = block(vec![ki("SIMPLE", "T"), ki("BITPIX", "8"), ki("NAXIS", "0"), ki("EXTEND", "T")]);
  let mut c = vec![ks("XTENSION", "BINTABLE"), ki("BITPIX", "8"), ki("NAXIS", "2"), ki("NAXIS1", naxis1), ki("NAXIS2", "2"),
    ki("PCOUNT", "0"), ki("GCOUNT", "1"), ki("TFIELDS", "1"), ks("TFORM1", tform), ks("MOCVERS", "2.0"), ks("MOCDIM", dim), ks("ORDERING", "RANGE")];
  c.extend(extra);
  f.extend(block(c));
  f.extend(data);
  while f.len() % 2880 != 0 { f.push(0); }
  f
}

fn main() {
  std::panic::set_hook(Box::new(|i| eprintln!("  panic: {}", i)));
  let mut nfail = 0;
  // S-MOC, 64 bits, MOCORD_S = 30 (max 29)
  let f = fits("8", "1K", "SPACE", vec![ks("COORDSYS", "C"), ki("MOCORD_S", "30")], [0u64, 4].iter().flat_map(|v| v.to_be_bytes()).collect());
  std::fs::write("/tmp/hunt1/smoc_range_depth30.fits", &f).ok();
  match from_fits_ivoa(BufReader::new(Cursor::new(f))) {
    Ok(MocIdxType::U64(MocQtyType::Hpx(MocType::Ranges(it)))) => {
      let d = it.depth_max();
      if d > Hpx::<u64>::MAX_DEPTH {
        let r = std::panic::catch_unwind(std::panic::AssertUnwindSafe(|| it.into_range_moc().to_ascii()));
        println!("FAIL S-MOC u64 accepted with depth {} > {}; to_ascii() on it: {}", d, Hpx::<u64>::MAX_DEPTH, match r { Ok(s) => format!("{:?}", s), Err(_) => "panic".into() });
        nfail += 1;
      }
    }
    Ok(_) => println!("other"),
    Err(e) => println!("ok error value: {}", e),
  }
  // T-MOC, 16 bits, MOCORD_T = 20 (max 13 on 16 bits)
  let f = fits("2", "1I", "TIME", vec![ks("TIMESYS", "TCB"), ki("MOCORD_T", "20")], [0u16, 4].iter().flat_map(|v| v.to_be_bytes()).collect());
  match from_fits_ivoa(BufReader::new(Cursor::new(f))) {
    Ok(MocIdxType::U16(MocQtyType::Time(MocType::Ranges(it)))) => {
      let d = it.depth_max();
      if d > Time::<u16>::MAX_DEPTH {
        let r = std::panic::catch_unwind(std::panic::AssertUnwindSafe(|| it.into_range_moc().to_ascii()));
        println!("FAIL T-MOC u16 accepted with depth {} > {}; to_ascii() on it: {}", d, Time::<u16>::MAX_DEPTH, match r { Ok(s) => format!("{:?}", s), Err(_) => "panic".into() });
        nfail += 1;
      }
    }
    Ok(_) => println!("other"),
    Err(e) => println!("ok error value: {}", e),
  }
  if nfail > 0 { std::process::exit(1) }
}
