//! C12 mutation fuzzer: every decoder on mutated valid documents; reports panics (grouped by location)
//! and accepted-but-invalid text documents.
use std::collections::BTreeMap;
use std::io::{BufReader, Cursor};
use std::ops::Range;
use std::sync::Mutex;

use moc::deser::ascii::{from_ascii_ivoa, from_ascii_stream, moc2d_from_ascii_ivoa};
use moc::deser::fits::multiordermap::from_fits_multiordermap;
use moc::deser::fits::skymap::from_fits_skymap;
use moc::deser::fits::{from_fits_ivoa, MocIdxType, MocQtyType, MocType, STMocType};
use moc::deser::json::{cellmoc2d_from_json_aladin, from_json_aladin};
use moc::idx::Idx;
use moc::moc::range::RangeMOC;
use moc::moc::{CellMOCIntoIterator, CellMOCIterator, CellOrCellRangeMOCIntoIterator, CellOrCellRangeMOCIterator, RangeMOCIterator, RangeMOCIntoIterator};
use moc::moc2d::{RangeMOC2IntoIterator, CellMOC2IntoIterator, CellOrCellRangeMOC2IntoIterator, RangeMOC2Iterator, CellMOC2Iterator, CellOrCellRangeMOC2Iterator};
use moc::qty::{Frequency, Hpx, MocQty, Time};

struct Rng(u64);
impl Rng {
  fn next(&mut self) -> u64 { self.0 ^= self.0 << 13; self.0 ^= self.0 >> 7; self.0 ^= self.0 << 17; self.0 }
  fn below(&mut self, n: u64) -> u64 { if n == 0 { 0 } else { self.next() % n } }
}

static PANICS: Mutex<BTreeMap<String, (usize, String)>> = Mutex::new(BTreeMap::new());
static LAST_LOC: Mutex<String> = Mutex::new(String::new());
static INVALID: Mutex<Vec<String>> = Mutex::new(Vec::new());

fn guarded<F: FnOnce()>(what: &str, input_desc: &str, f: F) {
  let r = std::panic::catch_unwind(std::panic::AssertUnwindSafe(f));
  if r.is_err() {
    let loc = LAST_LOC.lock().unwrap().clone();
    let mut p = PANICS.lock().unwrap();
    let e = p.entry(format!("{} @ {}", what, loc)).or_insert((0, input_desc.to_string()));
    e.0 += 1;
    if input_desc.len() < e.1.len() { e.1 = input_desc.to_string(); }
  }
}

fn check_canonical<T: Idx, Q: MocQty<T>>(what: &str, doc: &str, m: &RangeMOC<T, Q>) {
  let v: Vec<Range<T>> = m.into_range_moc_iter().collect();
  let mut bad = m.depth_max() > Q::MAX_DEPTH;
  let mut prev_end: Option<T> = None;
  for r in &v {
    if r.start >= r.end || r.end > Q::n_cells_max() { bad = true; }
    if let Some(pe) = prev_end { if r.start <= pe { bad = true; } }
    prev_end = Some(r.end);
  }
  if bad {
    let mut i = INVALID.lock().unwrap();
    if i.len() < 30 { i.push(format!("{} accepted {:?} -> depth {} {:?}", what, doc, m.depth_max(), v)); }
  }
}

fn text_decoders(doc: &str) {
  macro_rules! one {
    ($t:ty, $q:ident) => {{
      guarded(concat!("ascii ", stringify!($q), "<", stringify!($t), ">"), doc, || {
        if let Ok(m) = from_ascii_ivoa::<$t, $q<$t>>(doc) {
          let m = m.into_cellcellrange_moc_iter().ranges().into_range_moc();
          check_canonical("ascii", doc, &m);
          let _ = m.to_ascii();
        }
      });
      guarded(concat!("json ", stringify!($q), "<", stringify!($t), ">"), doc, || {
        if let Ok(m) = from_json_aladin::<$t, $q<$t>>(doc) {
          let m = m.into_cell_moc_iter().ranges().into_range_moc();
          check_canonical("json", doc, &m);
          let _ = m.to_ascii();
        }
      });
      guarded(concat!("stream ", stringify!($q), "<", stringify!($t), ">"), doc, || {
        if let Ok(it) = from_ascii_stream::<$t, $q<$t>, _>(Cursor::new(doc.as_bytes())) {
          let _n = it.count();
        }
      });
    }};
  }
  one!(u16, Hpx); one!(u32, Hpx); one!(u64, Hpx);
  one!(u16, Time); one!(u64, Time); one!(u32, Frequency); one!(u64, Frequency);
  guarded("ascii2d", doc, || {
    if let Ok(m) = moc2d_from_ascii_ivoa::<u64, Time<u64>, u64, Hpx<u64>>(doc) {
      let m2 = m.into_cellcellrange_moc2_iter().into_range_moc2_iter().into_range_moc2();
      let _ = m2.compute_n_ranges();
    }
  });
  guarded("json2d", doc, || {
    if let Ok(m) = cellmoc2d_from_json_aladin::<u64, Time<u64>, u64, Hpx<u64>>(doc) {
      let m2 = m.into_cell_moc2_iter().into_range_moc2_iter().into_range_moc2();
      let _ = m2.compute_n_ranges();
    }
  });
}

fn fits_decoders(bytes: &[u8], desc: &str) {
  if std::env::var("TRACE").is_ok() { eprintln!("TRACE {}", desc); std::fs::write("/tmp/hunt1/last_fits_input.bin", bytes).unwrap(); }
  guarded("fits_ivoa", desc, || {
    macro_rules! qt {
      ($m:expr) => {
        match $m {
          MocQtyType::Hpx(MocType::Ranges(it)) => { let _ = it.count(); }
          MocQtyType::Hpx(MocType::Cells(c)) => { let _ = c.into_cell_moc_iter().ranges().count(); }
          MocQtyType::Time(MocType::Ranges(it)) => { let _ = it.count(); }
          MocQtyType::Time(MocType::Cells(c)) => { let _ = c.into_cell_moc_iter().ranges().count(); }
          MocQtyType::Freq(MocType::Ranges(it)) => { let _ = it.count(); }
          MocQtyType::Freq(MocType::Cells(c)) => { let _ = c.into_cell_moc_iter().ranges().count(); }
          MocQtyType::TimeHpx(STMocType::V2(it)) => { let _ = it.count(); }
          MocQtyType::TimeHpx(STMocType::PreV2(it)) => { let _ = it.count(); }
        }
      };
    }
    match from_fits_ivoa(BufReader::new(Cursor::new(bytes))) {
      Ok(MocIdxType::U16(m)) => qt!(m),
      Ok(MocIdxType::U32(m)) => qt!(m),
      Ok(MocIdxType::U64(m)) => qt!(m),
      Err(_) => {}
    }
  });
  guarded("multiordermap", desc, || {
    let _ = from_fits_multiordermap(BufReader::new(Cursor::new(bytes)), 0.0, 0.9, false, true, true, false);
    let _ = from_fits_multiordermap(BufReader::new(Cursor::new(bytes)), 0.1, 0.7, true, false, false, true);
  });
  // known: non-ASCII bytes in the TTYPE1 / TFORM1 cards => undefined behaviour (segfault), skip them here
  let non_ascii = bytes.len() >= 2880 + 800 && bytes[2880 + 640..2880 + 800].iter().any(|b| *b >= 0x80);
  if non_ascii { let mut p = PANICS.lock().unwrap(); p.entry("skymap non-ASCII TTYPE1/TFORM1 (skipped: UB)".into()).or_insert((0, desc.to_string())).0 += 1; return; }
  guarded("skymap", desc, || {
    let _ = from_fits_skymap(BufReader::new(Cursor::new(bytes)), 0.0, 0.0, 0.9, false, true, true, false);
    let _ = from_fits_skymap(BufReader::new(Cursor::new(bytes)), 0.0, 0.1, 0.7, true, false, false, true);
  });
}

fn card(s: &str) -> Vec<u8> { let mut v = s.as_bytes().to_vec(); v.truncate(80); v.resize(80, b' '); v }
fn block(cards: &[String]) -> Vec<u8> {
  let mut v = Vec::new();
  for c in cards { v.extend(card(c)); }
  v.extend(card("END"));
  while v.len() % 2880 != 0 { v.push(b' '); }
  v
}
fn build(cards: &[String], data: &[u8]) -> Vec<u8> {
  let mut v = block(&["SIMPLE  =                    T".into(), "BITPIX  =                    8".into(), "NAXIS   =                    0".into(), "EXTEND  =                    T".into()]);
  v.extend(block(cards));
  v.extend_from_slice(data);
  while v.len() % 2880 != 0 { v.push(0); }
  v
}
fn ki(k: &str, v: &str) -> String { format!("{:<8}= {:>20}", k, v) }
fn ks(k: &str, v: &str) -> String { format!("{:<8}= '{}'", k, v) }

fn main() {
  std::panic::set_hook(Box::new(|info| {
    let loc = info.location().map(|l| format!("{}:{}", l.file(), l.line())).unwrap_or_default();
    let msg = info.payload().downcast_ref::<&str>().map(|s| s.to_string()).or_else(|| info.payload().downcast_ref::<String>().cloned()).unwrap_or_default();
    *LAST_LOC.lock().unwrap() = format!("{} ({})", loc, msg.chars().take(60).collect::<String>());
  }));
  let mut rng = Rng(0xA5A5_5A5A_1234_4321);
  // ---- text documents
  let seeds = [
    "3/3 10 4/16-18 22 5/19-20 17/222 28/123456789 29/",
    "0/0-11",
    "1/0 2 3+2 5/",
    "31/1 32/4 35/",
    "{\"0\":[1,2], \"3\":[64, 65, 100], \"5\":[]}",
    "{\"29\":[3458764513820540927]}",
    "qty=HPX\ndepth=3\n1/0\n2/4-6\n3/100+3\n",
    "qty=TIME\ndepth=61\n61/1-3\n",
    "t61/1 3 5 s3/1-3 t61/50 52 s4/25",
    "t12/ s8/",
    "[{\"t\":{\"61\":[1,3]},\"s\":{\"3\":[1,2]}},{ \"t\": { \"61\": [] }, \"s\": { \"4\": [] } }]",
    "",
  ];
  let tokens = ["0", "1", "11", "12", "255", "256", "65535", "65536", "4294967295", "4294967296", "18446744073709551615", "18446744073709551616", "-1", "1.5", "1e30", "/", "-", "+", " ", "\n", "s", "t", "f", "{", "}", "[", "]", ":", ",", "\"", "29", "30", "61", "62", "200", "null", "depth=", "qty=", "=", "3458764513820540928", "49152", "49151", "9223372036854775808"];
  let mut n_text = 0;
  for s in seeds.iter() {
    text_decoders(s);
    for _ in 0..1500 {
      let mut d: Vec<u8> = s.as_bytes().to_vec();
      for _ in 0..1 + rng.below(2) {
        match rng.below(5) {
          0 if !d.is_empty() => { let i = rng.below(d.len() as u64) as usize; d.truncate(i); }
          1 if !d.is_empty() => { let i = rng.below(d.len() as u64) as usize; d.remove(i); }
          2 => { // replace a number by a token
            let txt = String::from_utf8_lossy(&d).to_string();
            let nums: Vec<(usize, usize)> = { let b = txt.as_bytes(); let mut v = vec![]; let mut i = 0; while i < b.len() { if b[i].is_ascii_digit() { let st = i; while i < b.len() && b[i].is_ascii_digit() { i += 1; } v.push((st, i)); } else { i += 1; } } v };
            if !nums.is_empty() { let (a, b) = nums[rng.below(nums.len() as u64) as usize]; let t = tokens[rng.below(tokens.len() as u64) as usize]; d = format!("{}{}{}", &txt[..a], t, &txt[b..]).into_bytes(); }
          }
          3 => { let i = rng.below(d.len() as u64 + 1) as usize; let t = tokens[rng.below(tokens.len() as u64) as usize]; let mut nd = d[..i].to_vec(); nd.extend_from_slice(t.as_bytes()); nd.extend_from_slice(&d[i..]); d = nd; }
          _ if !d.is_empty() => { let i = rng.below(d.len() as u64) as usize; d[i] = (rng.below(96) + 32) as u8; }
          _ => {}
        }
      }
      if let Ok(txt) = String::from_utf8(d) { text_decoders(&txt); n_text += 1; }
    }
  }
  println!("{} text mutants", n_text);
  // ---- FITS documents
  let be64 = |v: &[u64]| -> Vec<u8> { v.iter().flat_map(|x| x.to_be_bytes()).collect() };
  let be16 = |v: &[u16]| -> Vec<u8> { v.iter().flat_map(|x| x.to_be_bytes()).collect() };
  let std8 = |n1: &str, n2: &str| vec![ks("XTENSION", "BINTABLE"), ki("BITPIX", "8"), ki("NAXIS", "2"), ki("NAXIS1", n1), ki("NAXIS2", n2), ki("PCOUNT", "0"), ki("GCOUNT", "1"), ki("TFIELDS", "1")];
  let mut fits_seeds: Vec<(String, Vec<String>, Vec<u8>)> = Vec::new();
  { let mut c = std8("8", "4"); c.extend([ks("TFORM1", "1K"), ks("MOCVERS", "2.0"), ks("MOCDIM", "SPACE"), ks("ORDERING", "RANGE"), ks("COORDSYS", "C"), ki("MOCORD_S", "29")]); fits_seeds.push(("srange64".into(), c, be64(&[0, 4, 100, 200]))); }
  { let mut c = std8("2", "4"); c.extend([ks("TFORM1", "1I"), ks("MOCVERS", "2.0"), ks("MOCDIM", "TIME"), ks("ORDERING", "RANGE"), ks("TIMESYS", "TCB"), ki("MOCORD_T", "13")]); fits_seeds.push(("trange16".into(), c, be16(&[0, 4, 100, 200]))); }
  { let mut c = std8("8", "2"); c.extend([ks("TFORM1", "1K"), ks("MOCVERS", "2.0"), ks("MOCDIM", "FREQUENCY"), ks("ORDERING", "RANGE"), ki("MOCORD_F", "59")]); fits_seeds.push(("frange64".into(), c, be64(&[16, 32]))); }
  { let mut c = std8("8", "3"); c.extend([ks("TFORM1", "1K"), ks("MOCVERS", "2.0"), ks("MOCDIM", "SPACE"), ks("ORDERING", "NUNIQ"), ks("COORDSYS", "C"), ki("MOCORD_S", "5"), ks("TTYPE1", "UNIQ")]); fits_seeds.push(("nuniq64".into(), c, be64(&[4, 17, 4096 + 77]))); }
  { let mut c = std8("8", "3"); c.extend([ks("TFORM1", "1K"), ks("ORDERING", "NUNIQ"), ks("COORDSYS", "C"), ki("MOCORDER", "5"), ks("TTYPE1", "UNIQ")]); fits_seeds.push(("nuniq64v1".into(), c, be64(&[4, 17, 4096 + 77]))); }
  { let m = 1u64 << 63; let mut c = std8("8", "8"); c.extend([ks("TFORM1", "1K"), ks("MOCVERS", "2.0"), ks("MOCDIM", "TIME.SPACE"), ks("ORDERING", "RANGE"), ks("COORDSYS", "C"), ks("TIMESYS", "TCB"), ki("MOCORD_S", "29"), ki("MOCORD_T", "61")]); fits_seeds.push(("strange".into(), c, be64(&[m | 1, m | 5, 0, 4, m | 10, m | 20, 8, 16]))); }
  { let mut c = std8("8", "8"); c.extend([ks("TFORM1", "1K"), ks("ORDERING", "RANGE29"), ki("MOCORDER", "5"), ki("TORDER", "5")]); fits_seeds.push(("st29".into(), c, be64(&[(-8i64) as u64, (-16i64) as u64, 0, 4, (-32i64) as u64, (-64i64) as u64, 8, 16]))); }
  { let mut c = vec![ks("XTENSION", "BINTABLE"), ki("BITPIX", "8"), ki("NAXIS", "2"), ki("NAXIS1", "16"), ki("NAXIS2", "3"), ki("PCOUNT", "0"), ki("GCOUNT", "1"), ki("TFIELDS", "2"), ks("TTYPE1", "UNIQ    "), ks("TFORM1", "K       "), ks("TTYPE2", "PROBDENSITY"), ks("TFORM2", "D       "), ks("PIXTYPE", "HEALPIX"), ks("ORDERING", "NUNIQ"), ks("COORDSYS", "C"), ki("MOCORDER", "3")];
    c.push("COMMENT x".into());
    let mut data = Vec::new(); for (u, d) in [(4u64, 0.5f64), (17, 0.3), (70, 0.2)] { data.extend(u.to_be_bytes()); data.extend(d.to_be_bytes()); }
    fits_seeds.push(("mom".into(), c, data)); }
  { let c = vec![ks("XTENSION", "BINTABLE"), ki("BITPIX", "8"), ki("NAXIS", "2"), ki("NAXIS1", "8"), ki("NAXIS2", "12"), ki("PCOUNT", "0"), ki("GCOUNT", "1"), ki("TFIELDS", "1"), ks("TTYPE1", "PROB"), ks("TFORM1", "D"), ks("PIXTYPE", "HEALPIX"), ks("ORDERING", "NESTED"), ks("COORDSYS", "C"), ki("MOCORDER", "0"), ks("INDXSCHM", "IMPLICIT")];
    let data: Vec<u8> = (0..12).flat_map(|i| ((i as f64 + 1.0) / 78.0).to_be_bytes()).collect();
    fits_seeds.push(("skymap".into(), c, data)); }
  let nums = ["0", "1", "2", "3", "4", "7", "8", "15", "16", "17", "29", "30", "61", "62", "200", "255", "256", "65536", "4294967296", "1000000000", "18446744073709551615", "99999999999999999999", "-1", ""];
  let data_vals: [u64; 12] = [0, 1, 3, 4, u64::MAX, 1 << 63, (1 << 63) - 1, 1 << 62, 3 << 60, (3 << 60) + 1, 0x7FF8000000000000, 0xFFF0000000000000];
  let mut n_fits = 0;
  for (name, cards, data) in &fits_seeds {
    let valid = build(cards, data);
    fits_decoders(&valid, &format!("{} valid", name));
    // every numeric card x every numeric value
    for (i, c) in cards.iter().enumerate() {
      let key = c[..8].trim().to_string();
      for n in nums.iter() {
        let mut cs = cards.clone(); cs[i] = ki(&key, n);
        fits_decoders(&build(&cs, data), &format!("{} {}={}", name, key, n)); n_fits += 1;
      }
      for s in ["", "X", "1K", "1I", "1J", "1B", "2K", "RANGE", "NUNIQ", "RANGE29", "NESTED", "RING", "SPACE", "TIME", "TIME.SPACE", "FREQUENCY", "2.0", "1.1", "D", "E", "1024E", "IMPLICIT", "EXPLICIT"] {
        let mut cs = cards.clone(); cs[i] = ks(&key, s);
        fits_decoders(&build(&cs, data), &format!("{} {}='{}'", name, key, s)); n_fits += 1;
      }
      let mut cs = cards.clone(); cs.remove(i);
      fits_decoders(&build(&cs, data), &format!("{} without {}", name, key)); n_fits += 1;
      let mut cs = cards.clone(); cs[i] = format!("{:<8}=", key);
      fits_decoders(&build(&cs, data), &format!("{} {} blank", name, key)); n_fits += 1;
    }
    // data words
    let w = 8;
    for off in (0..data.len()).step_by(w) {
      for v in data_vals.iter() {
        let mut d = data.clone(); let b = v.to_be_bytes(); let l = w.min(d.len() - off); d[off..off + l].copy_from_slice(&b[..l]);
        fits_decoders(&build(cards, &d), &format!("{} data[{}]={:#x}", name, off, v)); n_fits += 1;
      }
    }
    // truncations
    for cut in (0..valid.len()).step_by(97).chain([2879, 2880, 2881, 5759, 5760, 5761, 5768]) {
      if cut <= valid.len() { fits_decoders(&valid[..cut], &format!("{} truncated at {}", name, cut)); n_fits += 1; }
    }
    // random byte flips
    for _ in 0..400 {
      let mut v = valid.clone();
      for _ in 0..1 + rng.below(3) { let i = rng.below(v.len().min(5760 + data.len()) as u64) as usize; v[i] = rng.below(256) as u8; }
      fits_decoders(&v, &format!("{} random flips", name)); n_fits += 1;
    }
  }
  println!("{} FITS mutants", n_fits);
  for _ in 0..300 { let n = rng.below(9000) as usize; let v: Vec<u8> = (0..n).map(|_| rng.below(256) as u8).collect(); fits_decoders(&v, "random bytes"); if let Ok(s) = String::from_utf8(v) { text_decoders(&s); } }
  let p = PANICS.lock().unwrap();
  for (k, (n, ex)) in p.iter() { println!("FAIL panic x{} {} ; e.g. input: {:?}", n, k, ex); }
  let inv = INVALID.lock().unwrap();
  for i in inv.iter() { println!("FAIL invalid {}", i); }
  println!("done: {} panic sites, {} invalid accepted", p.len(), inv.len());
}
