//! C07: the FITS writers panic when the MOC identifier does not fit in one header card.
use moc::deser::fits::{from_fits_ivoa, ranges_to_fits_ivoa};
use moc::moc::range::RangeMOC;
use moc::moc::RangeMOCIntoIterator;
use moc::qty::Hpx;
use std::io::{BufReader, Cursor};

fn main() {
  std::panic::set_hook(Box::new(|i| eprintln!("  panic: {}", i)));
  let moc = RangeMOC::<u64, Hpx<u64>>::from_cells(3, vec![(3u8, 1u64), (2, 7)].into_iter(), None);
  let mut nfail = 0;
  for len in [10usize, 68, 69, 100] {
    let id = "x".repeat(len);
    let mut buf = Vec::new();
    let r = std::panic::catch_unwind(std::panic::AssertUnwindSafe(|| ranges_to_fits_ivoa((&moc).into_range_moc_iter(), Some(id), None, &mut buf)));
    match r {
      Ok(Ok(())) => { let back = from_fits_ivoa(BufReader::new(Cursor::new(&buf))).is_ok(); println!("ok   moc_id of {} chars: {} bytes written, readable: {}", len, buf.len(), back) }
      Ok(Err(e)) => println!("ok   moc_id of {} chars: error value {}", len, e),
      Err(_) => { println!("FAIL moc_id of {} chars: ranges_to_fits_ivoa panicked ({} bytes already written)", len, buf.len()); nfail += 1 }
    }
  }
  if nfail > 0 { std::process::exit(1) }
}
