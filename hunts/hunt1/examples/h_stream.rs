//! C12: streaming ASCII decoder (`from_ascii_stream`) on malformed documents.
use std::io::Cursor;
use std::panic::{catch_unwind, AssertUnwindSafe};

use moc::deser::ascii::from_ascii_stream;
use moc::moc::{CellMOCIterator, CellOrCellRangeMOCIterator, HasMaxDepth, RangeMOCIterator};
use moc::qty::{Hpx, MocQty};

fn run(doc: &str) -> bool {
  let r = catch_unwind(AssertUnwindSafe(|| {
    match from_ascii_stream::<u64, Hpx<u64>, _>(Cursor::new(doc.as_bytes())) {
      Err(e) => format!("error value: {}", e),
      Ok(it) => {
        let depth = it.depth_max();
        // what `moc convert -f stream ... ascii` does with the decoded stream
        let mut out = Vec::new();
        it.ranges().cells().cellranges().to_ascii_ivoa(None, false, &mut out).unwrap();
        format!("MOC depth={} ascii={:?}", depth, String::from_utf8_lossy(&out))
      }
    }
  }));
  match r {
    Ok(s) => { println!("ok   {:?} => {}", doc, s); true }
    Err(_) => { println!("FAIL {:?} => panic", doc); false }
  }
}

fn main() {
  std::panic::set_hook(Box::new(|i| eprintln!("  panic: {}", i)));
  let mut ok = true;
  ok &= run("qty=HPX\ndepth=3\n3/5\n2/4+2\n");                       // valid
  ok &= run("qty=HPX\ndepth=0\n0/18446744073709551615+1\n");          // start + len overflows
  ok &= run("qty=HPX\ndepth=200\n");                                  // depth > 29 in the header
  ok &= run("qty=HPX\ndepth=3\n200/1\n");                             // depth > 29 in a cell
  ok &= run("qty=HPX\ndepth=3\n5/1\n");                               // cell deeper than the declared depth
  // accepted although out of the domain / unsorted / overlapping (no panic, wrong MOC):
  let doc = "qty=HPX\ndepth=3\n3/5\n3/2\n2/0\n0/77\n";
  let it = from_ascii_stream::<u64, Hpx<u64>, _>(Cursor::new(doc.as_bytes())).unwrap();
  let ranges: Vec<_> = it.ranges().collect();
  let n = Hpx::<u64>::n_cells_max();
  if ranges.iter().any(|r| r.end > n) || ranges.windows(2).any(|w| w[1].start <= w[0].end) {
    println!("FAIL {:?} accepted, ranges = {:?} (domain upper bound {})", doc, ranges, n);
    ok = false;
  }
  if !ok { std::process::exit(1) }
}
