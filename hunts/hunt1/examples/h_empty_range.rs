//! C06: an empty range pushed in the range builder is kept as a zero-length range (when aligned on the
//! builder depth) or becomes a whole cell (when it is not): the MOC is not the union of the pushed elements.
use moc::moc::range::RangeMOC;
use moc::moc::RangeMOCIntoIterator;
use moc::qty::{Hpx, Time};

fn main() {
  let mut nfail = 0;
  let e = RangeMOC::<u64, Time<u64>>::new_empty(61);
  let m = RangeMOC::<u64, Time<u64>>::from_microsec_ranges_since_jd0(61, vec![8..8].into_iter(), None);
  if m != e {
    println!("FAIL T-MOC depth 61 from [8..8): len={} is_empty={} ranges={:?} (expected the empty MOC)", m.len(), m.is_empty(), (&m).into_range_moc_iter().collect::<Vec<_>>());
    nfail += 1;
  }
  let e = RangeMOC::<u64, Time<u64>>::new_empty(59);
  let m = RangeMOC::<u64, Time<u64>>::from_microsec_ranges_since_jd0(59, vec![5..5].into_iter(), None);
  if m != e {
    println!("FAIL T-MOC depth 59 from [5..5): ranges={:?} (expected the empty MOC)", (&m).into_range_moc_iter().collect::<Vec<_>>());
    nfail += 1;
  }
  let expected = RangeMOC::<u64, Hpx<u64>>::from_maxdepth_ranges(29, vec![100..104].into_iter(), None);
  for cap in [None, Some(1)] {
    let m = RangeMOC::<u64, Hpx<u64>>::from_maxdepth_ranges(29, vec![16..16, 100..104].into_iter(), cap);
    if m != expected {
      println!("FAIL S-MOC depth 29 from [16..16), [100..104) (buffer {:?}): ranges={:?} expected {:?}", cap, (&m).into_range_moc_iter().collect::<Vec<_>>(), (&expected).into_range_moc_iter().collect::<Vec<_>>());
      nfail += 1;
    }
  }
  if nfail > 0 { std::process::exit(1) }
}
