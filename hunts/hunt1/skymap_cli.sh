#!/bin/bash
# Finding 1 through the command line tool (release build, i.e. what users run).
# usage: ./skymap_cli.sh [path of the moc binary]   (default /tmp/wt_hunt1/target/release/moc,
#        to be built with: cd /tmp/wt_hunt1 && cargo build --offline --release -p moc-cli)
# The FITS files skymap_<case>.fits of this directory are the ones written by
# `cargo run --example h_skymap <case>`.
MOC=${1:-/tmp/wt_hunt1/target/release/moc}
cd "$(dirname "$0")" || exit 2
status=0
for c in valid ttype1_non_ascii naxis1_small naxis1_zero naxis1_huge mocorder_30 mocorder_200; do
  out=$( (RUST_BACKTRACE=0 timeout 60 "$MOC" from vcells -t 0.9 skymap skymap_$c.fits ascii; echo "rc=$?") 2>&1 | tr '\n' ' ' | cut -c1-260)
  if [[ "$out" =~ rc=(0|1)[[:space:]]*$ ]]; then echo "ok   $c: $out"; else echo "FAIL $c (rc 134 = abort, 139 = segmentation fault): $out"; status=1; fi
done
exit $status
