//! C13 demo: an ST-MOC exported to FITS and re-imported is not `eq` to the original (and its ASCII
//! export differs), because each (T-MOC, S-MOC) element carries hidden depths of its own that are derived from
//! the deepest cell when loading ASCII/JSON but set to the global depths when loading FITS.
//! Run: cargo run --offline --features storage --example hunt3_stmoc_reimport
use moc::storage::u64idx::U64MocStore;

fn main() {
  let s = U64MocStore::get_global_store();
  let mut fail = false;
  // the example of the MOC 2.0 standard
  for src in ["t61/1 3 5 s3/1-3 t61/50 52 s4/25", "t5/1 s5/2 t10/ s7/", "t61/1 s29/1"] {
    let i = s.load_stmoc_from_ascii(src).unwrap();
    let fits = s.to_fits_buff(i, None).unwrap();
    let j = s.load_from_fits_buff(&fits).unwrap();
    let (ai, aj) = (s.to_ascii_str(i, None).unwrap(), s.to_ascii_str(j, None).unwrap());
    let eq = s.eq(i, j).unwrap();
    println!("original   : {:?}  depths {:?}", ai.trim(), s.get_stmoc_depths(i).unwrap());
    println!("re-imported: {:?}  depths {:?}  eq = {}", aj.trim(), s.get_stmoc_depths(j).unwrap(), eq);
    // and the re-imported one is a fixed point: exporting it again gives something eq to it
    let k = s.load_from_fits_buff(&s.to_fits_buff(j, None).unwrap()).unwrap();
    println!("             second round trip eq = {}", s.eq(j, k).unwrap());
    if !eq || ai != aj {
      println!("FAIL: FITS export + re-import of {:?} is not equal to the original", src);
      fail = true;
    }
  }
  std::process::exit(if fail { 1 } else { 0 });
}
