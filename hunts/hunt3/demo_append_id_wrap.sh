#!/bin/bash
# C14 demo: `mocset append` does not validate the identifier (only `make` calls check_id):
# an id >= 2^48 is compared unmasked with the stored ids, then silently truncated to 48 bits when stored.
# usage: demo_append_id_wrap.sh [bindir]
BIN=${1:-/tmp/wt_hunt3/target/debug}; M=$BIN/moc; S=$BIN/mocset
W=$(mktemp -d /tmp/hunt3_idwrap_XXXX); cd $W
echo '5/1-3 7' > a.txt; $M convert -t smoc a.txt fits a.fits
echo '13/100-101' > b.txt; $M convert -t smoc b.txt fits b.fits
echo '1 a.fits' | $S make set.bin
before=$(md5sum < set.bin)
# 281474976710657 = 2^48 + 1 : not a legal identifier (max 2^48 - 1, see `mocset append --help`)
$S append set.bin 281474976710657 b.fits; rc=$?
echo "append rc=$rc"
$S list set.bin
after=$(md5sum < set.bin)
fail=0
if [ $rc -eq 0 ] || [ "$before" != "$after" ]; then
  echo "FAIL: append of an out-of-range identifier was accepted and modified the file"; fail=1
fi
n=$($S list set.bin | grep -c '^1,valid')
if [ "$n" -gt 1 ]; then echo "FAIL: identifier 1 is now listed $n times as valid"; fail=1; fi
echo "extract 1 -> $($S extract set.bin 1 ascii)   (the MOC appended as '2^48+1' is unreachable)"
$S chgstatus set.bin removed 1
echo "after 'chgstatus removed 1':"; $S list set.bin
if $S list set.bin | grep -q '^1,valid'; then echo "FAIL: identifier 1 is still valid after having been removed"; fail=1; fi
# release builds (no overflow checks): i64::MIN becomes 'deprecated 0'; dev builds panic (before taking the lock)
$S append set.bin -9223372036854775808 b.fits 2>&1 | head -3
$S list set.bin | tail -2
exit $fail
