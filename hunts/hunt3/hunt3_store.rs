//! Probes of the MOC store (C13). Run: cargo run --offline --features storage --example hunt3_store
use std::panic::{catch_unwind, AssertUnwindSafe};

use moc::storage::u64idx::U64MocStore;

fn probe<R: std::fmt::Debug>(name: &str, f: impl FnOnce() -> R) -> Option<R> {
  match catch_unwind(AssertUnwindSafe(f)) {
    Ok(r) => {
      println!("{:<60} -> {:?}", name, r);
      Some(r)
    }
    Err(_) => {
      println!("{:<60} -> PANIC", name);
      None
    }
  }
}

fn main() {
  let s = U64MocStore::get_global_store();
  let which = std::env::args().nth(1).unwrap_or_else(|| "all".into());

  if which == "all" || which == "drop" {
    println!("== drop_<kind> on an index of another kind");
    let t = s.from_microsec_ranges_since_jd0(10, vec![1000..2000].into_iter()).unwrap();
    probe("get_tmoc_depth(t) before", || s.get_tmoc_depth(t));
    let r = probe("drop_smoc(t)  [t is a T-MOC]", || s.drop_smoc(t).map(|o| o.is_some()));
    let after = probe("get_tmoc_depth(t) after the failed drop_smoc", || s.get_tmoc_depth(t));
    if matches!(r, Some(Err(_))) && matches!(after, Some(Err(_))) {
      println!("FAIL: drop_smoc returned an error AND removed the T-MOC");
    }
    // with a copy: the error call consumes one reference
    let t = s.from_microsec_ranges_since_jd0(10, vec![1000..2000].into_iter()).unwrap();
    s.copy(t).unwrap();
    probe("drop_smoc(t) #1 (2 refs)", || s.drop_smoc(t).map(|o| o.is_some()));
    probe("drop_smoc(t) #2", || s.drop_smoc(t).map(|o| o.is_some()));
    probe("get_tmoc_depth(t)", || s.get_tmoc_depth(t));
  }

  if which == "all" || which == "depth" {
    println!("== depths out of range");
    let e = probe("new_empty_smoc(200)", || s.new_empty_smoc(200)).unwrap().unwrap();
    probe("not(e)", || s.not(e));
    probe("to_ascii_str(e)", || s.to_ascii_str(e, None));
    probe("to_fits_buff(e)", || s.to_fits_buff(e, None).map(|b| b.len()));
    probe("degrade(e, 3)", || s.degrade(e, 3));
    let a = s.load_smoc_from_ascii("3/1-5 7/").unwrap();
    probe("degrade(a, 40)", || s.degrade(a, 40).and_then(|i| s.to_ascii_str(i, None)));
    probe("degrade(a, 7) (same)", || s.degrade(a, 7).and_then(|i| s.to_ascii_str(i, None)));
    probe("degrade(a, 9) (deeper)", || s.degrade(a, 9).and_then(|i| s.to_ascii_str(i, None)));
    probe("flatten_to_depth(a, 40)", || s.flatten_to_depth(a, 40).map(|v| v.len()));
    probe("from_hpx_cells(30,..)", || s.from_hpx_cells(30, vec![(3u8, 1u64)].into_iter(), None));
    probe("from_hpx_cells(3, cell at depth 5)", || {
      s.from_hpx_cells(3, vec![(5u8, 17u64)].into_iter(), None).and_then(|i| s.to_ascii_str(i, None))
    });
    probe("from_hpx_cells(3, cell idx out of range)", || {
      s.from_hpx_cells(3, vec![(3u8, 768u64)].into_iter(), None).and_then(|i| s.to_ascii_str(i, None))
    });
    probe("from_valued_cells(depth 40)", || {
      s.from_valued_cells(40, false, 0.0, 1.0, false, false, false, false, vec![(4u64, 1.0)].into_iter())
    });
    probe("new_empty_tmoc(62)", || s.new_empty_tmoc(62).and_then(|i| s.not(i)).and_then(|i| s.to_ascii_str(i, None)));
    probe("to_png(a, 0)", || s.to_png(a, 0).map(|b| b.len()));
    probe("to_png(a, 40000)", || s.to_png(a, 40000).map(|b| b.len()));
  }

  if which == "all" || which == "opn" {
    println!("== n-ary ops");
    let a = s.load_smoc_from_ascii("3/1-5 7/").unwrap();
    let b = s.load_smoc_from_ascii("4/10-30 5/").unwrap();
    let t = s.from_microsec_ranges_since_jd0(10, vec![1000..2000].into_iter()).unwrap();
    probe("multi_union([])", || s.multi_union(&[]));
    probe("multi_union([a])", || s.multi_union(&[a]).and_then(|i| s.to_ascii_str(i, None)));
    probe("multi_intersection([a])", || s.multi_intersection(&[a]).and_then(|i| s.to_ascii_str(i, None)));
    probe("multi_symmetric_difference([a])", || s.multi_symmetric_difference(&[a]).and_then(|i| s.to_ascii_str(i, None)));
    probe("multi_union([a,a])", || s.multi_union(&[a, a]).and_then(|i| s.to_ascii_str(i, None)));
    probe("multi_xor([a,a])", || s.multi_symmetric_difference(&[a, a]).and_then(|i| s.to_ascii_str(i, None)));
    probe("multi_xor([a,a,a])", || s.multi_symmetric_difference(&[a, a, a]).and_then(|i| s.to_ascii_str(i, None)));
    probe("multi_union([a,b])", || s.multi_union(&[a, b]).and_then(|i| s.to_ascii_str(i, None)));
    probe("or(a,b)", || s.or(a, b).and_then(|i| s.to_ascii_str(i, None)));
    probe("multi_intersection([a,b])", || s.multi_intersection(&[a, b]).and_then(|i| s.to_ascii_str(i, None)));
    probe("and(a,b)", || s.and(a, b).and_then(|i| s.to_ascii_str(i, None)));
    probe("multi_xor([a,b])", || s.multi_symmetric_difference(&[a, b]).and_then(|i| s.to_ascii_str(i, None)));
    probe("xor(a,b)", || s.xor(a, b).and_then(|i| s.to_ascii_str(i, None)));
    probe("multi_union([a,t])", || s.multi_union(&[a, t]));
    probe("multi_union([a, 99999])", || s.multi_union(&[a, 99999]));
    probe("and(a,t)", || s.and(a, t));
    probe("time_fold(a, t)", || s.time_fold(a, t));
  }

  if which == "all" || which == "st" {
    println!("== ST-MOC queries");
    // Elem A: t in [1000,2000) u [5000,6000) at P; Elem B: t in [3000,4000) at Q
    let (plon, plat) = (10.0_f64, 45.0_f64);
    let (qlon, qlat) = (200.0_f64, -30.0_f64);
    let st = s
      .create_from_time_ranges_positions(
        vec![1000, 5000, 3000],
        vec![2000, 6000, 4000],
        61,
        vec![plon.to_radians(), plon.to_radians(), qlon.to_radians()],
        vec![plat.to_radians(), plat.to_radians(), qlat.to_radians()],
        8,
      )
      .unwrap();
    probe("st ascii", || s.to_ascii_str(st, None));
    probe("filter_timepos deg: (1500,P) (5500,P) (3500,Q) (3500,P)", || {
      s.filter_timepos(
        st,
        vec![(1500u64, (plon, plat)), (5500, (plon, plat)), (3500, (qlon, qlat)), (3500, (plon, plat))].into_iter(),
        |b| b,
      )
    });
    probe("filter_timepos rad: same", || {
      s.filter_timepos(
        st,
        vec![
          (1500u64, (plon.to_radians(), plat.to_radians())),
          (5500, (plon.to_radians(), plat.to_radians())),
          (3500, (qlon.to_radians(), qlat.to_radians())),
          (3500, (plon.to_radians(), plat.to_radians())),
        ]
        .into_iter(),
        |b| b,
      )
    });
  }

  if which == "all" || which == "copy" {
    println!("== copy limit");
    let a = s.load_smoc_from_ascii("3/1-5 7/").unwrap();
    let mut n_ok = 0;
    for _ in 0..300 {
      if s.copy(a).is_ok() {
        n_ok += 1;
      }
    }
    println!("copies accepted: {}", n_ok);
    let mut n_drop = 0;
    while s.drop(a).is_ok() {
      n_drop += 1;
    }
    println!("drops accepted: {}", n_drop);
  }
}
