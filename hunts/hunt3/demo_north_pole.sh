#!/bin/bash
# C15 demo: a position (or cone centre) at the north pole, lat = +90 deg, is rejected by query and union
# ("Latitude must be in [-pi/2, pi/2]") although the south pole, lat = -90 deg, is accepted.
BIN=${1:-/tmp/wt_hunt3/target/debug}; M=$BIN/moc; S=$BIN/mocset
W=$(mktemp -d /tmp/hunt3_pole_XXXX); cd $W
echo '0/0-11' > all.txt; $M convert -t smoc all.txt fits all.fits   # full sky: contains every position
echo '0/0-3' > north.txt; $M convert -t smoc north.txt fits north.fits   # the 4 north polar base cells
printf '1 all.fits\n2 north.fits\n' | $S make set.bin
fail=0
echo "--- query pos 0 -90 (south pole)"; $S query set.bin pos 0 -90; echo "rc=$?"
echo "--- query pos 0 90 (north pole)";  out=$($S query set.bin pos 0 90 2>&1); rc=$?; echo "$out"; echo "rc=$rc"
if [ $rc -ne 0 ] || [ "$(echo $out)" != "id 1 2" ]; then echo "FAIL: query pos 0 90 should report ids 1 and 2"; fail=1; fi
echo "--- query cone 0 90 60"; $S query set.bin cone 0 90 60; rc=$?; echo "rc=$rc"
if [ $rc -ne 0 ]; then echo "FAIL: a cone centred on the north pole is rejected"; fail=1; fi
echo "--- union pos 0 90"; $S union set.bin 3 pos 0 90 ascii; rc=$?; echo "rc=$rc"
if [ $rc -ne 0 ]; then echo "FAIL: union pos 0 90 is rejected"; fail=1; fi
echo "--- moc library / store accept the pole: moc from cone 3 0 90 1 ascii"; $M from cone 3 0 90 1 ascii 2>&1 | head -2
exit $fail
