//! C13 demo: `drop_smoc` / `drop_tmoc` / `drop_fmoc` / `drop_stmoc` on an index holding a MOC of
//! another kind return an error, but the reference has been consumed (and the MOC destroyed) anyway.
//! Run: cargo run --offline --features storage --example hunt3_drop_kind
use moc::storage::u64idx::U64MocStore;

fn main() {
  let s = U64MocStore::get_global_store();
  let mut fail = false;

  // 1. single reference: the failed call destroys the MOC
  let t = s.from_microsec_ranges_since_jd0(10, vec![1000..2000].into_iter()).unwrap();
  println!("t = {} (a T-MOC), depth = {:?}", t, s.get_tmoc_depth(t));
  let r = s.drop_smoc(t);
  println!("drop_smoc(t)            -> {:?}", r.as_ref().map(|o| o.is_some()));
  let after = s.get_tmoc_depth(t);
  println!("get_tmoc_depth(t) after -> {:?}", after);
  if r.is_err() && after.is_err() {
    println!("FAIL: drop_smoc(t) returned an error, yet the T-MOC at index t is gone");
    fail = true;
  }

  // 2. two references: the first mismatched call is *accepted* (no kind check), the second errs and removes
  let f = s.from_hz_ranges(10, vec![1.0e9..2.0e9].into_iter()).unwrap();
  s.copy(f).unwrap();
  let r1 = s.drop_stmoc(f);
  let r2 = s.drop_stmoc(f);
  println!("F-MOC with 2 refs: drop_stmoc #1 -> {:?}; #2 -> {:?}; still there: {}",
    r1.as_ref().map(|o| o.is_some()), r2.as_ref().map(|o| o.is_some()), s.get_fmoc_depth(f).is_ok());
  if r1.is_ok() != r2.is_ok() {
    println!("FAIL: the same mismatched call succeeds or fails depending on the reference count");
    fail = true;
  }

  // 3. consequence: the freed index is handed out again while the (error-reporting) caller still owns it
  let t = s.from_microsec_ranges_since_jd0(10, vec![1000..2000].into_iter()).unwrap();
  let _ = s.drop_smoc(t); // Err(..): a caller that trusts the error keeps using `t`
  let other = s.load_smoc_from_ascii("3/1").unwrap();
  println!("index t = {}, newly inserted S-MOC got index {}", t, other);
  if other == t {
    println!("FAIL: index {} now denotes another MOC although the only call on it reported an error", t);
    fail = true;
  }
  std::process::exit(if fail { 1 } else { 0 });
}
