#!/bin/bash
# C14 demo (minor): commands that cannot (fully) apply and still exit 0.
BIN=${1:-/tmp/wt_hunt3/target/debug}; M=$BIN/moc; S=$BIN/mocset
W=$(mktemp -d /tmp/hunt3_silent_XXXX); cd $W
echo '5/1-3 7' > a.txt; $M convert -t smoc a.txt fits a.fits
fail=0
# 1. make: a line whose MOC cannot be read is skipped without any message (the `warn!` goes to the `log`
#    facade, but the binary installs no logger) and the command exits 0
out=$(printf '1 a.fits\n2 missing.fits\n3 a.fits\n' | $S make set.bin 2>&1); rc=$?
echo "make rc=$rc output='$out'"; $S list set.bin
if [ $rc -eq 0 ] && [ -z "$out" ] && ! $S list set.bin | grep -q '^2,'; then
  echo "FAIL: make dropped identifier 2 silently and reported success"; fail=1
fi
# 2. chgstatus on an unknown (or removed) identifier: WARNING on stderr, exit code 0
$S chgstatus set.bin removed 1
$S chgstatus set.bin valid 1; rc1=$?     # 1 is removed: cannot be resurrected
$S chgstatus set.bin valid 99; rc2=$?    # 99 never existed
echo "chgstatus on removed id rc=$rc1, on unknown id rc=$rc2"
if [ $rc1 -eq 0 ] || [ $rc2 -eq 0 ]; then echo "FAIL: chgstatus on an unknown identifier exits 0"; fail=1; fi
exit $fail
