#!/bin/bash
# sweep of the verif_hooks kill points (needs a mocset built with --features verif_hooks)
BIN=${1:-/tmp/wt_hunt3/target/debug}; M=$BIN/moc; S=$BIN/mocset
W=$(mktemp -d /tmp/hunt3_kill_XXXX); cd $W
echo '5/1-3 7' > a.txt; $M convert -t smoc a.txt fits a.fits
echo '29/5 7 9' > d.txt; $M convert -t smoc d.txt fits d.fits
echo '13/100-101' > b.txt; $M convert -t smoc b.txt fits b.fits
check() { # $1 tag
  $S list set.bin > l.out 2> l.err || { echo "FAIL list after $1: $(cat l.err)"; }
  for id in $(tail -n +2 l.out | grep -v removed | cut -d, -f1); do
    $S extract set.bin $id ascii > e.out 2> e.err || echo "FAIL extract $id after $1: $(head -2 e.err)"
    [ -s e.out ] || echo "FAIL extract $id empty after $1"
  done
  $S query set.bin -d pos 10 10 > q.out 2> q.err || echo "FAIL query after $1: $(head -2 q.err)"
}
for pt in append.before_data_write append.after_data_write append.after_index_store append.after_meta_store append.after_data_flush append.after_msync; do
 for moc in d b; do
  rm -f set.bin set.*lock set.*tmp
  printf '1 a.fits\n2 d.fits\n' | $S make set.bin
  MOCSET_VERIF_KILL=$pt $S append set.bin 3 $moc.fits 2>/dev/null; echo "$pt/$moc: rc=$? list: $($S list set.bin | tail -n +2 | tr '\n' ' ')"
  check "$pt/$moc kill"
  $S append set.bin 4 a.fits 2>/dev/null && echo "FAIL second writer proceeded with lock present ($pt)"
  rm -f set.*lock
  # recovery with a smaller and a bigger MOC
  $S append set.bin 4 a.fits || echo "FAIL recovery append $pt"
  $S append set.bin 5 d.fits || echo "FAIL recovery append2 $pt"
  check "$pt/$moc recovery"
  echo "   after recovery: $($S list set.bin | tail -n +2 | tr '\n' ' ')  4=$($S extract set.bin 4 ascii) 5=$($S extract set.bin 5 ascii) 3=$($S extract set.bin 3 ascii)"
 done
done
for pt in purge.before_tmp_flush purge.after_tmp_flush purge.after_rename; do
  rm -f set.bin set.*lock set.*tmp
  printf '1 a.fits\n2 d.fits\n3 b.fits\n' | $S make set.bin; $S chgstatus set.bin removed 2
  MOCSET_VERIF_KILL=$pt $S purge set.bin 2>/dev/null; echo "$pt: rc=$? files: $(ls | grep set | tr '\n' ' ') list: $($S list set.bin | tail -n +2 | tr '\n' ' ')"
  check "$pt kill"
  rm -f set.*lock set.*tmp
  $S purge set.bin || echo "FAIL recovery purge $pt"
  $S append set.bin 2 b.fits || echo "FAIL recovery append $pt"
  check "$pt recovery"
  echo "   after recovery: $($S list set.bin | tail -n +2 | tr '\n' ' ')"
done
