//! C13 demo: `filter_timepos` / `filter_timepos_approx` are documented to take coordinates in degrees
//! (like `filter_pos`) but pass them unconverted (and unchecked) to `healpix::nested::Layer::hash`,
//! which expects radians and asserts `lat in [-pi/2, pi/2]`.
//! Run: cargo run --offline --features storage --example hunt3_filter_timepos
use std::panic::{catch_unwind, AssertUnwindSafe};

use moc::storage::u64idx::U64MocStore;

fn main() {
  let s = U64MocStore::get_global_store();
  let mut fail = false;
  // ST-MOC: t in [1000, 2000) microsec, position (lon, lat) = (1 deg, 1 deg), space depth 8
  let (lon_deg, lat_deg) = (1.0_f64, 1.0_f64);
  let st = s
    .create_from_time_ranges_positions(vec![1000], vec![2000], 61, vec![lon_deg.to_radians()], vec![lat_deg.to_radians()], 8)
    .unwrap();
  // the same position as S-MOC, for comparison with filter_pos
  let sm = s.from_coo(8, vec![(lon_deg, lat_deg)].into_iter()).unwrap();
  println!("filter_pos(S-MOC, (1 deg, 1 deg))                 -> {:?}", s.filter_pos(sm, vec![(lon_deg, lat_deg)].into_iter(), |b| b));
  let r = s.filter_timepos(st, vec![(1500_u64, (lon_deg, lat_deg))].into_iter(), |b| b);
  println!("filter_timepos(ST-MOC, (1500, (1 deg, 1 deg)))    -> {:?}   (expected Ok([true]))", r);
  if r != Ok(vec![true]) {
    println!("FAIL: wrong answer for coordinates in degrees (the documented unit)");
    fail = true;
  }
  let r = s.filter_timepos(st, vec![(1500_u64, (lon_deg.to_radians(), lat_deg.to_radians()))].into_iter(), |b| b);
  println!("filter_timepos(ST-MOC, (1500, the same in radians)) -> {:?}", r);
  // any latitude above 1.5707 "degrees" makes the call panic (while holding the read lock of the store)
  let r = catch_unwind(AssertUnwindSafe(|| s.filter_timepos(st, vec![(1500_u64, (10.0, 45.0))].into_iter(), |b| b)));
  match r {
    Ok(r) => println!("filter_timepos(ST-MOC, (1500, (10 deg, 45 deg)))   -> {:?}", r),
    Err(_) => {
      println!("FAIL: filter_timepos(ST-MOC, (1500, (10 deg, 45 deg))) panicked instead of returning a result");
      fail = true;
    }
  }
  // filter_pos, for comparison, converts and validates: an invalid coordinate gives `false`, not a panic
  println!("filter_pos(S-MOC, (10 deg, 95 deg))               -> {:?}", s.filter_pos(sm, vec![(10.0, 95.0)].into_iter(), |b| b));
  std::process::exit(if fail { 1 } else { 0 });
}
