#!/bin/bash
# C14/C16 demo: `mocset chgstatus <set> void <id>` is accepted by the argument parser (StatusFlag::from_str
# accepts "void"), then panics on an assert *after* the lock file has been created: the lock is never removed
# and every later update of the moc-set fails.
BIN=${1:-/tmp/wt_hunt3/target/debug}; M=$BIN/moc; S=$BIN/mocset
W=$(mktemp -d /tmp/hunt3_void_XXXX); cd $W
echo '5/1-3 7' > a.txt; $M convert -t smoc a.txt fits a.fits
printf '1 a.fits\n2 a.fits\n' | $S make set.bin
$S chgstatus set.bin void 1 2>&1 | head -4; rc=${PIPESTATUS[0]}
echo "chgstatus void rc=$rc"; ls -1
fail=0
if ls | grep -q lock; then echo "FAIL: the failed command left its lock file behind"; fail=1; fi
$S append set.bin 3 a.fits; rc=$?
echo "next append rc=$rc"
if [ $rc -ne 0 ]; then echo "FAIL: a legal update is refused after the failed command"; fail=1; fi
$S chgstatus set.bin deprecated 2; echo "next chgstatus rc=$?"
$S list set.bin
exit $fail
