#!/usr/bin/env python3
"""C16 demo: a `mocset query` that is running while `mocset append` completes dies
(slice index out of range on its own, shorter, memory map) instead of answering with the
state before or the state after the append.

The reader is slowed down deterministically: its stdout is a 4 KiB pipe that nobody drains,
so it blocks in the middle of the (lazy) iteration over the metadata. The append is then run
to completion, the pipe is drained and the reader goes on.
usage: demo_reader_race.py [path/to/target/debug-or-release dir]
"""
import fcntl, os, subprocess, sys, tempfile, time

bindir = sys.argv[1] if len(sys.argv) > 1 else "/tmp/wt_hunt3/target/debug"
MOC, SET = os.path.join(bindir, "moc"), os.path.join(bindir, "mocset")
wd = tempfile.mkdtemp(prefix="hunt3_race_")
os.chdir(wd)

def run(*a, **kw):
    return subprocess.run(a, stdout=subprocess.PIPE, stderr=subprocess.PIPE, text=True, **kw)

open("all.txt", "w").write("0/0-11\n")
assert run(MOC, "convert", "-t", "smoc", "all.txt", "fits", "all.fits").returncode == 0
N = 900
lst = "".join("%d all.fits\n" % (100000 + i) for i in range(1, N + 1))
assert run(SET, "make", "-n", "8", "set.bin", input=lst).returncode == 0
assert len(run(SET, "list", "set.bin").stdout.splitlines()) == N + 1

# reader: stdout = small pipe, not drained yet
r, w = os.pipe()
fcntl.fcntl(w, 1031, 4096)  # F_SETPIPE_SZ
reader = subprocess.Popen([SET, "query", "set.bin", "pos", "10.0", "10.0"], stdout=w, stderr=subprocess.PIPE)
os.close(w)
time.sleep(1.0)  # the reader is now blocked on its stdout, having mapped the file
assert reader.poll() is None, "reader should be blocked"

# complete update while the reader is alive
a = run(SET, "append", "set.bin", "7", "all.fits")
assert a.returncode == 0, a.stderr
assert not any(f.endswith(".lock") for f in os.listdir(".")), "append finished and released its lock"

# let the reader go on
out = b""
while True:
    b = os.read(r, 65536)
    if not b:
        break
    out += b
err = reader.stderr.read().decode()
rc = reader.wait()
ids = out.decode().split()[1:]
print("reader exit code:", rc, " ids reported:", len(ids))
print("reader stderr:", err.strip().splitlines()[:3])
before = [str(100000 + i) for i in range(1, N + 1)]
after = before + ["7"]
if rc != 0 or ids not in (before, after):
    print("FAIL: the concurrent reader neither returned the state before nor the state after the append")
    sys.exit(1)
print("ok")
