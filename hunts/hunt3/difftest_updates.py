#!/usr/bin/env python3
"""Random histories of make/append/chgstatus/purge checked against a model (C14)."""
import os, random, subprocess, sys, tempfile
bindir = "/tmp/wt_hunt3/target/debug"
MOC, SET = os.path.join(bindir, "moc"), os.path.join(bindir, "mocset")
seed = int(sys.argv[1]) if len(sys.argv) > 1 else 1
nsteps = int(sys.argv[2]) if len(sys.argv) > 2 else 300
rnd = random.Random(seed)
wd = tempfile.mkdtemp(prefix="hunt3_u_")
os.chdir(wd)
def run(*a, **kw):
    return subprocess.run(a, stdout=subprocess.PIPE, stderr=subprocess.PIPE, text=True, **kw)
POOL = ["5/1-3 7", "13/100-101", "15/1605", "6/", "29/5 7", "20/", "14/7 9-11 13/3", "0/0-11", "29/0 3458764513820540927", "0/", "13/", "14/", "1/3 13/805306367", "2/5 14/3221225471 29/"]
info = []
for k, a in enumerate(POOL):
    open("p%d.txt" % k, "w").write(a + "\n")
    sx = [[], ["--force-u64"], ["--force-v1"]][k % 3]
    assert run(MOC, "convert", "-t", "smoc", "p%d.txt" % k, "fits", *sx, "p%d.fits" % k).returncode == 0
    canon = run(MOC, "convert", "-t", "smoc", "p%d.txt" % k, "ascii").stdout.split()
    depth = max(int(t.split("/")[0]) for t in a.split() if "/" in t)
    # number of ranges at depth 29
    rs = []
    d = None
    for tok in a.split():
        if "/" in tok:
            dd, tok = tok.split("/"); d = int(dd)
            if not tok: continue
        if "-" in tok: x, y = map(int, tok.split("-"))
        else: x = y = int(tok)
        sh = 2 * (29 - d); rs.append([x << sh, (y + 1) << sh])
    rs.sort(); m = []
    for s, e in rs:
        if m and s <= m[-1][1]: m[-1][1] = max(m[-1][1], e)
        else: m.append([s, e])
    info.append(dict(depth=depth, n=len(m), bytes=len(m) * (8 if depth <= 13 else 16), canon=canon))
IDS = list(range(1, 9))
n128 = 1
model = []  # entries dict(id,status,k)
def cap(): return n128 * 128 - 1
def check(tag):
    c = run(SET, "list", "set.bin")
    assert c.returncode == 0, c.stderr
    got = c.stdout.split()[1:]
    exp = ["%d,%s,%d,%d,%d" % (e["id"], e["status"], info[e["k"]]["depth"], info[e["k"]]["n"], info[e["k"]]["bytes"]) for e in model]
    if got != exp:
        print("FAIL list after", tag, "\n exp", exp, "\n got", got); sys.exit(1)
    for i in IDS + [0]:
        live = [e for e in model if e["id"] == i and e["status"] != "removed"]
        c = run(SET, "extract", "set.bin", str(i), "ascii")
        if c.returncode != 0:
            print("FAIL extract rc", tag, i, c.stderr); sys.exit(1)
        exp = info[live[0]["k"]]["canon"] if live else []
        if c.stdout.split() != exp:
            print("FAIL extract after", tag, "id", i, "exp", exp, "got", c.stdout.split()); sys.exit(1)
    locks = [f for f in os.listdir(".") if "lock" in f or "tmp" in f]
    if locks:
        print("FAIL leftover", locks, "after", tag); sys.exit(1)
# make
n0 = rnd.randint(0, 5)
ids0 = rnd.sample(IDS, n0)
lst = ""
for i in ids0:
    k = rnd.randrange(len(POOL)); dep = rnd.random() < 0.3
    lst += "%d p%d.fits\n" % (-i if dep and i else i, k)
    model.append(dict(id=i, status="deprecated" if dep and i else "valid", k=k))
assert run(SET, "make", "set.bin", input=lst).returncode == 0
check("make")
fill = rnd.random() < 0.5
for step in range(nsteps):
    op = rnd.choice(["append"] * 5 + ["chg"] * 4 + ["purge"])
    if fill and rnd.random() < 0.7: op = "append"
    if op == "append":
        i = rnd.choice(IDS) if not fill or rnd.random() < 0.3 else 1000 + step
        k = rnd.randrange(len(POOL)); dep = rnd.random() < 0.3
        c = run(SET, "append", "set.bin", str(-i if dep else i), "p%d.fits" % k)
        ok = not any(e["id"] == i and e["status"] != "removed" for e in model) and len(model) < cap()
        if ok: model.append(dict(id=i, status="deprecated" if dep else "valid", k=k))
        if (c.returncode == 0) != ok:
            print("FAIL append rc", c.returncode, "expected ok=", ok, c.stderr); sys.exit(1)
        tag = "append %d" % i
    elif op == "chg":
        st = rnd.choice(["valid", "deprecated", "removed"])
        pop = IDS + [99] + [e["id"] for e in model[-3:]]
        ids = rnd.sample(pop, rnd.randint(1, 3))
        c = run(SET, "chgstatus", "set.bin", st, ",".join(map(str, ids)))
        for e in model:
            if e["id"] in ids and e["status"] != "removed": e["status"] = st
        if c.returncode != 0:
            print("FAIL chg rc", c.returncode, c.stderr); sys.exit(1)
        tag = "chg %s %s" % (st, ids)
    else:
        args = [SET, "purge", "set.bin"]
        if rnd.random() < 0.2:
            nn = rnd.randint(1, 3); args[2:2] = ["-n", str(nn)]; n128 = max(n128, nn)
        c = run(*args)
        if c.returncode != 0:
            print("FAIL purge rc", c.returncode, c.stderr); sys.exit(1)
        model = [e for e in model if e["status"] != "removed"]
        if len(model) >= cap() - 2: fill = False
        tag = "purge"
    check(tag)
print("ok seed", seed, "entries", len(model), "n128", n128)
