//! Export / re-import round trips and ST-MOC queries through the store (C13).
use std::panic::{catch_unwind, AssertUnwindSafe};

use moc::storage::u64idx::U64MocStore;

fn probe<R: std::fmt::Debug>(name: &str, f: impl FnOnce() -> R) -> Option<R> {
  match catch_unwind(AssertUnwindSafe(f)) {
    Ok(r) => {
      println!("{:<50} -> {:?}", name, r);
      Some(r)
    }
    Err(_) => {
      println!("{:<50} -> PANIC", name);
      None
    }
  }
}

fn roundtrip(s: &U64MocStore, name: &str, i: usize, kind: char) {
  let ascii = s.to_ascii_str(i, None);
  let json = s.to_json_str(i, None);
  let fits = s.to_fits_buff(i, None);
  let r = catch_unwind(AssertUnwindSafe(|| {
    let mut res = vec![];
    if let Ok(a) = &ascii {
      let j = match kind {
        's' => s.load_smoc_from_ascii(a),
        't' => s.load_tmoc_from_ascii(a),
        'f' => s.load_fmoc_from_ascii(a),
        _ => s.load_stmoc_from_ascii(a),
      };
      res.push(("ascii", j.clone().and_then(|j| s.eq(i, j))));
    } else {
      res.push(("ascii", Err(ascii.clone().unwrap_err())));
    }
    if let Ok(a) = &json {
      let j = match kind {
        's' => s.load_smoc_from_json(a),
        't' => s.load_tmoc_from_json(a),
        'f' => s.load_fmoc_from_json(a),
        _ => s.load_stmoc_from_json(a),
      };
      res.push(("json", j.clone().and_then(|j| s.eq(i, j))));
    } else {
      res.push(("json", Err(json.clone().unwrap_err())));
    }
    if let Ok(b) = &fits {
      let j = s.load_from_fits_buff(b);
      res.push(("fits", j.clone().and_then(|j| s.eq(i, j))));
      let j = match kind {
        's' => s.load_smoc_from_fits_buff(b),
        't' => s.load_tmoc_from_fits_buff(b),
        'f' => s.load_fmoc_from_fits_buff(b),
        _ => s.load_stmoc_from_fits_buff(b),
      };
      res.push(("fits-typed", j.clone().and_then(|j| s.eq(i, j))));
    } else {
      res.push(("fits", Err(fits.clone().unwrap_err())));
    }
    res
  }));
  match r {
    Ok(res) => {
      let bad: Vec<_> = res.iter().filter(|(_, r)| r != &Ok(true)).collect();
      if bad.is_empty() {
        println!("{:<50} -> roundtrips ok", name);
      } else {
        println!("{:<50} -> FAIL {:?}  (ascii: {:?})", name, bad, ascii);
      }
    }
    Err(_) => println!("{:<50} -> PANIC (ascii {:?})", name, ascii),
  }
}

fn main() {
  let s = U64MocStore::get_global_store();
  // S-MOCs
  for (n, a) in [
    ("s empty d0", "0/"),
    ("s empty d29", "29/"),
    ("s full d0", "0/0-11"),
    ("s full d29 decl", "0/0-11 29/"),
    ("s last cell d29", "29/3458764513820540927"),
    ("s first cell d29", "29/0"),
    ("s mix", "3/1-5 7/ 11/5 29/77"),
  ] {
    let i = s.load_smoc_from_ascii(a).unwrap();
    roundtrip(s, n, i, 's');
  }
  for (n, a) in [
    ("t empty d0", "0/"),
    ("t empty d61", "61/"),
    ("t full d0", "0/0-1"),
    ("t last cell d61", "61/4611686018427387903"),
    ("t first cell d61", "61/0"),
    ("t mix", "3/1-5 7/ 11/500 61/77"),
  ] {
    match s.load_tmoc_from_ascii(a) {
      Ok(i) => roundtrip(s, n, i, 't'),
      Err(e) => println!("{:<50} -> load error {}", n, e),
    }
  }
  for (n, a) in [
    ("f empty d0", "0/"),
    ("f empty d59", "59/"),
    ("f full d0", "0/0-1"),
    ("f last cell d59", "59/1152921504606846975"),
    ("f first cell d59", "59/0"),
    ("f mix", "3/1-5 7/ 11/500 59/77"),
  ] {
    match s.load_fmoc_from_ascii(a) {
      Ok(i) => roundtrip(s, n, i, 'f'),
      Err(e) => println!("{:<50} -> load error {}", n, e),
    }
  }
  for (n, a) in [
    ("st empty", "t61/ s29/"),
    ("st one", "t61/1 s29/1"),
    ("st two", "t61/1 3 5 s3/1-3 t61/50 52 s4/25 t61/ s29/"),
    ("st interleaved", "t61/1000 5000 s3/1 t61/3000 s3/2 t61/ s3/"),
    ("st shallow", "t0/0 s0/0-11"),
    ("st d5", "t5/1 s5/2 t10/ s7/"),
  ] {
    match s.load_stmoc_from_ascii(a) {
      Ok(i) => roundtrip(s, n, i, 'x'),
      Err(e) => println!("{:<50} -> load error {}", n, e),
    }
  }
  // ST-MOC with interleaved time ranges: query
  let st = s.load_stmoc_from_ascii("t61/1000 5000 s3/1 t61/3000 s3/2 t61/ s3/").unwrap();
  let (l1, b1) = healpix::nested::center(3, 1);
  let (l2, b2) = healpix::nested::center(3, 2);
  probe("st interleaved: (1000,c1) (5000,c1) (3000,c2) (3000,c1)", || {
    s.filter_timepos(st, vec![(1000u64, (l1, b1)), (5000, (l1, b1)), (3000, (l2, b2)), (3000, (l1, b1))].into_iter(), |b| b)
  });
  probe("1st axis min/max", || (s.get_1st_axis_min(st), s.get_1st_axis_max(st)));
  // time fold / space fold
  let t = s.load_tmoc_from_ascii("61/3000").unwrap();
  probe("time_fold(t=3000, st)", || s.time_fold(t, st).and_then(|i| s.to_ascii_str(i, None)));
  let sp = s.load_smoc_from_ascii("3/2").unwrap();
  probe("space_fold(3/2, st)", || s.space_fold(sp, st).and_then(|i| s.to_ascii_str(i, None)));
  let sp = s.load_smoc_from_ascii("3/1").unwrap();
  probe("space_fold(3/1, st)", || s.space_fold(sp, st).and_then(|i| s.to_ascii_str(i, None)));
  probe("space_fold(st, sp) (swapped)", || s.space_fold(st, sp));
  probe("time_fold(sp, st) (wrong kind)", || s.time_fold(sp, st));
  // ST ops
  let st2 = s.load_stmoc_from_ascii("t61/3000 s3/1-2 t61/ s3/").unwrap();
  probe("st or", || s.or(st, st2).and_then(|i| s.to_ascii_str(i, None)));
  probe("st and", || s.and(st, st2).and_then(|i| s.to_ascii_str(i, None)));
  probe("st minus", || s.minus(st, st2).and_then(|i| s.to_ascii_str(i, None)));
  probe("st xor", || s.xor(st, st2).and_then(|i| s.to_ascii_str(i, None)));
  probe("st not", || s.not(st));
  probe("st is_empty/n_ranges", || (s.is_empty(st), s.get_n_ranges(st), s.get_coverage_percentage(st), s.get_ranges_sum(st)));
}
