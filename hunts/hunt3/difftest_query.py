#!/usr/bin/env python3
"""Differential test of `mocset query|union ... moc` against a range model at depth 29 (C15)."""
import os, random, subprocess, sys, tempfile, json

bindir = "/tmp/wt_hunt3/target/debug"
MOC, SET = os.path.join(bindir, "moc"), os.path.join(bindir, "mocset")
seed = int(sys.argv[1]) if len(sys.argv) > 1 else 1
nsets = int(sys.argv[2]) if len(sys.argv) > 2 else 3
rnd = random.Random(seed)
wd = tempfile.mkdtemp(prefix="hunt3_q_")
os.chdir(wd)

def run(*a, **kw):
    return subprocess.run(a, stdout=subprocess.PIPE, stderr=subprocess.PIPE, text=True, **kw)

def norm(ranges):
    ranges = sorted(r for r in ranges if r[0] < r[1])
    out = []
    for s, e in ranges:
        if out and s <= out[-1][1]:
            out[-1][1] = max(out[-1][1], e)
        else:
            out.append([s, e])
    return [tuple(r) for r in out]

def cells_of(ranges, maxdepth):
    """canonical cells (depth, idx) of ranges aligned on maxdepth"""
    cells = []
    for s, e in ranges:
        while s < e:
            # largest cell starting at s fitting in [s,e)
            d = maxdepth
            while d > 0:
                sh = 2 * (29 - (d - 1))
                if s % (1 << sh) == 0 and s + (1 << sh) <= e:
                    d -= 1
                else:
                    break
            sh = 2 * (29 - d)
            cells.append((d, s >> sh))
            s += 1 << sh
    return cells

def ascii_of(ranges, maxdepth):
    by = {}
    for d, i in cells_of(ranges, maxdepth):
        by.setdefault(d, []).append(i)
    parts = []
    for d in sorted(by):
        parts.append("%d/%s" % (d, " ".join(str(i) for i in sorted(by[d]))))
    if maxdepth not in by:
        parts.append("%d/" % maxdepth)
    return " ".join(parts)

def json_of(ranges, maxdepth):
    by = {}
    for d, i in cells_of(ranges, maxdepth):
        by.setdefault(str(d), []).append(i)
    if str(maxdepth) not in by:
        by[str(maxdepth)] = []
    return json.dumps(by)

BASE_D = 9
def rand_moc(base, allow_empty=True):
    maxdepth = rnd.choice([0, 3, 9, 12, 13, 13, 14, 14, 15, 18, 22, 29, 29])
    n = rnd.choice([0, 1, 1, 2, 3, 5]) if allow_empty else rnd.choice([1, 1, 2, 3, 5])
    ranges = []
    for _ in range(n):
        d = rnd.randint(0, maxdepth)
        if d >= BASE_D:
            span = 1 << min(2 * (d - BASE_D), 6)
            idx = (base << (2 * (d - BASE_D))) + rnd.randint(-2, span + 1)
            idx = max(0, min(idx, 12 * 4 ** d - 1))
        else:
            idx = base >> (2 * (BASE_D - d))
            if rnd.random() < 0.3:
                idx = rnd.randint(0, 12 * 4 ** d - 1)
        ln = rnd.choice([1, 1, 1, 2, 3])
        sh = 2 * (29 - d)
        s, e = idx << sh, min(idx + ln, 12 * 4 ** d) << sh
        # sometimes touch domain bounds
        ranges.append((s, e))
    if rnd.random() < 0.05:
        ranges.append((0, 1 << (2 * (29 - maxdepth))))
    if rnd.random() < 0.05:
        ranges.append((12 * 4 ** 29 - (1 << (2 * (29 - maxdepth))), 12 * 4 ** 29))
    return maxdepth, norm(ranges)

def intersects(a, b):
    i = j = 0
    while i < len(a) and j < len(b):
        if a[i][1] <= b[j][0]: i += 1
        elif b[j][1] <= a[i][0]: j += 1
        else: return True
    return False

def contains(a, b):
    for s, e in b:
        if not any(x <= s and e <= y for x, y in a):
            return False
    return True

nfail = 0
ncheck = 0
for iset in range(nsets):
    base = rnd.randint(0, 12 * 4 ** BASE_D - 1)
    if rnd.random() < 0.2: base = 0
    if rnd.random() < 0.2: base = 12 * 4 ** BASE_D - 1
    stored = {}
    lst = ""
    nm = rnd.randint(3, 12)
    for k in range(nm):
        ident = k + 1
        d, r = rand_moc(base)
        dep = rnd.random() < 0.25
        stored[ident] = (d, r, dep)
        open("m%d.txt" % ident, "w").write(ascii_of(r, d) + "\n")
        sx = rnd.choice([[], [], ["--force-u64"], ["--force-v1"]])
        c = run(MOC, "convert", "-t", "smoc", "m%d.txt" % ident, "fits", *sx, "m%d.fits" % ident)
        assert c.returncode == 0, (c.stderr, ascii_of(r, d))
        lst += "%d m%d.fits\n" % (-ident if dep else ident, ident)
    if os.path.exists("set.bin"): os.remove("set.bin")
    c = run(SET, "make", "set.bin", input=lst)
    assert c.returncode == 0, c.stderr
    for iq in range(25):
        d, r = rand_moc(base, allow_empty=False)
        if not r: continue
        fmt = rnd.choice(["ascii", "json", "fits", "fits64"])
        if fmt == "ascii":
            open("q.txt", "w").write(ascii_of(r, d) + "\n"); qf = ["q.txt"]
        elif fmt == "json":
            open("q.json", "w").write(json_of(r, d)); qf = ["q.json"]
        else:
            open("q.txt", "w").write(ascii_of(r, d) + "\n")
            extra = ["--force-u64"] if fmt == "fits64" else []
            c = run(MOC, "convert", "-t", "smoc", "q.txt", "fits", *extra, "q.fits")
            assert c.returncode == 0, c.stderr
            qf = ["q.fits"]
        for full in (False, True):
            for depr in (False, True):
                for par in (None, "3"):
                    args = [SET, "query", "set.bin"]
                    if depr: args.append("-d")
                    if par: args += ["-p", par]
                    args += ["moc"] + qf
                    if full: args.append("-i")
                    c = run(*args)
                    ncheck += 1
                    exp = sorted(i for i, (sd, sr, sdep) in stored.items()
                                 if (depr or not sdep) and (contains(sr, r) if full else intersects(sr, r)))
                    if c.returncode != 0:
                        got = "rc=%d %s" % (c.returncode, c.stderr[:200])
                    else:
                        got = sorted(int(x) for x in c.stdout.split()[1:])
                    if got != exp:
                        nfail += 1
                        print("FAIL set", iset, "args", args[1:], "region", ascii_of(r, d), "exp", exp, "got", got)
                        for i in sorted(set(exp) ^ set(got if isinstance(got, list) else [])):
                            print("    stored", i, ascii_of(stored[i][1], stored[i][0]), "deprecated" if stored[i][2] else "")
        # union (intersect mode, no deprecated), output depth 29
        c = run(SET, "union", "set.bin", "29", "moc", *qf, "ascii")
        ncheck += 1
        sel = [sr for i, (sd, sr, sdep) in stored.items() if not sdep and intersects(sr, r)]
        expu = norm([x for sr in sel for x in sr])
        if c.returncode != 0:
            print("FAIL union rc", c.returncode, c.stderr[:200]); nfail += 1
        else:
            open("u.txt", "w").write(c.stdout)
            c2 = run(MOC, "convert", "-t", "smoc", "u.txt", "ascii")
            # compare through ranges: parse ascii
            got = []
            dcur = None
            for tok in c.stdout.split():
                if "/" in tok:
                    dd, rest = tok.split("/")
                    dcur = int(dd)
                    tok = rest
                    if not tok: continue
                if "-" in tok:
                    a, b = tok.split("-"); a, b = int(a), int(b)
                else:
                    a = b = int(tok)
                sh = 2 * (29 - dcur)
                got.append((a << sh, (b + 1) << sh))
            got = norm(got)
            if got != expu:
                nfail += 1
                print("FAIL union region", ascii_of(r, d), "exp", expu[:5], "got", got[:5])
print("checks:", ncheck, "failures:", nfail, "wd:", wd)
sys.exit(1 if nfail else 0)
