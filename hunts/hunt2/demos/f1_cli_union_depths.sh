#!/bin/bash
# Finding 1 through the command-line tool: union of two ST-MOCs of different time depths, ASCII / JSON output.
# usage: f1_cli_union_depths.sh /path/to/moc   (binary built from crates/cli)
M=${1:-/tmp/wt_hunt2/target/debug/moc}
D=$(mktemp -d); cd "$D" || exit 2
echo "t3/0 s0/0" > a.txt   # NB: file names must not look like the sub-commands 'fits', 'ascii', ...
echo "t4/0 s0/1" > b.txt
$M convert -t stmoc -f ascii a.txt fits xa.mocf || exit 2
$M convert -t stmoc -f ascii b.txt fits xb.mocf || exit 2
rc=0
out=$($M op union xa.mocf xb.mocf ascii 2>err.txt); st=$?
echo "ascii: exit=$st out='$out'"; grep -m1 panicked err.txt
[ $st -ne 0 ] && { echo "FAIL moc op union ... ascii fails (expected: t4/0 s0/0-1 t4/1 s0/0 t4/ s0/)"; rc=1; }
out=$($M op union xa.mocf xb.mocf json 2>err.txt); st=$?
echo "json: exit=$st"; grep -m1 panicked err.txt
[ $st -ne 0 ] && { echo "FAIL moc op union ... json fails"; rc=1; }
$M op union xa.mocf xb.mocf fits xu.mocf && echo "fits output then ascii: $($M convert -f fits xu.mocf ascii)"
exit $rc
