// Finding 6: U64MocStore::filter_timepos is documented to take (lon, lat) in DEGREES (like filter_pos)
// but feeds them to healpix `hash` as RADIANS.
use std::panic::{catch_unwind, AssertUnwindSafe};

use moc::storage::u64idx::U64MocStore;

fn main() {
  std::panic::set_hook(Box::new(|i| eprintln!("  (panic: {})", i)));
  let store = U64MocStore::get_global_store();
  let mut fail = false;
  // One observation at t = 1000 us, lon = 10 deg, lat = 45 deg (the creation functions take radians)
  let (lon_deg, lat_deg) = (10.0_f64, 45.0_f64);
  let idx = store
    .create_from_times_positions(vec![1000], vec![lon_deg.to_radians()], vec![lat_deg.to_radians()], 61, 8)
    .unwrap();
  // lookup of the very same (time, position), in degrees as documented
  let r = catch_unwind(AssertUnwindSafe(|| {
    store.filter_timepos(idx, std::iter::once((1000_u64, (lon_deg, lat_deg))), |b| b)
  }));
  match r {
    Err(_) => {
      println!("FAIL filter_timepos(1000 us, (10 deg, 45 deg)) panics");
      fail = true;
    }
    Ok(v) => {
      println!("filter_timepos with degrees: {:?}", v);
      if v != Ok(vec![true]) {
        println!("FAIL filter_timepos with degrees does not find the observation");
        fail = true;
      }
    }
  }
  let (lon_deg, lat_deg) = (10.0_f64, 1.0_f64);
  let idx = store
    .create_from_times_positions(vec![1000], vec![lon_deg.to_radians()], vec![lat_deg.to_radians()], 61, 8)
    .unwrap();
  let v = store.filter_timepos(idx, std::iter::once((1000_u64, (lon_deg, lat_deg))), |b| b);
  println!("filter_timepos (10 deg, 1 deg) with degrees: {:?}", v);
  if v != Ok(vec![true]) {
    println!("FAIL filter_timepos (10 deg, 1 deg) with degrees does not find the observation");
    fail = true;
  }
  let v = store.filter_timepos(idx, std::iter::once((1000_u64, (lon_deg.to_radians(), lat_deg.to_radians()))), |b| b);
  println!("filter_timepos (10 deg, 1 deg) with radians: {:?}", v);
  std::process::exit(if fail { 1 } else { 0 });
}
