// Finding 3: RangeMOC2::from_time_and_coos takes times in microseconds since JD=0 but uses them
// as cell indices at `depth_time`: the result is right at depth 61 only.
use std::ops::Range;
use std::panic::{catch_unwind, AssertUnwindSafe};

use moc::hpxranges2d::TimeSpaceMoc;
use moc::moc::RangeMOCIntoIterator;
use moc::moc2d::range::RangeMOC2;
use moc::moc2d::{RangeMOC2IntoIterator, RangeMOC2Iterator};
use moc::qty::{Hpx, Time};

type ST = RangeMOC2<u64, Time<u64>, u64, Hpx<u64>>;

fn dump(m: &ST) -> Vec<(Vec<Range<u64>>, Vec<Range<u64>>)> {
  m.into_range_moc2_iter()
    .map(|e| {
      let (t, s) = e.clone().mocs();
      (t.into_range_moc_iter().collect(), s.into_range_moc_iter().collect())
    })
    .collect()
}

fn main() {
  std::panic::set_hook(Box::new(|i| eprintln!("  (panic: {})", i)));
  let mut fail = false;
  let (lon, lat) = (0.8_f64, 0.1_f64);
  let cell = healpix::nested::get(0).hash(lon, lat);
  // 1 s after JD=0, then a realistic date (JD 2459000.5 = 2020-05-31)
  for (t_us, depth_time) in [(1_000_000_u64, 61u8), (1_000_000, 60), (1_000_000, 51), (1_000_000, 41), (212_457_643_200_000_000, 61), (212_457_643_200_000_000, 51), (212_457_643_200_000_000, 31)] {
    let shift = 61 - depth_time as u32;
    let exp_t = (t_us >> shift) << shift..((t_us >> shift) + 1) << shift;
    let exp = vec![(vec![exp_t.clone()], vec![cell << 58..(cell + 1) << 58])];
    // reference: the range-2D path
    let reference: ST = TimeSpaceMoc::<u64, u64>::create_from_times_positions(vec![t_us], vec![cell], depth_time, 0)
      .time_space_iter(depth_time, 0)
      .into_range_moc2();
    let r = catch_unwind(AssertUnwindSafe(|| {
      ST::from_time_and_coos(depth_time, 0, std::iter::once((t_us, lon, lat)), None)
    }));
    match r {
      Err(_) => {
        println!("FAIL depth_time={}: from_time_and_coos panics", depth_time);
        fail = true;
      }
      Ok(m) => {
        let got = dump(&m);
        println!(
          "t={} depth_time={}: expected time range {:?}; range-2D path {:?}; from_time_and_coos {:?}",
          t_us,
          depth_time,
          exp_t,
          dump(&reference)[0].0,
          got.get(0).map(|e| e.0.clone())
        );
        if dump(&reference) != exp {
          println!("FAIL depth_time={}: range-2D path differs from the expectation", depth_time);
          fail = true;
        }
        if got != exp {
          println!("FAIL depth_time={}: from_time_and_coos does not cover (t, position) - it covers another instant", depth_time);
          fail = true;
        }
      }
    }
  }
  std::process::exit(if fail { 1 } else { 0 });
}
