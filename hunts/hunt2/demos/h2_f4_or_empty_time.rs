// Finding 4: the ST union emits an element whose time MOC is EMPTY (no panic, even in debug builds):
// when both operands end at the same instant, the already consumed last element of one operand is
// flushed again as if it had not been read.
use std::ops::Range;

use moc::elemset::range::MocRanges;
use moc::moc::range::RangeMOC;
use moc::moc::RangeMOCIntoIterator;
use moc::moc2d::range::{RangeMOC2, RangeMOC2Elem};
use moc::moc2d::{RangeMOC2IntoIterator, RangeMOC2Iterator};
use moc::qty::{Hpx, MocQty, Time};

type ST = RangeMOC2<u64, Time<u64>, u64, Hpx<u64>>;
const DT: u8 = 2;
const DS: u8 = 0;

fn st(elems: &[(Range<u64>, &[u64])]) -> ST {
  let tsh = Time::<u64>::shift_from_depth_max(DT) as u32;
  let ssh = Hpx::<u64>::shift_from_depth_max(DS) as u32;
  RangeMOC2::new(
    DT,
    DS,
    elems
      .iter()
      .map(|(t, s)| {
        RangeMOC2Elem::new(
          RangeMOC::new(DT, MocRanges::new_unchecked(vec![t.start << tsh..t.end << tsh])),
          RangeMOC::new(DS, MocRanges::new_from(s.iter().map(|c| c << ssh..(c + 1) << ssh).collect())),
        )
      })
      .collect(),
  )
}

fn dump(m: &ST) -> Vec<(Vec<Range<u64>>, Vec<u64>)> {
  let tsh = Time::<u64>::shift_from_depth_max(DT) as u32;
  let ssh = Hpx::<u64>::shift_from_depth_max(DS) as u32;
  m.into_range_moc2_iter()
    .map(|e| {
      let (t, s) = e.clone().mocs();
      (
        t.into_range_moc_iter().map(|r| r.start >> tsh..r.end >> tsh).collect(),
        s.into_range_moc_iter().flat_map(|r| (r.start >> ssh)..(r.end >> ssh)).collect(),
      )
    })
    .collect()
}

fn main() {
  let mut fail = false;
  // time cells at depth 2, space cells at depth 0
  // (a gap between the two time cells, so that the known "touching time ranges not fused" defect
  //  does not interfere)
  let a = st(&[(0..1, &[0, 1]), (2..3, &[2])]);
  let b = st(&[(0..1, &[0, 2]), (2..3, &[0, 1])]);
  println!("A = {:?}", dump(&a));
  println!("B = {:?}", dump(&b));
  for (name, u) in [
    ("A.or(B)", a.or(&b)),
    ("B.or(A)", b.or(&a)),
    ("iterator A|B", (&a).into_range_moc2_iter().or((&b).into_range_moc2_iter()).into_range_moc2()),
    ("into_or A|B", a.clone().into_or(b.clone())),
  ] {
    let d = dump(&u);
    println!("{} = {:?}   max_index_left() = {:?}", name, d, u.max_index_left());
    if !d.is_empty() && u.max_index_left().is_none() {
      println!("FAIL {}: max_index_left() of a non-empty ST-MOC is None", name);
      fail = true;
    }
    for (i, (t, _)) in d.iter().enumerate() {
      if t.is_empty() {
        println!("FAIL {}: element {} has an EMPTY time MOC", name, i);
        fail = true;
      }
    }
  }
  std::process::exit(if fail { 1 } else { 0 });
}
