// Run one union case given on the command line: h2_or_case "<A>" "<B>" with A,B = "t0-t1:c,c,c;t0-t1:c" (time cells depth 2, space cells depth 0)
use std::ops::Range;

use moc::elemset::range::MocRanges;
use moc::moc::range::RangeMOC;
use moc::moc::RangeMOCIntoIterator;
use moc::moc2d::range::{RangeMOC2, RangeMOC2Elem};
use moc::moc2d::{RangeMOC2IntoIterator, RangeMOC2Iterator};
use moc::qty::{Hpx, MocQty, Time};

type ST = RangeMOC2<u64, Time<u64>, u64, Hpx<u64>>;
const DT: u8 = 2;
const DS: u8 = 0;

fn parse(s: &str) -> ST {
  let tsh = Time::<u64>::shift_from_depth_max(DT) as u32;
  let ssh = Hpx::<u64>::shift_from_depth_max(DS) as u32;
  let elems = s
    .split(';')
    .filter(|e| !e.is_empty())
    .map(|e| {
      let (t, c) = e.split_once(':').unwrap();
      let tr: Vec<Range<u64>> = t
        .split(',')
        .map(|r| {
          let (a, b) = r.split_once('-').unwrap();
          a.parse::<u64>().unwrap() << tsh..b.parse::<u64>().unwrap() << tsh
        })
        .collect();
      let cr: Vec<Range<u64>> = c.split(',').map(|c| c.parse::<u64>().unwrap()).map(|c| c << ssh..(c + 1) << ssh).collect();
      RangeMOC2Elem::new(
        RangeMOC::new(DT, MocRanges::new_unchecked(tr)),
        RangeMOC::new(DS, MocRanges::new_from(cr)),
      )
    })
    .collect();
  RangeMOC2::new(DT, DS, elems)
}

fn dump(m: &ST) -> Vec<(Vec<Range<u64>>, Vec<u64>)> {
  let tsh = Time::<u64>::shift_from_depth_max(DT) as u32;
  let ssh = Hpx::<u64>::shift_from_depth_max(DS) as u32;
  m.into_range_moc2_iter()
    .map(|e| {
      let (t, s) = e.clone().mocs();
      (
        t.into_range_moc_iter().map(|r| r.start >> tsh..r.end >> tsh).collect(),
        s.into_range_moc_iter().flat_map(|r| (r.start >> ssh)..(r.end >> ssh)).collect(),
      )
    })
    .collect()
}

fn main() {
  let args: Vec<String> = std::env::args().collect();
  let a = parse(&args[1]);
  let b = parse(&args[2]);
  println!("A = {:?}", dump(&a));
  println!("B = {:?}", dump(&b));
  let mut n = 0;
  for e in (&a).into_range_moc2_iter().or((&b).into_range_moc2_iter()) {
    let (t, s) = e.mocs();
    println!(
      "  elem {}: {:?} x {:?}",
      n,
      t.into_range_moc_iter().map(|r| r.start >> 59..r.end >> 59).collect::<Vec<_>>(),
      s.into_range_moc_iter().flat_map(|r| (r.start >> 58)..(r.end >> 58)).collect::<Vec<_>>()
    );
    n += 1;
    if n > 50 {
      println!("FAIL more than 50 elements: the union does not terminate");
      std::process::exit(1);
    }
  }
}
