// Round trips of ST-MOCs at the domain bounds for the 3 index widths.
use std::io::Cursor;
use std::ops::Range;

use moc::deser::ascii::moc2d_from_ascii_ivoa;
use moc::deser::fits::{from_fits_ivoa, ranges2d_to_fits_ivoa, MocIdxType, MocQtyType, STMocType};
use moc::deser::json::cellmoc2d_from_json_aladin;
use moc::elemset::range::MocRanges;
use moc::idx::Idx;
use moc::moc::range::RangeMOC;
use moc::moc::RangeMOCIntoIterator;
use moc::moc2d::range::{RangeMOC2, RangeMOC2Elem};
use moc::moc2d::{
  CellMOC2IntoIterator, CellMOC2Iterator, CellOrCellRangeMOC2IntoIterator,
  CellOrCellRangeMOC2Iterator, HasTwoMaxDepth, RangeMOC2IntoIterator, RangeMOC2Iterator,
};
use moc::qty::{Hpx, MocQty, Time};

type ST<T> = RangeMOC2<T, Time<T>, T, Hpx<T>>;

fn dump<T: Idx>(m: &ST<T>) -> (u8, u8, Vec<(Vec<Range<T>>, Vec<Range<T>>)>) {
  (
    m.depth_max_1(),
    m.depth_max_2(),
    m.into_range_moc2_iter()
      .map(|e| {
        let (t, s) = e.clone().mocs();
        (t.into_range_moc_iter().collect(), s.into_range_moc_iter().collect())
      })
      .collect(),
  )
}

fn mk<T: Idx>(dt: u8, ds: u8, elems: Vec<(Vec<Range<T>>, Vec<Range<T>>)>) -> ST<T> {
  RangeMOC2::new(
    dt,
    ds,
    elems
      .into_iter()
      .map(|(t, s)| {
        RangeMOC2Elem::new(
          RangeMOC::new(dt, MocRanges::new_unchecked(t)),
          RangeMOC::new(ds, MocRanges::new_unchecked(s)),
        )
      })
      .collect(),
  )
}

fn check<T: Idx>(name: &str, m: &ST<T>, fits_extract: impl Fn(MocIdxType<Cursor<Vec<u8>>>) -> Option<ST<T>>) -> bool {
  let mut ok = true;
  let d = dump(m);
  // FITS
  let mut buf = Vec::new();
  ranges2d_to_fits_ivoa(m.into_range_moc2_iter(), None, None, &mut buf).unwrap();
  {
    let mut buf3 = Vec::new();
    moc::deser::fits::rangemoc2d_to_fits_ivoa(m, None, None, &mut buf3).unwrap();
    if buf3 != buf {
      println!("FAIL {} fits: rangemoc2d_to_fits_ivoa and ranges2d_to_fits_ivoa differ", name);
      ok = false;
    }
    if buf.len() % 2880 != 0 {
      println!("FAIL {} fits: size not multiple of 2880", name);
      ok = false;
    }
  }
  match from_fits_ivoa(Cursor::new(buf.clone())) {
    Err(e) => {
      println!("FAIL {} fits read: {}", name, e);
      ok = false;
    }
    Ok(x) => match fits_extract(x) {
      None => {
        println!("FAIL {} fits: wrong type", name);
        ok = false;
      }
      Some(b) => {
        if dump(&b) != d {
          println!("FAIL {} fits: differs\n  {:?}\n  {:?}", name, d, dump(&b));
          ok = false;
        }
        let mut buf2 = Vec::new();
        ranges2d_to_fits_ivoa((&b).into_range_moc2_iter(), None, None, &mut buf2).unwrap();
        if buf2 != buf {
          println!("FAIL {} fits: reserialisation differs", name);
          ok = false;
        }
      }
    },
  }
  for fold in [None, Some(20usize), Some(80)] {
    let mut buf = Vec::new();
    m.into_range_moc2_iter().into_cellcellrange_moc2_iter().to_ascii_ivoa(fold, false, &mut buf).unwrap();
    let txt = String::from_utf8(buf.clone()).unwrap();
    match moc2d_from_ascii_ivoa::<T, Time<T>, T, Hpx<T>>(&txt) {
      Err(e) => {
        println!("FAIL {} ascii fold={:?} read: {} txt={:?}", name, fold, e, txt);
        ok = false;
      }
      Ok(c) => {
        let b = c.into_cellcellrange_moc2_iter().into_range_moc2_iter().into_range_moc2();
        if dump(&b) != d {
          println!("FAIL {} ascii fold={:?}: differs\n  {:?}\n  {:?}\n txt={:?}", name, fold, d, dump(&b), txt);
          ok = false;
        }
        let mut buf2 = Vec::new();
        (&b).into_range_moc2_iter().into_cellcellrange_moc2_iter().to_ascii_ivoa(fold, false, &mut buf2).unwrap();
        if buf2 != buf {
          println!("FAIL {} ascii fold={:?}: reserialisation differs", name, fold);
          ok = false;
        }
      }
    }
    // with range_len
    let mut buf = Vec::new();
    m.into_range_moc2_iter().into_cellcellrange_moc2_iter().to_ascii_ivoa(fold, true, &mut buf).unwrap();
    let txt = String::from_utf8(buf.clone()).unwrap();
    match moc2d_from_ascii_ivoa::<T, Time<T>, T, Hpx<T>>(&txt) {
      Err(e) => {
        println!("FAIL {} ascii(range_len) fold={:?} read: {} txt={:?}", name, fold, e, txt);
        ok = false;
      }
      Ok(c) => {
        let b = c.into_cellcellrange_moc2_iter().into_range_moc2_iter().into_range_moc2();
        if dump(&b) != d {
          println!("FAIL {} ascii(range_len) fold={:?}: differs\n  {:?}\n  {:?}\n txt={:?}", name, fold, d, dump(&b), txt);
          ok = false;
        }
      }
    }
    let mut buf = Vec::new();
    m.into_range_moc2_iter().into_cell_moc2_iter().to_json_aladin(&fold, &mut buf).unwrap();
    let txt = String::from_utf8(buf.clone()).unwrap();
    match cellmoc2d_from_json_aladin::<T, Time<T>, T, Hpx<T>>(&txt) {
      Err(e) => {
        println!("FAIL {} json fold={:?} read: {} txt={:?}", name, fold, e, txt);
        ok = false;
      }
      Ok(c) => {
        let b = c.into_cell_moc2_iter().into_range_moc2_iter().into_range_moc2();
        if dump(&b) != d {
          println!("FAIL {} json fold={:?}: differs\n  {:?}\n  {:?}\n txt={:?}", name, fold, d, dump(&b), txt);
          ok = false;
        }
        let mut buf2 = Vec::new();
        (&b).into_range_moc2_iter().into_cell_moc2_iter().to_json_aladin(&fold, &mut buf2).unwrap();
        if buf2 != buf {
          println!("FAIL {} json fold={:?}: reserialisation differs", name, fold);
          ok = false;
        }
      }
    }
  }
  ok
}

fn cases<T: Idx>(name: &str, fits_extract: impl Fn(MocIdxType<Cursor<Vec<u8>>>) -> Option<ST<T>> + Copy) -> bool {
  let dt = Time::<T>::MAX_DEPTH;
  let ds = Hpx::<T>::MAX_DEPTH;
  let nt = Time::<T>::n_cells_max();
  let ns = Hpx::<T>::n_cells_max();
  let one = T::one();
  let two = one + one;
  let z = T::zero();
  let mut ok = true;
  // empty
  ok &= check(&format!("{} empty", name), &mk::<T>(dt, ds, vec![]), fits_extract);
  // empty with lower depths
  ok &= check(&format!("{} empty d(3,2)", name), &mk::<T>(3, 2, vec![]), fits_extract);
  // first and last finest cells
  ok &= check(
    &format!("{} first/last", name),
    &mk::<T>(dt, ds, vec![(vec![z..one], vec![z..one]), (vec![nt - one..nt], vec![ns - one..ns])]),
    fits_extract,
  );
  // full x full
  ok &= check(&format!("{} full", name), &mk::<T>(dt, ds, vec![(vec![z..nt], vec![z..ns])]), fits_extract);
  // full x full, depth 0
  ok &= check(&format!("{} full d0", name), &mk::<T>(0, 0, vec![(vec![z..nt], vec![z..ns])]), fits_extract);
  // almost full (worst case for cell decomposition)
  ok &= check(
    &format!("{} almost full", name),
    &mk::<T>(dt, ds, vec![(vec![one..nt - one], vec![one..ns - one])]),
    fits_extract,
  );
  // multi-range time, unoccupied deepest level
  let ht = nt.unsigned_shr(1);
  let qt = nt.unsigned_shr(2);
  ok &= check(
    &format!("{} coarse cells, deep depth", name),
    &mk::<T>(dt, ds, vec![(vec![z..qt, ht..ht + qt], vec![z..ns.unsigned_shr(2)]), (vec![ht + qt..nt], vec![ns.unsigned_shr(1)..ns])]),
    fits_extract,
  );
  ok &= check(
    &format!("{} two", name),
    &mk::<T>(dt, ds, vec![(vec![two..two + two, nt - two - two..nt - two], vec![two..two + one, ns - two..ns - one])]),
    fits_extract,
  );
  ok
}

fn main() {
  let mut ok = true;
  ok &= cases::<u16>("u16", |x| match x {
    MocIdxType::U16(MocQtyType::TimeHpx(STMocType::V2(it))) => Some(it.into_range_moc2()),
    _ => None,
  });
  ok &= cases::<u32>("u32", |x| match x {
    MocIdxType::U32(MocQtyType::TimeHpx(STMocType::V2(it))) => Some(it.into_range_moc2()),
    _ => None,
  });
  ok &= cases::<u64>("u64", |x| match x {
    MocIdxType::U64(MocQtyType::TimeHpx(STMocType::V2(it))) => Some(it.into_range_moc2()),
    _ => None,
  });
  println!("{}", if ok { "all ok" } else { "some FAIL" });
  std::process::exit(if ok { 0 } else { 1 });
}
