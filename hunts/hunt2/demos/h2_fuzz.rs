// Fuzz harness for ST-MOC properties (C08-C11). Small universe:
// time depth DT (2^(DT+1) cells), space depth DS (12*4^DS cells).
use std::collections::BTreeMap;
use std::io::Cursor;
use std::ops::Range;
use std::panic::{catch_unwind, AssertUnwindSafe};

use moc::deser::ascii::moc2d_from_ascii_ivoa;
use moc::deser::fits::{from_fits_ivoa, ranges2d_to_fits_ivoa, MocIdxType, MocQtyType, STMocType};
use moc::deser::json::cellmoc2d_from_json_aladin;
use moc::elemset::range::MocRanges;
use moc::hpxranges2d::TimeSpaceMoc;
use moc::moc::range::RangeMOC;
use moc::moc::{RangeMOCIntoIterator, RangeMOCIterator};
use moc::moc2d::range::{RangeMOC2, RangeMOC2Elem};
use moc::moc2d::{
  CellMOC2IntoIterator, CellMOC2Iterator, CellOrCellRangeMOC2IntoIterator,
  CellOrCellRangeMOC2Iterator, HasTwoMaxDepth, RangeMOC2IntoIterator, RangeMOC2Iterator,
};
use moc::qty::{Hpx, MocQty, Time};
use moc::ranges::ranges2d::SNORanges2D;
use moc::storage::u64idx::U64MocStore;

type ST = RangeMOC2<u64, Time<u64>, u64, Hpx<u64>>;
type Elem = RangeMOC2Elem<u64, Time<u64>, u64, Hpx<u64>>;

const DT: u8 = 3;
const DS: u8 = 1;
const NT: usize = 16;
const NS: usize = 48;
type Model = [u64; NT];

fn tshift() -> u32 {
  Time::<u64>::shift_from_depth_max(DT) as u32
}
fn sshift() -> u32 {
  Hpx::<u64>::shift_from_depth_max(DS) as u32
}

struct Rng(u64);
impl Rng {
  fn next(&mut self) -> u64 {
    self.0 ^= self.0 << 13;
    self.0 ^= self.0 >> 7;
    self.0 ^= self.0 << 17;
    self.0
  }
  fn below(&mut self, n: u64) -> u64 {
    (self.next() >> 11) % n
  }
}

fn mask_to_cellranges(mask: u64, n: usize) -> Vec<Range<u64>> {
  let mut v = Vec::new();
  let mut i = 0;
  while i < n {
    if mask >> i & 1 == 1 {
      let s = i;
      while i < n && mask >> i & 1 == 1 {
        i += 1;
      }
      v.push(s as u64..i as u64);
    } else {
      i += 1;
    }
  }
  v
}
fn smask_to_moc(mask: u64) -> RangeMOC<u64, Hpx<u64>> {
  let sh = sshift();
  RangeMOC::new(
    DS,
    MocRanges::new_unchecked(
      mask_to_cellranges(mask, NS)
        .into_iter()
        .map(|r| r.start << sh..r.end << sh)
        .collect(),
    ),
  )
}
fn tmask_to_moc(mask: u64) -> RangeMOC<u64, Time<u64>> {
  let sh = tshift();
  RangeMOC::new(
    DT,
    MocRanges::new_unchecked(
      mask_to_cellranges(mask, NT)
        .into_iter()
        .map(|r| r.start << sh..r.end << sh)
        .collect(),
    ),
  )
}

fn elems_of(m: &ST) -> Vec<(Vec<Range<u64>>, Vec<Range<u64>>)> {
  m.into_range_moc2_iter()
    .map(|e: &Elem| {
      let (t, s) = e.clone().mocs();
      (
        t.into_range_moc_iter().collect::<Vec<_>>(),
        s.into_range_moc_iter().collect::<Vec<_>>(),
      )
    })
    .collect()
}

fn to_model(m: &ST) -> Result<Model, String> {
  let mut model = [0u64; NT];
  let (tsh, ssh) = (tshift(), sshift());
  for (ts, ss) in elems_of(m) {
    let mut smask = 0u64;
    for r in &ss {
      if r.start & ((1 << ssh) - 1) != 0 || r.end & ((1 << ssh) - 1) != 0 {
        return Err(format!("space range not aligned {:?}", r));
      }
      for c in (r.start >> ssh)..(r.end >> ssh) {
        smask |= 1 << c;
      }
    }
    for r in &ts {
      if r.start & ((1 << tsh) - 1) != 0 || r.end & ((1 << tsh) - 1) != 0 {
        return Err(format!("time range not aligned {:?}", r));
      }
      for c in (r.start >> tsh)..(r.end >> tsh) {
        model[c as usize] |= smask;
      }
    }
  }
  Ok(model)
}

fn canonical(v: &[Range<u64>]) -> bool {
  v.iter().all(|r| r.start < r.end) && v.windows(2).all(|w| w[0].end < w[1].start)
}

/// Validity as in C08: non-empty canonical T and S, T pairwise disjoint, ordered by time.
fn validate(m: &ST) -> Vec<String> {
  let mut pb = Vec::new();
  let es = elems_of(m);
  for (i, (t, s)) in es.iter().enumerate() {
    if t.is_empty() {
      pb.push(format!("elem {} empty time", i));
    }
    if s.is_empty() {
      pb.push(format!("elem {} empty space", i));
    }
    if !canonical(t) {
      pb.push(format!("elem {} time not canonical {:?}", i, t));
    }
    if !canonical(s) {
      pb.push(format!("elem {} space not canonical {:?}", i, s));
    }
  }
  // pairwise disjoint
  let mut all: Vec<(Range<u64>, usize)> = Vec::new();
  for (i, (t, _)) in es.iter().enumerate() {
    for r in t {
      all.push((r.clone(), i));
    }
  }
  all.sort_by_key(|(r, _)| r.start);
  for w in all.windows(2) {
    if w[0].0.end > w[1].0.start {
      pb.push(format!("overlapping time ranges {:?} {:?}", w[0], w[1]));
    }
  }
  for w in es.windows(2) {
    if let (Some(a), Some(b)) = (w[0].0.first(), w[1].0.first()) {
      if a.start >= b.start {
        pb.push("elements not ordered by first time".to_string());
      }
    }
  }
  pb
}

/// Flat validity as in C10: disjoint increasing time ranges, touching with identical S fused.
fn validate_flat(m: &ST) -> Vec<String> {
  let mut pb = validate(m);
  let es = elems_of(m);
  let mut flat: Vec<(Range<u64>, Vec<Range<u64>>)> = Vec::new();
  for (t, s) in &es {
    for r in t {
      flat.push((r.clone(), s.clone()));
    }
  }
  for w in flat.windows(2) {
    if w[0].0.end > w[1].0.start {
      pb.push(format!("flat not increasing {:?} {:?}", w[0].0, w[1].0));
    }
    if w[0].0.end == w[1].0.start && w[0].1 == w[1].1 {
      pb.push(format!("touching with same S not fused {:?} {:?}", w[0].0, w[1].0));
    }
  }
  pb
}

/// Random flat valid ST-MOC description: list of (time cell range, smask), sorted, disjoint, fused.
fn gen_flat(rng: &mut Rng, palette: &[u64]) -> Vec<(Range<u64>, u64)> {
  let mut v: Vec<(Range<u64>, u64)> = Vec::new();
  let mut t = 0u64;
  let density = 1 + rng.below(4);
  while t < NT as u64 {
    let len = 1 + rng.below(3);
    let end = (t + len).min(NT as u64);
    if rng.below(4) < density {
      let s = palette[rng.below(palette.len() as u64) as usize];
      if s != 0 {
        match v.last_mut() {
          Some((lr, ls)) if lr.end == t && *ls == s => lr.end = end,
          _ => v.push((t..end, s)),
        }
      }
    }
    t = end;
  }
  v
}

fn gen_palette(rng: &mut Rng) -> Vec<u64> {
  let n = 1 + rng.below(4);
  (0..n)
    .map(|_| {
      let k = rng.below(4);
      let mut m = 0u64;
      match k {
        0 => m = 1 << rng.below(NS as u64),
        1 => {
          for _ in 0..3 {
            m |= 1 << rng.below(NS as u64);
          }
        }
        2 => {
          let a = rng.below(NS as u64);
          let b = a + 1 + rng.below(NS as u64 - a);
          for c in a..b {
            m |= 1 << c;
          }
        }
        _ => m = rng.next() & ((1 << NS) - 1),
      }
      m
    })
    .collect()
}

/// grouping: 0 = one elem per range, 1 = group consecutive equal S (like TimeSpaceRangesIter)
fn flat_to_st(flat: &[(Range<u64>, u64)], grouping: u8) -> ST {
  let tsh = tshift();
  let mut elems: Vec<Elem> = Vec::new();
  let mut i = 0;
  while i < flat.len() {
    let s = flat[i].1;
    let mut tr = vec![flat[i].0.start << tsh..flat[i].0.end << tsh];
    i += 1;
    if grouping == 1 {
      while i < flat.len() && flat[i].1 == s {
        tr.push(flat[i].0.start << tsh..flat[i].0.end << tsh);
        i += 1;
      }
    }
    elems.push(RangeMOC2Elem::new(
      RangeMOC::new(DT, MocRanges::new_unchecked(tr)),
      smask_to_moc(s),
    ));
  }
  RangeMOC2::new(DT, DS, elems)
}

fn flat_model(flat: &[(Range<u64>, u64)]) -> Model {
  let mut m = [0u64; NT];
  for (r, s) in flat {
    for t in r.clone() {
      m[t as usize] |= s;
    }
  }
  m
}

fn panic_msg(e: Box<dyn std::any::Any + Send>) -> String {
  if let Some(s) = e.downcast_ref::<String>() {
    s.clone()
  } else if let Some(s) = e.downcast_ref::<&str>() {
    s.to_string()
  } else {
    "?".into()
  }
}

struct Tally(BTreeMap<String, (usize, String)>);
impl Tally {
  fn add(&mut self, key: String, example: String) {
    let e = self.0.entry(key).or_insert((0, example));
    e.0 += 1;
  }
  fn report(&self) {
    for (k, (n, ex)) in &self.0 {
      println!("FAIL [{}] x{}\n    e.g. {}", k, n, ex);
    }
    if self.0.is_empty() {
      println!("no failure");
    }
  }
}

fn section_ops(n: usize, seed: u64) {
  let mut rng = Rng(seed);
  let store = U64MocStore::get_global_store();
  let mut tally = Tally(BTreeMap::new());
  for _ in 0..n {
    let pal = gen_palette(&mut rng);
    let fa = gen_flat(&mut rng, &pal);
    let fb = gen_flat(&mut rng, &pal);
    let (ga, gb) = (rng.below(2) as u8, rng.below(2) as u8);
    let a = flat_to_st(&fa, ga);
    let b = flat_to_st(&fb, gb);
    let (ma, mb) = (flat_model(&fa), flat_model(&fb));
    let desc = format!("A={:?} (g{}) B={:?} (g{})", fa, ga, fb, gb);
    assert!(validate_flat(&a).is_empty(), "{:?}", validate_flat(&a));
    assert_eq!(to_model(&a).unwrap(), ma);
    let ia = store.insert_stmoc(a.clone()).unwrap();
    let ib = store.insert_stmoc(b.clone()).unwrap();
    for (name, op) in [("union", 0), ("inter", 1), ("minus", 2)] {
      let res = catch_unwind(AssertUnwindSafe(|| match op {
        0 => store.union(ia, ib),
        1 => store.intersection(ia, ib),
        _ => store.minus(ia, ib),
      }));
      match res {
        Err(e) => tally.add(format!("store {} panic: {}", name, panic_msg(e)), desc.clone()),
        Ok(Err(e)) => tally.add(format!("store {} err: {}", name, e), desc.clone()),
        Ok(Ok(ir)) => {
          let r = store.drop_stmoc(ir).unwrap().unwrap();
          let mut exp = [0u64; NT];
          for t in 0..NT {
            exp[t] = match op {
              0 => ma[t] | mb[t],
              1 => ma[t] & mb[t],
              _ => ma[t] & !mb[t],
            };
          }
          match to_model(&r) {
            Err(e) => tally.add(format!("store {} result: {}", name, e), desc.clone()),
            Ok(m) => {
              if m != exp {
                tally.add(format!("store {} wrong point set", name), desc.clone());
              }
            }
          }
          for p in validate_flat(&r) {
            let key: String = p.split(|c: char| c.is_ascii_digit()).next().unwrap().to_string();
            tally.add(format!("store {} invalid: {}", name, key), format!("{} -> {}", desc, p));
          }
          if r.depth_max_1() != DT || r.depth_max_2() != DS {
            tally.add(format!("store {} depths", name), desc.clone());
          }
        }
      }
    }
    // lookups
    let ssh = sshift();
    let tsh = tshift();
    for t in 0..NT as u64 {
      for probe_t in [t << tsh, ((t + 1) << tsh) - 1, (t << tsh) + 12345] {
        for sc in [0u64, 1, 5, 17, 47, rng.below(NS as u64)] {
          for probe_s in [sc << ssh, ((sc + 1) << ssh) - 1] {
            let exp = ma[t as usize] >> sc & 1 == 1;
            let got = catch_unwind(AssertUnwindSafe(|| a.contains_val(&probe_t, &probe_s)));
            match got {
              Err(e) => tally.add(format!("contains_val panic {}", panic_msg(e)), desc.clone()),
              Ok(g) => {
                if g != exp {
                  tally.add(
                    "contains_val wrong".into(),
                    format!("{} probe t={} s={} exp {}", desc, probe_t, probe_s, exp),
                  );
                }
              }
            }
            // Ranges2D::contains
            let flat2d = TimeSpaceMoc::from_ranges_it_gen((&a).into_range_moc2_iter());
            let got = catch_unwind(AssertUnwindSafe(|| {
              flat2d.contains(probe_t, &(probe_s..probe_s + 1))
            }));
            match got {
              Err(e) => tally.add(format!("2d contains panic {}", panic_msg(e)), desc.clone()),
              Ok(g) => {
                if g != exp {
                  tally.add(
                    "2d contains wrong".into(),
                    format!("{} probe t={} s={} exp {}", desc, probe_t, probe_s, exp),
                  );
                }
              }
            }
          }
        }
      }
    }
    // folds
    let tm = rng.next() & 0xFFFF & rng.next();
    let tmoc = tmask_to_moc(tm);
    let it = store.insert_tmoc(tmoc).unwrap();
    match catch_unwind(AssertUnwindSafe(|| store.time_fold(it, ia))) {
      Err(e) => tally.add(format!("tfold panic {}", panic_msg(e)), desc.clone()),
      Ok(Err(e)) => tally.add(format!("tfold err {}", e), desc.clone()),
      Ok(Ok(ir)) => {
        let r = store.drop_smoc(ir).unwrap().unwrap();
        let mut exp = 0u64;
        for t in 0..NT {
          if tm >> t & 1 == 1 {
            exp |= ma[t];
          }
        }
        let got: Vec<Range<u64>> = r.into_range_moc_iter().collect();
        let expv: Vec<Range<u64>> = smask_to_moc(exp).into_range_moc_iter().collect();
        if got != expv {
          tally.add("tfold wrong".into(), format!("{} T={:#x}", desc, tm));
        }
      }
    }
    let sm = if rng.below(3) == 0 {
      rng.next() & ((1 << NS) - 1)
    } else {
      // union of some palette entries plus noise
      let mut m = 0;
      for p in &pal {
        if rng.below(2) == 0 {
          m |= p;
        }
      }
      m
    };
    let is = store.insert_smoc(smask_to_moc(sm)).unwrap();
    match catch_unwind(AssertUnwindSafe(|| store.space_fold(is, ia))) {
      Err(e) => tally.add(format!("sfold panic {}", panic_msg(e)), desc.clone()),
      Ok(Err(e)) => tally.add(format!("sfold err {}", e), desc.clone()),
      Ok(Ok(ir)) => {
        let r = store.drop_tmoc(ir).unwrap().unwrap();
        let mut exp = 0u64;
        for t in 0..NT {
          if ma[t] != 0 && ma[t] & !sm == 0 {
            exp |= 1 << t;
          }
        }
        let got: Vec<Range<u64>> = r.into_range_moc_iter().collect();
        let expv: Vec<Range<u64>> = tmask_to_moc(exp).into_range_moc_iter().collect();
        if got != expv {
          tally.add(
            "sfold wrong".into(),
            format!("{} S={:#x} got {:?} exp {:?}", desc, sm, got, expv),
          );
        }
      }
    }
    let _ = store.drop(ia);
    let _ = store.drop(ib);
    let _ = store.drop(it);
    let _ = store.drop(is);
  }
  tally.report();
}

fn section_serde(n: usize, seed: u64) {
  let mut rng = Rng(seed);
  let mut tally = Tally(BTreeMap::new());
  for k in 0..n {
    let pal = gen_palette(&mut rng);
    let fa = if k == 0 { vec![] } else { gen_flat(&mut rng, &pal) };
    let ga = rng.below(2) as u8;
    let a = flat_to_st(&fa, ga);
    let ma = flat_model(&fa);
    let desc = format!("A={:?} (g{})", fa, ga);
    // FITS
    {
      let mut buf = Vec::new();
      ranges2d_to_fits_ivoa((&a).into_range_moc2_iter(), None, None, &mut buf).unwrap();
      let back = match from_fits_ivoa(Cursor::new(&buf[..])) {
        Ok(MocIdxType::U64(MocQtyType::TimeHpx(STMocType::V2(it)))) => Some(it.into_range_moc2()),
        Ok(_) => None,
        Err(e) => {
          tally.add(format!("fits read err {}", e), desc.clone());
          None
        }
      };
      if let Some(b) = back {
        if to_model(&b) != Ok(ma) {
          tally.add("fits wrong point set".into(), desc.clone());
        }
        if b.depth_max_1() != DT || b.depth_max_2() != DS {
          tally.add("fits depths".into(), desc.clone());
        }
        let mut buf2 = Vec::new();
        ranges2d_to_fits_ivoa((&b).into_range_moc2_iter(), None, None, &mut buf2).unwrap();
        if buf != buf2 {
          tally.add("fits reserialise differs".into(), desc.clone());
        }
      } else {
        tally.add("fits wrong type".into(), desc.clone());
      }
    }
    for fold in [None, Some(0usize), Some(1), Some(10), Some(40), Some(80)] {
      // ASCII
      let mut buf = Vec::new();
      (&a)
        .into_range_moc2_iter()
        .into_cellcellrange_moc2_iter()
        .to_ascii_ivoa(fold, false, &mut buf)
        .unwrap();
      let txt = String::from_utf8(buf.clone()).unwrap();
      match catch_unwind(AssertUnwindSafe(|| {
        moc2d_from_ascii_ivoa::<u64, Time<u64>, u64, Hpx<u64>>(&txt)
      })) {
        Err(e) => tally.add(format!("ascii parse panic {}", panic_msg(e)), desc.clone()),
        Ok(Err(e)) => tally.add(
          format!("ascii parse err fold={:?} {}", fold, e),
          format!("{} txt={:?}", desc, txt),
        ),
        Ok(Ok(c)) => {
          let b = c
            .into_cellcellrange_moc2_iter()
            .into_range_moc2_iter()
            .into_range_moc2();
          if to_model(&b) != Ok(ma) {
            tally.add(format!("ascii wrong point set fold={:?}", fold), format!("{} txt={:?}", desc, txt));
          }
          if b.depth_max_1() != DT || b.depth_max_2() != DS {
            tally.add(format!("ascii depths fold={:?}", fold), format!("{} txt={:?}", desc, txt));
          }
          let mut buf2 = Vec::new();
          (&b)
            .into_range_moc2_iter()
            .into_cellcellrange_moc2_iter()
            .to_ascii_ivoa(fold, false, &mut buf2)
            .unwrap();
          if buf != buf2 {
            tally.add(
              format!("ascii reserialise differs fold={:?}", fold),
              format!("{} txt={:?} txt2={:?}", desc, txt, String::from_utf8_lossy(&buf2)),
            );
          }
          for p in validate(&b) {
            tally.add(format!("ascii decoded invalid fold={:?}", fold), format!("{} {}", desc, p));
          }
        }
      }
      // JSON
      let mut buf = Vec::new();
      (&a)
        .into_range_moc2_iter()
        .into_cell_moc2_iter()
        .to_json_aladin(&fold, &mut buf)
        .unwrap();
      let txt = String::from_utf8(buf.clone()).unwrap();
      match catch_unwind(AssertUnwindSafe(|| {
        cellmoc2d_from_json_aladin::<u64, Time<u64>, u64, Hpx<u64>>(&txt)
      })) {
        Err(e) => tally.add(format!("json parse panic {}", panic_msg(e)), desc.clone()),
        Ok(Err(e)) => tally.add(
          format!("json parse err fold={:?} {}", fold, e),
          format!("{} txt={:?}", desc, txt),
        ),
        Ok(Ok(c)) => {
          let b = c.into_cell_moc2_iter().into_range_moc2_iter().into_range_moc2();
          if to_model(&b) != Ok(ma) {
            tally.add(format!("json wrong point set fold={:?}", fold), format!("{} txt={:?}", desc, txt));
          }
          if b.depth_max_1() != DT || b.depth_max_2() != DS {
            tally.add(format!("json depths fold={:?}", fold), format!("{} txt={:?}", desc, txt));
          }
          let mut buf2 = Vec::new();
          (&b)
            .into_range_moc2_iter()
            .into_cell_moc2_iter()
            .to_json_aladin(&fold, &mut buf2)
            .unwrap();
          if buf != buf2 {
            tally.add(format!("json reserialise differs fold={:?}", fold), format!("{} txt={:?}", desc, txt));
          }
        }
      }
    }
  }
  tally.report();
}

fn section_build(n: usize, seed: u64) {
  let mut rng = Rng(seed);
  let mut tally = Tally(BTreeMap::new());
  let tsh = tshift();
  for _ in 0..n {
    // (time cell, space cell) observations
    let nobs = 1 + rng.below(8) as usize;
    let ntv = 1 + rng.below(NT as u64);
    let nsv = 1 + rng.below(6);
    let obs: Vec<(u64, u64)> = (0..nobs)
      .map(|_| (rng.below(ntv), rng.below(nsv) * 7 % NS as u64))
      .collect();
    let mut exp = [0u64; NT];
    for (t, s) in &obs {
      exp[*t as usize] |= 1 << s;
    }
    let desc = format!("obs={:?}", obs);
    for cap in [None, Some(1usize), Some(2), Some(3), Some(5)] {
      let r = catch_unwind(AssertUnwindSafe(|| {
        ST::from_fixed_depth_cells(DT, DS, obs.iter().cloned(), cap)
      }));
      match r {
        Err(e) => tally.add(format!("cells builder cap={:?} panic {}", cap, panic_msg(e)), desc.clone()),
        Ok(m) => {
          if to_model(&m) != Ok(exp) {
            tally.add(format!("cells builder cap={:?} wrong point set", cap), desc.clone());
          }
          for p in validate(&m) {
            let key: String = p.split(|c: char| c.is_ascii_digit()).next().unwrap().to_string();
            tally.add(format!("cells builder cap={:?} invalid {}", cap, key), format!("{} {}", desc, p));
          }
        }
      }
    }
    // range-2D path
    let r = catch_unwind(AssertUnwindSafe(|| {
      let m = TimeSpaceMoc::<u64, u64>::create_from_times_positions(
        obs.iter().map(|(t, _)| (t << tsh) + 77).collect(),
        obs.iter().map(|(_, s)| *s).collect(),
        DT,
        DS,
      );
      m.time_space_iter(DT, DS).into_range_moc2()
    }));
    match r {
      Err(e) => tally.add(format!("2d times_positions panic {}", panic_msg(e)), desc.clone()),
      Ok(m) => {
        if to_model(&m) != Ok(exp) {
          tally.add("2d times_positions wrong point set".into(), desc.clone());
        }
        for p in validate_flat(&m) {
          tally.add("2d times_positions invalid".into(), format!("{} {}", desc, p));
        }
      }
    }
    // (time range, space cell) observations
    let robs: Vec<(Range<u64>, u64)> = (0..nobs)
      .map(|_| {
        let a = rng.below(ntv);
        let b = a + 1 + rng.below(3);
        (a..b.min(NT as u64), rng.below(nsv) * 7 % NS as u64)
      })
      .collect();
    let mut exp = [0u64; NT];
    for (r, s) in &robs {
      for t in r.clone() {
        exp[t as usize] |= 1 << s;
      }
    }
    let desc = format!("robs={:?}", robs);
    for cap in [None, Some(1usize), Some(2), Some(3), Some(5)] {
      for jitter in [false, true] {
        let r = catch_unwind(AssertUnwindSafe(|| {
          ST::from_ranges_and_fixed_depth_cells(
            DT,
            DS,
            robs.iter().map(|(r, s)| {
              if jitter {
                ((r.start << tsh) + 5..(r.end << tsh) - 3, *s)
              } else {
                (r.start << tsh..r.end << tsh, *s)
              }
            }),
            cap,
          )
        }));
        match r {
          Err(e) => tally.add(
            format!("ranges builder cap={:?} panic {}", cap, panic_msg(e)),
            desc.clone(),
          ),
          Ok(m) => {
            if to_model(&m) != Ok(exp) {
              tally.add(format!("ranges builder cap={:?} wrong point set", cap), desc.clone());
            }
            for p in validate(&m) {
              let key: String = p.split(|c: char| c.is_ascii_digit()).next().unwrap().to_string();
              tally.add(
                format!("ranges builder cap={:?} invalid {}", cap, key),
                format!("{} {}", desc, p),
              );
            }
          }
        }
      }
    }
    let r = catch_unwind(AssertUnwindSafe(|| {
      let m = TimeSpaceMoc::<u64, u64>::create_from_time_ranges_positions(
        robs.iter().map(|(r, _)| (r.start << tsh) + 5..(r.end << tsh) - 3).collect(),
        robs.iter().map(|(_, s)| *s).collect(),
        DT,
        DS,
      );
      m.time_space_iter(DT, DS).into_range_moc2()
    }));
    match r {
      Err(e) => tally.add(format!("2d ranges_positions panic {}", panic_msg(e)), desc.clone()),
      Ok(m) => {
        if to_model(&m) != Ok(exp) {
          tally.add("2d ranges_positions wrong point set".into(), desc.clone());
        }
        for p in validate_flat(&m) {
          tally.add("2d ranges_positions invalid".into(), format!("{} {}", desc, p));
        }
      }
    }
  }
  tally.report();
}

fn main() {
  std::panic::set_hook(Box::new(|_| {}));
  let args: Vec<String> = std::env::args().collect();
  let section = args.get(1).map(|s| s.as_str()).unwrap_or("all");
  let n: usize = args.get(2).and_then(|s| s.parse().ok()).unwrap_or(300);
  let seed: u64 = args.get(3).and_then(|s| s.parse().ok()).unwrap_or(0x9E3779B97F4A7C15);
  if section == "ops" || section == "all" {
    println!("== ops ==");
    section_ops(n, seed);
  }
  if section == "serde" || section == "all" {
    println!("== serde ==");
    section_serde(n, seed);
  }
  if section == "build" || section == "all" {
    println!("== build ==");
    section_build(n, seed);
  }
}
