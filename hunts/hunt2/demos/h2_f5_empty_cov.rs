// Finding 5: an observation (time range, EMPTY space coverage) yields an ST-MOC element with an empty
// S-MOC; written to FITS, its time ranges are glued to the next element on reading.
use std::io::Cursor;
use std::ops::Range;

use moc::deser::fits::{from_fits_ivoa, ranges2d_to_fits_ivoa, MocIdxType, MocQtyType, STMocType};
use moc::elemset::range::{HpxRanges, MocRanges};
use moc::hpxranges2d::TimeSpaceMoc;
use moc::moc::RangeMOCIntoIterator;
use moc::moc2d::range::RangeMOC2;
use moc::moc2d::{RangeMOC2IntoIterator, RangeMOC2Iterator};
use moc::qty::{Hpx, Time};
use moc::storage::u64idx::U64MocStore;

type ST = RangeMOC2<u64, Time<u64>, u64, Hpx<u64>>;

fn dump(m: &ST) -> Vec<(Vec<Range<u64>>, Vec<u64>)> {
  m.into_range_moc2_iter()
    .map(|e| {
      let (t, s) = e.clone().mocs();
      (
        t.into_range_moc_iter().collect(),
        s.into_range_moc_iter().flat_map(|r| (r.start >> 58)..(r.end >> 58)).collect(),
      )
    })
    .collect()
}

fn main() {
  let mut fail = false;
  let cov = |cells: &[u64]| -> HpxRanges<u64> {
    MocRanges::new_unchecked(cells.iter().map(|c| c << 58..(c + 1) << 58).collect())
  };
  // obs: [0,10) x {} ; [20,30) x {cell 3}
  let store = U64MocStore::get_global_store();
  let idx = store
    .from_time_ranges_spatial_coverages(vec![0, 20], vec![10, 30], 61, vec![cov(&[]), cov(&[3])], 0)
    .unwrap();
  let m = store.drop_stmoc(idx).unwrap().unwrap();
  let d = dump(&m);
  println!("store result: {:?}", d);
  if d.iter().any(|(_, s)| s.is_empty()) {
    println!("FAIL the ST-MOC holds an element with an empty space MOC");
    fail = true;
  }
  let mut buf = Vec::new();
  ranges2d_to_fits_ivoa((&m).into_range_moc2_iter(), None, None, &mut buf).unwrap();
  if let Ok(MocIdxType::U64(MocQtyType::TimeHpx(STMocType::V2(it)))) = from_fits_ivoa(Cursor::new(&buf[..])) {
    let b: ST = it.into_range_moc2();
    println!("after FITS round trip: {:?}", dump(&b));
    if dump(&b) != vec![(vec![20..30], vec![3])] {
      println!("FAIL FITS round trip invents the pairs [0,10) x cell 3");
      fail = true;
    }
  }
  let idx = store.insert_stmoc(m.clone()).unwrap();
  println!("ascii: {}", store.to_ascii_str(idx, None).unwrap().trim());
  let _ = TimeSpaceMoc::<u64, u64>::default();
  std::process::exit(if fail { 1 } else { 0 });
}
