#!/bin/bash
# Finding 2 through the command-line tool: an instantaneous observation (tmin == tmax).
M=${1:-/tmp/wt_hunt2/target/debug/moc}
D=$(mktemp -d); cd "$D" || exit 2
rc=0
printf '100 200 10.0 20.0\n300 300 50.0 20.0\n' > obs.txt
out=$($M from timerangepos --time-type usec 61 3 obs.txt ascii 2>err.txt); st=$?
echo "depth 61, obs = [100,200)@(10,20), [300,300)@(50,20): exit=$st out='$out'"; grep -m1 -A1 panicked err.txt
[ $st -ne 0 ] && { echo "FAIL moc from timerangepos panics on tmin == tmax (the tool only rejects tmin > tmax)"; rc=1; }
printf '100 100 10.0 20.0\n' > obs2.txt
out=$($M from timerangepos --time-type usec 60 3 obs2.txt ascii 2>err.txt); st=$?
echo "depth 60, obs = [100,100): exit=$st out='$out'"; grep -m1 -A1 panicked err.txt
[ $st -ne 0 ] && { echo "FAIL depth 60, [100,100) (on a cell boundary) panics ..."; rc=1; }
printf '101 101 10.0 20.0\n' > obs3.txt
out=$($M from timerangepos --time-type usec 60 3 obs3.txt ascii 2>err.txt); st=$?
echo "depth 60, obs = [101,101): exit=$st out='$out'   (... while [101,101) silently covers the cell 60/50)"
exit $rc
