// Finding 2: an observation whose time range is empty after degradation (tmin == tmax on a cell
// boundary of the requested time depth; always the case at depth 61)
//  * shifts the positions of all the following observations in the range-2D path
//    (HpxRanges2D::create_from_time_ranges_positions / U64MocStore::create_from_time_ranges_positions),
//  * makes the streaming builder panic (RangeMOC2::from_ranges_and_fixed_depth_cells).
use std::ops::Range;
use std::panic::{catch_unwind, AssertUnwindSafe};

use moc::hpxranges2d::TimeSpaceMoc;
use moc::moc::RangeMOCIntoIterator;
use moc::moc2d::range::RangeMOC2;
use moc::moc2d::{RangeMOC2IntoIterator, RangeMOC2Iterator};
use moc::qty::{Hpx, Time};
use moc::storage::u64idx::U64MocStore;

type ST = RangeMOC2<u64, Time<u64>, u64, Hpx<u64>>;

fn dump(m: &ST) -> Vec<(Vec<Range<u64>>, Vec<u64>)> {
  m.into_range_moc2_iter()
    .map(|e| {
      let (t, s) = e.clone().mocs();
      (
        t.into_range_moc_iter().collect(),
        // space cells at depth 0 (shift 58)
        s.into_range_moc_iter().flat_map(|r| (r.start >> 58)..(r.end >> 58)).collect(),
      )
    })
    .collect()
}

fn main() {
  std::panic::set_hook(Box::new(|i| eprintln!("  (panic: {})", i)));
  let mut fail = false;
  // Observations, time depth 61 (1 microsecond), space depth 0:
  //   #0: [5, 5)   at cell 1   (instantaneous observation: tmin == tmax, covers nothing)
  //   #1: [10, 20) at cell 2
  //   #2: [30, 40) at cell 3
  let times: Vec<Range<u64>> = vec![5..5, 10..20, 30..40];
  let cells: Vec<u64> = vec![1, 2, 3];
  let expected = vec![(vec![10..20], vec![2u64]), (vec![30..40], vec![3u64])];
  println!("expected: {:?}", expected);

  // 1. range-2D path, library entry point
  let m = TimeSpaceMoc::<u64, u64>::create_from_time_ranges_positions(times.clone(), cells.clone(), 61, 0);
  let m: ST = m.time_space_iter(61, 0).into_range_moc2();
  let got = dump(&m);
  println!("range-2D path (HpxRanges2D::create_from_time_ranges_positions): {:?}", got);
  if got != expected {
    println!("FAIL range-2D path: observations are attached to the positions of the PREVIOUS observations");
    fail = true;
  }

  // 2. range-2D path, store entry point (the one used by MOCPy), positions given as lon/lat (rad)
  let store = U64MocStore::get_global_store();
  let layer = healpix::nested::get(0);
  let pos: Vec<(f64, f64)> = vec![(0.8, 0.1), (2.4, 0.1), (4.0, 0.1)];
  let pcells: Vec<u64> = pos.iter().map(|(l, b)| layer.hash(*l, *b)).collect();
  let expected2 = vec![(vec![10..20], vec![pcells[1]]), (vec![30..40], vec![pcells[2]])];
  let idx = store
    .create_from_time_ranges_positions(
      vec![5, 10, 30],
      vec![5, 20, 40],
      61,
      pos.iter().map(|p| p.0).collect(),
      pos.iter().map(|p| p.1).collect(),
      0,
    )
    .unwrap();
  let m = store.drop_stmoc(idx).unwrap().unwrap();
  let got = dump(&m);
  println!("store path: cells of the 3 positions = {:?}; expected {:?}; got {:?}", pcells, expected2, got);
  if got != expected2 {
    println!("FAIL store path (U64MocStore::create_from_time_ranges_positions): wrong (time, position) pairs");
    fail = true;
  }

  // 3. same thing with (time range, space coverage) observations
  let covs: Vec<moc::elemset::range::HpxRanges<u64>> = cells
    .iter()
    .map(|c| moc::elemset::range::MocRanges::new_unchecked(vec![c << 58..(c + 1) << 58]))
    .collect();
  let m = TimeSpaceMoc::<u64, u64>::create_from_time_ranges_spatial_coverage(times.clone(), covs, 61);
  let m: ST = m.time_space_iter(61, 0).into_range_moc2();
  let got = dump(&m);
  println!("range-2D path (create_from_time_ranges_spatial_coverage): {:?}", got);
  if got != expected {
    println!("FAIL range-2D path with space coverages: observations are attached to the coverage of the PREVIOUS observations");
    fail = true;
  }

  // 4. A single empty observation: nothing to cover -> empty ST-MOC expected
  let r = catch_unwind(AssertUnwindSafe(|| {
    TimeSpaceMoc::<u64, u64>::create_from_time_ranges_positions(vec![5..5], vec![1], 61, 0)
  }));
  match r {
    Ok(m) => println!("range-2D path, single empty observation: empty = {}", m.is_empty()),
    Err(_) => {
      println!("FAIL range-2D path, single empty observation: panic");
      fail = true;
    }
  }

  // 5. streaming builder
  for (name, obs) in [
    ("[(5..5, 1)]", vec![(5u64..5u64, 1u64)]),
    ("[(10..20, 2), (15..15, 3)]", vec![(10..20, 2), (15..15, 3)]),
    ("[(10..20, 2), (30..30, 3)]", vec![(10..20, 2), (30..30, 3)]),
  ] {
    let r = catch_unwind(AssertUnwindSafe(|| {
      ST::from_ranges_and_fixed_depth_cells(61, 0, obs.clone().into_iter(), None)
    }));
    match r {
      Ok(m) => println!("streaming builder {}: {:?}", name, dump(&m)),
      Err(_) => {
        println!("FAIL streaming builder {}: panic", name);
        fail = true;
      }
    }
  }
  // Same at a coarser depth: time depth 60 (cells of 2 us): [4,4) is on a cell boundary, [5,5) is not.
  for (name, obs) in [("depth 60 [(5..5, 1)]", vec![(5u64..5u64, 1u64)]), ("depth 60 [(4..4, 1)]", vec![(4..4, 1)])] {
    let r = catch_unwind(AssertUnwindSafe(|| {
      ST::from_ranges_and_fixed_depth_cells(60, 0, obs.clone().into_iter(), None)
    }));
    match r {
      Ok(m) => println!("streaming builder {}: {:?}", name, dump(&m)),
      Err(_) => {
        println!("FAIL streaming builder {}: panic", name);
        fail = true;
      }
    }
  }
  std::process::exit(if fail { 1 } else { 0 });
}
