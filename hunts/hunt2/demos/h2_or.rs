// Fuzz of the streaming ST-MOC union with operands of possibly different depths.
use std::collections::BTreeMap;
use std::ops::Range;
use std::panic::{catch_unwind, AssertUnwindSafe};

use moc::elemset::range::MocRanges;
use moc::moc::range::RangeMOC;
use moc::moc::{HasMaxDepth, RangeMOCIntoIterator};
use moc::moc2d::range::{RangeMOC2, RangeMOC2Elem};
use moc::moc2d::{
  CellMOC2IntoIterator, CellMOC2Iterator, CellOrCellRangeMOC2IntoIterator,
  CellOrCellRangeMOC2Iterator, HasTwoMaxDepth, RangeMOC2IntoIterator, RangeMOC2Iterator,
};
use moc::qty::{Hpx, MocQty, Time};

type ST = RangeMOC2<u64, Time<u64>, u64, Hpx<u64>>;
type Elem = RangeMOC2Elem<u64, Time<u64>, u64, Hpx<u64>>;

// fine model: time depth 4 (32 cells), space depth 1 (48 cells)
const FT: u8 = 4;
const FS: u8 = 1;
const NT: usize = 32;
type Model = [u64; NT];

struct Rng(u64);
impl Rng {
  fn next(&mut self) -> u64 {
    self.0 ^= self.0 << 13;
    self.0 ^= self.0 >> 7;
    self.0 ^= self.0 << 17;
    self.0
  }
  fn below(&mut self, n: u64) -> u64 {
    (self.next() >> 11) % n
  }
}

fn tsh(d: u8) -> u32 {
  Time::<u64>::shift_from_depth_max(d) as u32
}
fn ssh(d: u8) -> u32 {
  Hpx::<u64>::shift_from_depth_max(d) as u32
}
fn ncell_t(d: u8) -> u64 {
  2 << d
}
fn ncell_s(d: u8) -> u64 {
  12 << (2 * d)
}

fn mask_to_cellranges(mask: u64, n: u64) -> Vec<Range<u64>> {
  let mut v = Vec::new();
  let mut i = 0;
  while i < n {
    if mask >> i & 1 == 1 {
      let s = i;
      while i < n && mask >> i & 1 == 1 {
        i += 1;
      }
      v.push(s..i);
    } else {
      i += 1;
    }
  }
  v
}

fn elems_of(m: &ST) -> Vec<(u8, Vec<Range<u64>>, u8, Vec<Range<u64>>)> {
  m.into_range_moc2_iter()
    .map(|e: &Elem| {
      let (t, s) = e.clone().mocs();
      (
        t.depth_max(),
        t.into_range_moc_iter().collect::<Vec<_>>(),
        s.depth_max(),
        s.into_range_moc_iter().collect::<Vec<_>>(),
      )
    })
    .collect()
}

fn to_model(m: &ST) -> Result<Model, String> {
  let mut model = [0u64; NT];
  let (tsh, ssh) = (tsh(FT), ssh(FS));
  for (_, ts, _, ss) in elems_of(m) {
    let mut smask = 0u64;
    for r in &ss {
      if r.start & ((1 << ssh) - 1) != 0 || r.end & ((1 << ssh) - 1) != 0 {
        return Err(format!("space range not aligned {:?}", r));
      }
      for c in (r.start >> ssh)..(r.end >> ssh) {
        smask |= 1 << c;
      }
    }
    for r in &ts {
      if r.start & ((1 << tsh) - 1) != 0 || r.end & ((1 << tsh) - 1) != 0 {
        return Err(format!("time range not aligned {:?}", r));
      }
      for c in (r.start >> tsh)..(r.end >> tsh) {
        model[c as usize] |= smask;
      }
    }
  }
  Ok(model)
}

fn canonical(v: &[Range<u64>]) -> bool {
  v.iter().all(|r| r.start < r.end) && v.windows(2).all(|w| w[0].end < w[1].start)
}

fn validate(m: &ST) -> Vec<String> {
  let mut pb = Vec::new();
  let es = elems_of(m);
  for (i, (dt, t, ds, s)) in es.iter().enumerate() {
    if t.is_empty() {
      pb.push(format!("KNOWN? elem {} empty time", i));
    }
    if s.is_empty() {
      pb.push(format!("elem {} empty space", i));
    }
    if !canonical(t) {
      pb.push("KNOWN time not canonical".to_string());
    }
    if !canonical(s) {
      pb.push(format!("elem {} space not canonical {:?}", i, s));
    }
    // element depth consistent with its ranges
    let sh = tsh(*dt);
    if t.iter().any(|r| r.start & ((1 << sh) - 1) != 0 || r.end & ((1 << sh) - 1) != 0) {
      pb.push(format!("elem time MOC depth {} too small for its ranges", dt));
    }
    let sh = ssh(*ds);
    if s.iter().any(|r| r.start & ((1 << sh) - 1) != 0 || r.end & ((1 << sh) - 1) != 0) {
      pb.push(format!("elem space MOC depth {} too small for its ranges", ds));
    }
    if *dt > m.depth_max_1() || *ds > m.depth_max_2() {
      pb.push("elem depth larger than moc2 depth".to_string());
    }
  }
  let mut all: Vec<(Range<u64>, usize)> = Vec::new();
  for (i, (_, t, _, _)) in es.iter().enumerate() {
    for r in t {
      all.push((r.clone(), i));
    }
  }
  all.sort_by_key(|(r, _)| r.start);
  let mut overlap = false;
  for w in all.windows(2) {
    if w[0].0.end > w[1].0.start {
      overlap = true;
    }
  }
  if overlap {
    pb.push("KNOWN overlapping elements".to_string());
  }
  let mut unordered = false;
  for w in es.windows(2) {
    if let (Some(a), Some(b)) = (w[0].1.first(), w[1].1.first()) {
      if a.start >= b.start {
        unordered = true;
      }
    }
  }
  if unordered {
    pb.push(if overlap {
      "unordered (with overlap)".to_string()
    } else {
      "unordered WITHOUT overlap".to_string()
    });
  }
  pb
}

fn gen_flat(rng: &mut Rng, palette: &[u64], nt: u64) -> Vec<(Range<u64>, u64)> {
  let mut v: Vec<(Range<u64>, u64)> = Vec::new();
  let mut t = 0u64;
  let density = 1 + rng.below(4);
  while t < nt {
    let len = 1 + rng.below(3);
    let end = (t + len).min(nt);
    if rng.below(4) < density {
      let s = palette[rng.below(palette.len() as u64) as usize];
      if s != 0 {
        match v.last_mut() {
          Some((lr, ls)) if lr.end == t && *ls == s => lr.end = end,
          _ => v.push((t..end, s)),
        }
      }
    }
    t = end;
  }
  v
}

fn gen_palette(rng: &mut Rng, ns: u64) -> Vec<u64> {
  let n = 1 + rng.below(4);
  (0..n)
    .map(|_| {
      let k = rng.below(4);
      let mut m = 0u64;
      match k {
        0 => m = 1 << rng.below(ns),
        1 => {
          for _ in 0..3 {
            m |= 1 << rng.below(ns);
          }
        }
        2 => {
          let a = rng.below(ns);
          let b = a + 1 + rng.below(ns - a);
          for c in a..b {
            m |= 1 << c;
          }
        }
        _ => m = rng.next() & ((1 << ns) - 1),
      }
      m
    })
    .collect()
}

fn flat_to_st(flat: &[(Range<u64>, u64)], grouping: u8, dt: u8, ds: u8) -> ST {
  let tsh = tsh(dt);
  let ssh = ssh(ds);
  let mut elems: Vec<Elem> = Vec::new();
  let mut i = 0;
  while i < flat.len() {
    let s = flat[i].1;
    let mut tr = vec![flat[i].0.start << tsh..flat[i].0.end << tsh];
    i += 1;
    if grouping == 1 {
      while i < flat.len() && flat[i].1 == s {
        tr.push(flat[i].0.start << tsh..flat[i].0.end << tsh);
        i += 1;
      }
    }
    elems.push(RangeMOC2Elem::new(
      RangeMOC::new(dt, MocRanges::new_unchecked(tr)),
      RangeMOC::new(
        ds,
        MocRanges::new_unchecked(
          mask_to_cellranges(s, ncell_s(ds))
            .into_iter()
            .map(|r| r.start << ssh..r.end << ssh)
            .collect(),
        ),
      ),
    ));
  }
  RangeMOC2::new(dt, ds, elems)
}

fn panic_msg(e: Box<dyn std::any::Any + Send>) -> String {
  if let Some(s) = e.downcast_ref::<String>() {
    s.clone()
  } else if let Some(s) = e.downcast_ref::<&str>() {
    s.to_string()
  } else {
    "?".into()
  }
}

fn main() {
  use std::sync::Mutex;
  static LAST_LOC: Mutex<String> = Mutex::new(String::new());
  std::panic::set_hook(Box::new(|info| {
    if let Some(l) = info.location() {
      *LAST_LOC.lock().unwrap() = format!("{}:{}", l.file(), l.line());
    }
  }));
  let args: Vec<String> = std::env::args().collect();
  let n: usize = args.get(1).and_then(|s| s.parse().ok()).unwrap_or(300);
  let seed: u64 = args.get(2).and_then(|s| s.parse().ok()).unwrap_or(0x9E3779B97F4A7C15);
  let same_depth = args.get(3).map(|s| s == "same").unwrap_or(false);
  let verbose = args.get(4).is_some();
  let mut rng = Rng(seed);
  let mut tally: BTreeMap<String, (usize, String)> = BTreeMap::new();
  let mut add = |k: String, ex: String| {
    let e = tally.entry(k).or_insert((0, ex.clone()));
    e.0 += 1;
    if ex.len() < e.1.len() { e.1 = ex; }
  };
  for k in 0..n {
    let small = std::env::var("H2_SMALL").is_ok();
    let (dta, dsa) = if small { (2, 0) } else if same_depth { (FT, FS) } else { (3 + rng.below(2) as u8, rng.below(2) as u8) };
    let (dtb, dsb) = if small { (2, 0) } else if same_depth { (FT, FS) } else { (3 + rng.below(2) as u8, rng.below(2) as u8) };
    let pa = if small { vec![1, 2, 3, 4, 5, 6, 7] } else { gen_palette(&mut rng, ncell_s(dsa)) };
    let mut pb = gen_palette(&mut rng, ncell_s(dsb));
    if same_depth && rng.below(3) != 0 {
      // related palettes: same masks, sub-masks and super-masks
      pb = pa.clone();
      for m in pa.iter() {
        if rng.below(2) == 0 { pb.push(m & rng.next()); }
        if rng.below(2) == 0 { pb.push((m | rng.next()) & ((1 << ncell_s(dsb)) - 1)); }
      }
      pb.retain(|m| *m != 0);
    }
    let fa = if k % 17 == 0 { vec![] } else { gen_flat(&mut rng, &pa, ncell_t(dta)) };
    let fb = if k % 23 == 0 { vec![] } else if k % 29 == 0 && dta == dtb && dsa == dsb { fa.clone() } else { gen_flat(&mut rng, &pb, ncell_t(dtb)) };
    let (ga, gb) = (rng.below(2) as u8, rng.below(2) as u8);
    let a = flat_to_st(&fa, ga, dta, dsa);
    let b = flat_to_st(&fb, gb, dtb, dsb);
    let ma = to_model(&a).unwrap();
    let mb = to_model(&b).unwrap();
    let desc = format!("A(dt{},ds{},g{})={:?} B(dt{},ds{},g{})={:?}", dta, dsa, ga, fa, dtb, dsb, gb, fb);
    if verbose {
      eprintln!("case {} {}", k, desc);
    }
    let mut exp = [0u64; NT];
    for t in 0..NT {
      exp[t] = ma[t] | mb[t];
    }
    for order in 0..2 {
      let (x, y) = if order == 0 { (&a, &b) } else { (&b, &a) };
      let r = catch_unwind(AssertUnwindSafe(|| x.or(y)));
      match r {
        Err(e) => add(format!("KNOWN? panic {} {}", LAST_LOC.lock().unwrap(), panic_msg(e)), desc.clone()),
        Ok(r) => {
          match to_model(&r) {
            Err(e) => add(format!("result {}", e), desc.clone()),
            Ok(m) => {
              if m != exp {
                add("WRONG POINT SET".into(), format!("order {} {}", order, desc));
              }
            }
          }
          if r.depth_max_1() != dta.max(dtb) || r.depth_max_2() != dsa.max(dsb) {
            add("result depths".into(), desc.clone());
          }
          let v = validate(&r);
          for p in &v {
            add(p.clone(), format!("order {} {}", order, desc));
          }
          // FITS round trip of the union
          {
            use moc::deser::fits::{from_fits_ivoa, ranges2d_to_fits_ivoa, MocIdxType, MocQtyType, STMocType};
            let mut buf = Vec::new();
            ranges2d_to_fits_ivoa((&r).into_range_moc2_iter(), None, None, &mut buf).unwrap();
            if let Ok(MocIdxType::U64(MocQtyType::TimeHpx(STMocType::V2(it)))) = from_fits_ivoa(std::io::Cursor::new(&buf[..])) {
              let b = it.into_range_moc2();
              if to_model(&b) != Ok(exp) && to_model(&r) == Ok(exp) {
                let has_empty = v.iter().any(|p| p.contains("empty time"));
                add(format!("FITS round trip of the union changes the point set (empty-time elem: {})", has_empty), format!("order {} {}", order, desc));
              }
            }
          }
          // iterator form must agree with the in-memory form
          let r2 = catch_unwind(AssertUnwindSafe(|| {
            x.into_range_moc2_iter().or(y.into_range_moc2_iter()).into_range_moc2()
          }));
          if let Ok(r2) = r2 {
            if r2 != r {
              add("iterator form differs".into(), desc.clone());
            }
          }
          // can the result be serialised and read back?
          if v.iter().all(|p| !p.starts_with("KNOWN")) {
            let ser = catch_unwind(AssertUnwindSafe(|| {
              let mut buf = Vec::new();
              (&r)
                .into_range_moc2_iter()
                .into_cellcellrange_moc2_iter()
                .to_ascii_ivoa(None, false, &mut buf)
                .unwrap();
              let txt = String::from_utf8(buf).unwrap();
              let back = moc::deser::ascii::moc2d_from_ascii_ivoa::<u64, Time<u64>, u64, Hpx<u64>>(&txt)
                .map(|c| c.into_cellcellrange_moc2_iter().into_range_moc2_iter().into_range_moc2());
              let mut buf = Vec::new();
              (&r)
                .into_range_moc2_iter()
                .into_cell_moc2_iter()
                .to_json_aladin(&None, &mut buf)
                .unwrap();
              let jtxt = String::from_utf8(buf).unwrap();
              let jback = moc::deser::json::cellmoc2d_from_json_aladin::<u64, Time<u64>, u64, Hpx<u64>>(&jtxt)
                .map(|c| c.into_cell_moc2_iter().into_range_moc2_iter().into_range_moc2());
              (txt, back.map_err(|e| e.to_string()), jback.map_err(|e| e.to_string()))
            }));
            match ser {
              Err(e) => add(format!("serialise union panic {} {}", LAST_LOC.lock().unwrap(), panic_msg(e)), format!("order {} {}", order, desc)),
              Ok((txt, back, jback)) => {
                match back {
                  Err(e) => add(format!("ascii of union unreadable: {}", e), format!("order {} {} txt={}", order, desc, txt)),
                  Ok(b) => {
                    if to_model(&b) != Ok(exp) {
                      add("ascii of union: wrong point set after round trip".into(), format!("order {} {} txt={}", order, desc, txt));
                    }
                  }
                }
                match jback {
                  Err(e) => add(format!("json of union unreadable: {}", e), format!("order {} {}", order, desc)),
                  Ok(b) => {
                    if to_model(&b) != Ok(exp) {
                      add("json of union: wrong point set after round trip".into(), format!("order {} {}", order, desc));
                    }
                  }
                }
              }
            }
          }
        }
      }
    }
  }
  for (k, (n, ex)) in &tally {
    println!("FAIL [{}] x{}\n    e.g. {}", k, n, ex);
  }
  if tally.is_empty() {
    println!("no failure");
  }
}
