// Finding 1: the union of two ST-MOCs of different time depths yields elements whose time MOC
// announces the coarser depth while holding ranges that only exist at the finer depth.
// Such elements cannot be serialised (ASCII / JSON panic).
use std::panic::{catch_unwind, AssertUnwindSafe};

use moc::elemset::range::MocRanges;
use moc::moc::range::RangeMOC;
use moc::moc::{HasMaxDepth, RangeMOCIntoIterator};
use moc::moc2d::range::{RangeMOC2, RangeMOC2Elem};
use moc::moc2d::{
  CellMOC2IntoIterator, CellMOC2Iterator, CellOrCellRangeMOC2IntoIterator,
  CellOrCellRangeMOC2Iterator, HasTwoMaxDepth, RangeMOC2IntoIterator,
};
use moc::qty::{Hpx, MocQty, Time};

type ST = RangeMOC2<u64, Time<u64>, u64, Hpx<u64>>;

fn st(dt: u8, ds: u8, tcell: u64, scell: u64) -> ST {
  let tsh = Time::<u64>::shift_from_depth_max(dt) as u32;
  let ssh = Hpx::<u64>::shift_from_depth_max(ds) as u32;
  RangeMOC2::new(
    dt,
    ds,
    vec![RangeMOC2Elem::new(
      RangeMOC::new(dt, MocRanges::new_unchecked(vec![tcell << tsh..(tcell + 1) << tsh])),
      RangeMOC::new(ds, MocRanges::new_unchecked(vec![scell << ssh..(scell + 1) << ssh])),
    )],
  )
}

fn main() {
  // A: time cell 3/0 x space cell 0/0 ; B: time cell 4/0 (first half of 3/0) x space cell 0/1
  let a = st(3, 0, 0, 0);
  let b = st(4, 0, 0, 1);
  let mut fail = false;
  // A2: same content as A, but declared as an ST-MOC of time depth 4 (its only element keeps its own depth 3,
  // exactly what one gets when decoding the ASCII "t3/0 s0/0 t4/ s0/" or from a union of disjoint operands)
  let a2: ST = RangeMOC2::new(4, 0, (&a).into_range_moc2_iter().cloned().collect());
  for (name, u) in [("A|B", a.or(&b)), ("B|A", b.or(&a)), ("A2|B (both MOCs of depth 4)", a2.or(&b))] {
    println!("{}: depths = ({}, {})", name, u.depth_max_1(), u.depth_max_2());
    for e in (&u).into_range_moc2_iter() {
      let (t, s) = e.clone().mocs();
      let dt = t.depth_max();
      let sh = Time::<u64>::shift_from_depth_max(dt) as u32;
      let tr: Vec<_> = t.into_range_moc_iter().collect();
      let sr: Vec<_> = s.into_range_moc_iter().collect();
      let aligned = tr.iter().all(|r| r.start & ((1u64 << sh) - 1) == 0 && r.end & ((1u64 << sh) - 1) == 0);
      println!(
        "  elem: time depth {} ranges(in depth-4 cells) {:?} aligned_on_elem_depth={} space {:?}",
        dt,
        tr.iter().map(|r| (r.start >> 57, r.end >> 57)).collect::<Vec<_>>(),
        aligned,
        sr.iter().map(|r| (r.start >> 58, r.end >> 58)).collect::<Vec<_>>()
      );
      if !aligned {
        println!("FAIL {}: element announces time depth {} but holds a range that is not a union of depth-{} cells", name, dt, dt);
        fail = true;
      }
    }
    let r = catch_unwind(AssertUnwindSafe(|| {
      let mut buf = Vec::new();
      (&u).into_range_moc2_iter().into_cellcellrange_moc2_iter().to_ascii_ivoa(None, false, &mut buf).unwrap();
      String::from_utf8(buf).unwrap()
    }));
    match r {
      Ok(s) => println!("  ascii: {}", s.trim()),
      Err(_) => {
        println!("FAIL {}: ASCII serialisation of the union panics", name);
        fail = true;
      }
    }
    let r = catch_unwind(AssertUnwindSafe(|| {
      let mut buf = Vec::new();
      (&u).into_range_moc2_iter().into_cell_moc2_iter().to_json_aladin(&None, &mut buf).unwrap();
      String::from_utf8(buf).unwrap()
    }));
    match r {
      Ok(s) => println!("  json: {}", s.replace('\n', " ")),
      Err(_) => {
        println!("FAIL {}: JSON serialisation of the union panics", name);
        fail = true;
      }
    }
  }
  std::process::exit(if fail { 1 } else { 0 });
}
