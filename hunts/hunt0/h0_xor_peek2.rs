use std::ops::Range;
use moc::elemset::range::MocRanges;
use moc::moc::range::RangeMOC;
use moc::moc::{RangeMOCIntoIterator, RangeMOCIterator};
use moc::qty::Time;
struct Rng(u64);
impl Rng { fn next(&mut self) -> u64 { let mut x = self.0; x ^= x << 13; x ^= x >> 7; x ^= x << 17; self.0 = x; x.wrapping_mul(0x2545F4914F6CDD1D) } fn below(&mut self, n: u64) -> u64 { self.next() % n } }
fn gen(rng: &mut Rng) -> RangeMOC<u16, Time<u16>> {
  let k = 2 * rng.below(5) as usize; let mut pts: Vec<u16> = vec![]; let mut t = 0;
  while pts.len() < k && t < 100 { t += 1; let p = rng.below(25) as u16; if !pts.contains(&p) { pts.push(p); } }
  pts.sort_unstable();
  RangeMOC::new(13, MocRanges::new_unchecked(pts.chunks(2).map(|c| c[0]..c[1]).collect()))
}
fn main() {
  let mut rng = Rng(7); let (mut same_bad, mut diff_bad, mut same, mut diff) = (0, 0, 0, 0);
  for _ in 0..200000 {
    let (a, b) = (gen(&mut rng), gen(&mut rng));
    let x = (&a).into_range_moc_iter().xor((&b).into_range_moc_iter());
    let p = x.peek_last().cloned(); let v: Vec<Range<u16>> = x.collect();
    if let (Some(la), Some(lb)) = (a.last_index(), b.last_index()) {
      let bad = match (&p, v.last()) { (Some(h), Some(l)) => h.end != l.end, (Some(_), None) => true, (None, _) => false };
      if la == lb { same += 1; if bad { same_bad += 1; } } else { diff += 1; if bad { diff_bad += 1; } }
    } else if p.is_some() { println!("FAIL peek_last Some with an empty input"); }
  }
  println!("same upper bound: {} cases, {} with a wrong peek_last; different upper bounds: {} cases, {} with a wrong peek_last", same, same_bad, diff, diff_bad);
}
