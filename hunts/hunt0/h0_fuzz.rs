//! Model based random tester of lazy operator pipelines over many source kinds.
//! Checks: result ranges, depth, canonical form, size_hint bounds, peek_last consistency.
use std::cell::RefCell;
use std::io::Cursor;
use std::marker::PhantomData;
use std::ops::Range;
use std::rc::Rc;

use moc::deser::ascii::{from_ascii_ivoa, from_ascii_stream};
use moc::deser::fits::{from_fits_ivoa, MocIdxType, MocQtyType, MocType};
use moc::deser::json::from_json_aladin;
use moc::elemset::range::MocRanges;
use moc::idx::Idx;
use moc::moc::builder::fixed_depth::OwnedOrderedFixedDepthCellsToRanges;
use moc::moc::range::op::convert::{convert_from_u64, convert_to_u64};
use moc::moc::range::op::merge::merge_sorted;
use moc::moc::range::RangeMOC;
use moc::moc::{
  CellMOCIntoIterator, CellMOCIterator, CellOrCellRangeMOCIntoIterator,
  CellOrCellRangeMOCIterator, HasMaxDepth, MOCProperties, NonOverlapping, RangeMOCIntoIterator,
  RangeMOCIterator, ZSorted,
};
use moc::qty::{Frequency, Hpx, MocQty, Time};
use moc::ranges::SNORanges;

// ---------- PRNG ----------
struct Rng(u64);
impl Rng {
  fn next(&mut self) -> u64 {
    let mut x = self.0;
    x ^= x << 13;
    x ^= x >> 7;
    x ^= x << 17;
    self.0 = x;
    x.wrapping_mul(0x2545F4914F6CDD1D)
  }
  fn below(&mut self, n: u64) -> u64 {
    if n == 0 {
      0
    } else {
      self.next() % n
    }
  }
}

// ---------- Probe / DynIt ----------
#[derive(Default, Debug)]
struct Log {
  name: String,
  hints: Vec<(usize, Option<usize>)>, // hint before each call to next
  yielded: Vec<Range<u64>>,
  exhausted: bool,
  peek_last: Option<Range<u64>>,
  depth: u8,
}

struct DynIt<T: Idx, Q: MocQty<T>> {
  depth: u8,
  last: Option<Range<T>>,
  it: Box<dyn Iterator<Item = Range<T>>>,
  log: Rc<RefCell<Log>>,
  _q: PhantomData<Q>,
}
impl<T: Idx, Q: MocQty<T>> Iterator for DynIt<T, Q> {
  type Item = Range<T>;
  fn next(&mut self) -> Option<Range<T>> {
    let h = self.it.size_hint();
    let r = self.it.next();
    let mut l = self.log.borrow_mut();
    if !l.exhausted {
      l.hints.push(h);
      match &r {
        Some(r) => l.yielded.push(r.start.to_u64_idx()..r.end.to_u64_idx()),
        None => l.exhausted = true,
      }
    }
    r
  }
  fn size_hint(&self) -> (usize, Option<usize>) {
    self.it.size_hint()
  }
}
impl<T: Idx, Q: MocQty<T>> HasMaxDepth for DynIt<T, Q> {
  fn depth_max(&self) -> u8 {
    self.depth
  }
}
impl<T: Idx, Q: MocQty<T>> ZSorted for DynIt<T, Q> {}
impl<T: Idx, Q: MocQty<T>> NonOverlapping for DynIt<T, Q> {}
impl<T: Idx, Q: MocQty<T>> MOCProperties for DynIt<T, Q> {}
impl<T: Idx, Q: MocQty<T>> RangeMOCIterator<T> for DynIt<T, Q> {
  type Qty = Q;
  fn peek_last(&self) -> Option<&Range<T>> {
    self.last.as_ref()
  }
}

thread_local! {
  static LOGS: RefCell<Vec<Rc<RefCell<Log>>>> = RefCell::new(Vec::new());
}

fn wrap<T: Idx, Q: MocQty<T>, I: RangeMOCIterator<T, Qty = Q> + 'static>(
  name: String,
  it: I,
) -> DynIt<T, Q> {
  let depth = it.depth_max();
  let last = it.peek_last().cloned();
  let log = Rc::new(RefCell::new(Log {
    name,
    depth,
    peek_last: last
      .as_ref()
      .map(|r| r.start.to_u64_idx()..r.end.to_u64_idx()),
    ..Default::default()
  }));
  LOGS.with(|l| l.borrow_mut().push(log.clone()));
  DynIt {
    depth,
    last,
    it: Box::new(it),
    log,
    _q: PhantomData,
  }
}

// ---------- Model (ranges in u64 "idx" space, i.e. left aligned on 64 bits) ----------
type M = Vec<Range<u64>>;
fn m_norm(mut v: M) -> M {
  v.retain(|r| r.start < r.end);
  v.sort_by_key(|r| r.start);
  let mut out: M = Vec::new();
  for r in v {
    if let Some(l) = out.last_mut() {
      if r.start <= l.end {
        l.end = l.end.max(r.end);
        continue;
      }
    }
    out.push(r);
  }
  out
}
fn m_or(a: &M, b: &M) -> M {
  m_norm(a.iter().chain(b.iter()).cloned().collect())
}
fn m_not(a: &M, n: u64) -> M {
  let mut out = Vec::new();
  let mut s = 0u64;
  for r in a {
    if s < r.start {
      out.push(s..r.start);
    }
    s = r.end;
  }
  if s < n {
    out.push(s..n);
  }
  out
}
fn m_and(a: &M, b: &M, n: u64) -> M {
  m_not(&m_or(&m_not(a, n), &m_not(b, n)), n)
}
fn m_minus(a: &M, b: &M, n: u64) -> M {
  m_and(a, &m_not(b, n), n)
}
fn m_xor(a: &M, b: &M, n: u64) -> M {
  m_or(&m_minus(a, b, n), &m_minus(b, a, n))
}
fn m_degrade(a: &M, shift64: u32) -> M {
  // shift64: number of low bits (in the 64 bits idx space) to clear
  let mask = if shift64 >= 64 { 0 } else { !0u64 << shift64 };
  m_norm(
    a.iter()
      .map(|r| {
        let s = r.start & mask;
        let e = if r.end & !mask != 0 {
          (r.end & mask) + (1u64 << shift64)
        } else {
          r.end
        };
        s..e
      })
      .collect(),
  )
}

// ---------- Quantity helper ----------
trait QH<T: Idx>: MocQty<T> {
  type Q64: MocQty<u64>;
  fn fits_src(bytes: Vec<u8>) -> Option<DynIt<T, Self>>;
  fn nuniq_src(_m: &RangeMOC<T, Self>) -> Option<DynIt<T, Self>> {
    None
  }
}
macro_rules! nuniq_impl {
  ($t:ty, Hpx, $idxv:ident) => {
    fn nuniq_src(m: &RangeMOC<$t, Self>) -> Option<DynIt<$t, Self>> {
      use moc::moc::CellHpxMOCIterator;
      let mut buf = Vec::new();
      if let Err(e) = m.into_range_moc_iter().cells().hpx_cells_to_fits_ivoa(None, None, &mut buf) {
        println!("FAIL nuniq write: {}", e);
        return None;
      }
      match from_fits_ivoa(Cursor::new(buf)) {
        Ok(MocIdxType::$idxv(MocQtyType::Hpx(MocType::Cells(cm)))) => {
          if cm.depth_max() != m.depth_max() {
            println!("FAIL nuniq depth {} != {}", cm.depth_max(), m.depth_max());
          }
          Some(wrap("nuniq".to_string(), cm.into_cell_moc_iter().ranges()))
        }
        Ok(_) => {
          println!("FAIL nuniq: unexpected type variant");
          None
        }
        Err(e) => {
          println!("FAIL nuniq read: {}", e);
          None
        }
      }
    }
  };
  ($t:ty, $q:ident, $idxv:ident) => {};
}
macro_rules! impl_qh {
  ($t:ty, $q:ident, $idxv:ident, $qv:ident) => {
    impl QH<$t> for $q<$t> {
      type Q64 = $q<u64>;
      nuniq_impl!($t, $q, $idxv);
      fn fits_src(bytes: Vec<u8>) -> Option<DynIt<$t, Self>> {
        match from_fits_ivoa(Cursor::new(bytes)) {
          Ok(MocIdxType::$idxv(MocQtyType::$qv(MocType::Ranges(it)))) => {
            Some(wrap("fits".to_string(), it))
          }
          Ok(_) => {
            println!("FAIL fits: unexpected type variant");
            None
          }
          Err(e) => {
            println!("FAIL fits read: {}", e);
            None
          }
        }
      }
    }
  };
}
impl_qh!(u16, Hpx, U16, Hpx);
impl_qh!(u32, Hpx, U32, Hpx);
impl_qh!(u64, Hpx, U64, Hpx);
impl_qh!(u16, Time, U16, Time);
impl_qh!(u32, Time, U32, Time);
impl_qh!(u64, Time, U64, Time);
impl_qh!(u16, Frequency, U16, Freq);
impl_qh!(u32, Frequency, U32, Freq);
impl_qh!(u64, Frequency, U64, Freq);

// ---------- Expression ----------
#[derive(Debug, Clone)]
enum E {
  Leaf(usize, u8), // moc index, source kind
  And(Box<E>, Box<E>),
  Or(Box<E>, Box<E>),
  Xor(Box<E>, Box<E>),
  Minus(Box<E>, Box<E>),
  Not(Box<E>),
  Degrade(Box<E>, u8),
  Check(Box<E>),
  Cells(Box<E>),
  CellRanges(Box<E>),
  Conv(Box<E>),
}
const N_SRC: u8 = 15;

fn leaked<X>(x: X) -> &'static X {
  Box::leak(Box::new(x))
}

fn leaf<T: Idx, Q: QH<T>>(m: &RangeMOC<T, Q>, kind: u8) -> DynIt<T, Q> {
  match kind {
    0 => wrap("owned".into(), m.clone().into_range_moc_iter()),
    1 => wrap("borrowed".into(), leaked(m.clone()).into_range_moc_iter()),
    2 => wrap(
      "cells".into(),
      leaked(m.clone()).into_range_moc_iter().cells().ranges(),
    ),
    3 => wrap(
      "cellranges".into(),
      leaked(m.clone())
        .into_range_moc_iter()
        .cells()
        .cellranges()
        .ranges(),
    ),
    4 | 5 => {
      let mut buf = Vec::new();
      m.into_range_moc_iter()
        .cells()
        .cellranges()
        .to_ascii_ivoa(None, false, &mut buf)
        .unwrap();
      let s = String::from_utf8(buf).unwrap();
      match from_ascii_ivoa::<T, Q>(&s) {
        Ok(ccr) => {
          if ccr.depth_max() != m.depth_max() {
            println!(
              "FAIL ascii roundtrip depth {} != {} for {:?}",
              ccr.depth_max(),
              m.depth_max(),
              s
            );
          }
          if kind == 4 {
            wrap(
              "ascii_owned".into(),
              ccr.into_cellcellrange_moc_iter().ranges(),
            )
          } else {
            wrap(
              "ascii_borrowed".into(),
              leaked(ccr).into_cellcellrange_moc_iter().ranges(),
            )
          }
        }
        Err(e) => {
          println!("FAIL ascii parse {:?}: {}", s, e);
          wrap("owned".into(), m.clone().into_range_moc_iter())
        }
      }
    }
    6 | 7 => {
      let mut buf = Vec::new();
      m.into_range_moc_iter()
        .cells()
        .to_json_aladin(None, &mut buf)
        .unwrap();
      let s = String::from_utf8(buf).unwrap();
      match from_json_aladin::<T, Q>(&s) {
        Ok(cm) => {
          if cm.depth_max() != m.depth_max() {
            println!(
              "FAIL json roundtrip depth {} != {} for {:?}",
              cm.depth_max(),
              m.depth_max(),
              s
            );
          }
          if kind == 6 {
            wrap("json_owned".into(), cm.into_cell_moc_iter().ranges())
          } else {
            wrap(
              "json_borrowed".into(),
              leaked(cm).into_cell_moc_iter().ranges(),
            )
          }
        }
        Err(e) => {
          println!("FAIL json parse {:?}: {}", s, e);
          wrap("owned".into(), m.clone().into_range_moc_iter())
        }
      }
    }
    8 => {
      let mut buf = Vec::new();
      m.into_range_moc_iter()
        .cells()
        .cellranges()
        .to_ascii_stream(false, &mut buf)
        .unwrap();
      match from_ascii_stream::<T, Q, _>(Cursor::new(buf.clone())) {
        Ok(st) => wrap("ascii_stream".into(), st.ranges()),
        Err(e) => {
          println!(
            "FAIL ascii stream parse {:?}: {}",
            String::from_utf8_lossy(&buf),
            e
          );
          wrap("owned".into(), m.clone().into_range_moc_iter())
        }
      }
    }
    9 => {
      let mut buf = Vec::new();
      m.into_range_moc_iter()
        .cells()
        .cellranges()
        .to_ascii_stream(true, &mut buf)
        .unwrap();
      match from_ascii_stream::<T, Q, _>(Cursor::new(buf.clone())) {
        Ok(st) => wrap("ascii_stream_len".into(), st.ranges()),
        Err(e) => {
          println!(
            "FAIL ascii stream parse {:?}: {}",
            String::from_utf8_lossy(&buf),
            e
          );
          wrap("owned".into(), m.clone().into_range_moc_iter())
        }
      }
    }
    10 => {
      let mut buf = Vec::new();
      if let Err(e) = m.into_range_moc_iter().to_fits_ivoa(None, None, &mut buf) {
        println!("FAIL fits write: {}", e);
      }
      Q::fits_src(buf).unwrap_or_else(|| wrap("owned".into(), m.clone().into_range_moc_iter()))
    }
    11 => {
      let v: Vec<Range<T>> = m.moc_ranges().iter().cloned().collect();
      wrap(
        "merge_sorted".into(),
        merge_sorted::<T, Q, _>(m.depth_max(), v.into_iter()),
      )
    }
    12 => {
      // builder iterator, only for a small number of cells
      let n = m.n_depth_max_cells().to_u64();
      if n <= 20_000 {
        let cells: Vec<T> = m.flatten_to_fixed_depth_cells().collect();
        wrap(
          "fixed_depth_cells".into(),
          OwnedOrderedFixedDepthCellsToRanges::<T, Q, _>::new(m.depth_max(), cells.into_iter()),
        )
      } else {
        wrap("owned".into(), m.clone().into_range_moc_iter())
      }
    }
    13 => Q::nuniq_src(m).unwrap_or_else(|| wrap("owned".into(), m.clone().into_range_moc_iter())),
    _ => wrap(
      "checked_borrowed".into(),
      leaked(m.clone()).into_range_moc_iter().into_checked(),
    ),
  }
}

fn build<T: Idx, Q: QH<T>>(e: &E, mocs: &[RangeMOC<T, Q>]) -> DynIt<T, Q> {
  match e {
    E::Leaf(i, k) => leaf(&mocs[*i], *k),
    E::And(a, b) => wrap("and".into(), build(a, mocs).and(build(b, mocs))),
    E::Or(a, b) => wrap("or".into(), build(a, mocs).or(build(b, mocs))),
    E::Xor(a, b) => wrap("xor".into(), build(a, mocs).xor(build(b, mocs))),
    E::Minus(a, b) => wrap("minus".into(), build(a, mocs).minus(build(b, mocs))),
    E::Not(a) => wrap("not".into(), build(a, mocs).not()),
    E::Degrade(a, d) => wrap("degrade".into(), build(a, mocs).degrade(*d)),
    E::Check(a) => wrap("check".into(), build(a, mocs).into_checked()),
    E::Cells(a) => wrap("cells_ranges".into(), build(a, mocs).cells().ranges()),
    E::CellRanges(a) => wrap(
      "cellranges_ranges".into(),
      build(a, mocs).cells().cellranges().ranges(),
    ),
    E::Conv(a) => wrap(
      "conv".into(),
      convert_from_u64::<Q::Q64, T, Q, _>(convert_to_u64::<T, Q, _, Q::Q64>(build(a, mocs))),
    ),
  }
}

fn n64<T: Idx, Q: MocQty<T>>() -> u64 {
  Q::n_cells_max().to_u64_idx()
}
fn shift64<T: Idx, Q: MocQty<T>>(depth: u8) -> u32 {
  Q::shift_from_depth_max(depth) as u32 + (64 - T::N_BITS as u32)
}

fn model<T: Idx, Q: QH<T>>(e: &E, mocs: &[RangeMOC<T, Q>]) -> (M, u8) {
  let n = n64::<T, Q>();
  match e {
    E::Leaf(i, _) => (
      mocs[*i]
        .moc_ranges()
        .iter()
        .map(|r| r.start.to_u64_idx()..r.end.to_u64_idx())
        .collect(),
      mocs[*i].depth_max(),
    ),
    E::And(a, b) => {
      let (a, da) = model(a, mocs);
      let (b, db) = model(b, mocs);
      (m_and(&a, &b, n), da.max(db))
    }
    E::Or(a, b) => {
      let (a, da) = model(a, mocs);
      let (b, db) = model(b, mocs);
      (m_or(&a, &b), da.max(db))
    }
    E::Xor(a, b) => {
      let (a, da) = model(a, mocs);
      let (b, db) = model(b, mocs);
      (m_xor(&a, &b, n), da.max(db))
    }
    E::Minus(a, b) => {
      let (a, da) = model(a, mocs);
      let (b, db) = model(b, mocs);
      (m_minus(&a, &b, n), da.max(db))
    }
    E::Not(a) => {
      let (a, da) = model(a, mocs);
      (m_not(&a, n), da)
    }
    E::Degrade(a, d) => {
      let (a, da) = model(a, mocs);
      if *d < da {
        (m_degrade(&a, shift64::<T, Q>(*d)), *d)
      } else {
        (a, da)
      }
    }
    E::Check(a) | E::Cells(a) | E::CellRanges(a) | E::Conv(a) => model(a, mocs),
  }
}

/// Eager evaluation on in-memory RangeMOCs
fn eager<T: Idx, Q: QH<T>>(e: &E, mocs: &[RangeMOC<T, Q>]) -> RangeMOC<T, Q> {
  match e {
    E::Leaf(i, _) => mocs[*i].clone(),
    E::And(a, b) => eager(a, mocs).and(&eager(b, mocs)),
    E::Or(a, b) => eager(a, mocs).or(&eager(b, mocs)),
    E::Xor(a, b) => eager(a, mocs).xor(&eager(b, mocs)),
    E::Minus(a, b) => eager(a, mocs).minus(&eager(b, mocs)),
    E::Not(a) => eager(a, mocs).not(),
    E::Degrade(a, d) => eager(a, mocs).degraded(*d),
    E::Check(a) | E::Cells(a) | E::CellRanges(a) | E::Conv(a) => eager(a, mocs),
  }
}

fn gen_expr(rng: &mut Rng, h: u32, n_mocs: usize, max_depth: u8) -> E {
  if h == 0 || rng.below(5) == 0 {
    return E::Leaf(rng.below(n_mocs as u64) as usize, rng.below(N_SRC as u64) as u8);
  }
  let a = Box::new(gen_expr(rng, h - 1, n_mocs, max_depth));
  match rng.below(12) {
    0 | 1 => E::And(a, Box::new(gen_expr(rng, h - 1, n_mocs, max_depth))),
    2 | 3 => E::Or(a, Box::new(gen_expr(rng, h - 1, n_mocs, max_depth))),
    4 | 5 => E::Xor(a, Box::new(gen_expr(rng, h - 1, n_mocs, max_depth))),
    6 | 7 => E::Minus(a, Box::new(gen_expr(rng, h - 1, n_mocs, max_depth))),
    8 => E::Not(a),
    9 => E::Degrade(a, rng.below(max_depth as u64 + 1) as u8),
    10 => match rng.below(3) {
      0 => E::Check(a),
      1 => E::Cells(a),
      _ => E::CellRanges(a),
    },
    _ => E::Conv(a),
  }
}

/// Random canonical MOC of the given depth.
fn gen_moc<T: Idx, Q: QH<T>>(rng: &mut Rng, depth: u8, pool: &[u64]) -> RangeMOC<T, Q> {
  // all values here are in cells of depth `depth`
  let n = Q::n_cells(depth).to_u64();
  let sh = Q::shift_from_depth_max(depth) as u32;
  let mk = |v: Vec<Range<u64>>| -> RangeMOC<T, Q> {
    RangeMOC::new(
      depth,
      MocRanges::new_unchecked(
        v.into_iter()
          .map(|r| T::from_u64(r.start).unsigned_shl(sh)..T::from_u64(r.end).unsigned_shl(sh))
          .collect(),
      ),
    )
  };
  match rng.below(12) {
    0 => return mk(vec![]),
    1 => return mk(vec![0..n]),
    _ => {}
  }
  // candidate points
  let mut pts: Vec<u64> = Vec::new();
  let k = 2 * (1 + rng.below(5)) as usize;
  while pts.len() < k {
    let p = match rng.below(10) {
      0 => 0,
      1 => n,
      2 => rng.below(6.min(n + 1)),
      3 => n - rng.below(6.min(n + 1)),
      4 | 5 | 6 => {
        // from the pool (pool values are fractions of the domain on 2^16), plus small jitter
        let f = pool[rng.below(pool.len() as u64) as usize];
        let base = ((n as u128 * f as u128) >> 16) as u64;
        let j = rng.below(3);
        (base + j).saturating_sub(1).min(n)
      }
      7 => {
        // aligned on a coarser level
        let l = rng.below(depth as u64 + 1) as u8;
        let nl = Q::n_cells(l).to_u64();
        let s = Q::shift(depth - l) as u32;
        rng.below(nl + 1) << s
      }
      _ => rng.below(n + 1),
    };
    if !pts.contains(&p) {
      pts.push(p);
    }
    if pts.len() as u64 > n {
      break;
    }
  }
  pts.sort_unstable();
  let v: Vec<Range<u64>> = pts.chunks(2).filter(|c| c.len() == 2).map(|c| c[0]..c[1]).collect();
  mk(v)
}

fn is_canonical<T: Idx, Q: MocQty<T>>(v: &[Range<u64>], depth: u8) -> Result<(), String> {
  let n = n64::<T, Q>();
  let sh = shift64::<T, Q>(depth);
  let mask = if sh >= 64 { !0u64 } else { (1u64 << sh) - 1 };
  let mut prev_end: Option<u64> = None;
  for r in v {
    if r.start >= r.end {
      return Err(format!("empty/reversed range {:?}", r));
    }
    if r.end > n {
      return Err(format!("range {:?} beyond domain {}", r, n));
    }
    if r.start & mask != 0 || r.end & mask != 0 {
      return Err(format!("range {:?} not aligned on depth {}", r, depth));
    }
    if let Some(pe) = prev_end {
      if r.start <= pe {
        return Err(format!("range {:?} touches/overlaps previous end {}", r, pe));
      }
    }
    prev_end = Some(r.end);
  }
  Ok(())
}

fn check_logs(case: &str) -> usize {
  let mut nfail = 0;
  LOGS.with(|logs| {
    for l in logs.borrow().iter() {
      let l = l.borrow();
      let total = l.yielded.len();
      for (i, (lo, hi)) in l.hints.iter().enumerate() {
        // before the i-th call to next: (total - i) elements remain if exhausted, at least that many otherwise
        let rem = total.saturating_sub(i);
        let bad_hi = hi.map(|h| rem > h).unwrap_or(false);
        let bad_lo = l.exhausted && *lo > rem;
        if bad_hi || bad_lo {
          println!(
            "FAIL[{}] size_hint of node '{}' before call #{}: ({}, {:?}) but {}{} remaining",
            case,
            l.name,
            i,
            lo,
            hi,
            if l.exhausted { "" } else { ">= " },
            rem
          );
          nfail += 1;
          break;
        }
      }
      if l.exhausted && std::env::var("H0_NO_PEEK").is_err() {
        match (&l.peek_last, l.yielded.last()) {
          (Some(p), Some(y)) if p.end != y.end => {
            println!(
              "FAIL[{}] peek_last of node '{}' = {:?} but last yielded = {:?}",
              case, l.name, p, y
            );
            nfail += 1;
          }
          (Some(p), None) => {
            println!(
              "FAIL[{}] peek_last of node '{}' = {:?} but nothing yielded",
              case, l.name, p
            );
            nfail += 1;
          }
          _ => {}
        }
      }
    }
    logs.borrow_mut().clear();
  });
  nfail
}

fn run<T: Idx, Q: QH<T>>(tag: &str, seed: u64, n_cases: usize, skip_peek_xor: bool) -> usize {
  let mut rng = Rng(seed);
  let mut nfail = 0usize;
  for case in 0..n_cases {
    let pool: Vec<u64> = (0..4).map(|_| rng.below(65537)).collect();
    let n_mocs = 1 + rng.below(3) as usize;
    let mocs: Vec<RangeMOC<T, Q>> = (0..n_mocs)
      .map(|_| {
        let depth = match rng.below(6) {
          0 => 0,
          1 => Q::MAX_DEPTH,
          2 => Q::MAX_DEPTH - (rng.below(2) as u8).min(Q::MAX_DEPTH),
          _ => rng.below(Q::MAX_DEPTH as u64 + 1) as u8,
        };
        gen_moc::<T, Q>(&mut rng, depth, &pool)
      })
      .collect();
    let e = gen_expr(&mut rng, 3, n_mocs, Q::MAX_DEPTH);
    let cname = format!("{}#{}", tag, case);
    let (exp, exp_depth) = model(&e, &mocs);
    let it = build(&e, &mocs);
    let got_depth = it.depth_max();
    let got: M = it
      .map(|r| r.start.to_u64_idx()..r.end.to_u64_idx())
      .collect();
    let mut bad = false;
    if got != exp {
      println!("FAIL[{}] lazy result differs\n  expr={:?}\n  got={:?}\n  exp={:?}", cname, e, got, exp);
      bad = true;
    }
    if got_depth != exp_depth {
      println!("FAIL[{}] lazy depth {} != expected {}\n  expr={:?}", cname, got_depth, exp_depth, e);
      bad = true;
    }
    if let Err(s) = is_canonical::<T, Q>(&got, got_depth) {
      println!("FAIL[{}] lazy result not canonical: {}\n  expr={:?}", cname, s, e);
      bad = true;
    }
    // eager
    let eg = eager(&e, &mocs);
    let egr: M = eg
      .moc_ranges()
      .iter()
      .map(|r| r.start.to_u64_idx()..r.end.to_u64_idx())
      .collect();
    if egr != exp || eg.depth_max() != exp_depth {
      println!(
        "FAIL[{}] eager result differs\n  expr={:?}\n  got={:?} d={}\n  exp={:?} d={}",
        cname,
        e,
        egr,
        eg.depth_max(),
        exp,
        exp_depth
      );
      bad = true;
    }
    let _ = skip_peek_xor;
    let nf = check_logs(&cname);
    if nf > 0 || bad {
      println!("  mocs:");
      for (i, m) in mocs.iter().enumerate() {
        println!(
          "   [{}] depth={} ranges={:?}",
          i,
          m.depth_max(),
          m.moc_ranges().iter().collect::<Vec<_>>()
        );
      }
      println!("  expr={:?}", e);
      nfail += 1;
    }
  }
  println!("{}: {} cases, {} failing", tag, n_cases, nfail);
  nfail
}

fn main() {
  let args: Vec<String> = std::env::args().collect();
  let n: usize = args.get(1).and_then(|s| s.parse().ok()).unwrap_or(2000);
  let seed: u64 = args.get(2).and_then(|s| s.parse().ok()).unwrap_or(0x9E3779B97F4A7C15);
  let which = args.get(3).cloned().unwrap_or_else(|| "all".to_string());
  let mut nf = 0;
  let sel = |s: &str| which == "all" || which == s;
  if sel("t16") {
    nf += run::<u16, Time<u16>>("time-u16", seed ^ 1, n, false);
  }
  if sel("t32") {
    nf += run::<u32, Time<u32>>("time-u32", seed ^ 2, n, false);
  }
  if sel("t64") {
    nf += run::<u64, Time<u64>>("time-u64", seed ^ 3, n, false);
  }
  if sel("s16") {
    nf += run::<u16, Hpx<u16>>("hpx-u16", seed ^ 4, n, false);
  }
  if sel("s32") {
    nf += run::<u32, Hpx<u32>>("hpx-u32", seed ^ 5, n, false);
  }
  if sel("s64") {
    nf += run::<u64, Hpx<u64>>("hpx-u64", seed ^ 6, n, false);
  }
  if sel("f16") {
    nf += run::<u16, Frequency<u16>>("freq-u16", seed ^ 7, n, false);
  }
  if sel("f32") {
    nf += run::<u32, Frequency<u32>>("freq-u32", seed ^ 8, n, false);
  }
  if sel("f64") {
    nf += run::<u64, Frequency<u64>>("freq-u64", seed ^ 9, n, false);
  }
  if nf > 0 {
    std::process::exit(1);
  }
}
