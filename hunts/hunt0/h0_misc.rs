use moc::moc::range::RangeMOC;
use moc::moc::{RangeMOCIntoIterator, RangeMOCIterator, CellMOCIterator};
use moc::qty::Hpx;
fn main() {
  let e = RangeMOC::<u64, Hpx<u64>>::new_empty(5);
  println!("mean_center(empty) = {:?}", (&e).into_range_moc_iter().cells().mean_center());
  println!("max_distance_from(empty) = {:?}", (&e).into_range_moc_iter().cells().max_distance_from(0.0, 0.0));
  let f = RangeMOC::<u64, Hpx<u64>>::new_full_domain(5);
  println!("mean_center(full) = {:?}", (&f).into_range_moc_iter().cells().mean_center());
  let f0 = RangeMOC::<u64, Hpx<u64>>::new_full_domain(29);
  println!("mean_center(full d29) = {:?}", (&f0).into_range_moc_iter().cells().mean_center());
  let m = RangeMOC::<u64, Hpx<u64>>::from_large_cones(7, 2, moc::moc::range::CellSelection::All, std::iter::empty());
  println!("from_large_cones(depth 7, no cone): depth_max = {}", m.depth_max());
}
