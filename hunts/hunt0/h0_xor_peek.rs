//! XorRangeIter::peek_last is computed like the one of `or` (largest upper bound of both inputs),
//! but the last range of a symmetric difference ends before that bound when both inputs end at the
//! same place (and there may be no range at all).
use std::ops::Range;
use moc::elemset::range::MocRanges;
use moc::moc::range::RangeMOC;
use moc::moc::{RangeMOCIntoIterator, RangeMOCIterator};
use moc::qty::Time;

fn mk(v: Vec<Range<u64>>) -> RangeMOC<u64, Time<u64>> {
  RangeMOC::new(61, MocRanges::new_unchecked(v))
}
fn main() {
  let mut fail = false;
  for (a, b) in [(mk(vec![0..10]), mk(vec![5..10])), (mk(vec![0..10]), mk(vec![0..10])), (mk(vec![0..3, 8..10]), mk(vec![2..4, 8..10])), (mk(vec![0..10]), mk(vec![20..30]))] {
    let x = (&a).into_range_moc_iter().xor((&b).into_range_moc_iter());
    let hint = x.peek_last().cloned();
    let got: Vec<Range<u64>> = x.collect();
    let bad = match (&hint, got.last()) { (Some(h), Some(l)) => h.end != l.end, (Some(_), None) => true, _ => false };
    println!("{}xor({:?}, {:?}): peek_last = {:?}, ranges yielded = {:?}", if bad {"FAIL "} else {"ok   "}, a.moc_ranges().iter().collect::<Vec<_>>(), b.moc_ranges().iter().collect::<Vec<_>>(), hint, got);
    fail |= bad;
    // The wrong hint is propagated by the operators and adapters that forward it
    let x = (&a).into_range_moc_iter().xor((&b).into_range_moc_iter()).into_checked();
    let h2 = x.peek_last().cloned(); let n = x.count();
    if bad { println!("          forwarded by into_checked(): peek_last = {:?} on an iterator of {} range(s)", h2, n); }
  }
  if fail { std::process::exit(1); }
}
