use std::ops::Range;
use moc::elemset::range::MocRanges;
use moc::moc::range::RangeMOC;
use moc::moc::range::op::multi_op::{kway_or, kway_and, kway_xor, kway_or_it, kway_and_it, kway_xor_it};
use moc::moc::RangeMOCIntoIterator;
use moc::qty::Time;
struct Rng(u64);
impl Rng { fn next(&mut self) -> u64 { let mut x = self.0; x ^= x << 13; x ^= x >> 7; x ^= x << 17; self.0 = x; x.wrapping_mul(0x2545F4914F6CDD1D) } fn below(&mut self, n: u64) -> u64 { self.next() % n } }
type M = RangeMOC<u16, Time<u16>>;
fn gen(rng: &mut Rng, dense: bool) -> M {
  let depth = rng.below(14) as u8; let sh = 13 - depth; let n = 2u64 << depth;
  let k = 2 * (1 + rng.below(4)) as usize; let mut pts = Vec::new();
  if dense { pts = vec![0, n]; if n > 4 { let a = 1 + rng.below(n - 2); pts = vec![0, a, a + 1, n]; } }
  else { let mut t = 0; while pts.len() < k && t < 100 { t += 1; let p = rng.below(n + 1); if !pts.contains(&p) { pts.push(p); } } }
  pts.sort_unstable();
  let v: Vec<Range<u16>> = pts.chunks(2).filter(|c| c.len() == 2).map(|c| ((c[0] as u16) << sh)..((c[1] as u16) << sh)).collect();
  RangeMOC::new(depth, MocRanges::new_unchecked(v))
}
fn main() {
  let mut rng = Rng(42); let mut nfail = 0;
  for n in 0..70usize { for rep in 0..6 {
    let mocs: Vec<M> = (0..n).map(|_| gen(&mut rng, rep % 2 == 1)).collect();
    if n == 0 { continue; }
    let f_or = mocs.iter().skip(1).fold(mocs[0].clone(), |a, b| a.or(b));
    let f_and = mocs.iter().skip(1).fold(mocs[0].clone(), |a, b| a.and(b));
    let f_xor = mocs.iter().skip(1).fold(mocs[0].clone(), |a, b| a.xor(b));
    for (name, got, exp) in [
      ("kway_or", kway_or(Box::new(mocs.clone().into_iter())), &f_or),
      ("kway_and", kway_and(Box::new(mocs.clone().into_iter())), &f_and),
      ("kway_xor", kway_xor(Box::new(mocs.clone().into_iter())), &f_xor),
      ("kway_or_it", kway_or_it(Box::new(mocs.clone().into_iter().map(|m| m.into_range_moc_iter()))), &f_or),
      ("kway_and_it", kway_and_it(Box::new(mocs.clone().into_iter().map(|m| m.into_range_moc_iter()))), &f_and),
      ("kway_xor_it", kway_xor_it(Box::new(mocs.clone().into_iter().map(|m| m.into_range_moc_iter()))), &f_xor),
    ] {
      if &got != exp { println!("FAIL {} n={} got d={} {:?} exp d={} {:?}", name, n, got.depth_max(), got.moc_ranges(), exp.depth_max(), exp.moc_ranges()); nfail += 1; }
    }
  } }
  println!("kway: {} failures", nfail);
  if nfail > 0 { std::process::exit(1); }
}
