//! Model based random tester of the queries (C03).
use std::ops::Range;

use moc::elem::range::MocRange;
use moc::elemset::range::MocRanges;
use moc::idx::Idx;
use moc::moc::range::RangeMOC;
use moc::moc::{RangeMOCIntoIterator, RangeMOCIterator};
use moc::mom::{HpxMomIter, MOMIterator};
use moc::qty::{Frequency, Hpx, MocQty, Time};
use moc::ranges::{BorrowedRanges, SNORanges};

struct Rng(u64);
impl Rng {
  fn next(&mut self) -> u64 {
    let mut x = self.0;
    x ^= x << 13;
    x ^= x >> 7;
    x ^= x << 17;
    self.0 = x;
    x.wrapping_mul(0x2545F4914F6CDD1D)
  }
  fn below(&mut self, n: u64) -> u64 {
    if n == 0 {
      0
    } else {
      self.next() % n
    }
  }
}

fn gen_moc<T: Idx, Q: MocQty<T>>(rng: &mut Rng, depth: u8) -> RangeMOC<T, Q> {
  let n = Q::n_cells(depth).to_u64();
  let sh = Q::shift_from_depth_max(depth) as u32;
  let mk = |v: Vec<Range<u64>>| -> RangeMOC<T, Q> {
    RangeMOC::new(
      depth,
      MocRanges::new_unchecked(
        v.into_iter()
          .map(|r| T::from_u64(r.start).unsigned_shl(sh)..T::from_u64(r.end).unsigned_shl(sh))
          .collect(),
      ),
    )
  };
  match rng.below(12) {
    0 => return mk(vec![]),
    1 => return mk(vec![0..n]),
    _ => {}
  }
  let mut pts: Vec<u64> = Vec::new();
  let k = 2 * (1 + rng.below(5)) as usize;
  let mut tries = 0;
  while pts.len() < k && tries < 100 {
    tries += 1;
    let p = match rng.below(8) {
      0 => 0,
      1 => n,
      2 => rng.below(6.min(n + 1)),
      3 => n - rng.below(6.min(n + 1)),
      4 => {
        let l = rng.below(depth as u64 + 1) as u8;
        let nl = Q::n_cells(l).to_u64();
        let s = Q::shift(depth - l) as u32;
        rng.below(nl + 1) << s
      }
      _ => rng.below(n + 1),
    };
    if !pts.contains(&p) {
      pts.push(p);
    }
  }
  pts.sort_unstable();
  mk(pts.chunks(2).filter(|c| c.len() == 2).map(|c| c[0]..c[1]).collect())
}

// model helpers on Vec<Range<T>> (canonical)
fn m_cov<T: Idx>(m: &[Range<T>], x: &Range<T>) -> T {
  let mut w = T::zero();
  for r in m {
    let s = r.start.max(x.start);
    let e = r.end.min(x.end);
    if s < e {
      w += e - s;
    }
  }
  w
}

fn run<T: Idx, Q: MocQty<T>>(tag: &str, seed: u64, n_cases: usize) -> usize {
  let mut rng = Rng(seed);
  let mut nfail = 0usize;
  let nmax = Q::n_cells_max();
  macro_rules! fail {
    ($($arg:tt)*) => {{ println!("FAIL[{}] {}", tag, format!($($arg)*)); nfail += 1; }};
  }
  for _case in 0..n_cases {
    let depth = match rng.below(5) {
      0 => 0,
      1 => Q::MAX_DEPTH,
      _ => rng.below(Q::MAX_DEPTH as u64 + 1) as u8,
    };
    let m: RangeMOC<T, Q> = gen_moc(&mut rng, depth);
    let mv: Vec<Range<T>> = m.moc_ranges().iter().cloned().collect();
    let desc = format!("moc(depth={}, {:?})", depth, mv);
    // interesting points
    let mut pts: Vec<T> = vec![T::zero(), nmax];
    for r in &mv {
      for p in [r.start, r.end] {
        pts.push(p);
        if p > T::zero() {
          pts.push(p - T::one());
        }
        if p < nmax {
          pts.push(p + T::one());
        }
      }
    }
    for _ in 0..4 {
      pts.push(T::from_u64(rng.below(nmax.to_u64() + 1)));
    }
    pts.sort_unstable();
    pts.dedup();
    // --- global measures
    let sum = mv.iter().fold(T::zero(), |a, r| a + (r.end - r.start));
    if m.range_sum() != sum {
      fail!("range_sum {} != {} for {}", m.range_sum(), sum, desc);
    }
    if (&m).into_range_moc_iter().range_sum() != sum {
      fail!("iter range_sum != {} for {}", sum, desc);
    }
    let sh = Q::shift_from_depth_max(depth) as u32;
    if m.n_depth_max_cells() != sum.unsigned_shr(sh) {
      fail!("n_depth_max_cells {} for {}", m.n_depth_max_cells(), desc);
    }
    let cov_exp = sum.to_u64_idx() as f64 / nmax.to_u64_idx() as f64;
    for (name, cov) in [
      ("RangeMOC::coverage_percentage", m.coverage_percentage()),
      (
        "iter coverage_percentage",
        (&m).into_range_moc_iter().coverage_percentage(),
      ),
      ("MocRanges::coverage_percentage", m.moc_ranges().coverage_percentage()),
    ] {
      let bad_exact = (sum == T::zero() && cov != 0.0) || (sum == nmax && cov != 1.0);
      if bad_exact || (cov - cov_exp).abs() > 1e-9 || !(0.0..=1.0).contains(&cov) {
        fail!("{} = {} expected {} for {}", name, cov, cov_exp, desc);
      }
    }
    if m.first_index() != mv.first().map(|r| r.start) || m.last_index() != mv.last().map(|r| r.end) {
      fail!("first/last index for {}", desc);
    }
    if m.len() != mv.len() || m.is_empty() != mv.is_empty() {
      fail!("len/is_empty for {}", desc);
    }
    // --- points
    for p in &pts {
      let exp = mv.iter().any(|r| r.start <= *p && *p < r.end);
      if m.contains_val(p) != exp {
        fail!("contains_val({}) = {} for {}", p, !exp, desc);
      }
      if m.moc_ranges().ranges().contains_val(p) != exp {
        fail!("Ranges::contains_val({}) = {} for {}", p, !exp, desc);
      }
      if BorrowedRanges(&mv).contains_val(p) != exp {
        fail!("Borrowed contains_val({}) for {}", p, desc);
      }
      // depth max val
      let c = p.unsigned_shr(sh);
      if c < Q::n_cells(depth) {
        let cr = c.unsigned_shl(sh)..(c + T::one()).unsigned_shl(sh);
        let exp = m_cov(&mv, &cr) == (cr.end - cr.start);
        if m.contains_depth_max_val(&c) != exp {
          fail!("contains_depth_max_val({}) = {} for {}", c, !exp, desc);
        }
      }
      // cells at all depths containing p (p < nmax)
      if *p < nmax {
        for d in 0..=Q::MAX_DEPTH {
          let s = Q::shift_from_depth_max(d) as u32;
          let idx = p.unsigned_shr(s);
          let cr = idx.unsigned_shl(s)..(idx + T::one()).unsigned_shl(s);
          let w = m_cov(&mv, &cr);
          let tot = cr.end - cr.start;
          let exp_contains = w == tot;
          if m.contains_cell(d, idx) != exp_contains {
            fail!("contains_cell({}, {}) = {} for {}", d, idx, !exp_contains, desc);
          }
          let f = m.cell_fraction(d, idx);
          let fe = w.to_u64_idx() as f64 / tot.to_u64_idx() as f64;
          let bad_exact = (w == T::zero() && f != 0.0) || (w == tot && f != 1.0);
          if bad_exact || (f - fe).abs() > 1e-9 || !(0.0..=1.0).contains(&f) {
            fail!("cell_fraction({}, {}) = {} expected {} for {}", d, idx, f, fe, desc);
          }
        }
      }
    }
    // --- ranges
    for i in 0..pts.len() {
      for j in (i + 1)..pts.len() {
        if pts.len() > 14 && rng.below(3) != 0 {
          continue;
        }
        let x = pts[i]..pts[j];
        let w = m_cov(&mv, &x);
        let tot = x.end - x.start;
        let exp_inter = w > T::zero();
        let exp_cont = w == tot;
        let r = m.moc_ranges();
        if r.intersects_range(&x) != exp_inter {
          fail!("intersects_range({:?}) = {} for {}", x, !exp_inter, desc);
        }
        if r.par_intersects_range(&x) != exp_inter {
          fail!("par_intersects_range({:?}) = {} for {}", x, !exp_inter, desc);
        }
        if r.contains_range(&x) != exp_cont {
          fail!("contains_range({:?}) = {} for {}", x, !exp_cont, desc);
        }
        if r.par_contains_range(&x) != exp_cont {
          fail!("par_contains_range({:?}) = {} for {}", x, !exp_cont, desc);
        }
        let f = m.range_fraction(&MocRange::<T, Q>::from(x.clone()));
        let fe = w.to_u64_idx() as f64 / tot.to_u64_idx() as f64;
        let bad_exact = (w == T::zero() && f != 0.0) || (w == tot && f != 1.0);
        if bad_exact || (f - fe).abs() > 1e-9 || !(0.0..=1.0).contains(&f) {
          fail!("range_fraction({:?}) = {} expected {} for {}", x, f, fe, desc);
        }
      }
    }
    // --- other MOC
    for _ in 0..3 {
      let d2 = rng.below(Q::MAX_DEPTH as u64 + 1) as u8;
      let o: RangeMOC<T, Q> = match rng.below(4) {
        0 => {
          // a subset of m
          let sub: Vec<Range<T>> = mv.iter().filter(|_| rng.below(2) == 0).cloned().collect();
          RangeMOC::new(depth, MocRanges::new_unchecked(sub))
        }
        1 => m.clone(),
        _ => gen_moc(&mut rng, d2),
      };
      let ov: Vec<Range<T>> = o.moc_ranges().iter().cloned().collect();
      let exp_inter = ov.iter().any(|x| m_cov(&mv, x) > T::zero());
      let exp_cont = ov.iter().all(|x| m_cov(&mv, x) == x.end - x.start);
      if m.moc_ranges().intersects(o.moc_ranges()) != exp_inter {
        fail!("intersects = {} for {} vs {:?}", !exp_inter, desc, ov);
      }
      if m.moc_ranges().contains(o.moc_ranges()) != exp_cont {
        fail!("contains(moc) = {} for {} vs {:?}", !exp_cont, desc, ov);
      }
      let exp_ovl: Vec<Range<T>> = mv
        .iter()
        .filter(|r| m_cov(&ov, r) > T::zero())
        .cloned()
        .collect();
      let it = m.overlapped_by_iter(&o);
      let hint = it.size_hint();
      let got: Vec<Range<T>> = it.collect();
      if got != exp_ovl {
        fail!("overlapped_by_iter = {:?} expected {:?} for {} vs {:?}", got, exp_ovl, desc, ov);
      }
      if hint.0 > got.len() || hint.1.map(|h| got.len() > h).unwrap_or(false) {
        fail!(
          "overlapped_by_iter size_hint {:?} but yields {} for {} vs {:?}",
          hint,
          got.len(),
          desc,
          ov
        );
      }
    }
  }
  println!("{}: {} cases, {} failures", tag, n_cases, nfail);
  nfail
}

fn run_mom(seed: u64, n_cases: usize) -> usize {
  let mut rng = Rng(seed);
  let mut nfail = 0;
  for _ in 0..n_cases {
    let depth = rng.below(30) as u8;
    let m: RangeMOC<u64, Hpx<u64>> = gen_moc(&mut rng, depth);
    let mv: Vec<Range<u64>> = m.moc_ranges().iter().cloned().collect();
    // random disjoint cells: choose distinct depth-2 cells subdivided variously
    let mut entries: Vec<(u64, f64)> = Vec::new();
    let mut exp = 0.0f64;
    for base in 0..192u64 {
      if rng.below(3) == 0 {
        continue;
      }
      let dd = rng.below(28) as u8;
      let d = 2 + dd;
      let idx = (base << (2 * dd)) + rng.below(1 << (2 * dd).min(40));
      let idx = idx.min(((base + 1) << (2 * dd)) - 1);
      let val = (rng.below(1000) as f64) / 10.0;
      let s = 2 * (29 - d) as u32;
      let cr = (idx << s)..((idx + 1) << s);
      let w = m_cov(&mv, &cr);
      exp += val * (w as f64 / (cr.end - cr.start) as f64);
      entries.push((Hpx::<u64>::to_zuniq(d, idx), val));
    }
    let it: HpxMomIter<u64, Hpx<u64>, f64, _> = HpxMomIter::new(entries.clone().into_iter());
    let got = it.sum_values_in_moc(&m);
    if (got - exp).abs() > 1e-6 * exp.abs().max(1.0) {
      println!("FAIL[mom] sum {} expected {} for depth {} {:?}", got, exp, depth, mv);
      nfail += 1;
    }
  }
  println!("mom: {} cases, {} failures", n_cases, nfail);
  nfail
}

fn main() {
  let args: Vec<String> = std::env::args().collect();
  let n: usize = args.get(1).and_then(|s| s.parse().ok()).unwrap_or(300);
  let seed: u64 = args.get(2).and_then(|s| s.parse().ok()).unwrap_or(0x1234_5678_9ABC_DEF1);
  let mut nf = 0;
  nf += run::<u16, Time<u16>>("time-u16", seed ^ 1, n);
  nf += run::<u32, Time<u32>>("time-u32", seed ^ 2, n);
  nf += run::<u64, Time<u64>>("time-u64", seed ^ 3, n);
  nf += run::<u16, Hpx<u16>>("hpx-u16", seed ^ 4, n);
  nf += run::<u32, Hpx<u32>>("hpx-u32", seed ^ 5, n);
  nf += run::<u64, Hpx<u64>>("hpx-u64", seed ^ 6, n);
  nf += run::<u16, Frequency<u16>>("freq-u16", seed ^ 7, n);
  nf += run::<u32, Frequency<u32>>("freq-u32", seed ^ 8, n);
  nf += run::<u64, Frequency<u64>>("freq-u64", seed ^ 9, n);
  nf += run_mom(seed ^ 10, n);
  if nf > 0 {
    std::process::exit(1);
  }
}
