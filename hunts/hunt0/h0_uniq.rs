use std::ops::Range;
use moc::idx::Idx;
use moc::elemset::range::{HpxRanges, MocRanges};
use moc::elemset::range::hpx::{HpxUniq2DepthIdxIter};
use moc::moc::range::RangeMOC;
use moc::moc::{RangeMOCIntoIterator, RangeMOCIterator};
use moc::qty::{Hpx, MocQty};
struct Rng(u64);
impl Rng { fn next(&mut self) -> u64 { let mut x = self.0; x ^= x << 13; x ^= x >> 7; x ^= x << 17; self.0 = x; x.wrapping_mul(0x2545F4914F6CDD1D) } fn below(&mut self, n: u64) -> u64 { if n == 0 {0} else {self.next() % n} } }
fn run<T: Idx + num::CheckedAdd>(tag: &str, seed: u64, n: usize) -> usize {
  let mut rng = Rng(seed); let mut nfail = 0;
  for _ in 0..n {
    let depth = match rng.below(3) { 0 => Hpx::<T>::MAX_DEPTH, _ => rng.below(Hpx::<T>::MAX_DEPTH as u64 + 1) as u8 };
    let nc = Hpx::<T>::n_cells(depth).to_u64(); let sh = Hpx::<T>::shift_from_depth_max(depth) as u32;
    let mut pts: Vec<u64> = vec![]; let k = 2 * (rng.below(4)) as usize; let mut t = 0;
    while pts.len() < k && t < 100 { t += 1; let p = match rng.below(5) { 0 => 0, 1 => nc, 2 => nc - rng.below(5.min(nc)), _ => rng.below(nc + 1) }; if !pts.contains(&p) { pts.push(p); } }
    pts.sort_unstable();
    let v: Vec<Range<T>> = pts.chunks(2).filter(|c| c.len() == 2).map(|c| T::from_u64(c[0]).unsigned_shl(sh)..T::from_u64(c[1]).unsigned_shl(sh)).collect();
    let m = RangeMOC::<T, Hpx<T>>::new(depth, MocRanges::new_unchecked(v.clone()));
    let mut exp: Vec<(i8, T)> = (&m).into_range_moc_iter().cells().map(|c| (c.depth as i8, c.idx)).collect();
    exp.sort();
    let r = std::panic::catch_unwind(std::panic::AssertUnwindSafe(|| { let hr: HpxRanges<T> = MocRanges::new_unchecked(v.clone()); HpxUniq2DepthIdxIter::new(hr).collect::<Vec<(i8, T)>>() }));
    match r { Ok(got) => if got != exp { println!("FAIL[{}] iter_depth_pix ranges={:?} got={:?} exp={:?}", tag, v, got, exp); nfail += 1; }, Err(_) => { println!("FAIL[{}] iter_depth_pix panicked ranges={:?}", tag, v); nfail += 1; } }
    let r = std::panic::catch_unwind(std::panic::AssertUnwindSafe(|| { let hr: HpxRanges<T> = MocRanges::new_unchecked(v.clone()); hr.into_hpx_uniq() }));
    match r { Ok(u) => {
      let mut expu: Vec<T> = exp.iter().map(|(d, i)| Hpx::<T>::uniq_hpx(*d as u8, *i)).collect(); expu.sort();
      let gotu: Vec<T> = u.iter().flat_map(|r| { let mut o = vec![]; let mut x = r.start; while x < r.end { o.push(x); x += T::one(); if o.len() > 100000 { break; } } o }).collect();
      if gotu != expu { println!("FAIL[{}] into_hpx_uniq ranges={:?} got={:?} exp={:?}", tag, v, gotu, expu); nfail += 1; }
      let back: Vec<Range<T>> = u.into_hpx().iter().cloned().collect();
      if back != v { println!("FAIL[{}] uniq->hpx ranges={:?} back={:?}", tag, v, back); nfail += 1; }
    }, Err(_) => { println!("FAIL[{}] into_hpx_uniq panicked ranges={:?}", tag, v); nfail += 1; } }
  }
  println!("{}: {} cases {} failures", tag, n, nfail); nfail
}
fn main() { std::panic::set_hook(Box::new(|_| {})); let n = 400; let mut nf = 0; nf += run::<u16>("u16", 1, n); nf += run::<u32>("u32", 2, n); nf += run::<u64>("u64", 3, n); if nf > 0 { std::process::exit(1); } }
