//! expanded / contracted / borders vs brute force at small depth.
use std::ops::Range;
use moc::idx::Idx;
use moc::elemset::range::MocRanges;
use moc::moc::range::RangeMOC;
use moc::qty::{Hpx, Time, Frequency, MocQty};
use moc::moc::{RangeMOCIterator, RangeMOCIntoIterator};
struct Rng(u64);
impl Rng { fn next(&mut self) -> u64 { let mut x = self.0; x ^= x << 13; x ^= x >> 7; x ^= x << 17; self.0 = x; x.wrapping_mul(0x2545F4914F6CDD1D) } fn below(&mut self, n: u64) -> u64 { if n == 0 {0} else {self.next() % n} } }
fn to_moc<T: Idx, Q: MocQty<T>>(depth: u8, b: &[bool]) -> RangeMOC<T, Q> {
  let sh = Q::shift_from_depth_max(depth) as u32; let mut v = vec![]; let mut i = 0;
  while i < b.len() { if b[i] { let s = i; while i < b.len() && b[i] { i += 1; } v.push(T::from_u64(s as u64).unsigned_shl(sh)..T::from_u64(i as u64).unsigned_shl(sh)); } else { i += 1; } }
  RangeMOC::new(depth, MocRanges::new_unchecked(v))
}
fn bits<T: Idx, Q: MocQty<T>>(m: &RangeMOC<T, Q>, depth: u8) -> Result<Vec<bool>, String> {
  let n = Q::n_cells(depth).to_u64() as usize; let sh = Q::shift_from_depth_max(depth) as u32; let mut b = vec![false; n]; let mut prev: Option<T> = None;
  for r in m.moc_ranges().iter() {
    if r.start >= r.end { return Err(format!("empty range {:?}", r)); }
    if let Some(p) = prev { if r.start <= p { return Err(format!("not canonical at {:?}", r)); } } prev = Some(r.end);
    let (s, e) = (r.start.unsigned_shr(sh), r.end.unsigned_shr(sh));
    if s.unsigned_shl(sh) != r.start || e.unsigned_shl(sh) != r.end { return Err(format!("unaligned {:?}", r)); }
    for i in s.to_u64()..e.to_u64() { b[i as usize] = true; }
  }
  Ok(b)
}
fn gen_bits(rng: &mut Rng, n: usize) -> Vec<bool> {
  match rng.below(8) { 0 => return vec![false; n], 1 => return vec![true; n], _ => {} }
  let mut b = vec![false; n]; let k = 1 + rng.below(5);
  for _ in 0..k { let s = match rng.below(4) { 0 => 0, 1 => n as u64 - 1, _ => rng.below(n as u64) }; let l = 1 + rng.below((n as u64 / 4).max(2)); for i in s..(s + l).min(n as u64) { b[i as usize] = true; } }
  if rng.below(3) == 0 { for x in b.iter_mut() { *x = !*x; } }
  b
}
fn run_hpx<T: Idx>(tag: &str, seed: u64, n: usize) -> usize {
  let mut rng = Rng(seed); let mut nfail = 0;
  for _ in 0..n {
    let depth = rng.below(4) as u8; let nc = 12usize << (2 * depth);
    let b = gen_bits(&mut rng, nc);
    let m: RangeMOC<T, Hpx<T>> = to_moc(depth, &b);
    let neigh = |i: usize| -> Vec<usize> { healpix::nested::neighbours(depth, i as u64, false).values_vec().into_iter().map(|h| h as usize).collect() };
    let exp_expanded: Vec<bool> = (0..nc).map(|i| b[i] || neigh(i).iter().any(|j| b[*j])).collect();
    let exp_contracted: Vec<bool> = (0..nc).map(|i| b[i] && neigh(i).iter().all(|j| b[*j])).collect();
    let exp_ext: Vec<bool> = (0..nc).map(|i| exp_expanded[i] && !b[i]).collect();
    let exp_int: Vec<bool> = (0..nc).map(|i| b[i] && !exp_contracted[i]).collect();
    for (name, g, e) in [("expanded", m.expanded(), &exp_expanded), ("contracted", m.contracted(), &exp_contracted), ("external_border", m.external_border(), &exp_ext), ("internal_border", m.internal_border(), &exp_int), ("internal_border_iter", m.internal_border_iter().into_range_moc(), &exp_int)] {
      match bits(&g, depth) { Ok(gb) => if &gb != e || g.depth_max() != depth { println!("FAIL[{}] {} depth={} moc={:?} got={:?} (d={})", tag, name, depth, m.moc_ranges().iter().collect::<Vec<_>>(), g.moc_ranges().iter().collect::<Vec<_>>(), g.depth_max()); nfail += 1; }, Err(s) => { println!("FAIL[{}] {} {}", tag, name, s); nfail += 1; } }
    }
  }
  println!("{}: {} cases {} failures", tag, n, nfail); nfail
}
macro_rules! run_1d { ($name:ident, $q:ident) => {
fn $name<T: Idx>(tag: &str, seed: u64, n: usize) -> usize {
  let mut rng = Rng(seed); let mut nfail = 0;
  for _ in 0..n {
    let dmax = <$q<T>>::MAX_DEPTH.min(9); let depth = rng.below(dmax as u64 + 1) as u8; let nc = 2usize << depth;
    let b = gen_bits(&mut rng, nc);
    let m: RangeMOC<T, $q<T>> = to_moc(depth, &b);
    let inb = |i: i64| -> Option<bool> { if i < 0 || i >= nc as i64 { None } else { Some(b[i as usize]) } };
    let exp_e: Vec<bool> = (0..nc as i64).map(|i| b[i as usize] || inb(i - 1) == Some(true) || inb(i + 1) == Some(true)).collect();
    let exp_c: Vec<bool> = (0..nc as i64).map(|i| b[i as usize] && inb(i - 1) != Some(false) && inb(i + 1) != Some(false)).collect();
    for (name, g, e) in [("expanded", m.expanded(), &exp_e), ("contracted", m.contracted(), &exp_c)] {
      match bits(&g, depth) { Ok(gb) => if &gb != e || g.depth_max() != depth { println!("FAIL[{}] {} depth={} moc={:?} got={:?}", tag, name, depth, m.moc_ranges().iter().collect::<Vec<_>>(), g.moc_ranges().iter().collect::<Vec<_>>()); nfail += 1; }, Err(s) => { println!("FAIL[{}] {} {} moc={:?}", tag, name, s, m.moc_ranges().iter().collect::<Vec<_>>()); nfail += 1; } }
    }
  }
  println!("{}: {} cases {} failures", tag, n, nfail); nfail
} } }
run_1d!(run_time, Time); run_1d!(run_freq, Frequency);
fn main() {
  let n = std::env::args().nth(1).and_then(|s| s.parse().ok()).unwrap_or(1500);
  let mut nf = 0;
  nf += run_hpx::<u16>("hpx16", 1, n); nf += run_hpx::<u32>("hpx32", 2, n); nf += run_hpx::<u64>("hpx64", 3, n);
  nf += run_time::<u16>("time16", 4, n); nf += run_time::<u32>("time32", 5, n); nf += run_time::<u64>("time64", 6, n);
  nf += run_freq::<u16>("freq16", 7, n); nf += run_freq::<u32>("freq32", 8, n); nf += run_freq::<u64>("freq64", 9, n);
  let _: Option<Range<u8>> = None;
  if nf > 0 { std::process::exit(1); }
}
