#!/bin/bash
# Runs the demo programs of the findings in the worktree (default /tmp/wt_hunt0).
# The h0_*.rs files of this directory must be in $WT/examples/ (they are copied if missing).
WT=${1:-/tmp/wt_hunt0}
HERE=$(cd "$(dirname "$0")" && pwd)
mkdir -p "$WT/examples"; cp -n "$HERE"/h0_*.rs "$WT/examples/" 2>/dev/null
cd "$WT" || exit 2
export CARGO_NET_OFFLINE=true
rc=0
for ex in h0_overlap_hint h0_xor_peek h0_divide h0_cells_hint h0_emptyrange; do
  echo "=== $ex"
  cargo run -q --offline --example $ex 2>/dev/null || rc=1
done
echo "=== finding_5_cli.sh"; "$HERE/finding_5_cli.sh" "$WT" || rc=1
echo "=== extras (out of the C01..C04 scope): h0_uniqgen h0_json_trunc"
cargo run -q --offline --example h0_uniqgen 2>/dev/null | grep -E "FAIL|ok" ; cargo run -q --offline --example h0_json_trunc 2>/dev/null
exit $rc
