#!/bin/bash
# `moc from timerange` with a zero length range (tmin == tmax): the FITS output contains an empty range.
# usage: finding_5_cli.sh [path of the worktree]   (the `moc` binary is built if needed)
WT=${1:-/tmp/wt_hunt0}
MOC=$WT/target/debug/moc
[ -x "$MOC" ] || (cd "$WT" && CARGO_NET_OFFLINE=true cargo build --offline -p moc-cli >/dev/null 2>&1)
D=$(mktemp -d); cd "$D"
printf '100 100\n200 300\n' > tr.txt
"$MOC" from timerange --time-type usec 61 tr.txt fits out_tmoc || exit 2
python3 - "$D/out_tmoc" <<'PY'
import struct, sys
d = open(sys.argv[1], 'rb').read()
hdr = d[2880:5760].decode('ascii')
naxis2 = int([hdr[i:i+80] for i in range(0, 2880, 80) if hdr[i:i+80].startswith('NAXIS2')][0][10:30])
vals = [struct.unpack('>Q', d[5760 + 8*i: 5768 + 8*i])[0] for i in range(naxis2)]
ranges = list(zip(vals[0::2], vals[1::2]))
print("ranges stored in the FITS file:", ranges)
bad = [r for r in ranges if r[0] >= r[1]]
if bad:
    print("FAIL the T-MOC written by `moc from timerange` contains the empty range(s)", bad)
    sys.exit(1)
PY
