use moc::deser::json::from_json_aladin;
use moc::moc::{CellMOCIntoIterator, CellMOCIterator, RangeMOCIterator};
use moc::qty::Hpx;
fn main() {
  // 65541 is not a cell of depth 5 (12288 cells): must be rejected, like it is with u64 indices
  let s = r#"{"5": [65541]}"#;
  let r64 = from_json_aladin::<u64, Hpx<u64>>(s).map(|m| m.into_cell_moc_iter().ranges().into_range_moc());
  let r16 = from_json_aladin::<u16, Hpx<u16>>(s).map(|m| m.into_cell_moc_iter().ranges().into_range_moc());
  println!("u64: {:?}", r64.as_ref().map(|m| m.moc_ranges().iter().collect::<Vec<_>>()).map_err(|e| e.to_string()));
  println!("u16: {:?}", r16.as_ref().map(|m| m.moc_ranges().iter().collect::<Vec<_>>()).map_err(|e| e.to_string()));
  if r16.is_ok() { println!("FAIL the out of domain index 65541 was silently read as cell 5/{}", 65541u32 as u16); std::process::exit(1); }
}
