//! The range builders keep an empty input range: the resulting RangeMOC is not canonical.
use std::ops::Range;
use moc::moc::range::RangeMOC;
use moc::moc::{RangeMOCIntoIterator, RangeMOCIterator};
use moc::qty::{Frequency, Hpx, Time};

fn canonical<T: moc::idx::Idx>(v: &[Range<T>]) -> bool {
  v.iter().all(|r| r.start < r.end) && v.windows(2).all(|w| w[0].end < w[1].start)
}
fn main() {
  let mut fail = false;
  // 1. generic constructor
  let m = RangeMOC::<u64, Time<u64>>::from_maxdepth_ranges(61, vec![100..100, 200..300].into_iter(), None);
  let v: Vec<Range<u64>> = m.moc_ranges().iter().cloned().collect();
  println!("{}from_maxdepth_ranges(61, [100..100, 200..300]) -> {:?}", if canonical(&v) {"ok   "} else {"FAIL "}, v);
  fail |= !canonical(&v);
  // consequences
  println!("     contains_val(100) = {} (expected false)", m.contains_val(&100));
  println!("     len() = {} is_empty() = {}", m.len(), m.is_empty());
  let n: Vec<Range<u64>> = m.not().moc_ranges().iter().cloned().collect();
  println!("{}complement -> {:?}", if canonical(&n) {"ok   "} else {"FAIL "}, n);
  fail |= !canonical(&n);
  let mut buf = Vec::new();
  (&m).into_range_moc_iter().to_fits_ivoa(None, None, &mut buf).unwrap();
  println!("     FITS output declares NAXIS2 = {} values for a MOC made of 1 (non empty) range", String::from_utf8_lossy(&buf[2880 + 4 * 80..2880 + 5 * 80]).trim());
  // 2. time constructor
  let m = RangeMOC::<u64, Time<u64>>::from_microsec_ranges_since_jd0(61, vec![100..100].into_iter(), None);
  let v: Vec<Range<u64>> = m.moc_ranges().iter().cloned().collect();
  println!("{}from_microsec_ranges_since_jd0(61, [100..100]) -> {:?} (is_empty() = {})", if canonical(&v) {"ok   "} else {"FAIL "}, v, m.is_empty());
  fail |= !canonical(&v);
  // the same empty interval gives either nothing or one cell according to its alignment
  let a = RangeMOC::<u64, Time<u64>>::from_microsec_ranges_since_jd0(55, vec![64..64].into_iter(), None);
  let b = RangeMOC::<u64, Time<u64>>::from_microsec_ranges_since_jd0(55, vec![65..65].into_iter(), None);
  println!("     depth 55: [64..64] -> {:?} ; [65..65] -> {:?}", a.moc_ranges().iter().collect::<Vec<_>>(), b.moc_ranges().iter().collect::<Vec<_>>());
  // 3. frequency constructor
  let m = RangeMOC::<u64, Frequency<u64>>::from_freq_ranges_in_hz(59, vec![1.0e9..1.0e9].into_iter(), None);
  let v: Vec<Range<u64>> = m.moc_ranges().iter().cloned().collect();
  println!("{}from_freq_ranges_in_hz(59, [1e9..1e9]) -> {:?}", if canonical(&v) {"ok   "} else {"FAIL "}, v);
  fail |= !canonical(&v);
  // 4. spatial
  let m = RangeMOC::<u32, Hpx<u32>>::from_maxdepth_ranges(13, vec![5..5].into_iter(), None);
  let v: Vec<Range<u32>> = m.moc_ranges().iter().cloned().collect();
  println!("{}Hpx<u32> from_maxdepth_ranges(13, [5..5]) -> {:?}", if canonical(&v) {"ok   "} else {"FAIL "}, v);
  fail |= !canonical(&v);
  if fail { std::process::exit(1); }
}
