//! OverlapRangeIter::size_hint (returned by RangeMOC::overlapped_by_iter) is the hint of its left
//! input: it ignores the pre-fetched `left` range (upper bound too small) and the fact that only a
//! subset of the left ranges is returned (lower bound too large).
use std::ops::Range;
use moc::elemset::range::MocRanges;
use moc::moc::range::RangeMOC;
use moc::moc::RangeMOCIterator;
use moc::qty::Time;

fn mk(v: Vec<Range<u64>>) -> RangeMOC<u64, Time<u64>> {
  RangeMOC::new(61, MocRanges::new_unchecked(v))
}
fn main() {
  let mut fail = false;
  let a = mk(vec![0..1, 5..6, 10..11]);
  for (name, b) in [("B = A", a.clone()), ("B = [0..11]", mk(vec![0..11])), ("B = [0..1]", mk(vec![0..1])), ("B = [10..11]", mk(vec![10..11]))] {
    let it = a.overlapped_by_iter(&b);
    let hint = it.size_hint();
    let got: Vec<Range<u64>> = it.collect();
    let bad = hint.0 > got.len() || hint.1.map(|h| got.len() > h).unwrap_or(false);
    println!("{}A = [0..1, 5..6, 10..11], {}: size_hint = {:?} but {} ranges are yielded {:?}", if bad {"FAIL "} else {"ok   "}, name, hint, got.len(), got);
    let mut buf = Vec::new();
    let res = a.overlapped_by_iter(&b).to_fits_ivoa(None, None, &mut buf);
    if let Err(e) = &res { println!("FAIL      overlapped_by_iter(..).to_fits_ivoa(..) -> Err({})", e); }
    fail |= bad || res.is_err();
  }
  if fail { std::process::exit(1); }
}
