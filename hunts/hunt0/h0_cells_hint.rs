//! RangeMOCIteratorFromCells::size_hint ignores its pre-fetched element.
use std::marker::PhantomData;
use moc::elem::cell::Cell;
use moc::moc::{CellMOCIterator, HasMaxDepth, MOCProperties, NonOverlapping, RangeMOCIterator, ZSorted};
use moc::qty::Hpx;

/// A (legal) user defined source of cells that advertises its exact size, like `vec::IntoIter` does.
struct VecCells { depth: u8, it: std::vec::IntoIter<Cell<u64>>, _q: PhantomData<Hpx<u64>> }
impl Iterator for VecCells {
  type Item = Cell<u64>;
  fn next(&mut self) -> Option<Cell<u64>> { self.it.next() }
  fn size_hint(&self) -> (usize, Option<usize>) { self.it.size_hint() }
}
impl HasMaxDepth for VecCells { fn depth_max(&self) -> u8 { self.depth } }
impl ZSorted for VecCells {}
impl NonOverlapping for VecCells {}
impl MOCProperties for VecCells {}
impl CellMOCIterator<u64> for VecCells { type Qty = Hpx<u64>; fn peek_last(&self) -> Option<&Cell<u64>> { None } }

fn src(cells: &[(u8, u64)]) -> VecCells {
  VecCells { depth: 3, it: cells.iter().map(|(d, i)| Cell::new(*d, *i)).collect::<Vec<_>>().into_iter(), _q: PhantomData }
}
fn main() {
  let mut fail = false;
  for cells in [vec![(3u8, 1u64)], vec![(3, 1), (3, 5)], vec![(3, 1), (3, 5), (3, 9)], vec![(3, 1), (3, 2)]] {
    let it = src(&cells).ranges();
    let hint = it.size_hint();
    let n = it.count();
    let bad = hint.0 > n || hint.1.map(|h| n > h).unwrap_or(false);
    println!("{}cells {:?}: ranges().size_hint() = {:?}, number of ranges yielded = {}", if bad { "FAIL " } else { "ok   " }, cells, hint, n);
    let mut buf = Vec::new();
    let res = src(&cells).ranges().to_fits_ivoa(None, None, &mut buf);
    if let Err(e) = &res { println!("FAIL cells {:?}: ranges().to_fits_ivoa(..) -> Err({})", cells, e); }
    fail |= bad || res.is_err();
  }
  if fail { std::process::exit(1); }
}
