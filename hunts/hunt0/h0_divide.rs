use moc::elemset::range::HpxRanges;
fn main() {
  let mut fail = false;
  for (v, d) in [
    (vec![1u64..4], 28u8),
    (vec![5..8], 28),
    (vec![3..5], 28),
    (vec![0..4], 28),
    (vec![2..8], 28),
    (vec![1..16], 27),
    (vec![15..32], 27),
  ] {
    let r = HpxRanges::<u64>::new_unchecked(v.clone()).divide(d);
    let out: Vec<_> = r.iter().cloned().collect();
    let has_empty = out.iter().any(|r| r.start >= r.end);
    let sh = 2 * (29 - d) as u32;
    let straddle = out.iter().any(|r| r.start < r.end && (r.start >> sh) != ((r.end - 1) >> sh));
    println!("{}divide({}) of {:?} -> {:?}{}{}", if has_empty || straddle {"FAIL "} else {""}, d, v, out,
      if has_empty {" [contains an empty range]"} else {""}, if straddle {" [a range straddles a cell boundary of min_depth]"} else {""});
    fail |= has_empty || straddle;
  }
  if fail { std::process::exit(1); }
}
