use std::ops::Range;
use moc::idx::Idx;
use moc::moc::range::RangeMOC;
use moc::moc::builder::fixed_depth::FixedDepthMocBuilder;
use moc::moc::builder::maxdepth_range::RangeMocBuilder;
use moc::qty::{Hpx, Time, Frequency, MocQty};
struct Rng(u64);
impl Rng { fn next(&mut self) -> u64 { let mut x = self.0; x ^= x << 13; x ^= x >> 7; x ^= x << 17; self.0 = x; x.wrapping_mul(0x2545F4914F6CDD1D) } fn below(&mut self, n: u64) -> u64 { if n == 0 {0} else {self.next() % n} } }
fn norm(mut v: Vec<Range<u64>>) -> Vec<Range<u64>> { v.retain(|r| r.start < r.end); v.sort_by_key(|r| r.start); let mut o: Vec<Range<u64>> = vec![]; for r in v { if let Some(l) = o.last_mut() { if r.start <= l.end { l.end = l.end.max(r.end); continue; } } o.push(r); } o }
fn got<T: Idx, Q: MocQty<T>>(m: &RangeMOC<T, Q>) -> Vec<Range<u64>> { m.moc_ranges().iter().map(|r| r.start.to_u64()..r.end.to_u64()).collect() }
fn run<T: Idx, Q: MocQty<T>>(tag: &str, seed: u64, n: usize) -> usize {
  let mut rng = Rng(seed); let mut nfail = 0;
  for _ in 0..n {
    let depth = match rng.below(4) { 0 => 0, 1 => Q::MAX_DEPTH, _ => rng.below(Q::MAX_DEPTH as u64 + 1) as u8 };
    let nc = Q::n_cells(depth).to_u64(); let sh = Q::shift_from_depth_max(depth) as u32;
    let cap = match rng.below(4) { 0 => Some(1usize), 1 => Some(2), 2 => Some(3 + rng.below(5) as usize), _ => None };
    // cells: clustered around few centers to get adjacency/duplicates
    let ncell = rng.below(40) as usize;
    let centers: Vec<u64> = (0..3).map(|_| match rng.below(4) { 0 => 0, 1 => nc - 1, _ => rng.below(nc) }).collect();
    let mut cells: Vec<u64> = (0..ncell).map(|_| { let c = centers[rng.below(3) as usize]; let d = rng.below(9); (c + d).saturating_sub(4).min(nc - 1) }).collect();
    if rng.below(3) == 0 { cells.sort_unstable(); }
    let exp = norm(cells.iter().map(|c| (c << sh)..((c + 1) << sh)).collect());
    let m: RangeMOC<T, Q> = RangeMOC::from_fixed_depth_cells(depth, cells.iter().map(|c| T::from_u64(*c)), cap);
    if got(&m) != exp || m.depth_max() != depth { println!("FAIL[{}] from_fixed_depth_cells depth={} cap={:?} cells={:?} got={:?} exp={:?}", tag, depth, cap, cells, got(&m), exp); nfail += 1; }
    let mut b = FixedDepthMocBuilder::<T, Q>::new(depth, cap); for c in &cells { b.push_v2(T::from_u64(*c)); } let m2 = b.into_moc_v2();
    if got(&m2) != exp { println!("FAIL[{}] push_v2/into_moc_v2 depth={} cap={:?} cells={:?} got={:?} exp={:?}", tag, depth, cap, cells, got(&m2), exp); nfail += 1; }
    let mut b = FixedDepthMocBuilder::<T, Q>::new(depth, cap); for c in &cells { if rng.below(2) == 0 { b.push_v2(T::from_u64(*c)); } else { b.push(T::from_u64(*c)); } } let m2 = if rng.below(2) == 0 { b.into_moc_v2() } else { b.into_moc() };
    if got(&m2) != exp { println!("FAIL[{}] mixed push depth={} cap={:?} cells={:?} got={:?} exp={:?}", tag, depth, cap, cells, got(&m2), exp); nfail += 1; }
    // append
    let half = cells.len() / 2;
    let m3: RangeMOC<T, Q> = RangeMOC::from_fixed_depth_cells(depth, cells[..half].iter().map(|c| T::from_u64(*c)), cap).append_fixed_depth_cells(depth, cells[half..].iter().map(|c| T::from_u64(*c)), cap);
    if got(&m3) != exp { println!("FAIL[{}] append depth={} cap={:?} cells={:?} got={:?} exp={:?}", tag, depth, cap, cells, got(&m3), exp); nfail += 1; }
    // from_cells with random deeper/shallower cells (degraded to depth)
    let mcells: Vec<(u8, u64)> = (0..rng.below(20)).map(|_| { let d = rng.below(Q::MAX_DEPTH as u64 + 1) as u8; let n = Q::n_cells(d).to_u64(); let c = centers[rng.below(3) as usize]; let idx = if d <= depth { c >> Q::shift(depth - d) } else { (c << Q::shift(d - depth)) + rng.below(4) }; (d, idx.min(n - 1)) }).collect();
    let expc = norm(mcells.iter().map(|(d, i)| { let s = Q::shift_from_depth_max(*d) as u32; let r = (i << s)..((i + 1) << s); let mask = !0u64 << sh; (r.start & mask)..((r.end + !mask) & mask) }).collect());
    let m4: RangeMOC<T, Q> = RangeMOC::from_cells(depth, mcells.iter().map(|(d, i)| (*d, T::from_u64(*i))), cap);
    if got(&m4) != expc { println!("FAIL[{}] from_cells depth={} cap={:?} cells={:?} got={:?} exp={:?}", tag, depth, cap, mcells, got(&m4), expc); nfail += 1; }
    // from_maxdepth_ranges
    let nmax = Q::n_cells_max().to_u64();
    let rs: Vec<Range<u64>> = (0..rng.below(15)).map(|_| { let c = centers[rng.below(3) as usize] << sh; let a = (c + rng.below(5 << sh.min(40))).min(nmax - 1); let len = 1 + rng.below(3 << sh.min(40)); a..(a + len).min(nmax) }).collect();
    let expr = norm(rs.iter().map(|r| { let mask = !0u64 << sh; (r.start & mask)..((r.end + !mask) & mask) }).collect());
    let m5: RangeMOC<T, Q> = RangeMOC::from_maxdepth_ranges(depth, rs.iter().map(|r| T::from_u64(r.start)..T::from_u64(r.end)), cap);
    if got(&m5) != expr { println!("FAIL[{}] from_maxdepth_ranges depth={} cap={:?} ranges={:?} got={:?} exp={:?}", tag, depth, cap, rs, got(&m5), expr); nfail += 1; }
    let mut b = RangeMocBuilder::<T, Q>::from(cap, m5.clone()); for r in &rs { b.push(T::from_u64(r.start)..T::from_u64(r.end)); } let m6 = b.into_moc();
    if got(&m6) != expr { println!("FAIL[{}] RangeMocBuilder::from depth={} got={:?} exp={:?}", tag, depth, got(&m6), expr); nfail += 1; }
  }
  println!("{}: {} cases {} failures", tag, n, nfail); nfail
}
fn main() {
  let n = std::env::args().nth(1).and_then(|s| s.parse().ok()).unwrap_or(3000);
  let mut nf = 0;
  nf += run::<u16, Hpx<u16>>("hpx16", 1, n); nf += run::<u32, Hpx<u32>>("hpx32", 2, n); nf += run::<u64, Hpx<u64>>("hpx64", 3, n);
  nf += run::<u16, Time<u16>>("time16", 4, n); nf += run::<u32, Time<u32>>("time32", 5, n); nf += run::<u64, Time<u64>>("time64", 6, n);
  nf += run::<u16, Frequency<u16>>("freq16", 7, n); nf += run::<u64, Frequency<u64>>("freq64", 8, n);
  if nf > 0 { std::process::exit(1); }
}
