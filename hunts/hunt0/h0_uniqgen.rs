use moc::qty::{MocQty, Time, Hpx};
use moc::elem::range::MocRange;
fn main() {
  let mut fail = false;
  for (d, i) in [(61u8, 5u64), (60, 5), (10, 3), (0, 1)] {
    let u = Time::<u64>::to_uniq_gen(d, i);
    let got = Time::<u64>::uniq_gen_to_range(u);
    let exp = MocRange::<u64, Time<u64>>::from((d, i)).0;
    let bad = got != exp;
    println!("{}Time uniq_gen_to_range(to_uniq_gen({}, {})) = {:?}, cell range = {:?}", if bad {"FAIL "} else {"ok "}, d, i, got, exp);
    fail |= bad;
  }
  for (d, i) in [(29u8, 5u64), (10, 3)] {
    let u = Hpx::<u64>::to_uniq_gen(d, i);
    let got = Hpx::<u64>::uniq_gen_to_range(u);
    let exp = MocRange::<u64, Hpx<u64>>::from((d, i)).0;
    println!("{}Hpx uniq_gen_to_range = {:?}, cell range = {:?}", if got != exp {"FAIL "} else {"ok "}, got, exp);
  }
  if fail { std::process::exit(1); }
}
