//! Range-set primitives vs naive model (bitset on a small domain + sparse big values).
use std::ops::Range;
use moc::ranges::{BorrowedRanges, Ranges, SNORanges};
use moc::elemset::range::MocRanges;
use moc::qty::{Hpx, Time, MocQty};

struct Rng(u64);
impl Rng {
  fn next(&mut self) -> u64 { let mut x = self.0; x ^= x << 13; x ^= x >> 7; x ^= x << 17; self.0 = x; x.wrapping_mul(0x2545F4914F6CDD1D) }
  fn below(&mut self, n: u64) -> u64 { if n == 0 { 0 } else { self.next() % n } }
}
const N: usize = 40;
fn gen(rng: &mut Rng) -> Vec<Range<u64>> {
  match rng.below(10) { 0 => return vec![], 1 => return vec![0..N as u64], _ => {} }
  let k = 2 * (1 + rng.below(6)) as usize;
  let mut pts: Vec<u64> = Vec::new();
  let mut tries = 0;
  while pts.len() < k && tries < 200 { tries += 1; let p = rng.below(N as u64 + 1); if !pts.contains(&p) { pts.push(p); } }
  pts.sort_unstable();
  pts.chunks(2).filter(|c| c.len() == 2).map(|c| c[0]..c[1]).collect()
}
fn bits(v: &[Range<u64>]) -> [bool; N] { let mut b = [false; N]; for r in v { for i in r.start..r.end { b[i as usize] = true; } } b }
fn from_bits(b: &[bool; N]) -> Vec<Range<u64>> {
  let mut out = Vec::new(); let mut i = 0;
  while i < N { if b[i] { let s = i; while i < N && b[i] { i += 1; } out.push(s as u64..i as u64); } else { i += 1; } }
  out
}
fn main() {
  let n: usize = std::env::args().nth(1).and_then(|s| s.parse().ok()).unwrap_or(20000);
  let mut rng = Rng(0xDEADBEEFCAFEF00D);
  let mut nfail = 0;
  for _ in 0..n {
    let a = gen(&mut rng); let b = gen(&mut rng);
    let (ba, bb) = (bits(&a), bits(&b));
    let ra = Ranges::new_unchecked(a.clone()); let rb = Ranges::new_unchecked(b.clone());
    let check = |name: &str, got: Vec<Range<u64>>, f: &dyn Fn(bool, bool) -> bool, nfail: &mut usize| {
      let mut e = [false; N]; for i in 0..N { e[i] = f(ba[i], bb[i]); }
      let exp = from_bits(&e);
      if got != exp { println!("FAIL {} a={:?} b={:?} got={:?} exp={:?}", name, a, b, got, exp); *nfail += 1; }
    };
    check("union", ra.union(&rb).0.to_vec(), &|x, y| x || y, &mut nfail);
    check("intersection", ra.intersection(&rb).0.to_vec(), &|x, y| x && y, &mut nfail);
    check("difference", ra.difference(&rb).0.to_vec(), &|x, y| x && !y, &mut nfail);
    check("merge-xor", ra.merge(&rb, |x, y| x ^ y).0.to_vec(), &|x, y| x ^ y, &mut nfail);
    check("merge-or", ra.merge(&rb, |x, y| x || y).0.to_vec(), &|x, y| x || y, &mut nfail);
    check("merge-and", ra.merge(&rb, |x, y| x && y).0.to_vec(), &|x, y| x && y, &mut nfail);
    check("merge-b-minus-a", ra.merge(&rb, |x, y| !x && y).0.to_vec(), &|x, y| !x && y, &mut nfail);
    check("merge-left", ra.merge(&rb, |x, _| x).0.to_vec(), &|x, _| x, &mut nfail);
    check("merge-right", ra.merge(&rb, |_, y| y).0.to_vec(), &|_, y| y, &mut nfail);
    check("complement", ra.complement_with_upper_bound(N as u64).0.to_vec(), &|x, _| !x, &mut nfail);
    check("b-union", BorrowedRanges(&a).union(&BorrowedRanges(&b)).0.to_vec(), &|x, y| x || y, &mut nfail);
    check("b-inter", BorrowedRanges(&a).intersection(&BorrowedRanges(&b)).0.to_vec(), &|x, y| x && y, &mut nfail);
    let exp_i = (0..N).any(|i| ba[i] && bb[i]);
    if ra.intersects(&rb) != exp_i { println!("FAIL intersects a={:?} b={:?}", a, b); nfail += 1; }
    let exp_c = (0..N).all(|i| !bb[i] || ba[i]);
    if ra.contains(&rb) != exp_c { println!("FAIL contains a={:?} b={:?} got {}", a, b, !exp_c); nfail += 1; }
    // new_from on shuffled overlapping input
    let mut mix: Vec<Range<u64>> = a.iter().chain(b.iter()).cloned().collect();
    for i in (1..mix.len()).rev() { let j = rng.below(i as u64 + 1) as usize; mix.swap(i, j); }
    check("new_from", Ranges::new_from(mix).0.to_vec(), &|x, y| x || y, &mut nfail);
  }
  // degraded (eager) on Time<u16>/Hpx<u16> near the domain upper bound
  let r = MocRanges::<u16, Hpx<u16>>::new_unchecked(vec![12287..12288]);
  for d in 0..=5u8 { let g = r.degraded(d); let sh = Hpx::<u16>::shift_from_depth_max(d); let e = (12287u16 >> sh << sh)..12288; if g.0.0.to_vec() != vec![e.clone()] { println!("FAIL degraded hpx16 d={} {:?} exp {:?}", d, g, e); nfail += 1; } }
  let r = MocRanges::<u16, Time<u16>>::new_unchecked(vec![16383..16384]);
  for d in 0..=13u8 { let g = r.degraded(d); let sh = Time::<u16>::shift_from_depth_max(d); let e = (16383u16 >> sh << sh)..16384; if g.0.0.to_vec() != vec![e.clone()] { println!("FAIL degraded time16 d={} {:?} exp {:?}", d, g, e); nfail += 1; } }
  println!("prims: {} cases, {} failures", n, nfail);
  if nfail > 0 { std::process::exit(1); }
}
