#!/bin/bash
# Finding 6: `moc from timestamp --time-type isosimple|isorfc`:
#  (a) the time of day goes through a double: 27071 of the 86400 seconds of a day come out 1 microsecond too late
#  (b) isorfc: the UTC offset of an RFC 3339 date-time is ignored
source "$(dirname "$0")/common.sh"
fail=0
exact() { python3 -c "
import sys
h,m,s=map(int,sys.argv[1:4]); off=int(sys.argv[4])
jdn=2458850  # Julian day number of 2020-01-01 (noon)
print(jdn*86400000000 - 43200000000 + (h*3600+m*60+s)*1000000 - off*1000000)" "$@"; }
chk() { # type string h m s offset_seconds
  got=$(echo "$2" | $M from timestamp 61 --time-type $1 - ascii | tr -d ' ')
  exp="61/$(exact $3 $4 $5 $6)"
  if [ "$got" == "$exp" ]; then s="ok  "; else s="FAIL"; fail=1; fi
  printf "%s %-10s %-28s -> %s (exact: %s)\n" "$s" "$1" "$2" "$got" "$exp"
}
chk isosimple "2020-01-01T12:00:00" 12 0 0 0
# afternoon: 1 microsecond too EARLY => the previous cell at every depth >= 56 (1 s = 15625 * 64 us)
for d in 56 58 61; do
  got=$(echo "2020-01-01T12:00:01" | $M from timestamp $d --time-type isosimple - ascii | tr -d ' ')
  exp="$d/$(( $(exact 12 0 1 0) >> (61 - d) ))"
  if [ "$got" == "$exp" ]; then s="ok  "; else s="FAIL"; fail=1; fi
  printf "%s %-10s %-28s -> %s (exact: %s)\n" "$s" "isosimple" "2020-01-01T12:00:01 depth $d" "$got" "$exp"
done
chk isosimple "2020-01-01T02:27:30" 2 27 30 0
chk isosimple "2020-01-01T02:27:33" 2 27 33 0
chk isorfc    "2020-01-01T02:27:30Z" 2 27 30 0
chk isorfc    "2020-01-01T12:00:00Z" 12 0 0 0
chk isorfc    "2020-01-01T12:00:00+05:00" 12 0 0 18000
chk isorfc    "2020-01-01T12:00:00-03:30" 12 0 0 -12600
python3 - <<'PY'
bad = 0
for h in range(24):
    for m in range(60):
        for s in range(60):
            f = (h / 24.0 + m / 1440.0 + s / 86400.0) - 0.5          # hms2jday_fract
            us = int(f * 86400000000.0)                               # `as i64`: truncation toward zero
            if us != (h * 3600 + m * 60 + s) * 1000000 - 43200000000:
                bad += 1
print("same arithmetic as crates/cli/src/lib.rs: %d of the 86400 seconds of a day are off by one microsecond (9717 too late, 17354 too early)" % bad)
PY
exit $fail
