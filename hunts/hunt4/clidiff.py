#!/usr/bin/env python3
"""Differential test of the `moc` command line tool (convert / op) against an interval-set model.
Prints lines starting with FAIL for each mismatch class (first few examples)."""
import json
import os
import random
import subprocess
import sys

MOC = os.environ.get("MOC", "/tmp/wt_hunt4/target/debug/moc")
WORK = os.environ.get("WORK", "/tmp/hunt4/work/clidiff")
os.makedirs(WORK, exist_ok=True)

MAXD = {"s": 29, "t": 61, "f": 59}
DIM = {"s": 2, "t": 1, "f": 1}
NBASE = {"s": 12, "t": 2, "f": 2}
TYPE = {"s": "smoc", "t": "tmoc", "f": "fmoc"}


def ntot(q):
    return NBASE[q] << (DIM[q] * MAXD[q])


def sh(q, d):
    return DIM[q] * (MAXD[q] - d)


def norm(r):
    r = sorted((a, b) for a, b in r if a < b)
    out = []
    for a, b in r:
        if out and a <= out[-1][1]:
            out[-1] = (out[-1][0], max(out[-1][1], b))
        else:
            out.append((a, b))
    return out


def compl(q, r):
    out = []
    p = 0
    for a, b in r:
        if p < a:
            out.append((p, a))
        p = b
    if p < ntot(q):
        out.append((p, ntot(q)))
    return out


def inter(x, y):
    out = []
    i = j = 0
    while i < len(x) and j < len(y):
        a = max(x[i][0], y[j][0])
        b = min(x[i][1], y[j][1])
        if a < b:
            out.append((a, b))
        if x[i][1] < y[j][1]:
            i += 1
        else:
            j += 1
    return out


def union(x, y):
    return norm(x + y)


def minus(q, x, y):
    return inter(x, compl(q, y))


def xor(q, x, y):
    return union(minus(q, x, y), minus(q, y, x))


def degrade(q, r, d):
    s = sh(q, d)
    return norm([((a >> s) << s, (((b - 1) >> s) + 1) << s) for a, b in r])


def cells(q, r, dmax):
    """decompose ranges in (depth, idx) cells, depth <= dmax"""
    out = []
    for a, b in r:
        while a < b:
            # largest aligned cell starting at a, fitting in [a,b)
            d = dmax
            while d > 0:
                s = sh(q, d - 1)
                if a & ((1 << s) - 1) == 0 and a + (1 << s) <= b:
                    d -= 1
                else:
                    break
            s = sh(q, d)
            out.append((d, a >> s))
            a += 1 << s
    return out


def to_ascii(q, r, d, shuffle=False):
    by = {}
    for dd, i in cells(q, r, d):
        by.setdefault(dd, []).append(i)
    toks = []
    for dd in sorted(by):
        idx = sorted(by[dd])
        grp = []
        k = 0
        while k < len(idx):
            j = k
            while j + 1 < len(idx) and idx[j + 1] == idx[j] + 1:
                j += 1
            grp.append(str(idx[k]) if j == k else "%d-%d" % (idx[k], idx[j]))
            k = j + 1
        toks.append("%d/%s" % (dd, " ".join(grp)))
    if d not in by:
        toks.append("%d/" % d)
    return " ".join(toks) + "\n"


def to_json(q, r, d):
    by = {}
    for dd, i in cells(q, r, d):
        by.setdefault(str(dd), []).append(i)
    by.setdefault(str(d), [])
    return json.dumps(by)


def parse_ascii(q, txt):
    r = []
    d = None
    dmax = 0
    for tok in txt.replace(",", " ").split():
        if "/" in tok:
            ds, rest = tok.split("/")
            d = int(ds)
            dmax = max(dmax, d)
            tok = rest
            if not tok:
                continue
        if "-" in tok:
            a, b = tok.split("-")
            a, b = int(a), int(b) + 1
        else:
            a, b = int(tok), int(tok) + 1
        s = sh(q, d)
        r.append((a << s, b << s))
    return dmax, norm(r), r


def parse_json(q, txt):
    o = json.loads(txt)
    r = []
    dmax = 0
    for ds, lst in o.items():
        d = int(ds)
        dmax = max(dmax, d)
        s = sh(q, d)
        for i in lst:
            r.append((i << s, (i + 1) << s))
    return dmax, norm(r), r


def parse_stream(q, txt):
    r = []
    dmax = None
    for line in txt.split("\n"):
        line = line.strip()
        if not line or line.startswith("qty="):
            continue
        if line.startswith("depth="):
            dmax = int(line[6:])
            continue
        ds, rest = line.split("/")
        d = int(ds)
        s = sh(q, d)
        if "+" in rest:
            a, l = rest.split("+")
            a, b = int(a), int(a) + int(l)
        elif "-" in rest:
            a, b = rest.split("-")
            a, b = int(a), int(b) + 1
        else:
            a, b = int(rest), int(rest) + 1
        r.append((a << s, b << s))
    return dmax, norm(r), r


def run(args, stdin=None):
    p = subprocess.run([MOC] + args, input=stdin, capture_output=True, text=True)
    return p.returncode, p.stdout, p.stderr


fails = {}


def fail(cls, msg):
    e = fails.setdefault(cls, [0, []])
    e[0] += 1
    if len(e[1]) < 3:
        e[1].append(msg)
        print("FAIL [%s] %s" % (cls, msg), flush=True)


def rand_moc(q, rng):
    # depth classes to hit the three index widths
    lim16 = {"s": 5, "t": 13, "f": 11}[q]
    lim32 = {"s": 13, "t": 29, "f": 27}[q]
    c = rng.random()
    if c < 0.5:
        d = rng.randint(0, min(4, lim16))
    elif c < 0.7:
        d = rng.randint(0, lim16)
    elif c < 0.85:
        d = rng.randint(lim16 + 1, lim32)
    else:
        d = rng.randint(lim32 + 1, MAXD[q])
    n = NBASE[q] << (DIM[q] * d)
    r = []
    k = rng.choice([0, 1, 1, 2, 3, 5, 8])
    for _ in range(k):
        c = rng.random()
        if c < 0.15:
            a = 0
        elif c < 0.3:
            a = n - 1
        else:
            a = rng.randrange(n)
        l = rng.choice([1, 1, 1, 2, 3, 4, 7, 16, max(1, n // 4), max(1, n // 2)])
        if rng.random() < 0.15:
            a = max(0, n - l)
        b = min(n, a + l)
        # sometimes align at a coarser depth
        if d > 0 and rng.random() < 0.4:
            dd = rng.randint(0, d)
            s = DIM[q] * (d - dd)
            a = (a >> s) << s
            b = min(n, (((b - 1) >> s) + 1) << s)
        r.append((a << sh(q, d), b << sh(q, d)))
    if rng.random() < 0.03:
        r = [(0, ntot(q))]
    return d, norm(r)


def write(path, txt):
    with open(path, "w") as f:
        f.write(txt)


def make_fits(q, d, r, name, rng):
    """write the model MOC to a fits file through `moc convert` with a random storage option; returns path, desc"""
    src = os.path.join(WORK, name + ".txt")
    write(src, to_ascii(q, r, d))
    out = os.path.join(WORK, name + ".fits")
    opts = []
    c = rng.random()
    if c < 0.35:
        opts = ["-f"]
    elif c < 0.5 and q == "s":
        opts = ["-p"]
    elif c < 0.6 and q == "s":
        opts = ["-p", "-f"]
    rc, so, se = run(["convert", "-t", TYPE[q], src, "fits"] + opts + [out])
    if rc != 0:
        fail("mkfits rc", "%s %s d=%d %s -> rc=%d %s" % (q, opts, d, to_ascii(q, r, d).strip()[:200], rc, se[:300]))
        return None, None
    return out, " ".join(opts)


def read_back(q, fmt, so, outpath):
    """decode the output of a command: returns (depth, ranges, raw)"""
    if fmt == "ascii":
        return parse_ascii(q, so)
    if fmt == "json":
        return parse_json(q, so)
    if fmt == "stream":
        return parse_stream(q, so)
    if fmt.startswith("fits"):
        rc, so2, se2 = run(["convert", outpath, "ascii"])
        if rc != 0:
            raise RuntimeError("readback rc=%d %s" % (rc, se2[:300]))
        return parse_ascii(q, so2)
    raise ValueError(fmt)


def out_args(fmt, outpath):
    if fmt == "fits":
        return ["fits", outpath]
    if fmt == "fits64":
        return ["fits", "-f", outpath]
    if fmt == "fitsv1":
        return ["fits", "-p", outpath]
    return [fmt]


def check_raw(q, raw):
    # raw decoded elements must be non overlapping (a well formed MOC)
    s = sorted(raw)
    for i in range(1, len(s)):
        if s[i][0] < s[i - 1][1]:
            return False
    return True


def main():
    seed = int(sys.argv[1]) if len(sys.argv) > 1 else 1
    niter = int(sys.argv[2]) if len(sys.argv) > 2 else 300
    rng = random.Random(seed)
    for it in range(niter):
        q = rng.choice("sstf")
        d1, r1 = rand_moc(q, rng)
        d2, r2 = rand_moc(q, rng)
        if rng.random() < 0.3:
            d2 = d1
            r2 = degrade(q, r2, d2)
        ofmts = ["ascii", "json", "stream", "fits", "fits64"] + (["fitsv1"] if q == "s" else [])
        # ---- convert
        ifmt = rng.choice(["ascii", "json", "stream", "fits"])
        ofmt = rng.choice(ofmts)
        src = os.path.join(WORK, "c_in")
        desc = "%s d=%d %s" % (q, d1, to_ascii(q, r1, d1).strip()[:300])
        if ifmt == "ascii":
            src += ".txt"
            write(src, to_ascii(q, r1, d1))
            args = ["convert", "-t", TYPE[q], src]
        elif ifmt == "json":
            src += ".json"
            write(src, to_json(q, r1, d1))
            args = ["convert", "-t", TYPE[q], src]
        elif ifmt == "stream":
            tmp = os.path.join(WORK, "c_in0.txt")
            write(tmp, to_ascii(q, r1, d1))
            rc, so, se = run(["convert", "-t", TYPE[q], tmp, "stream"])
            src += ".strm"
            write(src, so)
            args = ["convert", "-t", TYPE[q], "-f", "stream", src]
        else:
            src, fopt = make_fits(q, d1, r1, "c_in", rng)
            if src is None:
                continue
            desc += " [fits %s]" % fopt
            args = ["convert", src]
        outp = os.path.join(WORK, "c_out.fits")
        rc, so, se = run(args + out_args(ofmt, outp))
        cls = "convert %s %s->%s" % (q, ifmt, ofmt)
        if rc != 0:
            fail(cls + " rc", "%s rc=%d %s" % (desc, rc, se.strip()[:300]))
        else:
            try:
                gd, gr, raw = read_back(q, ofmt, so, outp)
                if gr != r1 or gd != d1:
                    fail(cls, "%s got d=%s %s" % (desc, gd, to_ascii(q, gr, max(gd or 0, d1)).strip()[:300]))
                elif not check_raw(q, raw):
                    fail(cls + " overlapping elems", "%s out=%s" % (desc, so[:300]))
            except Exception as e:
                fail(cls + " decode", "%s exc=%r out=%r" % (desc, e, so[:200]))
        # ---- op1
        f1, o1 = make_fits(q, d1, r1, "a", rng)
        f2, o2 = make_fits(q, d2, r2, "b", rng)
        if f1 is None or f2 is None:
            continue
        for op in ["complement", "degrade"]:
            ofmt = rng.choice(ofmts)
            if op == "complement":
                exp_d, exp_r = d1, compl(q, r1)
                args = ["op", "complement", f1]
            else:
                nd = rng.randint(0, min(MAXD[q], d1 + 2))
                exp_d, exp_r = min(d1, nd), degrade(q, r1, min(nd, d1))
                args = ["op", "degrade", str(nd), f1]
                op = "degrade %d" % nd
            rc, so, se = run(args + out_args(ofmt, outp))
            cls = "op %s %s [%s]->%s" % (op.split()[0], q, "", ofmt)
            desc = "%s %s d=%d %s [fits %s]" % (op, q, d1, to_ascii(q, r1, d1).strip()[:300], o1)
            if rc != 0:
                fail(cls + " rc", "%s rc=%d %s" % (desc, rc, se.strip()[:300]))
                continue
            try:
                gd, gr, raw = read_back(q, ofmt, so, outp)
                if gr != exp_r or gd != exp_d:
                    fail(cls, "%s got d=%s %s exp d=%d %s" % (desc, gd, to_ascii(q, gr, max(gd or 0, exp_d)).strip()[:300], exp_d, to_ascii(q, exp_r, exp_d).strip()[:300]))
                elif not check_raw(q, raw):
                    fail(cls + " overlapping elems", "%s out=%s" % (desc, so[:300]))
            except Exception as e:
                fail(cls + " decode", "%s exc=%r out=%r" % (desc, e, so[:200]))
        # ---- op2
        for op in ["inter", "union", "symdiff", "minus"]:
            ofmt = rng.choice(ofmts)
            exp_d = max(d1, d2)
            exp_r = {"inter": inter(r1, r2), "union": union(r1, r2), "symdiff": xor(q, r1, r2), "minus": minus(q, r1, r2)}[op]
            rc, so, se = run(["op", op, f1, f2] + out_args(ofmt, outp))
            cls = "op %s %s ->%s" % (op, q, ofmt)
            desc = "%s %s L: d=%d %s [fits %s] R: d=%d %s [fits %s]" % (
                op, q, d1, to_ascii(q, r1, d1).strip()[:200], o1, d2, to_ascii(q, r2, d2).strip()[:200], o2)
            if rc != 0:
                fail(cls + " rc", "%s rc=%d %s" % (desc, rc, se.strip()[:300]))
                continue
            try:
                gd, gr, raw = read_back(q, ofmt, so, outp)
                if gr != exp_r or gd != exp_d:
                    fail(cls, "%s got d=%s %s exp d=%d %s" % (desc, gd, to_ascii(q, gr, max(gd or 0, exp_d)).strip()[:300], exp_d, to_ascii(q, exp_r, exp_d).strip()[:300]))
                elif not check_raw(q, raw):
                    fail(cls + " overlapping elems", "%s out=%s" % (desc, so[:300]))
            except Exception as e:
                fail(cls + " decode", "%s exc=%r out=%r" % (desc, e, so[:200]))
    print("done seed=%d iters=%d; fail classes=%d" % (seed, niter, len(fails)))
    for k, (n, _) in sorted(fails.items()):
        print("SUMMARY %s n=%d" % (k, n))


main()
