# sourced by the demo scripts: locate (and build if needed) the UNMODIFIED `moc` binary of the worktree
WT=${WT:-/tmp/wt_hunt4}
export CARGO_NET_OFFLINE=true
M=${MOC:-$WT/target/debug/moc}
if [ ! -x "$M" ]; then
  echo "(building $M ...)" >&2
  (cd $WT/crates/cli && cargo build -q --offline 2>/dev/null)
fi
# the demo programs live in $WT/examples (copies in ./examples); restore them if the worktree was cleaned
HERE_COMMON=$(cd "$(dirname "${BASH_SOURCE[0]}")" && pwd)
mkdir -p $WT/examples
for f in $HERE_COMMON/examples/f_*.rs $HERE_COMMON/examples/h_store_split.rs; do
  [ -f $WT/examples/$(basename $f) ] || cp $f $WT/examples/
done
