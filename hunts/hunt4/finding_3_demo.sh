#!/bin/bash
# Finding 3: the `--no-split` flag of `moc from vcells` means the opposite for the `ascii` input than for the
# FITS inputs (`multires`, `skymap`); the same inversion exists between the store functions
# `from_valued_cells` and `from_multiordermap_fits_file*` / `from_skymap_fits_file*`.
source "$(dirname "$0")/common.sh"
W=$(mktemp -d)
HERE=$(cd "$(dirname "$0")" && pwd)
# the same map in the two formats: the single cell 0/0 (uniq 4) of total value 1, MOC depth 1
echo "4 1.0" > $W/map.txt
python3 $HERE/mkfits.py mom $W/map.fits 1 4:0.954929658551372   # density = 1 / (4 * pi/12) => value 1
fail=0
for flags in "" "--no-split" "--not-strict" "--no-split --not-strict"; do
  a=$($M from vcells -t 0.6 $flags ascii 1 $W/map.txt ascii)
  b=$($M from vcells -t 0.6 $flags multires $W/map.fits ascii)
  if [ "$a" == "$b" ]; then s="ok  "; else s="FAIL"; fail=1; fi
  printf "%s flags=[%-24s] ascii input -> '%s'   multires input -> '%s'\n" "$s" "$flags" "$a" "$b"
done
echo "--- store (cargo example h_store_split, needs --features storage)"
(cd $WT && CARGO_NET_OFFLINE=true cargo run -q --offline --features storage --example h_store_split $W/map.fits 2>/dev/null) || fail=1
rm -rf $W
exit $fail
