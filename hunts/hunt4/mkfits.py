#!/usr/bin/env python3
"""Tiny FITS writers (no dependency) for a multi-order map (UNIQ, PROBDENSITY) and an IMPLICIT skymap.

usage:
  mkfits.py mom    out.fits <mocorder> uniq:density [uniq:density ...]
  mkfits.py skymap out.fits <nside> <NESTED|RING> v0 v1 ... v(12*nside^2-1)
"""
import struct
import sys


def card(key, val=None, is_str=False):
    if val is None:
        s = key
    elif is_str:
        s = "%-8s= %-20s" % (key, "'%-8s'" % val)
    elif isinstance(val, bool):
        s = "%-8s= %20s" % (key, "T" if val else "F")
    else:
        s = "%-8s= %20s" % (key, str(val))
    assert len(s) <= 80
    return s.ljust(80).encode("ascii")


def block(cards):
    b = b"".join(cards)
    pad = (-len(b)) % 2880
    return b + b" " * pad


def primary():
    return block([card("SIMPLE", True), card("BITPIX", 8), card("NAXIS", 0), card("EXTEND", True), card("END")])


def pad_data(d):
    return d + b"\0" * ((-len(d)) % 2880)


def mom(path, order, rows):
    hdr = [
        card("XTENSION", "BINTABLE", True), card("BITPIX", 8), card("NAXIS", 2), card("NAXIS1", 16),
        card("NAXIS2", len(rows)), card("PCOUNT", 0), card("GCOUNT", 1), card("TFIELDS", 2),
        card("TTYPE1", "UNIQ", True), card("TFORM1", "K", True),
        card("TTYPE2", "PROBDENSITY", True), card("TFORM2", "D", True), card("TUNIT2", "sr-1", True),
        card("MOC", True), card("PIXTYPE", "HEALPIX", True), card("ORDERING", "NUNIQ", True),
        card("COORDSYS", "C", True), card("MOCORDER", order), card("END"),
    ]
    data = b"".join(struct.pack(">Qd", u, d) for (u, d) in rows)
    with open(path, "wb") as f:
        f.write(primary() + block(hdr) + pad_data(data))


def skymap(path, nside, ordering, vals):
    hdr = [
        card("XTENSION", "BINTABLE", True), card("BITPIX", 8), card("NAXIS", 2), card("NAXIS1", 8),
        card("NAXIS2", len(vals)), card("PCOUNT", 0), card("GCOUNT", 1), card("TFIELDS", 1),
        card("TTYPE1", "PROB", True), card("TFORM1", "D", True), card("TUNIT1", "pix-1", True),
        card("PIXTYPE", "HEALPIX", True), card("ORDERING", ordering, True),
        card("COORDSYS", "C", True), card("NSIDE", nside), card("INDXSCHM", "IMPLICIT", True), card("END"),
    ]
    data = b"".join(struct.pack(">d", v) for v in vals)
    with open(path, "wb") as f:
        f.write(primary() + block(hdr) + pad_data(data))


if __name__ == "__main__":
    kind, path = sys.argv[1], sys.argv[2]
    if kind == "mom":
        order = int(sys.argv[3])
        rows = []
        for a in sys.argv[4:]:
            u, d = a.split(":")
            rows.append((int(u), float(d)))
        mom(path, order, rows)
    elif kind == "skymap":
        nside = int(sys.argv[3])
        ordering = sys.argv[4]
        vals = [float(a) for a in sys.argv[5:]]
        assert len(vals) == 12 * nside * nside
        skymap(path, nside, ordering, vals)
    else:
        sys.exit("unknown kind")
