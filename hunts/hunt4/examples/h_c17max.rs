// C17 at the deepest depth of each index width (bit limits): expanded/contracted/borders/split on small MOCs.
use moc::idx::Idx;
use moc::moc::range::RangeMOC;
use moc::moc::{CellMOCIntoIterator, CellMOCIterator, RangeMOCIterator};
use moc::qty::{Hpx, MocQty};
use std::collections::BTreeSet;

struct Rng(u64);
impl Rng {
  fn next(&mut self) -> u64 {
    self.0 ^= self.0 << 13;
    self.0 ^= self.0 >> 7;
    self.0 ^= self.0 << 17;
    self.0
  }
  fn below(&mut self, n: u64) -> u64 {
    self.next() % n
  }
}

fn neigh(depth: u8, c: u64, all: bool) -> Vec<u64> {
  let m = healpix::nested::neighbours(depth, c, false);
  use healpix::compass_point::MainWind::*;
  let mut v = Vec::new();
  for w in [N, NE, E, SE, S, SW, W, NW] {
    let direct = matches!(w, NE | SE | SW | NW);
    if all || direct {
      if let Some(h) = m.get(w) {
        v.push(*h);
      }
    }
  }
  v
}

fn comps(depth: u8, s: &BTreeSet<u64>, all: bool) -> Vec<BTreeSet<u64>> {
  let mut left = s.clone();
  let mut res = Vec::new();
  while let Some(&f) = left.iter().next() {
    left.remove(&f);
    let mut comp: BTreeSet<u64> = [f].into_iter().collect();
    let mut st = vec![f];
    while let Some(c) = st.pop() {
      for o in neigh(depth, c, all) {
        if left.remove(&o) {
          comp.insert(o);
          st.push(o);
        }
      }
    }
    res.push(comp);
  }
  res.sort();
  res
}

fn run<T: Idx>(nfail: &mut usize, helper_panics: &mut std::collections::BTreeMap<String,(usize,String)>) {
  let depth = Hpx::<T>::MAX_DEPTH;
  let n = 12u64 << (2 * depth);
  let mut rng = Rng(0x1234567 + depth as u64);
  for it in 0..400 {
    // a blob grown from a seed cell (often in the last base cells / at base cell corners) + isolated cells
    let seed = match it % 5 {
      0 => n - 1,
      1 => 0,
      2 => (8 + rng.below(4)) * (n / 12) + rng.below(4),
      3 => rng.below(12) * (n / 12) + (n / 12) - 1 - rng.below(3),
      _ => rng.below(n),
    };
    let mut s: BTreeSet<u64> = [seed].into_iter().collect();
    for _ in 0..rng.below(12) {
      let v: Vec<u64> = s.iter().cloned().collect();
      let c = v[rng.below(v.len() as u64) as usize];
      let nb = neigh(depth, c, true);
      s.insert(nb[rng.below(nb.len() as u64) as usize]);
    }
    for _ in 0..rng.below(3) {
      s.insert(rng.below(n));
    }
    let m: RangeMOC<T, Hpx<T>> =
      RangeMOC::from_fixed_depth_cells(depth, s.iter().map(|c| T::from_u64(*c)), None);
    let flat = |m: &RangeMOC<T, Hpx<T>>| -> BTreeSet<u64> {
      m.flatten_to_fixed_depth_cells().map(|c| c.to_u64()).collect()
    };
    let mut e = s.clone();
    for c in &s {
      e.extend(neigh(depth, *c, true));
    }
    let c: BTreeSet<u64> = s
      .iter()
      .cloned()
      .filter(|c| neigh(depth, *c, true).iter().all(|o| s.contains(o)))
      .collect();
    let tn = std::any::type_name::<T>();
    let r = std::panic::catch_unwind(std::panic::AssertUnwindSafe(|| {
      let mut bad = Vec::new();
      if flat(&m.expanded()) != e {
        bad.push("expanded");
      }
      if depth <= 13 && flat(&m.contracted()) != c {
        bad.push("contracted");
      }
      if flat(&m.external_border()) != e.difference(&s).cloned().collect() {
        bad.push("external_border");
      }
      if depth <= 13 && flat(&m.internal_border()) != s.difference(&c).cloned().collect() {
        bad.push("internal_border");
      }
      for all in [false, true] {
        let mut got: Vec<BTreeSet<u64>> = m
          .split_into_joint_mocs(all)
          .into_iter()
          .map(|cm| flat(&cm.into_cell_moc_iter().ranges().into_range_moc()))
          .collect();
        got.sort();
        if got != comps(depth, &s, all) {
          bad.push(if all { "split(8)" } else { "split(4)" });
        }
      }
      bad
    }));
    for (name, f) in [
      ("all_edges_only_once", Box::new(|| m.all_edges_only_once().count()) as Box<dyn Fn() -> usize>),
      ("all_cells_with_unidirectional_neigs", Box::new(|| m.all_cells_with_unidirectional_neigs().count())),
      ("border_elementary_edges", Box::new(|| if depth <= 13 { m.border_elementary_edges().count() } else { 0 })),
    ] {
      if std::panic::catch_unwind(std::panic::AssertUnwindSafe(|| f())).is_err() {
        let e = helper_panics.entry(format!("{} {}", tn, name)).or_insert((0usize, format!("{:?}", s)));
        e.0 += 1;
      }
    }
    match r {
      Ok(bad) if bad.is_empty() => {}
      Ok(bad) => {
        *nfail += 1;
        if *nfail < 12 {
          println!("FAIL {} depth={} {:?} on {:?}", tn, depth, bad, s);
        }
      }
      Err(_) => {
        *nfail += 1;
        if *nfail < 12 {
          println!("FAIL {} depth={} PANIC on {:?}", tn, depth, s);
        }
      }
    }
  }
}

fn main() {
  let mut nfail = 0;
  std::panic::set_hook(Box::new(|_| {}));
  let mut hp = Default::default();
  run::<u16>(&mut nfail, &mut hp);
  run::<u32>(&mut nfail, &mut hp);
  run::<u64>(&mut nfail, &mut hp);
  for (k, (n, ex)) in &hp {
    println!("HELPER-PANIC {} n={} e.g. {}", k, n, ex);
  }
  println!("n_fail={}", nfail);
}
