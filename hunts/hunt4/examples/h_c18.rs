// C18: physical quantities <-> MOC indices
use moc::idx::Idx;
use moc::moc::range::RangeMOC;
use moc::moc::{RangeMOCIntoIterator, RangeMOCIterator};
use moc::qty::{Frequency, MocQty, Time};

struct Rng(u64);
impl Rng {
  fn next(&mut self) -> u64 {
    self.0 ^= self.0 << 13;
    self.0 ^= self.0 >> 7;
    self.0 ^= self.0 << 17;
    self.0
  }
}

fn rejects(f: f64) -> bool {
  std::panic::catch_unwind(|| Frequency::<u64>::freq2hash(f)).is_err()
}

fn check_valid<T: Idx, Q: MocQty<T>>(m: &RangeMOC<T, Q>, what: &str) -> bool {
  let mut prev: Option<T> = None;
  let sh = Q::shift_from_depth_max(m.depth_max()) as u32;
  let mask = (T::one().unsigned_shl(sh)) - T::one();
  for r in m.moc_ranges().iter() {
    if r.start >= r.end {
      println!("FAIL {}: empty/reversed range {:?}", what, r);
      return false;
    }
    if let Some(p) = prev {
      if p >= r.start {
        println!("FAIL {}: unsorted/unmerged ranges", what);
        return false;
      }
    }
    if r.end > Q::n_cells_max() {
      println!("FAIL {}: range out of domain {:?}", what, r);
      return false;
    }
    if (r.start & mask) != T::zero() || (r.end & mask) != T::zero() {
      println!("FAIL {}: range not aligned on depth {:?}", what, r);
      return false;
    }
    prev = Some(r.end);
  }
  true
}

macro_rules! freq_width {
  ($T:ty, $vals:expr, $nfail:expr) => {{
    let maxd = <Frequency<$T> as MocQty<$T>>::MAX_DEPTH;
    for depth in 0..=maxd {
      for &f in $vals.iter() {
        let h64 = Frequency::<u64>::freq2hash(f);
        let exp_cell = h64 >> (59 - depth);
        let m: RangeMOC<$T, Frequency<$T>> = RangeMOC::from_freq_in_hz(depth, std::iter::once(f), None);
        let what = format!("from_freq_in_hz<{}> depth={} f={:e}", stringify!($T), depth, f);
        if !check_valid(&m, &what) {
          $nfail += 1;
          continue;
        }
        let cells: Vec<u64> = m.flatten_to_fixed_depth_cells().map(|c| c.to_u64()).collect();
        if cells != vec![exp_cell] {
          println!("FAIL {} cells={:?} exp={}", what, cells, exp_cell);
          $nfail += 1;
        }
        // back to Hz (through u64)
        let m64: RangeMOC<u64, Frequency<u64>> = (&m)
          .into_range_moc_iter()
          .map(|r| r.start.to_u64_idx()..r.end.to_u64_idx())
          .collect::<Vec<_>>()
          .into_iter()
          .fold(RangeMOC::new_empty(depth), |acc, r| {
            acc.or(&RangeMOC::from_maxdepth_ranges(depth, std::iter::once(r), None))
          });
        for r in m64.moc_ranges().iter() {
          let (lo, hi) = (Frequency::<u64>::hash2freq(r.start), Frequency::<u64>::hash2freq(r.end));
          if !(lo <= f && f < hi) {
            println!("FAIL {} hz range [{:e},{:e}) does not enclose", what, lo, hi);
            $nfail += 1;
          }
        }
      }
      // ranges
      for w in $vals.windows(2) {
        let (f1, f2) = (w[0], w[1]);
        if !(f1 < f2) {
          continue;
        }
        let (h1, h2) = (Frequency::<u64>::freq2hash(f1), Frequency::<u64>::freq2hash(f2));
        let (c1, c2) = (h1 >> (59 - depth), ((h2 - 1) >> (59 - depth)) + 1);
        let m: RangeMOC<$T, Frequency<$T>> =
          RangeMOC::from_freq_ranges_in_hz(depth, std::iter::once(f1..f2), None);
        let what = format!(
          "from_freq_ranges_in_hz<{}> depth={} [{:e},{:e})",
          stringify!($T), depth, f1, f2
        );
        if !check_valid(&m, &what) {
          $nfail += 1;
          continue;
        }
        let rs: Vec<(u64, u64)> = m
          .moc_ranges()
          .iter()
          .map(|r| {
            let s = <Frequency<$T> as MocQty<$T>>::shift_from_depth_max(depth) as u32;
            ((r.start >> s as usize).to_u64(), (r.end >> s as usize).to_u64())
          })
          .collect();
        if rs != vec![(c1, c2)] {
          println!("FAIL {} got={:?} exp={:?}", what, rs, (c1, c2));
          $nfail += 1;
        }
      }
    }
  }};
}

macro_rules! time_width {
  ($T:ty, $vals:expr, $nfail:expr) => {{
    let maxd = <Time<$T> as MocQty<$T>>::MAX_DEPTH;
    for depth in 0..=maxd {
      for &t in $vals.iter() {
        let exp_cell = t >> (61 - depth);
        let m: RangeMOC<$T, Time<$T>> = RangeMOC::from_microsec_since_jd0(depth, std::iter::once(t), None);
        let what = format!("from_microsec_since_jd0<{}> depth={} t={}", stringify!($T), depth, t);
        if !check_valid(&m, &what) {
          $nfail += 1;
          continue;
        }
        let cells: Vec<u64> = m.flatten_to_fixed_depth_cells().map(|c| c.to_u64()).collect();
        if cells != vec![exp_cell] {
          println!("FAIL {} cells={:?} exp={}", what, cells, exp_cell);
          $nfail += 1;
        }
      }
      for w in $vals.windows(2) {
        let (t1, t2) = (w[0].min(w[1]), w[0].max(w[1]));
        if t1 == t2 {
          continue;
        }
        let (c1, c2) = (t1 >> (61 - depth), ((t2 - 1) >> (61 - depth)) + 1);
        let m: RangeMOC<$T, Time<$T>> =
          RangeMOC::from_microsec_ranges_since_jd0(depth, std::iter::once(t1..t2), None);
        let what = format!(
          "from_microsec_ranges_since_jd0<{}> depth={} [{},{})",
          stringify!($T), depth, t1, t2
        );
        if !check_valid(&m, &what) {
          $nfail += 1;
          continue;
        }
        let s = <Time<$T> as MocQty<$T>>::shift_from_depth_max(depth) as u32;
        let rs: Vec<(u64, u64)> = m
          .moc_ranges()
          .iter()
          .map(|r| ((r.start >> s as usize).to_u64(), (r.end >> s as usize).to_u64()))
          .collect();
        if rs != vec![(c1, c2)] {
          println!("FAIL {} got={:?} exp={:?}", what, rs, (c1, c2));
          $nfail += 1;
        }
      }
    }
  }};
}

fn main() {
  std::panic::set_hook(Box::new(|_| {}));
  let mut nfail = 0usize;
  let mut rng = Rng(0xdeadbeefcafef00d);
  // ---- frequency mapping
  let fmin = f64::from_bits(929u64 << 52);
  let fmax = f64::from_bits((1184u64 << 52) | ((1u64 << 52) - 1));
  println!("fmin={:e} fmax={:e}", fmin, fmax);
  if rejects(fmin) {
    println!("FAIL lower bound 2^-94 rejected");
    nfail += 1;
  }
  if rejects(fmax) {
    println!("FAIL upper bound rejected");
    nfail += 1;
  }
  let below = f64::from_bits((929u64 << 52) - 1);
  let above = f64::from_bits(1185u64 << 52);
  for (n, v) in [("below", below), ("above", above), ("zero", 0.0), ("neg", -1.0), ("nan", f64::NAN), ("inf", f64::INFINITY), ("subnormal", 5e-324)] {
    if !rejects(v) {
      println!("FAIL value {} {:e} not rejected: hash={}", n, v, Frequency::<u64>::freq2hash(v));
      nfail += 1;
    }
  }
  let mut vals: Vec<f64> = Vec::new();
  for e in 929u64..=1184 {
    for m in [0u64, 1, 2, 1 << 51, (1 << 51) + 1, (1 << 52) - 2, (1 << 52) - 1] {
      vals.push(f64::from_bits((e << 52) | m));
    }
    for _ in 0..4 {
      vals.push(f64::from_bits((e << 52) | (rng.next() & ((1 << 52) - 1))));
    }
  }
  vals.sort_by(|a, b| a.partial_cmp(b).unwrap());
  vals.dedup();
  let mut prev: Option<(f64, u64)> = None;
  for &f in &vals {
    let h = Frequency::<u64>::freq2hash(f);
    if h >= Frequency::<u64>::n_cells_max() {
      println!("FAIL hash out of domain f={:e} h={}", f, h);
      nfail += 1;
    }
    let back = Frequency::<u64>::hash2freq(h);
    if back.to_bits() != f.to_bits() {
      println!("FAIL not invertible f={:e} back={:e}", f, back);
      nfail += 1;
    }
    if let Some((pf, ph)) = prev {
      if !(ph < h) {
        println!("FAIL not strictly increasing {:e}->{} {:e}->{}", pf, ph, f, h);
        nfail += 1;
      }
    }
    prev = Some((f, h));
  }
  // narrower hashes
  for &f in &vals {
    let h = Frequency::<u64>::freq2hash(f);
    let h32 = Frequency::<u32>::freq2hash(f);
    let h16 = Frequency::<u16>::freq2hash(f);
    if h32 as u64 != h >> 32 || h16 as u64 != h >> 48 {
      println!("FAIL narrow hash f={:e}", f);
      nfail += 1;
    }
  }
  // a thinner selection for the MOC builders
  let sel: Vec<f64> = vals.iter().cloned().step_by(97).chain([fmin, fmax, vals[1], vals[vals.len() - 2]]).collect();
  let mut sel = sel;
  sel.sort_by(|a, b| a.partial_cmp(b).unwrap());
  sel.dedup();
  freq_width!(u16, sel, nfail);
  freq_width!(u32, sel, nfail);
  freq_width!(u64, sel, nfail);
  // ---- time
  let mut tv: Vec<u64> = vec![0, 1, 2, 3, (1 << 62) - 1, (1 << 62) - 2, 1 << 61, (1 << 61) - 1, (1 << 61) + 1, 1 << 48, (1 << 48) - 1, (1 << 48) + 1, 1 << 32, (1 << 32) - 1, (1 << 32) + 1];
  for _ in 0..40 {
    tv.push(rng.next() >> 2);
    tv.push((rng.next() >> 2) >> (rng.next() % 60));
  }
  time_width!(u16, tv, nfail);
  time_width!(u32, tv, nfail);
  time_width!(u64, tv, nfail);
  // ---- width conversions (narrow -> wide) keep the same physical interval
  for depth in 0..=13u8 {
    for w in tv.windows(2) {
      let (t1, t2) = (w[0].min(w[1]), w[0].max(w[1]));
      if t1 == t2 {
        continue;
      }
      let m16: RangeMOC<u16, Time<u16>> = RangeMOC::from_microsec_ranges_since_jd0(depth, std::iter::once(t1..t2), None);
      let m64: RangeMOC<u64, Time<u64>> = RangeMOC::from_microsec_ranges_since_jd0(depth, std::iter::once(t1..t2), None);
      let c64 = (&m16).into_range_moc_iter().convert::<u64, Time<u64>>().into_range_moc();
      let c32 = (&m16).into_range_moc_iter().convert::<u32, Time<u32>>().into_range_moc();
      let c3264 = (&c32).into_range_moc_iter().convert::<u64, Time<u64>>().into_range_moc();
      if c64 != m64 || c3264 != m64 {
        println!("FAIL time width conversion depth={} [{},{})", depth, t1, t2);
        nfail += 1;
      }
    }
  }
  for depth in 0..=11u8 {
    for w in sel.windows(2) {
      let (f1, f2) = (w[0], w[1]);
      let m16: RangeMOC<u16, Frequency<u16>> = RangeMOC::from_freq_ranges_in_hz(depth, std::iter::once(f1..f2), None);
      let m64: RangeMOC<u64, Frequency<u64>> = RangeMOC::from_freq_ranges_in_hz(depth, std::iter::once(f1..f2), None);
      let c64 = (&m16).into_range_moc_iter().convert::<u64, Frequency<u64>>().into_range_moc();
      let c32 = (&m16).into_range_moc_iter().convert::<u32, Frequency<u32>>().into_range_moc();
      let c3264 = (&c32).into_range_moc_iter().convert::<u64, Frequency<u64>>().into_range_moc();
      if c64 != m64 || c3264 != m64 {
        println!("FAIL freq width conversion depth={} [{:e},{:e})", depth, f1, f2);
        nfail += 1;
      }
    }
  }
  println!("n_fail={}", nfail);
}
