// Demo for finding 9: all_edges_only_once / all_cells_with_unidirectional_neigs compute `i - 1` with i == 0
// (src/moc/range/mod.rs:795 and :879) as soon as a neighbour of a cell lies before the first cell of the MOC:
// panic 'attempt to subtract with overflow' in a build with overflow checks (debug, tests); harmless wrap otherwise.
use moc::moc::range::RangeMOC;
use moc::qty::Hpx;
fn main() {
  std::panic::set_hook(Box::new(|_| {}));
  let mut nfail = 0;
  // the single base cell 5: its neighbours 0, 1, 4... come before it
  let m: RangeMOC<u64, Hpx<u64>> = RangeMOC::from_fixed_depth_cells(0, [5u64].into_iter(), None);
  for (name, r) in [
    (
      "all_edges_only_once",
      std::panic::catch_unwind(|| m.all_edges_only_once().count()),
    ),
    (
      "all_cells_with_unidirectional_neigs",
      std::panic::catch_unwind(|| m.all_cells_with_unidirectional_neigs().count()),
    ),
  ] {
    match r {
      Ok(n) => println!("ok   {} on the MOC 0/5: {} cell(s)", name, n),
      Err(_) => {
        println!("FAIL {} on the MOC 0/5: panic", name);
        nfail += 1;
      }
    }
  }
  if nfail > 0 {
    std::process::exit(1);
  }
}
