// Demo for finding 5: empty / reversed ranges given to the range builders end up, as they are, in the MOC.
use moc::moc::range::RangeMOC;
use moc::qty::{Frequency, Hpx, Time};
fn main() {
  let mut nfail = 0;
  let t: RangeMOC<u64, Time<u64>> =
    RangeMOC::from_microsec_ranges_since_jd0(61, [8u64..10, 12..2].into_iter(), None);
  println!("time, depth 61, [8,10) + [12,2)  -> {:?}", t.moc_ranges());
  if t.moc_ranges().iter().any(|r| r.start >= r.end) {
    println!("FAIL the T-MOC holds a reversed range (n ranges = {}, is_empty() = {})", t.len(), t.is_empty());
    nfail += 1;
  }
  let t: RangeMOC<u64, Time<u64>> =
    RangeMOC::from_microsec_ranges_since_jd0(61, [5u64..5].into_iter(), None);
  println!("time, depth 61, [5,5)            -> {:?}", t.moc_ranges());
  if !t.is_empty() {
    println!("FAIL the T-MOC holds an empty range: is_empty() = false, complement = {:?}", t.not().moc_ranges());
    nfail += 1;
  }
  // the same empty interval gives a cell or nothing depending on its position
  let a: RangeMOC<u64, Time<u64>> = RangeMOC::from_microsec_ranges_since_jd0(60, [5u64..5].into_iter(), None);
  let b: RangeMOC<u64, Time<u64>> = RangeMOC::from_microsec_ranges_since_jd0(60, [4u64..4].into_iter(), None);
  println!("time, depth 60, [5,5) -> {:?} ; [4,4) -> {:?}", a.moc_ranges(), b.moc_ranges());
  if a.range_sum() != b.range_sum() {
    println!("FAIL an empty interval covers a cell, or not, depending on its alignment");
    nfail += 1;
  }
  let f: RangeMOC<u64, Frequency<u64>> = RangeMOC::from_freq_ranges_in_hz(59, [3.0..1.0].into_iter(), None);
  println!("freq, depth 59, [3 Hz, 1 Hz)     -> {:?}", f.moc_ranges());
  if f.moc_ranges().iter().any(|r| r.start >= r.end) {
    println!("FAIL the F-MOC holds a reversed range; complement = {:?}", f.not().moc_ranges());
    nfail += 1;
  }
  let s: RangeMOC<u64, Hpx<u64>> = RangeMOC::from_maxdepth_ranges(29, [7u64..7, 20..10].into_iter(), None);
  println!("hpx, depth 29, [7,7) + [20,10)   -> {:?}", s.moc_ranges());
  if s.moc_ranges().iter().any(|r| r.start >= r.end) {
    println!("FAIL the S-MOC holds empty / reversed ranges");
    nfail += 1;
  }
  if nfail > 0 {
    std::process::exit(1);
  }
}
