// C17: expansion / contraction / borders / split / fill_holes against an independent geometric model.
use moc::idx::Idx;
use moc::moc::range::RangeMOC;
use moc::moc::{CellMOCIntoIterator, CellMOCIterator, RangeMOCIntoIterator, RangeMOCIterator};
use moc::qty::Hpx;
use std::collections::{BTreeMap, BTreeSet};

struct Rng(u64);
impl Rng {
  fn next(&mut self) -> u64 {
    self.0 ^= self.0 << 13;
    self.0 ^= self.0 >> 7;
    self.0 ^= self.0 << 17;
    self.0
  }
  fn below(&mut self, n: u64) -> u64 {
    self.next() % n
  }
}

struct Geo {
  n: usize,
  edge: Vec<BTreeSet<usize>>, // share >= 2 vertices
  any: Vec<BTreeSet<usize>>,  // share >= 1 vertex
}

fn geo(depth: u8) -> Geo {
  let n = 12usize << (2 * depth);
  let mut vmap: BTreeMap<(i64, i64, i64), Vec<usize>> = BTreeMap::new();
  let mut cell_v: Vec<Vec<(i64, i64, i64)>> = Vec::new();
  for h in 0..n {
    let vs = healpix::nested::vertices(depth, h as u64);
    let mut keys = Vec::new();
    for (lon, lat) in vs.iter() {
      let (x, y, z) = (lat.cos() * lon.cos(), lat.cos() * lon.sin(), lat.sin());
      let k = (
        (x * 1e7).round() as i64,
        (y * 1e7).round() as i64,
        (z * 1e7).round() as i64,
      );
      vmap.entry(k).or_default().push(h);
      keys.push(k);
    }
    cell_v.push(keys);
  }
  let mut edge = vec![BTreeSet::new(); n];
  let mut any = vec![BTreeSet::new(); n];
  for h in 0..n {
    let mut cnt: BTreeMap<usize, usize> = BTreeMap::new();
    for k in &cell_v[h] {
      for o in &vmap[k] {
        if *o != h {
          *cnt.entry(*o).or_default() += 1;
        }
      }
    }
    for (o, c) in cnt {
      any[h].insert(o);
      if c >= 2 {
        edge[h].insert(o);
      }
    }
  }
  Geo { n, edge, any }
}

fn to_moc<T: Idx>(depth: u8, s: &BTreeSet<usize>) -> RangeMOC<T, Hpx<T>> {
  RangeMOC::from_fixed_depth_cells(depth, s.iter().map(|c| T::from_u64(*c as u64)), None)
}
fn to_set<T: Idx>(depth: u8, m: &RangeMOC<T, Hpx<T>>) -> BTreeSet<usize> {
  assert_eq!(m.depth_max(), depth, "depth of result");
  m.flatten_to_fixed_depth_cells()
    .map(|c| c.to_u64() as usize)
    .collect()
}

fn expand(g: &Geo, s: &BTreeSet<usize>) -> BTreeSet<usize> {
  let mut r = s.clone();
  for c in s {
    for o in (if std::env::var("BREAK").is_ok() { &g.edge[*c] } else { &g.any[*c] }) {
      r.insert(*o);
    }
  }
  r
}
fn compl(g: &Geo, s: &BTreeSet<usize>) -> BTreeSet<usize> {
  (0..g.n).filter(|c| !s.contains(c)).collect()
}
fn components(nb: &[BTreeSet<usize>], s: &BTreeSet<usize>) -> Vec<BTreeSet<usize>> {
  let mut left = s.clone();
  let mut res = Vec::new();
  while let Some(&f) = left.iter().next() {
    left.remove(&f);
    let mut comp = BTreeSet::new();
    comp.insert(f);
    let mut st = vec![f];
    while let Some(c) = st.pop() {
      for o in &nb[c] {
        if left.remove(o) {
          comp.insert(*o);
          st.push(*o);
        }
      }
    }
    res.push(comp);
  }
  res
}

fn check<T: Idx>(depth: u8, g: &Geo, s: &BTreeSet<usize>, fails: &mut BTreeMap<String, (usize, String)>) {
  let tn = std::any::type_name::<T>();
  let mut fail = |what: &str, detail: String| {
    let e = fails
      .entry(format!("{} {} d={}", what, tn, depth))
      .or_insert((0, detail.clone()));
    e.0 += 1;
    if detail.len() < e.1.len() {
      e.1 = detail;
    }
  };
  let m: RangeMOC<T, Hpx<T>> = to_moc(depth, s);
  assert_eq!(&to_set(depth, &m), s);
  let exp_e = expand(g, s);
  let exp_c = compl(g, &expand(g, &compl(g, s)));
  macro_rules! guarded {
    ($name:expr, $e:expr) => {{
      let r = std::panic::catch_unwind(std::panic::AssertUnwindSafe(|| $e));
      match r {
        Ok(v) => Some(v),
        Err(_) => {
          fail(&format!("PANIC {}", $name), format!("{:?}", s));
          None
        }
      }
    }};
  }
  if let Some(r) = guarded!("expanded", to_set(depth, &m.expanded())) {
    if r != exp_e {
      fail("expanded", format!("{:?} got {:?} exp {:?}", s, r, exp_e));
    }
  }
  if let Some(r) = guarded!("contracted", to_set(depth, &m.contracted())) {
    if r != exp_c {
      fail("contracted", format!("{:?} got {:?} exp {:?}", s, r, exp_c));
    }
  }
  if let Some(r) = guarded!("external_border", to_set(depth, &m.external_border())) {
    let e: BTreeSet<usize> = exp_e.difference(s).cloned().collect();
    if r != e {
      fail("external_border", format!("{:?} got {:?} exp {:?}", s, r, e));
    }
  }
  if let Some(r) = guarded!("internal_border", to_set(depth, &m.internal_border())) {
    let e: BTreeSet<usize> = s.difference(&exp_c).cloned().collect();
    if r != e {
      fail("internal_border", format!("{:?} got {:?} exp {:?}", s, r, e));
    }
  }
  if let Some(r) = guarded!(
    "internal_border_iter",
    to_set(depth, &m.internal_border_iter().into_range_moc())
  ) {
    let e: BTreeSet<usize> = s.difference(&exp_c).cloned().collect();
    if r != e {
      fail("internal_border_iter", format!("{:?} got {:?} exp {:?}", s, r, e));
    }
  }
  for indirect in [false, true] {
    if let Some(parts) = guarded!(
      format!("split({})", indirect),
      m.split_into_joint_mocs(indirect)
        .into_iter()
        .map(|cm| {
          let rm = cm.into_cell_moc_iter().ranges().into_range_moc();
          to_set(depth, &rm)
        })
        .collect::<Vec<_>>()
    ) {
      let mut got: Vec<BTreeSet<usize>> = parts;
      got.sort();
      let mut exp = components(if indirect { &g.any } else { &g.edge }, s);
      exp.sort();
      if got != exp {
        fail(
          &format!("split({})", indirect),
          format!("{:?} got {:?} exp {:?}", s, got, exp),
        );
      }
    }
  }
  // fill holes
  for (name, r) in [
    ("fill_holes(None)", guarded!("fill_holes(None)", to_set(depth, &m.fill_holes(None)))),
    ("fill_holes(Some(1))", guarded!("fill_holes(Some(1))", to_set(depth, &m.fill_holes(Some(1))))),
    (
      "fill_holes_smaller_than(0.1)",
      guarded!(
        "fill_holes_smaller_than(0.1)",
        to_set(depth, &m.fill_holes_smaller_than(0.1))
      ),
    ),
    (
      "fill_holes_smaller_than(1.0)",
      guarded!(
        "fill_holes_smaller_than(1.0)",
        to_set(depth, &m.fill_holes_smaller_than(1.0))
      ),
    ),
  ] {
    if let Some(r) = r {
      if !r.is_superset(s) {
        fail(&format!("{} not superset", name), format!("{:?} got {:?}", s, r));
        continue;
      }
      let added: BTreeSet<usize> = r.difference(s).cloned().collect();
      let c = compl(g, s);
      // components of the complement (weakest requirement: edge connectivity)
      for comp in components(&g.any, &c) {
        let k = comp.intersection(&added).count();
        if k != 0 && k != comp.len() {
          fail(
            &format!("{} partial component", name),
            format!("{:?} got {:?} comp {:?}", s, r, comp),
          );
        }
      }
      // exact expectation for the documented algorithm
      let mut comps = components(&g.any, &c);
      comps.sort_by(|a, b| b.len().cmp(&a.len()));
      let exp: Option<BTreeSet<usize>> = match name {
        "fill_holes_smaller_than(1.0)" => Some((0..g.n).collect()),
        "fill_holes(None)" => {
          // ambiguous if ties for the largest
          if comps.len() >= 2 && comps[0].len() == comps[1].len() {
            None
          } else {
            let mut e = s.clone();
            for comp in comps.iter().skip(1) {
              e.extend(comp.iter().cloned());
            }
            Some(e)
          }
        }
        "fill_holes_smaller_than(0.1)" => {
          let mut e = s.clone();
          for comp in comps.iter() {
            if (comp.len() as f64) / (g.n as f64) <= 0.1 {
              e.extend(comp.iter().cloned());
            }
          }
          Some(e)
        }
        _ => None,
      };
      if let Some(e) = exp {
        if e != r && !(name == "fill_holes_smaller_than(1.0)" && s.is_empty()) {
          fail(&format!("{} exact", name), format!("{:?} got {:?} exp {:?}", s, r, e));
        } else if e != r {
          fail(&format!("{} exact(empty)", name), format!("{:?} got {:?} exp {:?}", s, r, e));
        }
      }
    }
  }
}

fn main() {
  std::panic::set_hook(Box::new(|_| {}));
  let mut rng = Rng(0x9e3779b97f4a7c15);
  let mut fails: BTreeMap<String, (usize, String)> = BTreeMap::new();
  let mut ncase = 0;
  for depth in 0..=3u8 {
    let g = geo(depth);
    let mut sets: Vec<BTreeSet<usize>> = Vec::new();
    sets.push(BTreeSet::new());
    sets.push((0..g.n).collect());
    // singletons and all-but-one
    for c in 0..g.n {
      sets.push([c].into_iter().collect());
      sets.push((0..g.n).filter(|x| *x != c).collect());
    }
    // pairs of vertex-only neighbours
    for c in 0..g.n {
      for o in &g.any[c] {
        if !g.edge[c].contains(o) && c < *o {
          sets.push([c, *o].into_iter().collect());
        }
      }
    }
    // random with various densities
    let nrand = if depth == 0 { 4096 } else { 1500 };
    for i in 0..nrand {
      if depth == 0 {
        sets.push((0..12).filter(|b| (i >> b) & 1 == 1).collect());
      } else {
        let p = 1 + rng.below(15);
        // mix: cell level randomness at a coarser depth for mixed depth cells
        let cd = rng.below(depth as u64 + 1) as u8;
        let mut s = BTreeSet::new();
        let nn = 12usize << (2 * cd);
        let f = 1usize << (2 * (depth - cd));
        for c in 0..nn {
          if rng.below(16) < p {
            for k in 0..f {
              s.insert(c * f + k);
            }
          }
        }
        // sprinkle holes / extra
        for _ in 0..rng.below(6) {
          let c = rng.below(g.n as u64) as usize;
          if !s.remove(&c) {
            s.insert(c);
          }
        }
        sets.push(s);
      }
    }
    for s in &sets {
      ncase += 1;
      if depth <= 5 {
        check::<u16>(depth, &g, s, &mut fails);
      }
      check::<u32>(depth, &g, s, &mut fails);
      check::<u64>(depth, &g, s, &mut fails);
    }
    eprintln!("depth {} done ({} sets)", depth, sets.len());
  }
  println!("cases={}", ncase);
  for (k, (n, ex)) in &fails {
    let ex = if ex.len() > 600 { &ex[..600] } else { ex };
    println!("FAIL {} n={}\n    e.g. {}", k, n, ex);
  }
}
