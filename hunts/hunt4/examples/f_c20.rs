// Demo for findings 1 and 2 (property C20): valued_cells_to_moc_with_opt
//   cargo run --offline --example f_c20
use moc::elem::valuedcell::valued_cells_to_moc_with_opt;
use moc::qty::Hpx;

type Map = [(u8, u64, f64)]; // (depth, cell index, value)

/// Selected cells, flattened at depth `dmax` (descending density order, splitting allowed)
fn select(dmax: u8, map: &Map, from: f64, to: f64, strict: bool, rev: bool) -> Vec<u64> {
  let uvd: Vec<(u64, f64, f64)> = map
    .iter()
    .map(|&(d, i, v)| (Hpx::<u64>::uniq_hpx(d, i), v, v / (1u64 << (2 * (dmax - d))) as f64))
    .collect();
  let r = valued_cells_to_moc_with_opt::<u64, f64>(dmax, uvd, from, to, false, strict, false, rev);
  let sh = 2 * (29 - dmax) as u32;
  let mut out = Vec::new();
  for rg in r.iter() {
    for c in (rg.start >> sh)..(rg.end >> sh) {
      out.push(c);
    }
  }
  out
}

/// Total value enclosed by the given depth-`dmax` cells
fn mass(dmax: u8, map: &Map, cells: &[u64]) -> f64 {
  cells
    .iter()
    .map(|c| {
      map
        .iter()
        .find(|&&(d, i, _)| (c >> (2 * (dmax - d))) == i)
        .map(|&(d, _, v)| v / (1u64 << (2 * (dmax - d))) as f64)
        .unwrap_or(0.0)
    })
    .sum()
}

#[allow(clippy::too_many_arguments)]
fn case(name: &str, dmax: u8, map: &Map, from: f64, to: f64, strict: bool, rev: bool, exp: Vec<u64>) -> (bool, Vec<u64>) {
  let got = select(dmax, map, from, to, strict, rev);
  let ok = got == exp;
  println!(
    "{} {:<52} selected {:?} (mass {}), expected {:?} (mass {}); to - from = {}",
    if ok { "ok  " } else { "FAIL" },
    name,
    got,
    mass(dmax, map, &got),
    exp,
    mass(dmax, map, &exp),
    to - from
  );
  (ok, got)
}

fn main() {
  let mut nfail = 0;
  // One cell 0/0 of value 1, split down to depth 1: 4 sub-cells of value 1/4 each.
  let one = [(0u8, 0u64, 1.0f64)];
  // Two cells (values 1 and 1/2) so that the two thresholds fall in different cells (not the known 'same cell' defect)
  let two = [(0u8, 0u64, 1.0f64), (0u8, 1u64, 0.5f64)];
  println!("--- finding 1: a threshold exactly on a sub-cell boundary of the cell being split");
  for (name, dmax, map, from, to, strict, exp) in [
    ("non-strict [0, 0.5], map {0/0: 1}", 1u8, &one[..], 0.0, 0.5, false, vec![0u64, 1]),
    ("strict     [0.5, 1], map {0/0: 1}", 1, &one[..], 0.5, 1.0, true, vec![2, 3]),
    ("non-strict [0.5, 1] (control)", 1, &one[..], 0.5, 1.0, false, vec![2, 3]),
    ("strict     [0, 0.5] (control)", 1, &one[..], 0.0, 0.5, true, vec![0, 1]),
    ("non-strict [0.5, 1.25], map {0/0: 1, 0/1: 1/2}", 1, &two[..], 0.5, 1.25, false, vec![2, 3, 4, 5]),
    ("strict     [0.5, 1.25], map {0/0: 1, 0/1: 1/2}", 1, &two[..], 0.5, 1.25, true, vec![2, 3, 4, 5]),
  ] {
    if !case(name, dmax, map, from, to, strict, false, exp).0 {
      nfail += 1;
    }
  }

  println!("--- finding 2: reverse descent (highest sub-cell first), lower threshold, below the first level");
  // depth 2: 16 sub-cells of value 1/16; x = 3/32 cuts the sub-cell 14 in two (15 is the first one in reverse order).
  let x = 3.0 / 32.0;
  let mut res = Vec::new();
  for (name, from, to, strict, rev, exp) in [
    ("rev non-strict [0, 3/32]", 0.0, x, false, true, vec![14u64, 15]),
    ("rev non-strict [3/32, 1]", x, 1.0, false, true, (0..=14).collect::<Vec<u64>>()),
    ("rev strict     [0, 3/32]", 0.0, x, true, true, vec![15]),
    ("rev strict     [3/32, 1]", x, 1.0, true, true, (0..=13).collect()),
    ("direct strict  [3/32, 1] (control)", x, 1.0, true, false, (2..=15).collect()),
  ] {
    let (ok, got) = case(name, 2, &one, from, to, strict, rev, exp);
    if !ok {
      nfail += 1;
    }
    res.push(got);
  }
  let both: Vec<u64> = res[2].iter().filter(|c| res[3].contains(c)).cloned().collect();
  if !both.is_empty() {
    println!(
      "FAIL rev strict [0,x] and rev strict [x,total] both contain the cells {:?}: complementary intervals must be disjoint",
      both
    );
    nfail += 1;
  }
  println!("n_fail={}", nfail);
  if nfail > 0 {
    std::process::exit(1);
  }
}
