// The `split` parameter of the store means opposite things for the FITS loaders and for `from_valued_cells`.
// usage: h_store_split <multi-order-map.fits holding the single cell 0/0 (uniq 4) of total value 1, MOCORDER=1>
use moc::storage::u64idx::U64MocStore;
fn main() {
  let path = std::env::args().nth(1).expect("path of the multi-order map");
  let store = U64MocStore::get_global_store();
  let mut res = Vec::new();
  for split in [false, true] {
    // same map, same thresholds [0, 0.6], strict mode
    let a = store
      .from_valued_cells(1, false, 0.0, 0.6, false, false, split, false, [(4u64, 1.0f64)].into_iter())
      .unwrap();
    let b = store
      .from_multiordermap_fits_file(&path, 0.0, 0.6, false, false, split, false)
      .unwrap();
    let (sa, sb) = (
      store.to_ascii_str(a, None).unwrap(),
      store.to_ascii_str(b, None).unwrap(),
    );
    println!("split={:5}  from_valued_cells -> '{}'   from_multiordermap_fits_file -> '{}'", split, sa.trim(), sb.trim());
    res.push((sa, sb));
  }
  let mut fail = false;
  for (sa, sb) in &res {
    if sa != sb {
      fail = true;
    }
  }
  if fail {
    println!("FAIL: the same `split` value gives different selections depending on the entry point");
    std::process::exit(1);
  }
}
