// Differential test of valued_cells_to_moc_with_opt against an ideal model.
use moc::elem::valuedcell::valued_cells_to_moc_with_opt;
use moc::qty::{Hpx, MocQty};
use std::collections::BTreeSet;

struct Rng(u64);
impl Rng {
  fn next(&mut self) -> u64 {
    self.0 ^= self.0 << 13;
    self.0 ^= self.0 >> 7;
    self.0 ^= self.0 << 17;
    self.0
  }
  fn below(&mut self, n: u64) -> u64 {
    self.next() % n
  }
}

fn uniq(depth: u8, idx: u64) -> u64 {
  Hpx::<u64>::uniq_hpx(depth, idx)
}

/// Ideal model: returns the set of max_depth cells selected
#[allow(clippy::too_many_arguments)]
fn model(
  dmax: u8,
  cells: &[(u8, u64, f64)], // depth, idx, value  (already in input order)
  from: f64,
  to: f64,
  asc: bool,
  strict: bool,
  no_split: bool,
  rev: bool,
) -> BTreeSet<u64> {
  let mut v: Vec<(u8, u64, f64, f64)> = cells
    .iter()
    .map(|&(d, i, val)| (d, i, val, val / (1u64 << (2 * (dmax - d))) as f64))
    .collect();
  if asc {
    v.sort_by(|a, b| a.3.partial_cmp(&b.3).unwrap());
  } else {
    v.sort_by(|a, b| b.3.partial_cmp(&a.3).unwrap());
  }
  let mut res = BTreeSet::new();
  let mut acc = 0.0;
  for (d, i, val, _) in v {
    let lo = acc;
    let hi = acc + val;
    acc = hi;
    let n = 1u64 << (2 * (dmax - d));
    let first = i * n;
    if lo >= from && hi <= to {
      // fully inside (zero valued cells on the boundary: follow the code's convention, see caller)
      for k in 0..n {
        res.insert(first + k);
      }
    } else if hi <= from || lo >= to {
      // outside
    } else {
      // boundary cell
      if no_split {
        if !strict {
          for k in 0..n {
            res.insert(first + k);
          }
        }
      } else {
        let sv = val / n as f64;
        for k in 0..n {
          let (slo, shi) = (lo + k as f64 * sv, lo + (k + 1) as f64 * sv);
          let cell = if rev { first + n - 1 - k } else { first + k };
          if slo >= from && shi <= to {
            res.insert(cell);
          } else if shi <= from || slo >= to {
          } else if !strict {
            res.insert(cell);
          }
        }
      }
    }
  }
  res
}

fn to_set(dmax: u8, r: &moc::elemset::range::HpxRanges<u64>) -> BTreeSet<u64> {
  let sh = 2 * (29 - dmax) as u32;
  let mut s = BTreeSet::new();
  for rg in r.iter() {
    assert_eq!(rg.start & ((1u64 << sh) - 1), 0);
    assert_eq!(rg.end & ((1u64 << sh) - 1), 0);
    for c in (rg.start >> sh)..(rg.end >> sh) {
      s.insert(c);
    }
  }
  s
}

fn main() {
  let mut rng = Rng(0x1234_5678_9abc_def1);
  let mut n_fail = 0usize;
  let mut n_cases = 0usize;
  let mut classes: std::collections::BTreeMap<String, (usize, String)> = Default::default();
  for _ in 0..3000 {
    let dmax = 1 + rng.below(3) as u8; // 1..=3
                                        // build a non overlapping map: take base cells 0..k, split some
    let mut cells: Vec<(u8, u64, f64)> = Vec::new();
    let nb = 1 + rng.below(3);
    let mut stack: Vec<(u8, u64)> = (0..nb).map(|i| (0u8, i)).collect();
    while let Some((d, i)) = stack.pop() {
      if d < dmax && rng.below(3) == 0 {
        for k in 0..4 {
          stack.push((d + 1, 4 * i + k));
        }
      } else if rng.below(5) != 0 {
        // dyadic value: multiples of 2^-k so that sub-cell values are exact
        let val = (1 + rng.below(8)) as f64 / 8.0;
        cells.push((d, i, val));
      }
    }
    if cells.is_empty() {
      continue;
    }
    // shuffle
    for k in (1..cells.len()).rev() {
      let j = rng.below(k as u64 + 1) as usize;
      cells.swap(k, j);
    }
    let total: f64 = cells.iter().map(|c| c.2).sum();
    // thresholds: multiples of 1/ (8 * 64 * 2)
    let q = 8.0 * 64.0 * 2.0;
    let nt = (total * q) as u64;
    for _ in 0..20 {
      let a = rng.below(nt + 1);
      let b = rng.below(nt + 1);
      let (a, b) = if a <= b { (a, b) } else { (b, a) };
      // favour coarse thresholds
      let coarse = 1u64 << rng.below(11);
      let (a, b) = (a / coarse * coarse, b / coarse * coarse);
      let (from, to) = (a as f64 / q, b as f64 / q);
      for flags in 0..16u8 {
        let asc = flags & 1 != 0;
        let strict = flags & 2 != 0;
        let no_split = flags & 4 != 0;
        let rev = flags & 8 != 0;
        let uvd: Vec<(u64, f64, f64)> = cells
          .iter()
          .map(|&(d, i, v)| (uniq(d, i), v, v / (1u64 << (2 * (dmax - d))) as f64))
          .collect();
        n_cases += 1;
        let got = std::panic::catch_unwind(|| {
          valued_cells_to_moc_with_opt::<u64, f64>(dmax, uvd, from, to, asc, strict, no_split, rev)
        });
        let exp = model(dmax, &cells, from, to, asc, strict, no_split, rev);
        let desc = format!(
          "dmax={} cells={:?} from={} to={} asc={} strict={} no_split={} rev={}",
          dmax, cells, from, to, asc, strict, no_split, rev
        );
        match got {
          Err(_) => {
            n_fail += 1;
            classes.entry("panic".into()).or_insert((0, desc.clone())).0 += 1;
          }
          Ok(r) => {
            let got = to_set(dmax, &r);
            if got != exp {
              // classify
              // is from/to strictly in the same cell ?
              let mut v: Vec<(u8, u64, f64, f64)> = cells
                .iter()
                .map(|&(d, i, val)| (d, i, val, val / (1u64 << (2 * (dmax - d))) as f64))
                .collect();
              if asc {
                v.sort_by(|a, b| a.3.partial_cmp(&b.3).unwrap());
              } else {
                v.sort_by(|a, b| b.3.partial_cmp(&a.3).unwrap());
              }
              let mut acc = 0.0;
              let mut same = false;
              for c in &v {
                let (lo, hi) = (acc, acc + c.2);
                acc = hi;
                if lo < from && from < hi && lo < to && to < hi {
                  same = true;
                }
              }
              let extra: Vec<u64> = got.difference(&exp).cloned().collect();
              let missing: Vec<u64> = exp.difference(&got).cloned().collect();
              let key = format!(
                "same_cell={} strict={} no_split={} rev={} extra={} missing={}",
                same,
                strict,
                no_split,
                rev,
                extra.len().min(2),
                missing.len().min(2)
              );
              n_fail += 1;
              let e = classes
                .entry(key)
                .or_insert((0, format!("{} extra={:?} missing={:?}", desc, extra, missing)));
              e.0 += 1;
              let cand = format!("{} extra={:?} missing={:?}", desc, extra, missing);
              if cand.len() < e.1.len() {
                e.1 = cand;
              }
            }
          }
        }
      }
    }
  }
  println!("cases={} fails={}", n_cases, n_fail);
  for (k, (n, ex)) in classes {
    println!("CLASS {} n={}\n   e.g. {}", k, n, ex);
  }
}
