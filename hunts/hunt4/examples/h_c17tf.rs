// C17 (time / frequency part): expanded / contracted against flat sets, all widths, shallow + deepest depths.
use moc::idx::Idx;
use moc::moc::range::RangeMOC;
use moc::qty::{Frequency, MocQty, Time};
use std::collections::BTreeSet;

macro_rules! run {
  ($T:ty, $Q:ident, $fails:expr) => {{
    let maxd = <$Q<$T> as MocQty<$T>>::MAX_DEPTH;
    for depth in [0u8, 1, 2, 3, maxd - 1, maxd] {
      let ncells_total: u128 = 2u128 << depth;
      // window of 16 cells at the start, the end, and the middle of the domain
      let w: u128 = ncells_total.min(16);
      let mut offs = vec![0u128, ncells_total - w];
      if ncells_total > 64 {
        offs.push(ncells_total / 2 - 8);
      }
      for off in offs {
        let nsub: u64 = if w >= 16 { 1 << 16 } else { 1 << w };
        for bits in 0..nsub {
          let s: BTreeSet<u128> = (0..w).filter(|b| (bits >> b) & 1 == 1).map(|b| off + b).collect();
          let m: RangeMOC<$T, $Q<$T>> = RangeMOC::from_fixed_depth_cells(
            depth,
            s.iter().map(|c| <$T>::from_u64(*c as u64)),
            None,
          );
          let flat = |m: &RangeMOC<$T, $Q<$T>>| -> BTreeSet<u128> {
            assert_eq!(m.depth_max(), depth);
            let sh = (maxd - depth) as u32;
            let mut r = BTreeSet::new();
            let mut prev_end: Option<u128> = None;
            for rg in m.moc_ranges().iter() {
              let (a, b) = (rg.start.to_u64() as u128, rg.end.to_u64() as u128);
              assert!(a < b, "empty or reversed range {:?}", rg);
              if let Some(p) = prev_end {
                assert!(p < a, "ranges not sorted / not merged");
              }
              prev_end = Some(b);
              assert_eq!(a & ((1u128 << sh) - 1), 0);
              assert_eq!(b & ((1u128 << sh) - 1), 0);
              // only collect cells near the window to keep it cheap
              let (a, b) = (a >> sh, b >> sh);
              let lo = off.saturating_sub(2);
              let hi = (off + w + 2).min(ncells_total);
              if a < lo || b > hi {
                // something outside the window: report as sentinel values
                r.insert(u128::MAX);
              }
              for c in a.max(lo)..b.min(hi) {
                r.insert(c);
              }
            }
            r
          };
          let mut e = s.clone();
          for c in &s {
            if *c > 0 {
              e.insert(c - 1);
            }
            if *c + 1 < ncells_total {
              e.insert(c + 1);
            }
          }
          let c: BTreeSet<u128> = s
            .iter()
            .cloned()
            .filter(|c| (*c == 0 || s.contains(&(c - 1))) && (*c + 1 == ncells_total || s.contains(&(c + 1))))
            .collect();
          let ge = std::panic::catch_unwind(|| flat(&m.expanded()));
          let gc = std::panic::catch_unwind(|| flat(&m.contracted()));
          if ge.as_ref().ok() != Some(&e) {
            $fails.push(format!(
              "FAIL expanded {} {} depth={} s={:?} got={:?} exp={:?}",
              stringify!($T), stringify!($Q), depth, s, ge.ok(), e
            ));
          }
          if gc.as_ref().ok() != Some(&c) {
            $fails.push(format!(
              "FAIL contracted {} {} depth={} s={:?} got={:?} exp={:?}",
              stringify!($T), stringify!($Q), depth, s, gc.ok(), c
            ));
          }
        }
      }
    }
  }};
}

fn main() {
  std::panic::set_hook(Box::new(|_| {}));
  let mut fails: Vec<String> = Vec::new();
  run!(u16, Time, fails);
  run!(u32, Time, fails);
  run!(u64, Time, fails);
  run!(u16, Frequency, fails);
  run!(u32, Frequency, fails);
  run!(u64, Frequency, fails);
  println!("n_fails={}", fails.len());
  fails.sort_by_key(|f| f.len());
  for f in fails.iter().take(10) {
    println!("{}", f);
  }
}
