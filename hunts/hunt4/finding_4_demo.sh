#!/bin/bash
# Finding 4: from_fits_skymap subtracts the mass of the skipped pixels from BOTH thresholds whatever the order.
# In descending order (the default) the skipped (lowest) pixels are at the END of the order: the selection is shifted.
# A single UNSEEN (-1.6375e30) or NaN pixel makes the result empty.
source "$(dirname "$0")/common.sh"
W=$(mktemp -d)
HERE=$(cd "$(dirname "$0")" && pwd)
fail=0
chk() { # name expected command...
  name=$1; exp=$2; shift 2
  got=$("$@" | tr -s ' ' | sed 's/ *$//')
  if [ "$got" == "$exp" ]; then s="ok  "; else s="FAIL"; fail=1; fi
  printf "%s %-58s got '%s' expected '%s'\n" "$s" "$name" "$got" "$exp"
}
# depth 0 (NSIDE=1) NESTED: pixels 0-3 = 1/8 each, pixels 4-11 = 1/16 each (total 1)
python3 $HERE/mkfits.py skymap $W/a.fits 1 NESTED 0.125 0.125 0.125 0.125 0.0625 0.0625 0.0625 0.0625 0.0625 0.0625 0.0625 0.0625
chk "desc           [0, 0.25]"        "0/0-1" $M from vcells -f 0 -t 0.25 skymap $W/a.fits ascii
chk "desc --skip 1/16 [0, 0.25]"      "0/0-1" $M from vcells -f 0 -t 0.25 skymap --skip 0.0625 $W/a.fits ascii
chk "desc --skip 1/16 [0.5, 0.75] (only skipped pixels there)" "0/" $M from vcells -f 0.5 -t 0.75 skymap --skip 0.0625 $W/a.fits ascii
chk "asc  --skip 1/16 [0.5, 0.75] (control)" "0/0-1" $M from vcells --asc -f 0.5 -t 0.75 skymap --skip 0.0625 $W/a.fits ascii
# one masked pixel
python3 $HERE/mkfits.py skymap $W/b.fits 1 NESTED 0.25 0.25 0.125 0.125 0.0625 0.0625 0.0625 0.0625 0 0 0 0
python3 $HERE/mkfits.py skymap $W/c.fits 1 NESTED 0.25 0.25 0.125 0.125 0.0625 0.0625 0.0625 0.0625 0 0 0 -1.6375e30
python3 $HERE/mkfits.py skymap $W/d.fits 1 NESTED 0.25 0.25 0.125 0.125 0.0625 0.0625 0.0625 0.0625 0 0 0 nan
chk "desc [0, 0.5], last pixel = 0 (control)"       "0/0-1" $M from vcells -t 0.5 skymap $W/b.fits ascii
chk "desc [0, 0.5], last pixel = UNSEEN -1.6375e30" "0/0-1" $M from vcells -t 0.5 skymap $W/c.fits ascii
chk "desc [0, 0.5], last pixel = NaN"               "0/0-1" $M from vcells -t 0.5 skymap $W/d.fits ascii
rm -rf $W
exit $fail
