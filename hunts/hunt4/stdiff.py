#!/usr/bin/env python3
"""Differential test of ST-MOC operations of the `moc` command line tool (inter, minus, tfold, sfold, convert)."""
import json
import os
import random
import subprocess
import sys

MOC = os.environ.get("MOC", "/tmp/wt_hunt4/target/debug/moc")
WORK = os.environ.get("WORK", "/tmp/hunt4/work/stdiff")
os.makedirs(WORK, exist_ok=True)


def run(args):
    p = subprocess.run([MOC] + args, capture_output=True, text=True)
    return p.returncode, p.stdout, p.stderr


def cells1(idx_set, d, dim):
    """normalise a set of depth-d cells into multi-depth cells: dict depth -> sorted idx"""
    cur = set(idx_set)
    by = {}
    for dd in range(d, -1, -1):
        if dd == 0:
            if cur:
                by[dd] = sorted(cur)
            break
        nxt = set()
        keep = set()
        n = 1 << dim
        for c in cur:
            p = c >> dim
            if all(((p << dim) + k) in cur for k in range(n)):
                nxt.add(p)
            else:
                keep.add(c)
        if keep:
            by[dd] = sorted(keep)
        cur = nxt
    return by


def fmt1(by, d):
    toks = []
    for dd in sorted(by):
        idx = by[dd]
        grp = []
        k = 0
        while k < len(idx):
            j = k
            while j + 1 < len(idx) and idx[j + 1] == idx[j] + 1:
                j += 1
            grp.append(str(idx[k]) if j == k else "%d-%d" % (idx[k], idx[j]))
            k = j + 1
        toks.append("%d/%s" % (dd, " ".join(grp)))
    if d not in by:
        toks.append("%d/" % d)
    return " ".join(toks)


def st_to_ascii(st, dt, ds):
    """st: dict t_cell(depth dt) -> frozenset(s cells at depth ds). groups equal s sets of consecutive... any t cells"""
    groups = {}
    for t, s in st.items():
        if s:
            groups.setdefault(frozenset(s), set()).add(t)
    # elements must be sorted by time; elements with the same S-MOC but non consecutive times are ok to merge
    # (the tool itself merges them ?). To be safe: split the time sets into maximal runs and emit sorted by first t
    elems = []
    for s, ts in groups.items():
        ts = sorted(ts)
        k = 0
        while k < len(ts):
            j = k
            while j + 1 < len(ts) and ts[j + 1] == ts[j] + 1:
                j += 1
            elems.append((ts[k], set(ts[k : j + 1]), s))
            k = j + 1
    elems.sort(key=lambda e: e[0])
    out = []
    for _, ts, s in elems:
        out.append("t" + fmt1(cells1(ts, dt, 1), -1).replace(" -1/", ""))
        out.append("s" + fmt1(cells1(s, ds, 2), -1).replace(" -1/", ""))
    out.append("t%d/ s%d/" % (dt, ds))
    txt = " ".join(out)
    return txt.replace("-1/ ", "").replace(" -1/", "") + "\n"


def parse1(txt, d_model, dim):
    res = set()
    d = None
    dmax = 0
    for tok in txt.split():
        if "/" in tok:
            ds, rest = tok.split("/")
            d = int(ds)
            dmax = max(dmax, d)
            tok = rest
            if not tok:
                continue
        if "-" in tok:
            a, b = tok.split("-")
            a, b = int(a), int(b) + 1
        else:
            a, b = int(tok), int(tok) + 1
        if d > d_model:
            raise ValueError("cell deeper than model depth: %d > %d" % (d, d_model))
        s = dim * (d_model - d)
        for c in range(a << s, b << s):
            res.add(c)
    return dmax, res


def parse_st_ascii(txt, dt, ds):
    st = {}
    toks = txt.replace("\n", " ").split()
    # split in t... s... groups
    groups = []
    cur = None
    for tok in toks:
        if tok.startswith("t"):
            cur = ["t", [tok[1:]]]
            groups.append(cur)
        elif tok.startswith("s"):
            cur = ["s", [tok[1:]]]
            groups.append(cur)
        else:
            cur[1].append(tok)
    gdt = gds = 0
    overlap = False
    i = 0
    while i < len(groups):
        assert groups[i][0] == "t", groups
        assert groups[i + 1][0] == "s", groups
        d1, ts = parse1(" ".join(groups[i][1]), dt, 1)
        d2, ss = parse1(" ".join(groups[i + 1][1]), ds, 2)
        gdt, gds = max(gdt, d1), max(gds, d2)
        for t in ts:
            if t in st:
                overlap = True
            st[t] = frozenset(st.get(t, frozenset()) | ss)
        i += 2
    return gdt, gds, {t: s for t, s in st.items() if s}, overlap


def rand_st(rng, dt, ds):
    nt = 2 << dt
    ns = 12 << (2 * ds)
    st = {}
    nel = rng.choice([0, 1, 1, 2, 3, 4])
    for _ in range(nel):
        a = rng.randrange(nt)
        l = rng.choice([1, 1, 2, 3, nt // 2])
        if rng.random() < 0.2:
            a = 0
        if rng.random() < 0.2:
            a = max(0, nt - l)
        s = set()
        for _ in range(rng.choice([1, 1, 2, 3])):
            sa = rng.randrange(ns)
            sl = rng.choice([1, 1, 2, 4, 5, ns // 3])
            if rng.random() < 0.3:
                sa = (sa >> 2) << 2
            for c in range(sa, min(ns, sa + sl)):
                s.add(c)
        for t in range(a, min(nt, a + l)):
            st[t] = frozenset(st.get(t, frozenset()) | s)
    return st


fails = {}


def fail(cls, msg):
    e = fails.setdefault(cls, [0, []])
    e[0] += 1
    if len(e[1]) < 3:
        e[1].append(msg)
        print("FAIL [%s] %s" % (cls, msg), flush=True)


def write(path, txt):
    with open(path, "w") as f:
        f.write(txt)


def main():
    seed = int(sys.argv[1]) if len(sys.argv) > 1 else 1
    niter = int(sys.argv[2]) if len(sys.argv) > 2 else 200
    rng = random.Random(seed)
    for it in range(niter):
        dt1, ds1 = rng.randint(0, 3), rng.randint(0, 1)
        dt2, ds2 = rng.randint(0, 3), rng.randint(0, 1)
        if rng.random() < 0.5:
            dt2, ds2 = dt1, ds1
        DT, DS = max(dt1, dt2), max(ds1, ds2)
        a = rand_st(rng, dt1, ds1)
        b = rand_st(rng, dt2, ds2)

        def up(st, dt, ds):
            out = {}
            for t, s in st.items():
                ss = set()
                for c in s:
                    k = 2 * (DS - ds)
                    ss.update(range(c << k, (c + 1) << k))
                for tt in range(t << (DT - dt), (t + 1) << (DT - dt)):
                    out[tt] = frozenset(ss)
            return out

        A, B = up(a, dt1, ds1), up(b, dt2, ds2)
        ta, tb = st_to_ascii(a, dt1, ds1), st_to_ascii(b, dt2, ds2)
        pa, pb = os.path.join(WORK, "a.txt"), os.path.join(WORK, "b.txt")
        write(pa, ta)
        write(pb, tb)
        fa, fb = os.path.join(WORK, "a.fits"), os.path.join(WORK, "b.fits")
        ok = True
        for p, f, txt in [(pa, fa, ta), (pb, fb, tb)]:
            rc, so, se = run(["convert", "-t", "stmoc", p, "fits", f])
            if rc != 0:
                fail("mkfits", "%s rc=%d %s" % (txt.strip(), rc, se.strip()[:300]))
                ok = False
        if not ok:
            continue
        # convert round trips
        for ofmt in ["ascii", "json->ascii", "fits->ascii"]:
            if ofmt == "ascii":
                rc, so, se = run(["convert", fa, "ascii"])
            elif ofmt == "json->ascii":
                pj = os.path.join(WORK, "a.json")
                rc, so, se = run(["convert", fa, "json", pj])
                if rc == 0:
                    rc, so, se = run(["convert", "-t", "stmoc", pj, "ascii"])
            else:
                pf = os.path.join(WORK, "a2.fits")
                rc, so, se = run(["convert", "-t", "stmoc", pa, "json"])
                pj = os.path.join(WORK, "a3.json")
                write(pj, so)
                rc, so, se = run(["convert", "-t", "stmoc", pj, "fits", pf])
                if rc == 0:
                    rc, so, se = run(["convert", pf, "ascii"])
            if rc != 0:
                fail("convert %s rc" % ofmt, "%s rc=%d %s" % (ta.strip(), rc, se.strip()[:300]))
                continue
            try:
                gdt, gds, g, ov = parse_st_ascii(so, dt1, ds1)
                if g != {t: s for t, s in a.items() if s} or (gdt, gds) != (dt1, ds1):
                    fail("convert %s" % ofmt, "in=%s out=%s" % (ta.strip(), so.strip()))
                elif ov:
                    fail("convert %s overlapping times" % ofmt, "in=%s out=%s" % (ta.strip(), so.strip()))
            except Exception as e:
                fail("convert %s decode" % ofmt, "in=%s out=%s exc=%r" % (ta.strip(), so.strip()[:300], e))
        # inter / minus
        for op in ["inter", "minus"]:
            exp = {}
            for t in set(A) | set(B):
                sa, sb = A.get(t, frozenset()), B.get(t, frozenset())
                s = (sa & sb) if op == "inter" else (sa - sb)
                if s:
                    exp[t] = frozenset(s)
            rc, so, se = run(["op", op, fa, fb, "ascii"])
            desc = "%s L=%s R=%s" % (op, ta.strip(), tb.strip())
            if rc != 0:
                fail("op %s rc" % op, "%s rc=%d %s" % (desc, rc, se.strip()[:300]))
                continue
            try:
                gdt, gds, g, ov = parse_st_ascii(so, DT, DS)
                if g != exp:
                    fail("op %s" % op, "%s got=%s exp=%s" % (desc, so.strip(), st_to_ascii(exp, DT, DS).strip()))
                elif (gdt, gds) != (DT, DS):
                    fail("op %s depth" % op, "%s got=%s expdepths=%d,%d" % (desc, so.strip(), DT, DS))
                elif ov:
                    fail("op %s overlapping times" % op, "%s got=%s" % (desc, so.strip()))
            except Exception as e:
                fail("op %s decode" % op, "%s out=%s exc=%r" % (desc, so.strip()[:300], e))
        # tfold: T-MOC x ST-MOC -> S-MOC ; sfold: S-MOC x ST-MOC -> T-MOC
        dtt = rng.randint(0, 3)
        tset = set()
        for _ in range(rng.choice([0, 1, 2, 3])):
            x = rng.randrange(2 << dtt)
            for c in range(x, min(2 << dtt, x + rng.choice([1, 2, 4]))):
                tset.add(c)
        ttxt = fmt1(cells1(tset, dtt, 1), dtt) + "\n"
        pt, ft = os.path.join(WORK, "t.txt"), os.path.join(WORK, "t.fits")
        write(pt, ttxt)
        wopt = rng.choice([[], ["-f"]])
        rc, so, se = run(["convert", "-t", "tmoc", pt, "fits"] + wopt + [ft])
        if rc == 0:
            rc, so, se = run(["op", "tfold", ft, fa, "ascii"])
            desc = "tfold T=%s %s ST=%s" % (ttxt.strip(), wopt, ta.strip())
            if rc != 0:
                fail("op tfold rc", "%s rc=%d %s" % (desc, rc, se.strip()[:300]))
            else:
                # expected
                D = max(dtt, dt1)
                tsel = set()
                for c in tset:
                    tsel.update(range(c << (D - dtt), (c + 1) << (D - dtt)))
                exp = set()
                for t, s in a.items():
                    if any(tt in tsel for tt in range(t << (D - dt1), (t + 1) << (D - dt1))):
                        exp |= s
                try:
                    gd, g = parse1(so, ds1, 2)
                    if g != exp:
                        fail("op tfold", "%s got=%s exp=%s" % (desc, so.strip(), fmt1(cells1(exp, ds1, 2), ds1)))
                    elif gd != ds1:
                        fail("op tfold depth", "%s got=%s exp depth %d" % (desc, so.strip(), ds1))
                except Exception as e:
                    fail("op tfold decode", "%s out=%s exc=%r" % (desc, so.strip()[:300], e))
        dss = rng.randint(0, 1)
        sset = set()
        for _ in range(rng.choice([0, 1, 2, 3])):
            x = rng.randrange(12 << (2 * dss))
            for c in range(x, min(12 << (2 * dss), x + rng.choice([1, 2, 4]))):
                sset.add(c)
        stxt = fmt1(cells1(sset, dss, 2), dss) + "\n"
        ps, fs = os.path.join(WORK, "s.txt"), os.path.join(WORK, "s.fits")
        write(ps, stxt)
        wopt = rng.choice([[], ["-f"], ["-p"]])
        rc, so, se = run(["convert", "-t", "smoc", ps, "fits"] + wopt + [fs])
        if rc == 0:
            rc, so, se = run(["op", "sfold", fs, fa, "ascii"])
            desc = "sfold S=%s %s ST=%s" % (stxt.strip(), wopt, ta.strip())
            if rc != 0:
                fail("op sfold rc", "%s rc=%d %s" % (desc, rc, se.strip()[:300]))
            else:
                D = max(dss, ds1)
                ssel = set()
                for c in sset:
                    ssel.update(range(c << 2 * (D - dss), (c + 1) << 2 * (D - dss)))
                exp = set()
                for t, s in a.items():
                    # library semantics (project_on_first_dim): the S-MOC of the element must be CONTAINED in the given S-MOC
                    hit = True
                    for c in s:
                        if not all(cc in ssel for cc in range(c << 2 * (D - ds1), (c + 1) << 2 * (D - ds1))):
                            hit = False
                            break
                    if hit:
                        exp.add(t)
                try:
                    gd, g = parse1(so, dt1, 1)
                    if g != exp:
                        fail("op sfold", "%s got=%s exp=%s" % (desc, so.strip(), fmt1(cells1(exp, dt1, 1), dt1)))
                    elif gd != dt1:
                        fail("op sfold depth", "%s got=%s exp depth %d" % (desc, so.strip(), dt1))
                except Exception as e:
                    fail("op sfold decode", "%s out=%s exc=%r" % (desc, so.strip()[:300], e))
    print("done seed=%d iters=%d; fail classes=%d" % (seed, niter, len(fails)))
    for k, (n, _) in sorted(fails.items()):
        print("SUMMARY %s n=%d" % (k, n))


main()
