#!/bin/bash
# Finding 7: `moc from timestamp|timerange|timestamppos`: instants outside the time domain [0, 2^62) microseconds
# are neither rejected nor reported.
source "$(dirname "$0")/common.sh"
W=$(mktemp -d)
fail=0
run() { # label type value
  echo "$3" | $M from timestamp 61 --time-type $2 - ascii > $W/o.txt 2> $W/e.txt; rc=$?
  printf "%-34s exit status %3d  output '%s' %s\n" "$1" $rc "$(cat $W/o.txt)" "$(grep -m1 panicked -A1 $W/e.txt | tr '\n' ' ')"
  if [ $rc -eq 0 ] || [ $rc -ge 100 ]; then fail=1; echo "   FAIL (expected: a message and a non-zero, non-crash status)"; fi
}
run "usec 2^62 (first value outside)" usec 4611686018427387904
run "usec 2^64-1" usec 18446744073709551615
run "jd 1e10" jd 1e10
run "jd inf" jd inf
run "jd nan" jd nan
run "jd -5" jd -5
echo "4611686018427387904 4611686018427387910" | $M from timerange 61 --time-type usec - ascii; echo "   <- timerange [2^62, 2^62+6): exit status $? (cells outside the domain, which ends at 59/1152921504606846975)"
echo "4611686018427387904 0 0" | $M from timestamppos 61 0 --time-type usec - ascii; echo "   <- timestamppos: exit status $?"
echo 4611686018427387904 | $M from timestamp 61 --time-type usec - fits -f $W/oob.fits
echo "complement of the FITS result: '$($M op complement $W/oob.fits ascii)' ; union with itself: '$($M op union $W/oob.fits $W/oob.fits ascii)'"
rm -rf $W
exit $fail
