#!/bin/bash
# Finding 5: `moc from timerange|freqrange|timerangepos` on an empty or reversed range (a plausible slip in a list).
source "$(dirname "$0")/common.sh"
W=$(mktemp -d)
fail=0
echo "--- reversed time range '12 2' after a valid one '8 10' (usec, depth 61), FITS output"
printf "8 10\n12 2\n" | $M from timerange 61 --time-type usec - fits -f $W/rev.fits; rc=$?
echo "exit status of 'moc from timerange': $rc"
python3 - $W/rev.fits <<'PY'
import struct, sys
d = open(sys.argv[1], 'rb').read()
i = d.find(b'END' + b' ' * 77, 2880)
s = (i // 2880 + 1) * 2880
print("ranges stored in the FITS file:", [struct.unpack('>Q', d[s + 8 * k:s + 8 * k + 8])[0] for k in range(4)])
PY
$M info $W/rev.fits > $W/info.txt 2> $W/info.err; rci=$?
echo "moc info: exit status $rci; $(grep coverage $W/info.txt) $(grep -m1 panicked -A1 $W/info.err | tr '\n' ' ')"
c=$($M op complement $W/rev.fits ascii | tr -s ' ')
echo "moc op complement (last cells): ...$(echo $c | rev | cut -c1-50 | rev)"
if [ $rc -eq 0 ]; then echo "FAIL a reversed range is written in the output MOC with exit status 0 (complement holds 58/0, i.e. the instants 8 and 9 that belong to the MOC)"; fail=1; fi
echo "--- reversed frequency range '3 1' (Hz, depth 59)"
printf "3 1\n" | $M from freqrange 59 - fits -f $W/frev.fits; rc=$?
c=$($M op complement $W/frev.fits ascii | tr -s ' ')
echo "exit status $rc; complement of the result = '$c' (complement of nothing should be 0/0-1)"
if [ $rc -eq 0 ] && [ "$c" != "0/0-1 59/ " ]; then echo "FAIL"; fail=1; fi
echo "--- empty range tmin == tmax in 'timerangepos' (tmin > tmax is rejected, tmin == tmax is not)"
echo "1 1 0 0" | $M from timerangepos 61 0 --time-type usec - ascii > $W/o.txt 2> $W/e.txt; rc=$?
echo "exit status $rc: $(grep -m1 panicked -A1 $W/e.txt | tr '\n' ' ')"
if [ $rc -ge 100 ]; then echo "FAIL crash"; fail=1; fi
echo "--- empty range at depth 60: '5 5' gives a cell, '4 4' gives nothing"
a=$(echo "5 5" | $M from timerange 60 --time-type usec - ascii); b=$(echo "4 4" | $M from timerange 60 --time-type usec - ascii)
echo "'5 5' -> '$a'    '4 4' -> '$b'"
if [ "$a" != "60/ " ]; then echo "FAIL"; fail=1; fi
echo "--- library level"
(cd $WT && CARGO_NET_OFFLINE=true cargo run -q --offline --example f_ranges 2>/dev/null) || fail=1
rm -rf $W
exit $fail
