#!/bin/bash
# Finding 9: cargo example f_edges (source copy in examples/f_edges.rs); panics only with overflow checks (dev profile).
source "$(dirname "$0")/common.sh"
cd $WT && CARGO_NET_OFFLINE=true cargo run -q --offline --example f_edges 2>/dev/null
