#!/bin/bash
# Finding 8: the content of a FITS MOC is trusted: overlapping / unsorted / reversed / out-of-domain ranges (v2 RANGE)
# and overlapping / too deep / out-of-domain cells (v1 NUNIQ) are read without any check; `moc convert` and `moc op`
# exit 0 with an ill-formed or wrong result, or panic.
source "$(dirname "$0")/common.sh"
W=$(mktemp -d)
HERE=$(cd "$(dirname "$0")" && pwd)
fail=0
echo "61/1-2 5-6" > $W/r.txt; $M convert -t tmoc $W/r.txt fits -f $W/ok.fits    # ranges [1,3) [5,7) on u64
python3 - $W $HERE <<'PY'
import struct, sys
W, HERE = sys.argv[1], sys.argv[2]
sys.path.insert(0, HERE)
from mkfits import card, block, primary, pad_data
d = bytearray(open(W + '/ok.fits', 'rb').read())
i = d.find(b'END' + b' ' * 77, 2880)
s = (i // 2880 + 1) * 2880
def w(name, vals):
    e = bytearray(d)
    for k, v in enumerate(vals):
        e[s + 8 * k:s + 8 * k + 8] = struct.pack('>Q', v)
    open(W + '/' + name, 'wb').write(e)
w('unsorted.fits', [5, 7, 1, 3])
w('overlap.fits', [1, 6, 5, 7])
w('reversed.fits', [3, 1, 5, 7])
w('outside.fits', [1, 3, 2**62, 2**62 + 2])
def v1(name, order, uniqs):
    hdr = [card("XTENSION", "BINTABLE", True), card("BITPIX", 8), card("NAXIS", 2), card("NAXIS1", 8), card("NAXIS2", len(uniqs)),
           card("PCOUNT", 0), card("GCOUNT", 1), card("TFIELDS", 1), card("TFORM1", "1K", True), card("TTYPE1", "UNIQ", True),
           card("PIXTYPE", "HEALPIX", True), card("ORDERING", "NUNIQ", True), card("COORDSYS", "C", True), card("MOCORDER", order), card("END")]
    open(W + '/' + name, 'wb').write(primary() + block(hdr) + pad_data(b"".join(struct.pack('>Q', u) for u in uniqs)))
u = lambda dd, ii: 4 * 4**dd + ii
v1('v1_overlap.fits', 2, [u(0, 0), u(1, 1), u(2, 12)])   # 1/1 and 2/12 are inside 0/0
v1('v1_deeper.fits', 1, [u(1, 0), u(2, 12)])             # a depth 2 cell with MOCORDER = 1
v1('v1_outside.fits', 1, [u(1, 48)])                     # depth 1 has the cells 0..47
PY
run() { # label file expected-set-description
  o=$($M convert $W/$2 ascii 2> $W/e.txt); rc=$?
  printf "%-34s convert: exit %3d '%s' %s\n" "$1" $rc "$o" "$(grep -m1 panicked -A1 $W/e.txt | tr '\n' ' ' | cut -c1-120)"
  o2=$($M op inter $W/$2 $W/$2 ascii 2> $W/e.txt); rc2=$?
  printf "%-34s inter with itself: exit %3d '%s' %s\n" "" $rc2 "$o2" "$(grep -m1 panicked -A1 $W/e.txt | tr '\n' ' ' | cut -c1-120)"
  if [ $rc -eq 0 ] || [ $rc -ge 100 ] || [ $rc2 -eq 0 ] || [ $rc2 -ge 100 ]; then fail=1; echo "   FAIL (invalid input: expected a message and a non-zero, non-crash status)"; fi
}
run "v2 unsorted [5,7) [1,3)" unsorted.fits
run "v2 overlapping [1,6) [5,7)" overlap.fits
run "v2 reversed [3,1) [5,7)" reversed.fits
run "v2 outside [2^62, 2^62+2)" outside.fits
run "v1 overlapping 0/0 1/1 2/12" v1_overlap.fits
run "v1 cell 2/12 with MOCORDER=1" v1_deeper.fits
run "v1 cell 1/48 (outside)" v1_outside.fits
rm -rf $W
exit $fail
