#!/bin/bash
# Findings 1 and 2 (library): cargo example f_c20 (source copy in examples/f_c20.rs). Exit status 1 and FAIL lines when the bugs show.
source "$(dirname "$0")/common.sh"
cd $WT && CARGO_NET_OFFLINE=true cargo run -q --offline --example f_c20 2>/dev/null
rc=$?
# the same through the command line tool (finding 1): 0/0 (uniq 4) of value 1, depth 1, non strict, [0, 0.5] -> 3 sub-cells
# (`--no-split` is needed to split with the ascii input: see finding 3)
out=$(echo "4 1.0" | $M from vcells -f 0 -t 0.5 --not-strict --no-split ascii 1 - ascii)
echo "moc from vcells -f 0 -t 0.5 --not-strict --no-split ascii 1 - ascii  <<< '4 1.0'  ->  '$out' (expected '1/0-1 ')"
[ "$out" == "1/0-1 " ] || { echo "FAIL (command line)"; rc=1; }
exit $rc
