#!/bin/bash
# Confirms a seeded change in a scratch worktree /tmp/wt_<id> (outside /repo and /verif):
#   with the patch: workspace builds, baseline suite = 123 passed / 2 known failures, demo FAILS;
#   without the patch: demo PASSES.
# Inputs: /tmp/seed_<id>/{patch.diff,demo_<id>.*} (from the sub-agent) or /verif/seeded/<id>/.
# Then copies patch + demo + log into /verif/seeded/<id>/ and removes the worktree and its build output.
id=$1
wt=/tmp/wt_$id
src=/tmp/seed_$id
[ -d $src ] || src=/verif/seeded/$id
out=/verif/.cache/seed_confirm_$id.log
export CARGO_NET_OFFLINE=true
if [ ! -d $wt ]; then
  git -C /repo worktree add --detach $wt HEAD >/dev/null 2>&1
  cp /repo/Cargo.lock $wt/
fi
cd $wt || exit 2
git checkout -q -- . 2>/dev/null
mkdir -p examples
cp $src/demo_$id.rs examples/ 2>/dev/null
cp $src/demo_$id.sh . 2>/dev/null
run_demo() {
  if [ -f demo_$id.sh ]; then bash demo_$id.sh 2>&1 | tail -6; echo "demo exit=${PIPESTATUS[0]}";
  else F=""; grep -q "feature = \"storage\"" examples/demo_$id.rs 2>/dev/null && F="--features storage"; cargo run --offline $F --example demo_$id 2>&1 | grep -v "^warning\|^ *|\|^ *=\|^$\|^ *-->\|^help\|^[0-9 ]*|" | tail -6; echo "demo exit=${PIPESTATUS[0]}"; fi
}
{
  echo "== seed $id: demo WITHOUT patch (expect PASS / exit 0)"
  run_demo
  git apply $src/patch.diff || echo "PATCH DOES NOT APPLY"
  echo "== git diff --stat"; git diff --stat -- src crates
  echo "== demo WITH patch (expect FAIL / exit != 0)"
  run_demo
  echo "== nextest WITH patch (expect 123 passed, 2 failed: test_union_assocdata_vsx, integration_test)"
  cargo nextest run --workspace --no-fail-fast --offline --test-threads 8 2>&1 | grep -E "Summary|FAIL \[" | sort -u
} > $out 2>&1
mkdir -p /verif/seeded/$id
[ $src != /verif/seeded/$id ] && { cp $src/patch.diff /verif/seeded/$id/patch.diff; cp $src/demo_$id.* /verif/seeded/$id/ 2>/dev/null; cp $src/notes.md /verif/seeded/$id/agent_notes.md 2>/dev/null; }
cp $out /verif/seeded/$id/confirm.log
git -C /repo worktree remove --force $wt
echo "done $id" >> $out
