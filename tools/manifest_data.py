HOOKS = {
    "guard": "cargo feature `verif_hooks` of crate moc-set (crates/set); no hook commit exists yet",
    "enable": "cargo build -p moc-set --features verif_hooks (only C16 needs it)",
    "baseline_off_cmd": "cd /repo && cargo nextest run --workspace --no-fail-fast --offline --test-threads 8  (fallback: cargo test --workspace --no-fail-fast --offline)",
    "source_commits": [],
    # fix commits in /repo (unguarded, see known_findings.json): 1c108d1 (C01 lazy minus)
    "add_only": True,
}
NOTES = ("Every check is `./check Cxx --tier quick|thorough`: regenerates Model/Params.lean from the source constants, rebuilds and "
         "audits the Lean theorems of Props/Cxx.lean (#print axioms, forbidden-token scan), rebuilds the Rust harness against "
         "/repo's working tree (path dependency), runs the correspondence (real code vs native Lean driver on the same op lines), "
         "judges disagreements with the property predicate, and writes evidence/Cxx.json. See DESIGN.md.")
TB = ("Lean kernel + axioms listed per theorem in the evidence; the hand-written model is tied to the code only by the "
      "correspondence check (differential testing, generator reach reported); Rust integers = Nat under the no-overflow "
      "observation of the dev profile; std sort/binary-search contracts; slice reinterpretation layout")
CLAIMED = {
    "C01": {
        "text": "Machine-checked theorems (Lean 4, no sorry, axioms ⊆ {propext, Classical.choice, Quot.sound}) that the models of "
                "union / intersection / generic merge(op) / difference / complement / new_from return the canonical range list of "
                "exactly the specified set for ALL canonical inputs of any size; unique-normal-form theorem Canon.ext; the models are "
                "transliterations of src/ranges/mod.rs and src/moc/range/op/*.rs and are run against the real code on every check "
                "(exhaustive small scope + boundary-biased random, 9 (quantity,width) combinations, 8 source kinds).",
        "design_ref": "DESIGN.md §4 C01, §10",
        "note": TB,
        "technique": "Lean 4 proof over an executable model + differential correspondence check",
    },
}
CLAIMED["C02"] = {
    "text": "Theorem eval_valid: by structural induction over ALL expression trees of and/or/xor/minus/not/degrade, evaluation on valid "
            "leaves yields a Valid MOC (canonical, inside the domain, aligned on the declared depth) of legal depth; per-operator "
            "preservation theorems; the fixed-depth and range builders return a Valid MOC for in-domain cells / ranges (fixedDepth_builder_valid, range_builder_valid); unique-normal-form corollary; validB ⇔ Valid so that the executable judge run on every MOC the real "
            "code produces (operators, constructors, builders, adapters; geometry constructors as a labelled test) IS the property.",
    "design_ref": "DESIGN.md §4 C02, §10",
    "note": TB + "; producers not modelled (geometry, BMOC conversion, STC-S) are only tested through validB",
    "technique": "Lean 4 proof (induction over programs) + differential correspondence + executable judge proved equivalent to the property",
}
CLAIMED["C03"] = {
    "text": "Theorems (all canonical MOCs of any size, all query values): contains_val ⇔ membership (binary search on flattened bounds + parity, "
            "search modelled by its contract), contains_range ⇔ every index covered, intersects_range / intersects ⇔ a common index exists, "
            "contains(rhs) ⇔ subset, overlapped_by_iter = filter of the ranges meeting rhs (total, incl. empty operands); the models are the "
            "transliterated Rust functions run against the real code exhaustively over a small universe (every point / range / pair) and on "
            "boundary-biased deep MOCs. Measures: range_sum = number of covered indices (rangeSum_counts); the integer pair range_fraction divides is determined by the number of "
            "covered indices of the query — (0,1) iff none, (1,1) iff all — through the quick rejection, the binary-search start index and the accumulation loop (rangeFraction_sem); "
            "cell count x cell size = covered indices (cellCount_sem). Partial: the final f64 division and the MOM weighted sum are tied by the correspondence (bit-exact) only.",
    "design_ref": "DESIGN.md §4 C03, §10",
    "note": TB + "; Lean Float (C double) for the last division of fraction pairs",
    "technique": "Lean 4 proof over an executable model + exhaustive small-scope differential correspondence",
}
CLAIMED["C04"] = {
    "text": "Theorem lazy_eq_eager: by induction over ALL operator trees (and/or/xor/minus/not/degrade), for every assignment of valid leaves and "
            "EVERY consistent hint configuration of the leaf sources, the lazy iterator tree yields exactly the ranges and depth of the eager "
            "evaluation AND the hints each node advertises (peek_last, size_hint) are consistent with what it yields (so downstream fast paths "
            "and the FITS writer's exact-size path are sound: exact_hint_is_length). Five inconsistent size_hint implementations found and "
            "repaired (check, or, xor, minus, not). Correspondence: trees through the real iterators, the real FITS writer/reader, per-node "
            "hint checks with hintOkB (proved ⇔ HintOk), check/convert wrappers with exact hint prediction.",
    "design_ref": "DESIGN.md §4 C04, §10",
    "note": TB + "; adapters (range<->cell<->cell-range) enter as leaf source kinds with observed hints, merge iterator not modelled",
    "technique": "Lean 4 proof (induction over programs, hint invariant) + differential correspondence",
}
CLAIMED["C06"] = {
    "text": "Theorem fixedDepth_build: for EVERY cell sequence and EVERY buffer capacity the fixed-depth builder model (push with duplicate test, "
            "sorted flag, sort-on-drain, buff_to_moc, union with the previous MOC) returns normalize(union of the cells): order-, duplicate- and "
            "capacity-invariance are corollaries. Theorems kway{Or,And,Xor}_eq_fold: for every list length the lagged 4-by-4 KWay4 recursion equals the "
            "left fold of the binary operator (associativity obtained from the unique normal form). Theorems rangeBuilder_build / _sem / _perm and fromCells_sem: the max-depth RANGE builder (push with merge of "
            "overlapping or touching last range, sorted flag, sort-on-drain, merge_sorted, lazy union with the previous MOC) returns normalize(degraded ranges) "
            "for every sequence of non-empty ranges and every capacity. A genuine defect of the push_v2 variant was found and repaired.",
    "design_ref": "DESIGN.md §4 C06, §10",
    "note": TB,
    "technique": "Lean 4 proof (history invariant over pushes; generic associativity argument) + differential correspondence",
}
CLAIMED["C05"] = {
    "text": "Theorems for ALL depths and indices (not a sample): NUNIQ decode∘encode = id and encode∘decode = id on codes >= 4, NUNIQ order = (depth, idx) "
            "lexicographic, z-order-uniq decode∘encode = id for every quantity/width/legal depth, width widening/narrowing round trip and monotonicity, and the "
            "one-step theorem of the greedy cell view (legal depth, aligned cell, exactly the head of the range, progress); list level, for EVERY valid MOC: ranges -> cells -> ranges = id "
            "(cells_roundtrip), ranges -> cells -> cell ranges -> ranges = id (cellranges_roundtrip), both views cover exactly the MOC, the cell list is a normal form determined by the covered set "
            "and the view is injective, flat cells = the depth-d cells inside the MOC, generic uniq decode∘encode = id for the three quantities. HpxUniq2DepthIdxIter is tied to the cells of the proved iterator model in emission order (op r_depthidx); "
            " UniqToHpxIter is transliterated (uniq_to_hpx_spec, op u_tohpx); the ranges -> NUNIQ iterator is transliterated and proved (session 5, below).",
    "design_ref": "DESIGN.md §4 C05, §10",
    "note": TB + "; log2 / trailing-zero specifications of the CPU instructions",
    "technique": "Lean 4 proof (arithmetic on codes) + differential correspondence",
}
CLAIMED["C18"] = {
    "text": "Theorems over ALL bit patterns, with the exponent window and the two biases extracted from src/qty.rs at every run: freq2hash is strictly increasing on "
            "the accepted interval, lands inside [0, n_cells_max), rejects everything outside (never wraps), hash2freq∘freq2hash = id bit-for-bit (64-bit), weak "
            "monotonicity on u16/u32; an F-MOC / T-MOC built from values OR from half-open ranges contains exactly the depth-d cells of those values for every order, capacity and width "
            "(corollaries of the C06 builder theorems; two genuine defects of the range builders on u16/u32 found and repaired); widening round trip; hash2freq is the same affine map read backwards and the hertz range of the depth-d cell of an accepted value "
            "ENCLOSES the value (hz_range_encloses). Correspondence on every binary exponent and the special values, exchanged as bit patterns.",
    "design_ref": "DESIGN.md §4 C18, §10",
    "note": TB + "; IEEE-754 order-embedding of non-negative doubles into their bit patterns",
    "technique": "Lean 4 proof on bit patterns (constants regenerated from the source) + differential correspondence",
}
CLAIMED["C07"] = {
    "text": "Model of the IVOA ASCII codec (lexer, validation loop, sort + overlap check, per-depth buckets of the writer) and of the FITS range payload. Theorems: reading what the writer emits returns "
            "the declared depth and the canonical MOC covering exactly the elements, for EVERY list of in-domain non-overlapping elements in any order, every dmax (empty MOC and unoccupied deepest "
            "level included), every quantity and index width; END TO END (ascii_roundtrip_moc): for every valid MOC M of depth d the reader applied to the writer's tokens for the cell-range view of M "
            "returns exactly (d, M), and the same for the JSON document (json_roundtrip_moc: the JSON token stream is the ASCII one restricted to single cells; the real JSON text is "
            "reduced to that token stream by dropping quotes / braces / brackets and mapping ':' to '/' and ',' to ' '); big-endian words and (start,end) row pairing are inverted exactly; padded data units are whole 2880-byte blocks; NUNIQ code round trip. "
            "Tied to the code by three correspondences on real bytes (writer text = model text, reader = model reader, FITS data unit = model bytes). Partial: fold widths, offset notation, streaming "
            "ASCII, the JSON reader and lazy writers are checked by direct round trips on real bytes (test level), not modelled (FITS header cards and NUNIQ files: modelled and proved in session 5, below).",
    "design_ref": "DESIGN.md §4 C07, §10",
    "note": TB + "; nom/serde_json/byteorder not modelled",
    "technique": "Lean 4 proof (token-level round trip, byte/row codecs, padding) + differential correspondence on real bytes + direct round-trip checks for the unmodelled options",
}
CLAIMED["C11"] = {
    "text": "Word-level model of the FITS version-2 space-time payload (MSB-flagged time rows followed by space rows; reader = one pass splitting on the alternation, transliterated from "
            "RangeMoc2DIterFromFits::next). Theorem fits_st_roundtrip: for EVERY list of elements with non-empty time and space parts (any number of elements and ranges, time bounds up to the "
            "highest usable bits) decoding the encoded rows returns exactly the elements; row count = total number of ranges; the empty MOC; a proved counterexample shows the non-empty-space "
            "hypothesis is necessary. ASCII: model of the 't.. s..' document (split on the two prefixes, 1-D reader per part, maximum of the depths, depth-only last element) and theorem "
            "st_ascii_roundtrip: for every list of elements with valid non-empty parts the reader applied to the writer's document returns (d1, d2, elements) — resting on the 1-D end-to-end "
            "theorems of C07; st_json_roundtrip: the same for the JSON document (single cells only). Tied to the code both ways on real files and real text (writer rows / text = model, reader = "
            "model reader; the JSON text is reduced to the ASCII document by a fixed lexical mapping) plus idempotence of re-serialisation. Partial: the ST JSON reader and the pre-v2 ST FITS reader are checked by "
            "direct round trips on real bytes (test level), not modelled (FITS header and depth keywords: modelled and proved in session 5, below); u64 only.",
    "design_ref": "DESIGN.md §4 C11, §10",
    "note": TB + "; bit test modelled arithmetically; ASCII/JSON ST syntaxes tested not proved",
    "technique": "Lean 4 proof (row codec round trip by induction over elements) + differential correspondence on real FITS files + direct round-trip checks for ASCII/JSON",
}
CLAIMED["C12"] = {
    "text": "Theorems on the ASCII reader model: whatever it accepts has a declared depth within the quantity's maximum, only elements inside the domain of their own depth, pairwise non-overlapping, "
            "and yields the canonical MOC covering exactly those elements; every number carried by a token (incl. the exclusive end) fits the index type; the reader is total. The real reader is tied to "
            "the model on thousands of single-field mutations (same verdict and value). Genuine defects repaired: ASCII ('>' instead of '>=', no depth bound, reversed ranges, end+1 overflow), JSON (no index "
            "bound), FITS (error-branch slice panic, NUNIQ values 1..3 and beyond the deepest depth, multi-order map header/row values, two allocations sized by header counts). Partial: totality of the "
            "real FITS / multi-order map / sky map / stream / JSON readers and store loaders is mutation-fuzzed (card-level and data-word mutations, giant counts in memory-limited child processes; every "
            "panic or abort reported), not proved.",
    "design_ref": "DESIGN.md §4 C12, §10",
    "note": TB + "; totality of Rust decoders is tested, not proved",
    "technique": "Lean 4 proof (validity of accepted documents, overflow freedom) + differential correspondence on mutated documents + mutation fuzzing of the unmodelled decoders",
}
CLAIMED["C13"] = {
    "text": "Transliterated model of the slab (entries + free list) and of store.rs (add / copy_moc / drop / read phase + write phase of op1, op2, opn). Theorems: every call and every history "
            "from the empty store REFINES a reference registry (partial map index -> (count, value), fresh index = any non-live index, copy +1 up to 255, drop -1 and removal at 0, operations = "
            "library function of the operands' values, dead index -> error) with the slab invariant preserved; an index handed out is never live; an index denotes the same MOC along every history "
            "that does not drop it; n drops of a count-c entry; two-phase operations are atomic when operands are not dropped in between; EVERY interleaving of lock sections of any number of threads "
            "gives each call the output of the sequential execution in completion order (linearizability in the lock-section model); lock discipline (the lock sections of every call never nest "
            "and are all closed). The lock sections of every real call are recorded through the verif_hooks feature and compared with the model's, so a re-entrant helper is caught on sequential "
            "histories. Partial: fairness / poisoning of the real lock are exercised by real threads under a watchdog (test level); ST entries and geometry constructors are outside the "
            "modelled population.",
    "design_ref": "DESIGN.md §4 C13, §10",
    "note": TB + "; slab crate modelled not verified; RwLock sections assumed atomic",
    "technique": "Lean 4 proof (refinement to an abstract registry + interleaving theorem) + differential correspondence on a long sequential history + threaded stress run with watchdog",
}
CLAIMED["C17"] = {
    "text": "Time/Frequency: theorem tf_expanded_sem (for every valid MOC the expansion is canonical and covers exactly the cells equal or adjacent to a cell of M, clipped to the "
            "domain), theorems tf_contracted_sem / tf_contracted_dual (repaired contraction on whole MOCs: canonical, keeps exactly the points whose neighbourhood is covered, and EQUALS "
            "not(expanded(not M)) for every valid MOC), a proved counterexample for the original formula. Space: model of expansion, contraction, external / internal border and splitting over an adjacency relation GIVEN AS DATA, with "
            "theorems for EVERY adjacency and cell set: expansion = cells equal or adjacent to a cell of M; contraction = cells of M no cell outside M is adjacent to; borders; splitting returns "
            "a correct partition (each part = the component of one of its cells: inside the set, closed, every cell reachable; parts cover the set, are pairwise disjoint and separated). The real "
            "operations on HEALPix MOCs (depths 0-2, mixed-depth shapes) are compared with the model over the cdshealpix neighbour lists. A genuine defect (T/F contracted at the domain bounds) "
            "was repaired. Partial: the HEALPix geometry is the trusted parameter; fill_holes is checked against a brute-force oracle only (test level).",
    "design_ref": "DESIGN.md §4 C17, §10",
    "note": TB + "; cdshealpix neighbours trusted as the definition of adjacency",
    "technique": "Lean 4 proof (T/F arithmetic; flood-fill correctness over an abstract adjacency) + differential correspondence + independent oracle for fill_holes",
}
CLAIMED["C19"] = {
    "text": "Model of what `moc op` builds (two FITS streams, ConvertIterator on the narrower operand, the lazy operator, the writer). Theorems: for EVERY pair of canonical inputs of any two index "
            "widths and every consistent hint behaviour of the streams, the stream handed to the writer is canonical, has consistent hints and covers exactly the set-theoretic result "
            "(cli_op2_sem) and is a VALID MOC of the wider index type at the maximum of the depths (cli_op2_valid, with promotion_table for the 16 / 32 / 64-bit widths); expressed in the common 64-bit index space the result depends only on the two input sets, not on the stored widths (cli_op2_width_independent); complement and degrade; "
            "convert and `from timestamp` rest on the re-exported C07 / C18 theorems. Tied to the code by driving the rebuilt `moc` binary: all width pairs x operations x output formats, all convert "
            "pairs, `from` on timestamps / time ranges / positions, and invalid inputs (exit status + message, never exit 101). The space-time variants (inter / union / minus on ST files, tfold, sfold) are driven too and judged point-wise by the C08 / C10 semantics. "
            "Four defects repaired (todo!() panics; out-of-range depth panics; F-MOC FITS output narrowed with the Time thresholds; ST union panics of the tool), open findings recorded "
            "(truncated FITS data accepted silently; unparsable `from` lines skipped silently); `op union` on ST files, which exited 101 at five panic sites of the streaming ST union, was repaired by going through hpxranges2d like inter / minus. Partial: geometry sub-commands, filter/view/info are not driven.",
    "design_ref": "DESIGN.md §4 C19, §10",
    "note": TB + "; clap argument parsing and cdshealpix hash outside the model",
    "technique": "Lean 4 proof (composition of the C01/C04 lazy-operator theorems with the width-conversion lemmas) + differential correspondence driving the real binary + exit-status checks on invalid inputs",
}
CLAIMED["C20"] = {
    "text": "Integer model of valued_cells_to_moc_with_opt and its four descents (asserts as faults), in exact agreement with the f64 code on dyadic maps for all 16 option "
            "combinations. Theorems: the accumulation loops take the maximal prefix with cumulative value <= threshold (every cell strictly between the thresholds is selected); the sub-cell "
            "loop is Euclidean division; the upper-boundary descent never fails and terminates; the value enclosed by each of the four descents is within one deepest piece of its target (below "
            "in strict mode, above in non-strict mode); and the MASS BRACKET of the whole selection (selection_mass_bracket): for every dyadic map, every from <= to <= total and every option "
            "combination, the enclosed value differs from (to - from) by at most one boundary piece per threshold, never above in strict mode, never below in non-strict mode — whenever the two "
            "thresholds are not strictly inside the same cell; a proved counterexample shows that hypothesis is necessary (= the open finding). Also for every map, thresholds and options: "
            "selection_footprint (every selected cell is a cell of the map or one of its descendants), scan_order (the scan list is a permutation of the map ordered by density as requested), "
            "selection_contains_between (a non-null cell whose cumulative interval lies within [from, to] is selected), selection_moc (the output is canonical and covers exactly the selected cells). "
            "The mass bracket and the footprint are also evaluated with exact integers on the implementation's output. One defect repaired (acc not advanced past the split lower boundary cell).",
    "design_ref": "DESIGN.md §4 C20, §10",
    "note": TB + "; exactness of f64 arithmetic on dyadic inputs",
    "technique": "Lean 4 proof (loop lemmas, descent mass lemmas by induction on the depth, two-stage bracket theorem) + differential correspondence + exact-integer property check on implementation output",
}
CLAIMED["C14"] = {
    "text": "Reference state machine of a moc-set (ordered entries, capacity 128*n128-1, statuses) with theorems: a refused append leaves the state unchanged; an append succeeds iff the id "
            "is not live and the file is not full (so re-adding works exactly after removal); uniqueness of live identifiers is an invariant; purge drops exactly the removed entries; list and "
            "extract read the state; extract commutes with append / chgstatus / purge (abstraction map to `identifier -> MOC`), chgstatus on identifiers none of which is live leaves the file "
            "unchanged, and for EVERY command history: at most one live entry per identifier (history_noDupLive) and whatever extract returns is, up to its status, an initial entry or a MOC "
            "appended in the history under that identifier (history_extract_origin). The REAL mocset binary is run on generated histories (incl. completely filled files, deep/shallow/empty MOCs, a lock held by another writer) and compared "
            "with the model after every command; refusals must leave the file bytes unchanged; extract must return the MOC added. One defect repaired (chgstatus on a full file applied the "
            "change but reported failure).",
    "design_ref": "DESIGN.md §4 C14, §10",
    "note": TB + "; process-level observation of the mocset binary and of the bytes of its file",
    "technique": "Lean 4 proof on a reference state machine + correspondence with the real binary after every command of generated histories",
}
CLAIMED["C15"] = {
    "text": "Specification-level query model (exact set predicates from C03) with theorems: intersect / included predicates are the set-theoretic ones, and degrading the query region to "
            "depth 13 before the 32-bit conversion is EXACT for both modes for every region and every MOC stored at depth <= 13 (degrade_exact_*), plus a proved counterexample for the original "
            "bound-flooring conversion. The real `mocset query` is compared with the specification on regions smaller than / inside / on the edge of storage cells, both storage widths, "
            "with/without deprecated, sequential and parallel; position queries (queryPos_sem) and the `union` command (unionAt_sem: exactly the union of the selected MOCs at the output depth; "
            "unionAt_is_builder: what the tool's RangeMocBuilder computes for every capacity; same selection as query) are proved and driven too (moc regions, identifier lists, positions; output depths below / at / above the stored ones). "
            "The defect (false negatives / false positives for regions deeper than depth 13) was repaired.",
    "design_ref": "DESIGN.md §4 C15, §10",
    "note": TB + "; cdshealpix used as oracle for the hash of a position and for the cone region (not for the selection)",
    "technique": "Lean 4 proof (exactness of degrade-then-convert) + correspondence with the real binary",
}
CLAIMED["C16"] = {
    "text": "Effect-order model of `append` (data visible, index store, meta store) with theorems: for the repaired order every prefix of effects — i.e. every kill point — leaves a file on "
            "which a reader sees a consistent listing equal to the one before or after the update (append_atomic), well-formedness is preserved, and the ORIGINAL order (index and meta "
            "published through the shared mapping before the data flush) is proved inconsistent. On the real binary (built with the verif_hooks feature) the updater is aborted at each of 10 "
            "named points of append / chgstatus / purge and readers, a second writer and a recovery update are observed. Two defects repaired (publish-before-flush; a debug assertion that made "
            "recovery appends panic). chgstatus and purge have effect models too: every entry carries its old or its new status at every boundary (chg_prefix_old_or_new), a one-entry change is atomic "
            "(chg_single_atomic), a change of several identifiers is NOT (chg_multi_not_atomic, reproduced on the binary by killing `chgstatus deprecated 2,3` between its two stores: recorded as an open finding), "
            "purge switches from the old to the new content exactly at the rename (purge_atomic). Partial: pause-type schedules and power loss are not covered.",
    "design_ref": "DESIGN.md §4 C16, §10",
    "note": TB + "; visibility rules of MAP_SHARED stores vs buffered writes are assumptions of the model",
    "technique": "Lean 4 proof on an effect-order model + fault-point enumeration on the real binary (hook feature)",
}
HOOKS["source_commits"] = ["a33f737", "4abcf7e"]
HOOKS["guard"] = "cargo feature `verif_hooks` (one feature of that name in crate moc-set, crates/set: kill points of `append`, used by C16; one in crate moc: lock-section log of the MOC store, used by C13); both off by default"
HOOKS["enable"] = "C16: cargo build -p moc-set -p moc-cli --features moc-set/verif_hooks (done by ./check C16 into .cache/repo-target-hooks); C13: the harness depends on moc with features [storage, verif_hooks] (harness/Cargo.toml)"
_ST_NOTE = TB + "; specification-level model: no theorem is about the Rust state machines themselves, the tie is the point-wise correspondence"
CLAIMED["C08"] = {
    "text": "Theorems fix the specification of the ST union (point set = union of the point sets, commutativity, neutral element, idempotence) and what the validity predicate validSTB "
            "guarantees (non-empty canonical parts, elements ordered in time, hence disjoint time MOCs). The three real forms of the operator are compared with the specification at every "
            "grid point (incl. shared boundaries) in both operand orders, every output is judged by validSTB, panics are answers. Partial: the 1 400-line state machine is not transliterated, "
            "termination is observed. Two open findings (outputs with overlapping element time MOCs; panics on some valid inputs).",
    "design_ref": "DESIGN.md §4 C08, §10", "note": _ST_NOTE,
    "technique": "Lean 4 proof on the specification + point-wise correspondence (refinement to an abstract spec) + executable validity judge",
}
CLAIMED["C09"] = {
    "text": "Theorems: the specification of ST construction (covered iff some observation covers it) is the union of the products, is independent of order and duplicates, and a proved "
            "counterexample for the original make_consistent seed; the range-2D path is TRANSLITERATED (Model/Consistent2D.lean: sort of the time bounds, sweep over the set of open entries, union of the open "
            "coverages, compress) and PROVED for every list of entries with non-empty time ranges and non-empty canonical coverages, in any order, overlapping, touching, nested or duplicated: the result covers "
            "exactly the union of the products (range2d_path_sem), is a valid flat coverage (range2d_path_valid) and the covered set is order- and duplicate-independent; the tie to the code is the EXACT agreement of "
            "the entries. Both streaming builders (all capacities) and the range-2D path are compared with the specification at every grid point. One "
            "defect repaired (make_consistent assumed the first entry is the earliest); one open finding (the sweep-line builder panics on some observation lists).",
    "design_ref": "DESIGN.md §4 C09, §10", "note": _ST_NOTE,
    "technique": "Lean 4 proof on the specification and on the transliterated make_consistent sweep + point-wise and exact-output correspondence of the construction paths",
}
CLAIMED["C10"] = {
    "text": "Theorems: union / intersection / difference point-wise, product form of the intersection, time-fold and space-fold semantics (the code's range reading equals the instant reading "
            "for valid operands), half-open lookup incl. the shared-boundary case, what validFlatB rejects; the sweep Ranges2D::merge behind the flat union / intersection / difference is TRANSLITERATED (Model/Merge2D.lean: event "
            "merge of the two operands, emission of segments, repaired final pass) and PROVED for every pair of well-formed operands: the result covers exactly the point-wise operation (flat_algebra_sem) and is a "
            "valid flat coverage (flat_algebra_valid: no zero-length range, ordered, disjoint, non-empty canonical coverages, no unfused touching ranges), the tie to the code being the EXACT agreement of the entries; the valid flat form is proved to be a NORMAL form (flat_normal_form: two valid flat coverages with the same point set are equal), so the computed entries are commutative / associative / idempotent as lists; time_space_iter (flat form -> RangeMOC2 elements) is transliterated too and proved to return a valid ST-MOC covering the same pairs (time_space_iter_sem, st_algebra_chain), tied by exact agreement of the elements; "
            "code-level models of the two folds (tfold_ranges: filter + union reduction is canonical, covers exactly "
            "the spec and is independent of the order of the parallel reduction; sfold_ranges: filter + new_from_sorted). The Ranges2D algebra, both folds (grid bits AND the returned ranges) and both "
            "lookups of the real code are compared with them. Three defects repaired (closed time range + unreachable!() in contains; inverted comparator in RangeMOC2::contains_val; "
            "Ranges2D::merge emitting zero-length / unfused time ranges).",
    "design_ref": "DESIGN.md §4 C10, §10", "note": _ST_NOTE,
    "technique": "Lean 4 proof on the specification and on the transliterated sweep / folds + point-wise and exact-output correspondence",
}
NOT_YET = {
}

# ---- bug-hunting phase (DESIGN.md §10.10): what was added to each claim
def _add(pid, txt):
    CLAIMED[pid]["text"] = CLAIMED[pid]["text"].rstrip() + " " + txt

_add("C02", "After the bug hunt: range_builder_valid holds for EVERY in-domain list of ranges, empty ranges included (the builder used to keep them; repaired 3c6b81c).")
_add("C03", "The iterator of overlapped_by_iter is also judged as a RangeMOCIterator (hints at creation and after 1 and 2 next(), FITS writer fed by it): its size_hint was wrong (repaired 7641c6f).")
_add("C04", "peek_last is proved EXACT (Src.LastExact: a node announcing a last range yields ranges and the last one ends there) for every operator tree (lazy_last_exact); XorRangeIter announced the end of the union (repaired 320c771); "
            "a user implementation of the public CellMOCIterator trait advertising its size is one of the 9 source kinds (adapter hint repaired d5d00af).")
_add("C05", "uniq_gen_to_range is modelled and proved to give the range of the cell for the three quantities (uniqGen_to_range; the code used the HEALPix shift for all, repaired 7c8bce4).")
_add("C06", "rangeBuilder_sem_all: the range builder on EVERY list, empty ranges included, covers exactly the degraded non-empty ranges; every builder variant on an EMPTY list of regions gives the empty MOC of the requested depth (repaired ab6cbe9).")
_add("C07", "A MOC id longer than a FITS card is refused with an error instead of a panic (repaired 6fedaa8).")
CLAIMED["C08"]["text"] = CLAIMED["C08"]["text"].replace("Two open findings (outputs with overlapping element time MOCs; panics on some valid inputs).",
    "The union was REPAIRED in /repo during the bug hunt (five local causes, commits c6c029a a7b817f 3a3fe23 0ba3fb9: depleted element flushed twice, a mistyped bound comparison, unfused / empty ranges in built elements, two states wrongly declared unreachable): "
    "0 disagreements over 4 seeds x 1.08 million thorough operations, directed pairs and operands of different time depths included, every element judged against its own depth. One open finding: the remainder of an element is flushed "
    "with the depth of its own operand (the repair conflicts with a unit test of the repository that asserts the defective output).")
CLAIMED["C09"]["text"] = CLAIMED["C09"]["text"].replace("one open finding (the sweep-line builder panics on some observation lists).",
    "the builder panics disappeared with the repair of the union. After the bug hunt the construction is proved for EVERY list of observations (Consistent2D.fromObservations, range2d_path_all_observations: empty time ranges and empty coverages "
    "removed as a whole; the code used to shift the positions of all later observations, repaired d1dc8c2 4ba502a bc695d7), and from_time_and_coos (time used as a cell index, repaired 0997bae) and the (time range, cell) variant of the range-2D path are driven.")
_add("C10", "The store's filter_timepos (positions in degrees) is driven against the lookup model, invalid latitudes included (degrees were hashed as radians, repaired 69ca040).")
_add("C12", "After the bug hunt: three small synthetic sky maps (every card mutated), a pre-v2 ST-MOC file, non-ASCII bytes in string cards probed in child processes, the legality of the depth of whatever a FITS reader returns, "
            "directed streaming-ASCII and JSON documents (numbers beyond the index type, depths the quantity does not have, non-integer elements); six reader defects repaired (95aafbb f20464d 247aa1b 6472aa3 3ea4fae and the long keyword 6fedaa8).")
_add("C13", "Typed drops (drop_smoc/tmoc/fmoc/stmoc) are driven, on the kind of the MOC and on another one: a mismatch is an error WITHOUT effect (Store.dropKind, theorem typed_drop_spec; they used to destroy the MOC, repaired e735082).")
_add("C14", "Identifiers beyond 48 bits and the status `void` are driven (refused, file unchanged, no lock left; repaired 474fcb0 0a8310c) — modelled by msAppendCmd / msChgStatusCmd (theorem cmd_domain).")
_add("C15", "Positions and cones at lat = +90 and -90 degrees are driven (the north pole was rejected, repaired 34239d6).")
_add("C16", "A reader that is ALREADY walking the file when an append completes is reproduced deterministically (undrained pipe, 16000 MOCs): it must answer with the state before or after (it crashed, repaired a3a90d0).")
_add("C18", "tmoc_ranges_contains_exactly / fmoc_ranges_contains_exactly now hold for EVERY list of ranges, empty ones included (no cell for an empty range whatever its alignment and the index width).")
_add("C19", "After the bug hunt: `from timerange` with empty and reversed ranges, empty lists of regions (`from cones|multi|pos`), `--moc-id` of every length around the capacity of a FITS card (repaired 3c6b81c 49f5a2b 2f9e313 6fedaa8).")
_add("C05", "Session 5: the NUNIQ view produced by the real range -> NUNIQ iterator is compared VALUE BY VALUE with the NUNIQ numbers of the model's normal-form cells (op r_nuniq): four siblings in place of their parent are reported although the covered set is the same (seed C05e).")
_add("C07", "Session 5: the ASCII round trip is proved at the CHARACTER level (ascii_text_lex, ascii_text_roundtrip, ascii_text_roundtrip_moc): decimal printing is inverted by the lexer's number parser (digitsVal_showNat), the lexer run on the concatenated token texts returns the tokens "
            "whatever the separators (lexAll_showToks), so reading the characters written for any valid MOC returns (depth, MOC) for the three quantities on u16 / u32 / u64 (fit_instances); the text the driver compares with the real writer's bytes is that very definition. JSON is written with fold widths None / 30 / 16 / 10 (seed C07e).")
_add("C11", "Session 5: the ST ASCII round trip is proved at the CHARACTER level (st_ascii_text_lex, st_ascii_text_roundtrip): trimming, the split on the `t` prefixes, the split of every element on `s` and the two 1-D lexers applied to the characters the writer emits return exactly the elements; "
            "ST JSON is written with fold widths 40 / 24 / 12 / None (seed C11e).")
_add("C08", "Session 5: operand pairs in which one element SPANS several consecutive elements of the other operand (spanning_st) are generated (seed C08e: an arm of the streaming union reached by 0.3% of independent random pairs).")
_add("C12", "Session 5: the exhaustive (card, value) pass also uses powers of two around the largest NSIDE and the bounds of the integer types (seed C12e: NSIDE 2^30 reached an assertion).")
_add("C14", "Session 5: the FILE is modelled (Model/MocSetFile.lean: the metadata words status/depth/identifier, the cumulative index words, the little-endian 32- / 64-bit range bytes; the reader's zip of the two iterators; the scan / stores of append, the walk of chg_multi_status with its shrinking map, purge, make, list) "
            "and every command is PROVED to commute with the reader's abstraction map on every reachable file (meta_word_roundtrip, moc_bytes_roundtrip, file_make_refines, file_append_refines, file_chg_refines, file_purge_refines, file_list_refines, and file_history_refines for every command history); "
            "tie: after every command of the generated histories the real file is compared with the model WORD FOR WORD (metadata, index) and on its data bytes (op msf).")
_add("C16", "Session 5: append_interrupted_file_view: on the file model a writer killed after k of the three stores of append (data, index word, metadata word) leaves a file READ BACK as exactly the old moc-set (k <= 2) or exactly the new one (k = 3), for every reachable file; "
            "append_interrupted_then_retry: the leftover bytes are overwritten by the next append. Tie: at every append kill point the real file left behind is compared word for word / byte for byte with fileAppendPrefix (op msfk).")
_add("C19", "Session 5: RFC 3339 timestamps and time ranges with fractions of a second are driven at depths 61 / 51 / 42 (seed C19e).")
_add("C07", "Session 5 (FITS): the WHOLE file is modelled byte for byte (Model/Fits.lean: the primary block, the BINTABLE cards with NAXIS1 / NAXIS2 right-justified, the MOC cards of each quantity in the order of the keyword map, END, blank fill, big-endian data unit, zero padding; range and NUNIQ encodings) and proved: "
            "fits_file_blocks (length multiple of 2880), fits_file_structure (the reader's unsigned-value parser applied to the NAXIS1 / NAXIS2 cards returns the word size and twice the number of ranges, their product is exactly the number of data bytes written, and those bytes decode to exactly the ranges), fits_nuniq_file; "
            "tie: length + FNV-1a of every real file written (in-memory and lazy sources, 3 quantities x 3 widths; NUNIQ files) = the model's file (ops fits_file, fits_nuniq_file), so any change to a header card is reported.")
_add("C11", "Session 5 (FITS): fits_st_file_roundtrip: the whole ST FITS file (header cards with MOCDIM TIME.SPACE and both depths, flagged rows, padding) is made of 2880-byte blocks, declares NAXIS2 = twice the number of ranges, and the rows extracted from its data bytes are decoded to exactly the elements written; tie: the real file byte for byte (op st_fits_file).")
_add("C05", "Session 5 (normal form): cells_maximal — for every valid MOC no cell of the cell view of depth >= 1 has its parent inside the MOC (the cells are the LARGEST aligned cells: four siblings never stand for their parent), proved from the local maximality of every step of the greedy iterator (nextCellK_maximal: trailing zeros / length bounds as computed) "
            "and a walk over greedy tiles (gtiles_maximal), with the gaps of a canonical range list on both sides; with cells_cover this characterises the normal form independently of the algorithm. The NUNIQ iterator is compared value by value with it (r_nuniq).")
_add("C05", "Session 5 (iterator): HpxToUniqIter is transliterated (Model/UniqIter.lean: depth after depth, aligned part of every remaining range emitted, buffer subtracted with difference(new_from(buffer))) and proved: nuniq_iter_cover (the emitted ranges cover exactly the MOC, each a non-empty union of whole cells of its level) and "
            "nuniq_iter_maximal (nothing emitted below the top level has its parent inside the MOC) — pass_sound / pass_complete, noBlk_after_pass, block_nest, removed_block, transfer; and emitted_iff_cell: an aligned cell is emitted by the iterator iff it is a cell of the cell view (maximal_unique: one family of maximal aligned cells per covered set). Tie: values of the real iterator = values of this model (r_nuniq_it) = NUNIQ numbers of the normal-form cells (r_nuniq).")
_add("C19", "Session 5 (dates): the tool's ISO date conversion is modelled (Model/Calendar.lean: calendar2f / gregorian2jd as written, hms2usec, check_usec) and proved to count days: iso_day_count (every Gregorian date to the next one is +1 Julian day — ends of months, 28 / 29 February through the 400-year cycle, century years — anchored on 2000-01-01 = JD 2451545), "
            "iso_next_day_usec (+86 400 000 000 us); tie: random civil dates 1583..2400 with fractions of a second through `moc from timestamp --time-type isorfc|isosimple` = the model (cli_from_iso).")
_add("C17", "Session 5: hole filling is modelled (Model/FillHoles.lean: components of the complement over the edge-or-vertex adjacency, stably sorted by decreasing size, all but the 1 + n largest added) with fill_holes_spec, fill_holes_largest_kept, fill_holes_superset, and tied exactly to the real fill_holes(None | Some(1)) (op sp_fill; equal-size components across the cut skipped); fill_holes_smaller_than likewise (fillHolesSmaller, fill_holes_smaller_spec, op sp_fillk); "
            "the space operations are also driven on u32 and u16 MOCs (seed C17e).")
_add("C09", "Session 5: `FixedDepthSTMocBuilder::buff_to_moc` is transliterated (Model/STBuilder.lean: one group of sorted space cells per time cell, consecutive time cells with the same coverage grouped) and proved: buffer_elements_exact (the elements cover a pair iff it was pushed, for every order / duplication / size), buffer_elements_canonical, buffer_elements_order_independent; "
            "tie: the ELEMENTS the real builder returns for one buffer = the model's (op st_buff). The merge of successive buffers still goes through the streaming union (specification level).")
_add("C07", "Session 5 (FITS reader side): fits_file_roundtrip — the values the reader extracts from the table header of the written file (NAXIS1, NAXIS2, MOCDIM, ORDERING, MOCORD_S|T|F, TFORM1; get_str_val_no_quote and parse_uint_val as written, cards scanned up to END) are those of the MOC and the data bytes decode to exactly its ranges, for the three quantities (Model/FitsRead.lean, Lemmas/FitsRead.lean).")
_add("C03", "Session 5: first_index / last_index / eq_without_depth driven and proved (first_last_index: smallest covered index, last_index - 1 the largest, absent iff empty); compute_min_depth modelled as written (trailing zeros of the OR of the bounds) and proved to be the smallest depth at which the ranges are a union of whole cells (computeMinDepth_spec); ops q_fl, q_mindepth.")
_add("C20", "After the bug hunt the four descent theorems carry the STRICT inequality of the property (a threshold exactly on a sub-cell boundary cuts nothing and is met exactly; the code was off by a whole piece, repaired b3d1506; the model has the guards "
            "of the repaired code and the reverse lower descent recurses into itself, d3d6aa3), the harness judges the implementation with the exact sum of the pieces really cut, thresholds on every quarter / finest-piece boundary in both density orders are generated, "
            "and the sky-map reader is driven with skipped, UNSEEN and NaN pixels against the model (repaired 655082e). The whole-selection theorem selection_mass_bracket carries the strict inequality too (third conjunct; equality when no boundary cell is descended into).")
