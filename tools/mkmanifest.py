#!/usr/bin/env python3
"""Regenerates /verif/MANIFEST.json from tools/manifest_data.py (kept valid at all times)."""
import json, os, sys
sys.path.insert(0, os.path.dirname(os.path.abspath(__file__)))
import manifest_data as md

checks = []
for pid in sorted(md.CLAIMED):
    c = md.CLAIMED[pid]
    checks.append({
        "property_id": pid,
        "quick_cmd": f"./check {pid} --tier quick",
        "thorough_cmd": f"./check {pid} --tier thorough",
        "evidence_file": f"evidence/{pid}.json",
        "replay_cmd_template": f"./check {pid} --replay {{path}}",
        "engine": "lean4-proof+correspondence",
        "level_claimed": {"category": "proof", "text": c["text"], "design_ref": c["design_ref"]},
        "level_note": c["note"],
        "technique": c["technique"],
    })
all_ids = [f"C{i:02d}" for i in range(1, 21)]
na = [{"property_id": p, "reason": md.NOT_YET.get(p, "check not built yet in this session (see DESIGN.md, section 10); the technique applies, the property is not claimed until its theorems build and its correspondence runs clean")}
      for p in all_ids if p not in md.CLAIMED]
manifest = {
    "version": 1,
    "setup_cmd": "./check --setup",
    "hooks": md.HOOKS,
    "engines": [{
        "name": "lean4-proof+correspondence",
        "path": "check",
        "serves_properties": sorted(md.CLAIMED),
        "kind_free_text": "Lean 4 theorems about a hand-written executable model (lean/MocVerif) + differential correspondence check "
                          "between the native Lean driver and the real Rust code (harness/), orchestrated by ./check",
    }],
    "checks": checks,
    "not_applicable": na,
    "notes": md.NOTES,
}
json.dump(manifest, open(os.path.join(os.path.dirname(__file__), "..", "MANIFEST.json"), "w"), indent=1)
print("MANIFEST.json:", len(checks), "checks,", len(na), "not claimed")
