#!/bin/bash
# For every `fixed` entry of known_findings.json: apply the REVERSE of its fix commit to /repo's working tree (never
# committed), run the quick check of its property, expect a VIOLATION (the defect is back), restore /repo.
# Entries whose reverse patch no longer applies (later commits touched the same lines) are reported as such.
cd /verif
out=.cache/fix_regress.log
: > $out
python3 - <<'PY' > .cache/fix_regress.list
import json
d=json.load(open('/verif/known_findings.json'))
seen=set()
for f in d['findings']:
    if f.get('status')=='fixed' and f.get('commit'):
        k=(f['commit'],f['property'])
        if k in seen: continue
        seen.add(k)
        print(f['commit'],f['property'],f['id'])
PY
while read C P ID; do
  if ! git -C /repo cat-file -e $C 2>/dev/null; then echo "== $ID ($C, $P): commit not in /repo (history rewritten)" >> $out; continue; fi
  if ! git -C /repo show $C -- src crates | git -C /repo apply -R 2>/dev/null; then echo "== $ID ($C, $P): reverse patch does not apply" >> $out; git -C /repo checkout -- src crates; continue; fi
  log=$(./check $P --tier quick 2>&1)
  res=$(echo "$log" | grep -E "^VIOLATION" | head -1 | cut -c1-110)
  echo "== $ID ($C, $P): ${res:-NOT DETECTED}" >> $out
  git -C /repo checkout -- src crates
done < .cache/fix_regress.list
echo DONE >> $out
