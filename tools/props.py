"""Per-property configuration of /verif/check: trusted base, generator rule, judge."""

COMMON_TB = [
    "Lean 4.33.0 kernel; axioms per theorem listed under coverage.axioms (allowed: propext, Classical.choice, Quot.sound)",
    "hand-written model tied to /repo by the correspondence check of this run (differential execution; reach bounded by the generators, distribution under coverage.distribution)",
    "Lean compiler/runtime: the native driver computes what the definitions mean",
    "Rust machine integers = Nat arithmetic on the generated inputs (dev profile: overflow panics are observable answers)",
    "constant extraction from src/qty.rs by anchored regexes (Model/Params.lean)",
]
COMMON_ASSUME = [
    "std sort/binary_search meet their documented contracts",
    "the unsafe reinterpretation of [Range<T>] as [T] is the flattening of the ranges (repo test test_alignment)",
]

SETUP_EXTRA = []

PROPS = {
    "C01": {
        "trusted_base": COMMON_TB,
        "assumptions": COMMON_ASSUME,
        "rule": "exhaustive ordered pairs of all canonical range sets over a 6-cell (quick) / 7-cell (thorough) universe for the plain "
                "primitives; per (quantity, width) every MOC of the whole-domain universe at a shallow depth (Hpx depth 0: 12 cells, "
                "Time/Frequency depth 2: 8 cells) as unary operand and sampled/all ordered pairs; boundary-biased random MOCs at all "
                "depths 0..MAX_DEPTH; 8 source kinds for lazy operators (incl. borrowed ASCII- and JSON-parsed MOCs). distinct_nontrivial = distinct op lines whose operands are "
                "not both empty (resp. empty/full).",
        "explanation": "theorems: set semantics + canonicity of union/intersection/merge(op)/difference/complement/normalize and of the "
                       "lazy and/or/xor/minus/not/degrade models; correspondence: model = code on the generated inputs",
    },
    "C02": {
        "trusted_base": COMMON_TB,
        "assumptions": COMMON_ASSUME + [
            "geometry constructors (from_cone/from_zone/from_polygon) are NOT modelled: their outputs are only run through the executable validB (a test, counted under producer:*(test-only))"],
        "rule": "random operator trees (height 1..5 quick / 1..8 thorough) over and/or/xor/minus/not/degrade with leaves from the whole-domain "
                "small scope or boundary-biased random MOCs, 9 (quantity,width) combinations, 6 leaf source kinds; evaluated by the real eager "
                "methods (expr_e) and by the real lazy iterators wrapped in CheckedIterator (expr_l); the Lean validB (proved ⇔ Valid) judges "
                "EVERY intermediate node result and the outputs of constructors, builders, adapters and geometry constructors. "
                "distinct_nontrivial = distinct op lines with more than one leaf / a non-empty MOC.",
        "explanation": "theorems: eval_valid (induction over programs), per-operator Valid preservation, unique normal form; "
                       "correspondence: model eval = code on random programs + validB on every produced MOC",
    },
    "C03": {
        "trusted_base": COMMON_TB + ["Lean Float (C double) in the driver for the final division of the integer pair (num, den) of fractions; IEEE division is deterministic"],
        "assumptions": COMMON_ASSUME + [
            "floating-point answers (range_fraction, cell_fraction, coverage_percentage, MOM weighted sum): the integer pair fed to the final division is PROVED to be determined by the number of covered indices (rangeFraction_sem, rangeSum_counts, cellCount_sem, coverage_sem); the f64 division itself and the MOM weighted sum are compared bit-for-bit by the correspondence, not modelled in Lean"],
        "rule": "EXHAUSTIVE: every canonical set over a 6-cell universe (cell = 2 indices) x every point 0..13 and every non-empty range over 0..13 "
                "for contains_val / contains_range / intersects_range / range_fraction; every ordered pair of sets over a 6-cell (quick) / 7-cell "
                "(thorough) universe for intersects / contains / overlapped_by_iter; per (quantity,width): whole-domain small scope + boundary-biased "
                "random MOCs with cell queries at all depths placed on/next to the MOC bounds, empty operands on both sides. "
                "distinct_nontrivial = distinct op lines with a non-empty MOC.",
        "explanation": "theorems: contains_val / contains_range / intersects_range / intersects / contains / overlapped_by agree with the covered set for all canonical MOCs; correspondence incl. float outputs",
    },
    "C04": {
        "trusted_base": COMMON_TB,
        "assumptions": COMMON_ASSUME + [
            "a streaming source is modelled by the sequence it yields plus the hints it advertises at creation and after 1 and 2 next(); the hints of the 8 real leaf source kinds are OBSERVED (and themselves judged by hintOkB) by the harness and handed to the model (theorems quantify over all consistent hints)",
            "size hints of nested operator nodes are judged by the proved-equivalent predicate hintOkB on the implementation's own (hint, yield) pairs rather than predicted exactly"],
        "rule": "random operator trees (height 1..4 quick / 1..6 thorough) over and/or/xor/minus/not/degrade, leaves from the whole-domain small scope or "
                "boundary-biased random MOCs (incl. operands placed just after/before another one and degrade feeding a binary operator), 9 (quantity,width) "
                "combinations x 6 leaf source kinds: expr_e (eager) and expr_l (lazy) against the same model value; expr_fits = the lazy tree written by the real "
                "FITS range writer (plain and through CheckedIterator) and read back; hintok = peek_last/size_hint of EVERY subtree at creation and after 1 and 2 "
                "next() against what it then yields — at creation with the EXACT contract of peek_last (hintok0: an announced last range is the end of what is yielded, and something is yielded); 9 source kinds incl. a user CellMOCIterator "
                "advertising its size; l_check / l_convert with exact hint prediction. distinct_nontrivial = distinct op lines (hintok lines and "
                "multi-leaf trees).",
        "explanation": "theorem lazy_eq_eager by induction over operator trees for every consistent hint configuration; per-operator hint consistency; correspondence incl. serialiser fast path",
    },
    "C06": {
        "trusted_base": COMMON_TB,
        "assumptions": COMMON_ASSUME + [
            "the flush threshold is Vec::with_capacity(cap).capacity(), read back by the harness and sent to the model",
            "RangeMocBuilder theorems assume non-empty pushed ranges (start < end); an empty or reversed range is outside the statement"],
        "rule": "per (quantity,width): random cell multisets (incl. first/last cell of the depth) x 5 arrival orders (sorted, reversed, shuffled, duplicated+shuffled, adjacent duplicates) "
                "x 8 buffer capacities (1,2,3,5,8,len,len+1,default) x {push, push_v2}; append to an existing MOC; unaligned overlapping/touching/nested max-depth ranges and mixed-depth "
                "cells x orders x capacities (1 list in 3 also holds two EMPTY ranges, one aligned on the builder depth and one not); every builder variant on an EMPTY list of regions at 4 depths; n-ary or/and/xor (owned and iterator variants) for every list length 0..18 against the model's kway AND against the left fold. "
                "distinct_nontrivial = distinct op lines with more than one element.",
        "explanation": "theorems: fixed-depth builder = normalize(union of cells) for every sequence and capacity; kway = left fold for every list length via associativity from Canon.ext",
    },
    "C05": {
        "trusted_base": COMMON_TB,
        "assumptions": COMMON_ASSUME + [
            "leading_zeros / trailing_zeros are modelled by Nat.log2 and a recursive trailing-zero count",
            "the cell view, the cell-RANGE view and the flat cells are proved at list level (cells_roundtrip, cells_cover, cells_normal_form, cells_injective, cellranges_roundtrip, cellranges_cover, flat_cells_sem); the NUNIQ range iterators are tied by the correspondence and judged against the identity round trip (partial)"],
        "rule": "per (quantity,width): random dense/sparse cell sets over the whole-domain universe at Hpx depth 1 (48 cells: mixed depth-0/1 cells, full base cells) and "
                "Time/Frequency depth 3 (16 cells), full and empty MOCs, boundary-biased random MOCs at all depths: cell view, cell-range view, flat cells, back to ranges, "
                "round trips (cells, cell ranges, width through u64, NUNIQ ranges) against the identity; numbering schemes exhaustively for depths with <= 200 cells and "
                "at first/last/middle/random indices for every depth up to MAX_DEPTH, for u16/u32/u64, incl. generic uniq -> range. distinct_nontrivial = distinct op lines with a non-empty MOC or a code.",
        "explanation": "theorems: NUNIQ / z-uniq bijections and order for all depths, width round trip, one-step correctness of the greedy cell view, whole-MOC cell / cell-range round trips, cells_maximal (the cell view = the largest aligned cells), the ranges -> NUNIQ iterator transliterated (cover, maximal, same cells as the cell view: emitted_iff_cell); correspondence for the list-level views and, value by value, for the NUNIQ iterator",
    },
    "C18": {
        "trusted_base": COMMON_TB + ["IEEE-754: non-negative non-NaN doubles are ordered like their bit patterns; f64::to_bits/from_bits are exact (values are exchanged as bit patterns, never as decimal text)"],
        "assumptions": COMMON_ASSUME + ["rejection of an out-of-range frequency is the assert! panic of freq2hash (observed as `reject`)",
            "ranges handed to the range builders are non-empty (start < end); an empty or reversed range is outside the theorems"],
        "rule": "every binary exponent 926..1187 x mantissas {0, 1, 2^51, 2^52-2, 2^52-1, random}, both bounds of the interval and their 2 neighbours on each side, +-0, subnormal, "
                "+-inf, NaNs, negatives: freq2hash for u16/u32/u64 (accept/reject + value); hash2freq on first/last/middle/random hashes incl. the exclusive upper bound; F-MOCs from "
                "values and ranges at random depths 0..MAX_DEPTH x capacities; T-MOCs from microsecond values {0, 1, 2^k-1, 2^k, 2^k+1, 2^62-1, random} and ranges for u16/u32/u64; "
                "store entry points from_hz_values / to_hz_ranges with the enclosure predicate checked on the implementation. distinct_nontrivial = distinct op lines.",
        "explanation": "theorems on bit patterns with the constants extracted from src/qty.rs: strict monotonicity, in-domain, rejection, bit-exact inverse, narrow-type monotonicity, exact cell content of F-/T-MOCs built from values AND from ranges (every width; exclusive end rounded up on u16/u32)",
    },
    "C07": {
        "trusted_base": COMMON_TB + ["nom / serde_json / byteorder are not modelled: the lexer of the ASCII model is a transliteration of the nom combinators used, validated by the ascii_dec correspondence on every generated and mutated document"],
        "assumptions": COMMON_ASSUME + [
            "the ASCII theorems are at token level for every list of in-domain, pairwise non-overlapping elements; that the writer is fed with elements covering exactly M is the cell view of C05 (model function itemsOf, tied by the ascii_enc correspondence: model text = real text)",
            "fold widths, start+len notation, streaming ASCII, JSON, FITS header cards, NUNIQ files and lazy writers are exercised on real bytes by direct round-trip checks (test level); the FITS data unit bytes and padded length are tied to the model (fits_payload)"],
        "rule": "{space,time,frequency} x {u16,u32,u64}, 60 MOCs each (2500 thorough): empty, full domain, deepest level unoccupied (declared depth > needed), shallow and deep random MOCs; per MOC: ASCII text "
                "without fold = model text; reader on it and on 4 folded/offset variants written from a lazy source of random kind (owned, borrowed, cells adapter, cellranges adapter, FITS stream) = model "
                "reader; streaming ASCII x2, JSON x2 (folded), FITS ranges from an in-memory and from a lazy writer (header NAXIS1/NAXIS2 vs data, 2880 blocks, data bytes = model), read back and compared "
                "with (depth, ranges); + 100 (5000) space MOCs through NUNIQ FITS. distinct_nontrivial = distinct op lines with a non-empty MOC.",
        "explanation": "theorems: token-level ASCII round trip for every element list/order/dmax (incl. empty and unoccupied deepest level), big-endian and row pairing round trips, 2880 padding, NUNIQ code round trip; CHARACTER-level ASCII round trip (decimal printing / lexing); the whole FITS file byte for byte (blocks, declared counts = data written, header values and ranges read back: fits_file_blocks / _structure / _roundtrip, NUNIQ file); correspondence on real bytes for all formats and options, whole files compared through length + FNV-1a",
    },
    "C11": {
        "trusted_base": COMMON_TB + ["word-level model of the FITS v2 ST rows; the bit test `start & end & MSB == MSB` is modelled as `both >= 2^(w-1)` (equal on w-bit words)"],
        "assumptions": COMMON_ASSUME + [
            "theorem hypothesis ElemOk: every element has a non-empty time part and a non-empty space part and no space row has both bounds >= 2^(w-1) (true of every HEALPix index); the necessity of the non-empty space part is a proved counterexample",
            "the ST ASCII ('t.. s..') and JSON syntaxes are modelled at document level on top of the 1-D codec theorems (st_ascii_roundtrip, st_json_roundtrip: per-dimension token lists); lexing of the text, header cards and the FITS keywords are exercised on real bytes and tied to the model reader (st_ascii_dec); u64 indices only"],
        "rule": "three passes (time depth 2; depth 61 from 0; depth 61 just below the top of the time domain: indices above 2^53) of 400 (15000 thorough) ST-MOCs: empty (1 in 25), 1..many elements with multi-range time parts, one in five with a time range reaching the top of the time domain (2^62): FITS v2 written by the "
                "real writer — its (start,end) rows = model rows (st_fits_enc), real reader on those rows = model reader (st_fits_dec), decoded value = original with both depths, re-serialisation gives the "
                "same bytes; ASCII (fold 80) and JSON (fold 40) written and read back = original with both depths. distinct_nontrivial = distinct op lines with a non-empty MOC.",
        "explanation": "theorems: FITS v2 row encoding inverted exactly for every element list (split on flag alternation), row count, empty MOC, necessity of non-empty space parts; CHARACTER-level ST ASCII round trip; the whole ST FITS file (blocks, rows, elements read back); correspondence on real files (whole file through length + FNV-1a) + direct ASCII/JSON round trips",
    },
    "C12": {
        "trusted_base": COMMON_TB + ["the ASCII lexer model transliterates the nom combinators; serde_json and the FITS card readers are not modelled"],
        "assumptions": COMMON_ASSUME + [
            "totality is a theorem about the MODEL reader only (a total Lean function); for the real decoders (FITS, MOM, skymap, stream, JSON, ST variants, store loaders) it is exercised by mutation fuzzing with every panic reported (test level)",
            "allocation: header counts of 10^12 / 4*10^9 are tried in child processes limited to 3 GB of address space (an abort on allocation is a failure); smaller over-allocations are not measured",
            "multi-order-map and sky-map readers are driven from the two real files shipped under /repo/resources/Skymap (skipped with a counter if they are missing)"],
        "rule": "per {space,time,frequency} x {u16,u32,u64} x 60 MOCs (2500 thorough): 12 (40) single-field mutations of the valid ASCII document — first index outside / last inside the domain, range end "
                "outside, reversed range, inclusive end = type maximum, offset reaching the maximum, number not representable, truncation at a random offset, one character replaced, two documents glued "
                "(overlaps) — each decoded by the real reader and by the model (same verdict, depth and ranges); the same boundary numbers as JSON; 8 (30) mutated FITS files and 4 (10) mutated streaming "
                "documents (any panic is a failure); + 500 (20000) random token soups through the ASCII, JSON and FITS readers; + 60 (2000) mutations of each of six base files (range FITS u64 and u16, NUNIQ FITS, "
                "ST FITS v2, a 200-row multi-order map, a sky map): one header card set to a boundary value (NAXIS1/2, MOCORDER, MOCORD_*, TFORM1, ORDERING, MOCVERS, ...), one data word set to a boundary value "
                "(NUNIQ 0..3, codes beyond the deepest depth, all ones, sign bit), truncation, a card blanked or replaced by END, random header bytes — each through from_fits_ivoa (fully consumed), "
                "from_fits_multiordermap, from_fits_skymap and the three store loaders; giant header counts in child processes limited to 3 GB; 19 boundary text documents through the 7 text loaders of the "
                "store (what is accepted must be usable); since the bug hunt: 3 synthetic sky maps + 1 pre-v2 ST-MOC among the base documents (20 card keys), a non-ASCII byte in each string card probed in child processes, depth legality of what the FITS readers return, "
                "directed JSON (6 combos) and streaming-ASCII (9 combos) documents. distinct_nontrivial = distinct op lines.",
        "explanation": "theorems: accepted ASCII documents are valid (depth within maximum, every element inside the domain of its depth, pairwise non-overlapping, canonical result covering exactly the elements), no number leaves the index type, model reader total; mutation correspondence",
    },
    "C13": {
        "trusted_base": COMMON_TB + ["the `slab` crate (0.4) is modelled by transliteration (entries vector + free list), not verified; std::sync::RwLock is assumed to make every lock section atomic",
            "the library operation applied by op1/op2/opn is a parameter of the theorems (any function of the operands' values); the driver instantiates it with the proved operators of C01/C06"],
        "assumptions": COMMON_ASSUME + [
            "concurrency theorem: executions are sequences of lock sections (RwLock atomicity assumed); hypothesis SafeTrace = no section drops an operand of an operation that is between its read and its write section (the statement's 'shared read-only operands')",
            "the lock sections taken by each call are observed through the add-only hook (cargo feature verif_hooks of crate moc) and compared with the model's lockTrace; theorem lock_discipline: they never nest",
            "lock fairness / poisoning are runtime behaviour: exercised by 8 real threads under a watchdog (direct implementation checks conc-*), not proved",
            "space-time entries and the constructors from geometry are outside the modelled population (S-, T-, F-MOCs inserted as values)"],
        "rule": "ONE continuous sequential history on the process-wide store (6 000 calls quick / 80 000 thorough + 259-copy bursts + a final sweep of 80 indices): add, copy, drop, get, not, degrade, and, or, "
                "xor, minus, multi-and/or/xor (lists with a repeated index 1 out of 3) over S/T/F values, export + re-import (FITS through the generic loader or the loader of one kind — possibly not the MOC's —, ASCII and JSON through the loader of the MOC's kind: a new entry with the same value), read-only queries (eq, is_empty, min / max / number of ranges / sum), with dead or never-allocated indices (1 in 12), mismatched kinds, empty operand lists, drain phases (slot reuse order) — every answer "
                "(index handed out, value, error class, and the lock sections R+R-/W+W- the call took) compared with the model state kept from line to line; then 8 threads x 2.5 s (30 s thorough) of private histories on 4 shared read-only operands: "
                "every value checked against the library result, indices pairwise distinct while live, stall watchdog (10 s), store usable afterwards; 1 drop in 5 is a TYPED drop (kind of the MOC or another one). distinct_nontrivial = distinct op lines.",
        "explanation": "theorems: refinement of the slab store to a reference registry for every call and history, freshness of handed-out indices, value stability, count arithmetic, two-phase atomicity, interleavings = sequential order of completion sections; correspondence on a long history + threaded run",
    },
    "C17": {
        "trusted_base": COMMON_TB + ["space morphology: the Lean model is parametrised by an adjacency relation given as data; the harness sends the neighbour lists of cdshealpix::nested::neighbours (depths 0-2, with and without vertex neighbours) — the HEALPix geometry itself is trusted, not modelled",
            "an independent brute-force oracle in the harness (flat cell set + the same neighbour lists) double-checks the same operations and is the only check of fill_holes"],
        "assumptions": COMMON_ASSUME + [
            "HEALPix neighbour geometry (cdshealpix) is a parameter of the model; space MOCs are exercised at depths 0-2 (12 / 48 / 192 cells), where the flat cell set is small enough to compare; fill_holes is oracle-only (test level)",
            "tf_contracted = complement∘expanded∘complement is PROVED for every valid MOC (tf_contracted_dual, tf_contracted_sem); it is also evaluated on every generated case (op tf_con_def)"],
        "rule": "Time and Frequency x u16/u32/u64: EVERY MOC of the whole-domain universe at depth 2 (8 cells, 256 MOCs, both domain bounds reached) + samples at depth 3 and boundary-biased "
                "random MOCs at all depths: expanded, contracted, and the definition not(expanded(not M)) evaluated by the model; space (Hpx u64, depths 0-2: sparse, dense, blobs around "
                "base-cell corners and poles, empty, full): expanded, contracted, external/internal border, split with both connectivities (exact partition into connected components), "
                "fill_holes (superset adding whole components) against the oracle. distinct_nontrivial = distinct op lines with a non-empty MOC.",
        "explanation": "theorems: T/F expanded semantics + canonicity, T/F contracted per range, counterexample for the original formula; space: expansion / contraction / borders = their definitions and splitting = a correct partition (cover, closed, connected, separated) for every adjacency and every cell set; hole filling = the set plus the components of its complement other than the 1 + n largest; correspondence over the cdshealpix adjacency (u64, u32 and u16 MOCs)",
    },
    "C19": {
        "needs_bins": True,
        "trusted_base": COMMON_TB + ["the real `moc` binary is rebuilt from /repo and driven as a process; exit status, stderr and the decoded output file are what is observed",
            "outputs are compared in the common 64-bit index space (a w-bit index i stands for i << (64-w)), which is the identification the theorem cli_op2_width_independent uses"],
        "assumptions": COMMON_ASSUME + [
            "the hints of the two file streams inside the tool are reproduced in-process from the same files (source kind fits-stream); by cli_op2_sem the result does not depend on them as long as they are consistent",
            "`moc from pos`: the HEALPix hash of a position is computed by cdshealpix in the harness (oracle for the hash only); geometry sub-commands (cone, polygon, ...), filter, view, hprint, info are not driven",
            "space-time variants of op (inter / union / minus on two ST-MOC files, tfold, sfold with a u16/u32/u64 left operand): the decoded output is compared as a point set on a grid (every time-cell start, an interior instant of every cell, one position per space cell) with the point-wise semantics of the ST theorems (C08/C10: st_sem, tfold_sem, sfold_sem); ST files are u64 (the tool refuses other widths)",
            "clap's parsing of file names that resemble a sub-command (e.g. a relative `a.fits`) is outside the model; the harness passes absolute paths"],
        "rule": "for each quantity all 9 (left width, right width) pairs x 2 (24 thorough) random operand pairs (empty, full, shallow, deepest depth) x {inter, union, symdiff, minus} with a random output format "
                "(fits, ascii, json); per (quantity, width) 2 (24) MOCs through complement, degrade to a random depth and all 9 convert pairs {fits, ascii, json} x {fits, ascii, json} (folded / offset text inputs); "
                "a deterministic sweep text -> FITS at every depth around MAX_DEPTH of u16/u32 of each quantity (automatic narrowing); space-time ops in three passes (coarse time cells, 1-microsecond cells at 0 and at the top of the time domain) on random and RELATED ST operands; `from freqval` / `from freqrange` (hertz values as shortest round-trip decimals, depths around the frequency narrowing thresholds), `from timestamppos` / `from timerangepos` (microseconds + positions, judged point-wise on the ends of every observation and their neighbours); `from vcells` (ASCII multi-order map, all 16 option combinations, against the C20 model); NUNIQ (v1) left operand against a u32 right operand; `from timestamp` / `from timerange` (microseconds, depths 0..61, instants at both ends of the time domain, duplicates, touching ranges) "
                "and `from pos`; invalid inputs (missing file, S-MOC vs T-MOC, stream inputs, truncated / corrupted / random / text-as-FITS files, out-of-domain / overlapping / reversed / garbage ASCII, garbage "
                "lines and out-of-range depths for `from`, out-of-range degrade depth): non-zero exit status with a message and never exit 101. distinct_nontrivial = distinct op lines with a non-empty operand.",
        "explanation": "theorems: stream handed to the writer = set operation on the two inputs for any widths and consistent hints, width independence in the 64-bit index space, complement, degrade, re-exported codec and builder theorems; the date conversion of `from timestamp` counts days (every Gregorian date to the next = +1 Julian day, anchored) ; correspondence on the real binary, random civil dates included",
    },
    "C20": {
        "trusted_base": COMMON_TB + ["IEEE-754: arithmetic on the generated dyadic doubles (small integers times powers of 4) is exact, so the integer model and the f64 code coincide"],
        "assumptions": COMMON_ASSUME + [
            "the mass bracket is proved on the model (selection_mass_bracket, on selectWithMass whose cells are proved to be those of selectCells, the function the correspondence ties to the code) under the hypothesis NotSameCell; it is ALSO evaluated on the implementation's output with exact integer arithmetic by the harness, like the footprint inclusion",
            "the model follows the REPAIRED code: a target of 0 ends a descent (b3d1506), reverse_recursive_descent_rev recurses into itself (d3d6aa3)",
            "the harness judges the implementation's output with the EXACT bound of the property: the value enclosed differs from (to - from) by LESS than the sum of the pieces really cut by a threshold (none when the threshold lies on a (sub-)cell boundary)",
            "sky-map reader: 3 synthetic depth-1 maps (plain, one UNSEEN pixel, one NaN pixel) x skip in {0, 2} x 6 threshold pairs x 8 option combinations against the model on the kept pixels (thresholds shifted by the skipped value in ascending order only)"],
        "rule": "random multi-order maps of 0..4 disjoint cells over depths 0..2 with values in {0,1,2,3}(x4) scaled so that every /4 is exact; threshold pairs drawn from {0, total, every cumulative "
                "sum, inside the last cell before each sum, one unit / one finest piece below each sum, random}; all 16 combinations of {asc,desc} x {strict,non-strict} x {split,no-split} x "
                "{direct,reverse}; since the bug hunt the threshold pool also holds, in BOTH density orders, every quarter boundary and finest-piece boundary of every cell: exact correspondence of the selected ranges + mass bracket + footprint inclusion on the implementation output. distinct_nontrivial = distinct op lines with a non-empty map.",
        "explanation": "theorems: accumulation loops = maximal prefix, sub-cell loop = Euclidean division, descent total on dyadic values, enclosed value of the four descents, mass bracket of the whole selection (NotSameCell, necessity proved); correspondence + exact mass check",
    },
    "C14": {
        "needs_bins": True,
        "trusted_base": COMMON_TB + ["the real `mocset` binary is rebuilt from /repo and driven as a process; exit status, `list` stdout, file bytes and `extract` output are what is observed"],
        "assumptions": COMMON_ASSUME + ["two models: the abstract registry (ordered entries) and the FILE (metadata / index words, data bytes: Model/MocSetFile.lean), related by the proved abstraction map `abs`; the memory map / page cache / file system are not modelled (a store is visible at once)",
            "an unknown identifier in chgstatus is reported by a WARNING on stderr with exit status 0 (as the code does); `report failure` is read as that warning",
            "command-line domain (identifier <= 2^48 - 1, status in {removed, deprecated, valid}) is part of the model (msAppendCmd / msChgStatusCmd, theorem cmd_domain): such a command is refused and leaves the file unchanged"],
        "rule": "random command histories (make, then 3..10 of append / chgstatus / purge / update-while-locked) over a population of 8 identifiers, valid and deprecated (negative) ids, MOCs of "
                "shallow (<=13, 32-bit storage) and deep (64-bit) depths, empty MOCs, FITS inputs on 32 and 64 bits; one history out of 6 fills an n128=1 file completely (127 slots) and then "
                "appends / changes status. After EVERY command: exit status + all `list` rows against the model; refused commands must leave the file bytes unchanged; no lock left behind; at "
                "the end `extract` of every live id must equal the MOC added under it. distinct_nontrivial = distinct (history prefix) op lines with more than one command.",
        "explanation": "theorems on the reference state machine (refusal leaves state unchanged, append iff id not live and not full, uniqueness of live ids, purge, list, extract) and refinement of the FILE model (words and bytes) to it for every command and every history; correspondence with the real binary after every command: exit status, list rows, and the file itself word for word (op msf)",
    },
    "C15": {
        "needs_bins": True,
        "trusted_base": COMMON_TB + ["the real `mocset query` binary, driven as a process; region MOCs are given as ASCII files"],
        "assumptions": COMMON_ASSUME + ["position queries: the deepest-level index of the position is computed by cdshealpix in the harness (oracle for the hash only; positions are centres of depth-16 cells inside / at the edge of / outside stored ranges); cone queries (radii 0.05 .. 600 arcsec, precisions 0..3, both modes, sequential and parallel): the cone MOC is computed in the harness by the library's own from_cone at the documented depth (cdshealpix geometry = trusted oracle for the REGION only) and the selection is judged by the model",
            "`union` (moc region in both modes, identifier lists incl. unknown ids, positions) is driven at output depths below, equal to and above the stored depths"],
        "rule": "moc-sets of 3..6 MOCs stored at depths 11..16 around a common area (32- and 64-bit storage, valid and deprecated); query regions = 1 or 2 cells at depths 12..16 anchored on the "
                "start, the end, the middle and the last index of a stored range, shifted by -1/0/+1 cell (regions smaller than and strictly inside one depth-13 cell, touching only the first or "
                "last cell, just outside) x {intersect, included} x {with/without deprecated} x {sequential, -p 3}; ids compared as sorted sets with the specification msQuery; "
                "a directed set of two polar MOCs queried by position / union / cone at lat = +90 and -90 degrees. "
                "distinct_nontrivial = distinct op lines.",
        "explanation": "theorems: predicates = set semantics; degrading the region to the storage depth is exact for intersection and inclusion for every region; counterexample for the original flooring",
    },
    "C16": {
        "needs_bins": True,
        "bin_features": "moc-set/verif_hooks",
        "trusted_base": COMMON_TB + ["kill points: cargo feature verif_hooks of moc-set (std::process::abort at a named point); what survives a kill is what the OS page cache holds (MAP_SHARED stores visible at once, BufWriter content only after flush)"],
        "assumptions": COMMON_ASSUME + ["power loss / write-back ordering is out of scope", "only `kill` (abort) at a point is exercised, not `pause`: a reader started at the boundary sees the same file as after a kill there",
            "effect models: append (data / index / meta), chgstatus (one in-place status store per changed entry), purge (temporary file, rename, lock release); the byte-level content of the renamed file is not modelled (the listing / extract of the real file after the rename is checked on the binary)"],
        "rule": "every named point between two visible effects of append (6 points), chgstatus (1; with one identifier, and with two identifiers killed between the two stores) and purge (3) x repetitions with small and large (19 kB > BufWriter capacity) new MOCs, after a "
                "history make + chgstatus removed: the updater is aborted at the point, then: list / extract of every listed live id / query must succeed and return the right MOCs, the listing "
                "must be the one before or after the update, a second updater must be refused while the lock exists, and after removing the stale lock (+ tmp) a new append must succeed and every "
                "MOC be right; one deterministic reader-in-progress scenario (a query blocked on an undrained pipe while an append of the 16001st MOC completes). All of it is direct observation of the real binary (op line = point reached). distinct_nontrivial = distinct (update, point) pairs.",
        "explanation": "theorems on the effect-order model of append: every prefix of the repaired order is reader-consistent with listing before|after, WF preserved, the original order is inconsistent after the meta store; on the FILE model (words and bytes): a kill after k stores of append is read back as exactly the old or the new moc-set, chgstatus leaves every word old or new; the file left at each kill point compared word for word",
    },
    "C08": {
        "trusted_base": COMMON_TB + ["specification-level model (point-set semantics, validity predicates); the Rust 2-D state machines are not transliterated: agreement is established point by point on a grid of representative instants/positions over an 8 x 4 cell universe"],
        "assumptions": COMMON_ASSUME + ["operands have the shape the library's own builders produce (elements = consecutive blocks in time order, consecutive elements with different space MOCs)",
            "termination / absence of unreachable!() in the Rust union are OBSERVED (panic is an answer), not proved"],
        "rule": "three passes (time depth 2; depth 61 from 0; depth 61 just below the top of the time domain) of random valid ST-MOCs over 8 time cells x 4 space cells (depth 0) with 0..4 elements, independent or RELATED operands (identical time MOCs / minus first or last cell; space = same, superset, subset, incomparable, union of the two previous ones), multi-range time MOCs, equal / empty operands: the three forms of the union "
                "(or, into_or, iterator or) in both operand orders: point-set (85 grid points incl. every shared time boundary) against the specification, validSTB on every output, depths; since the bug hunt 8 directed pairs per pass "
                "(a depleted element must not be flushed twice, same end / different starts, operands of DIFFERENT time depths) and, for every element of every directed result, its ranges against the depth the ELEMENT announces (st_union_elem_aligned). "
                "distinct_nontrivial = distinct op lines with a non-empty operand.",
        "explanation": "theorems on the union specification and the validity predicate; point-wise correspondence of the real operator",
    },
    "C09": {
        "trusted_base": COMMON_TB + ["point-set specification + validity predicates, AND a transliteration of Ranges2D::make_consistent (Model/Consistent2D.lean: the HashSet of open entries is a duplicate-free list, the parallel reduce is a fold — both proved irrelevant to the result; ties of the unstable sort are irrelevant because segments are emitted only when the coordinate advances), validated by EXACT agreement of the entries with create_from_time_ranges_spatial_coverage on every generated list (op st_mkc); the streaming builders are not transliterated (they sit on the broken ST union): point-wise agreement on the grid"],
        "assumptions": COMMON_ASSUME + ["positions enter as space cells (the hash of a position is cdshealpix's)", "the store wrappers are thin and not driven separately"],
        "rule": "three passes (time depth 2; depth 61 from 0; depth 61 near the top of the time domain) of random observation lists (0..6 (time range, cell) observations over 8 x 4 cells; four construction paths incl. the range-2D result converted by time_space_iter: overlapping and touching time ranges, simultaneous observations at different positions, first observation "
                "not the earliest, duplicates) x buffer capacities {1,2,3,100}: both streaming builders and the range-2D path (create_from_time_ranges_spatial_coverage) against the specification on "
                "the grid; since the bug hunt 1 list in 3 holds an EMPTY time range (aligned on a cell boundary or, below depth 61, inside a cell), 1 in 3 an observation with an EMPTY coverage, and the (time range, cell) variant of the range-2D path and "
                "from_time_and_coos (microseconds + centre of the cell) are driven too; the exact entries are compared with Consistent2D.fromObservations on ALL the observations. distinct_nontrivial = distinct op lines with more than one observation.",
        "explanation": "theorems: specification = union of the products, order/duplicate independence, counterexample for the original make_consistent seed, and the transliterated make_consistent = union of the products + valid flat form for all entry lists; the transliterated buff_to_moc of the streaming builder = exactly the pushed pairs (canonical, order independent); point-wise correspondence of the real paths + exact entries of the range-2D path + exact elements of a single buffer",
    },
    "C10": {
        "trusted_base": COMMON_TB + ["point-set specification + validity predicates, AND a transliteration of Ranges2D::merge (Model/Merge2D.lean: the two cursors with parity are rendered as event lists carrying the state after each bound; the two output stacks zipped at the end as one stack of closed segments plus the open one): the rendering is validated by EXACT agreement of the entries with the real union / intersection / difference on every generated pair (op st_merge); the two folds are modelled at code level too"],
        "assumptions": COMMON_ASSUME + ["the CLI and store entry points are compositions of the functions driven here (driven under C13/C19), except the store lookup filter_timepos (positions in degrees), driven here on 1 ST-MOC in 8 incl. a latitude that does not exist"],
        "rule": "random valid flat ST-MOC pairs over 8 x 4 cells (equal, empty, random): union / intersection / difference of the Ranges2D algebra against the point-wise specification + validFlatB on "
                "every result; time fold and space fold against their specifications; lookups (flat `contains` and `RangeMOC2::contains_val`) at grid points incl. boundaries shared by consecutive "
                "time ranges. distinct_nontrivial = distinct op lines with a non-empty operand.",
        "explanation": "theorems: point-wise Boolean combinations, intersection product form, fold semantics (range reading = instant reading) and the folds as computed, half-open lookup, and the transliterated sweep Ranges2D::merge = point-wise operation + valid flat form for all well-formed operands; correspondence of the real code (grid + exact entries)",
    },
}


def _fields(ans):
    return ans.split("|")


def judge_prepare(prop, op, impl, model, collect):
    """Returns a function answers -> (bad, why). bad=True iff the implementation's answer violates the
    property on this input.  The model's answer is the proved-unique correct value for the *determined*
    fields (depth, ranges, Boolean/number answers); advisory fields (hints) are judged by the property
    predicate itself, evaluated by the Lean driver (`collect` registers judge op lines, evaluated in
    one batch; the returned closure reads its answers)."""
    name = op.split(" ")[0]
    const = lambda bad, why: (lambda answers: (bad, why))
    if impl.startswith("panic"):
        return const(True, "the implementation panicked on an input on which the (proved total) model answers " + model[:200])
    if name == "valid":
        return const(True, "the implementation produced a MOC that is not canonical / not inside the domain / not aligned on its declared depth (validB = false)")
    if name in ("st_valid", "st_validflat"):
        return const(True, "the space-time MOC returned by the implementation violates the validity conditions of the property (validSTB / validFlatB = false)")
    if name == "storelk":
        # answer = "<output> <lock sections>": the output is determined; the lock sections are judged by the
        # property's own predicate (Disciplined: sections never nest, everything acquired is released)
        oi, _, ti = impl.rpartition(" ")
        om, _, tm = model.rpartition(" ")
        if oi != om:
            return const(True, "the store answered differently from the reference registry (model answer proved correct)")
        held, ok = 0, True
        for k in range(0, len(ti), 2):
            ev = ti[k:k + 2]
            if ev in ("R+", "W+"):
                if held != 0: ok = False
                held += 1
            elif ev in ("R-", "W-"):
                if held != 1: ok = False
                held -= 1
            else:
                ok = False
        if not ok or held != 0:
            return const(True, f"lock sections {ti} of the call nest or are left open (Disciplined = false); the model's are {tm}")
        return const(False, f"lock sections {ti} differ from the model's {tm} but never nest and are all closed")
    if name in ("fits_file", "fits_nuniq_file", "st_fits_file", "msf", "msfk", "msfc", "fits_payload"):
        # byte-exact ties: the property does not fix every byte (a keyword comment, the order of two cards, the
        # value of MOCTOOL, a spare word of the moc-set header may change while every statement still holds).
        # A difference is a correspondence that no longer checks; whether the PROPERTY fails on this input is decided
        # by the reader-side ops and the direct checks of the same run (round trip, structure, listing, extract).
        return const(False, "the bytes / words written by the implementation differ from the model's file (correspondence broken); "
                            "the property itself is judged on this input by the round-trip / structure / listing checks of the same run")
    if name == "hintok":
        return const(True, "peek_last / size_hint advertised by the implementation are inconsistent with the ranges it then yields (hintOkB = false)")
    if name.startswith("l_"):
        fi, fm = _fields(impl), _fields(model)
        if len(fi) != 4 or len(fm) != 4:
            return const(True, "malformed answer")
        if fi[0] != fm[0]:
            return const(True, f"declared depth {fi[0]} differs from the specified depth {fm[0]}")
        if fi[1] != fm[1]:
            return const(True, "ranges differ from the unique canonical representation of the specified set")
        # only hints differ: evaluate the hint-consistency predicate on the implementation's own answer
        ids = collect([f"hintok {fi[1]} {fi[2]} {fi[3]}"])
        def fin(answers, ids=ids):
            if answers[ids[0]] == "false":
                return True, "advertised hints (peek_last / size_hint) are inconsistent with the ranges then yielded"
            return False, "hints differ from the model's but are consistent with the yielded ranges"
        return fin
    return const(True, "answer differs from the unique value determined by the property (model answer proved correct)")


def run_correspondence(prop, tier, seed, workdir, only, default):
    return default(prop, tier, seed, workdir, only)
