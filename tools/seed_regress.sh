#!/bin/bash
# Re-applies every stored seed to /repo (never committed), runs the quick check of its property, restores /repo.
cd /verif
out=.cache/seed_regress.log
: > $out
for d in seeded/*/; do
  S=$(basename $d)
  [ -f seeded/$S/patch.diff ] || { echo "== $S: no own patch (see meta.json)" >> $out; continue; }
  P=$(echo $S | sed 's/[bcdef]$//')
  if ! git -C /repo apply /verif/seeded/$S/patch.diff 2>>$out; then echo "== $S: PATCH DOES NOT APPLY" >> $out; git -C /repo checkout -- .; continue; fi
  log=$(./check $P --tier quick 2>&1)
  res=$(echo "$log" | grep -E "^VIOLATION" | head -1 | cut -c1-120)
  n=$(echo "$log" | grep -oE "[0-9]+ disagreements" | head -1)
  k=$(grep -c "^op:" /verif/$(echo "$res" | grep -oE "replays/[^ ]+") 2>/dev/null)
  echo "== $S: ${res:-MISSED} [$n; $k cases in the replay]" >> $out
  git -C /repo checkout -- .
done
echo DONE >> $out
