#!/bin/bash
# usage: seed_detect_any.sh <seed-id>...   (property = id without trailing b/c)
cd /verif
out=.cache/seed_detect_any.log
: > $out
for S in "$@"; do
  P=$(echo $S | sed 's/[bcdef]$//')
  if ! git -C /repo apply /verif/seeded/$S/patch.diff 2>>$out; then echo "== $S: PATCH DOES NOT APPLY" >> $out; git -C /repo checkout -- .; continue; fi
  echo "== $S applied: $(git -C /repo diff --stat | tail -1)" >> $out
  ./check $P --tier quick 2>&1 | grep -E "^VIOLATION|theorems" | cut -c1-220 >> $out
  git -C /repo checkout -- .
done
echo DONE >> $out
