#!/bin/bash
cd /verif
: > .cache/all_quick.log
for P in C01 C02 C03 C04 C05 C06 C07 C08 C09 C10 C11 C12 C13 C14 C15 C16 C17 C18 C19 C20; do
  ./check $P --tier quick > .cache/q_$P.log 2>&1; rc=$?
  echo "$P rc=$rc $(grep -c '^VIOLATION' .cache/q_$P.log) violations; $(tail -1 .cache/q_$P.log)" >> .cache/all_quick.log
done
echo DONE >> .cache/all_quick.log
