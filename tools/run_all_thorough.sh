#!/bin/bash
cd /verif
: > .cache/all_thorough.log
for P in C01 C02 C03 C04 C05 C06 C07 C08 C09 C10 C11 C12 C13 C14 C15 C16 C17 C18 C19 C20; do
  s=$(date +%s)
  ./check $P --tier thorough > .cache/t_$P.log 2>&1; rc=$?
  e=$(date +%s)
  echo "$P rc=$rc $(grep -c '^VIOLATION' .cache/t_$P.log) violations; $((e-s))s; $(tail -1 .cache/t_$P.log | cut -c1-160)" >> .cache/all_thorough.log
done
echo DONE >> .cache/all_thorough.log
