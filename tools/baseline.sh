#!/bin/bash
# Runs /repo's pinned baseline suite (guard OFF) the way BASELINE.json does and prints a summary.
# Expected on a healthy tree: 123 passed, 2 failed (the two always-fail tests listed in BASELINE.json:
# moc-set::integration::integration_test, moc::moc2d::range::op::tests::test_union_assocdata_vsx — emptied resource files).
cd /repo || exit 2
export CARGO_NET_OFFLINE=true
cargo nextest run --workspace --no-fail-fast --offline --test-threads 8 2>&1 | tail -15
