import MocVerif.Model.Basic
import MocVerif.Model.Params
import MocVerif.Model.Ranges
import MocVerif.Model.LazyOps
