import Driver.C01
import Driver.Expr
import Driver.C03
import Driver.C06
import Driver.C05
import Driver.C18
import Driver.C17
import Driver.C20
import Driver.MocSet
import Driver.ST
import Driver.Store
import Driver.Codec
import Driver.Cli

open Drv

def step (line : String) : String :=
  let toks := (line.trimAscii.toString.splitOn " ").filter (· ≠ "")
  match (stepC01 toks <|> stepExpr toks <|> stepC03 toks <|> stepC06 toks <|> stepC05 toks <|> stepC18 toks <|> stepC17 toks <|> stepC20 toks <|> stepMocSet toks <|> stepCrash toks <|> stepST toks <|> stepCodec toks <|> stepSTCodec toks <|> stepCli toks) with
  | some out => out
  | none => "bad-op"

partial def loop (hin : IO.FS.Stream) (hout : IO.FS.Stream) (st : Moc.Store.St) : IO Unit := do
  let line ← hin.getLine
  if line.isEmpty then return ()
  let toks := (line.trimAscii.toString.splitOn " ").filter (· ≠ "")
  match stepStore st toks with
  | some (st', out) =>
    hout.putStrLn out
    loop hin hout st'
  | none =>
    hout.putStrLn (step line)
    loop hin hout st

def main : IO Unit := do
  let hin ← IO.getStdin
  let hout ← IO.getStdout
  loop hin hout Moc.Store.St.init
  hout.flush
