import Driver.C01
import Driver.Expr
import Driver.C03
import Driver.C06
import Driver.C05
import Driver.C18
import Driver.C17
import Driver.C20
import Driver.MocSet
import Driver.ST
import Driver.Store
import Driver.Codec
import Driver.Cli
import Driver.Graph

open Drv

def step (line : String) : String :=
  let toks := (line.trimAscii.toString.splitOn " ").filter (· ≠ "")
  match (stepC01 toks <|> stepExpr toks <|> stepC03 toks <|> stepC06 toks <|> stepC05 toks <|> stepC18 toks <|> stepC17 toks <|> stepC20 toks <|> stepMocSet toks <|> stepMocSetFile toks <|> stepCrash toks <|> stepST toks <|> stepCodec toks <|> stepSTCodec toks <|> stepCli toks) with
  | some out => out
  | none => "bad-op"

structure DState where
  store : Moc.Store.St
  adj : AdjTable

partial def loop (hin : IO.FS.Stream) (hout : IO.FS.Stream) (st : DState) : IO Unit := do
  let line ← hin.getLine
  if line.isEmpty then return ()
  let toks := (line.trimAscii.toString.splitOn " ").filter (· ≠ "")
  match stepStore st.store toks with
  | some (s', out) =>
    hout.putStrLn out
    loop hin hout { st with store := s' }
  | none =>
    match stepGraph st.adj toks with
    | some (a', out) =>
      hout.putStrLn out
      loop hin hout { st with adj := a' }
    | none =>
      hout.putStrLn (step line)
      loop hin hout st

def main : IO Unit := do
  let hin ← IO.getStdin
  let hout ← IO.getStdout
  loop hin hout { store := Moc.Store.St.init, adj := [] }
  hout.flush
