import Driver.C01
import Driver.Expr
import Driver.C03
import Driver.C06
import Driver.C05
import Driver.C18
import Driver.C17
import Driver.C20
import Driver.MocSet
import Driver.ST

open Drv

def step (line : String) : String :=
  let toks := (line.trimAscii.toString.splitOn " ").filter (· ≠ "")
  match (stepC01 toks <|> stepExpr toks <|> stepC03 toks <|> stepC06 toks <|> stepC05 toks <|> stepC18 toks <|> stepC17 toks <|> stepC20 toks <|> stepMocSet toks <|> stepCrash toks <|> stepST toks) with
  | some out => out
  | none => "bad-op"

partial def loop (hin : IO.FS.Stream) (hout : IO.FS.Stream) : IO Unit := do
  let line ← hin.getLine
  if line.isEmpty then return ()
  hout.putStrLn (step line)
  loop hin hout

def main : IO Unit := do
  let hin ← IO.getStdin
  let hout ← IO.getStdout
  loop hin hout
  hout.flush
