import Driver.Common
import MocVerif.Model.Expr

namespace Drv
open Moc

/-- Prefix-notation parser: `L <src>` | `and e e` | `or e e` | `xor e e` | `minus e e` | `not e` | `deg <nd> e`.
    Fuel = number of tokens. -/
def parseExprAux : Nat → List String → Option (Expr × List String)
  | 0, _ => none
  | fuel + 1, toks =>
    match toks with
    | "L" :: s :: rest => do let s ← parseSrc s; pure (.leaf s, rest)
    | "not" :: rest => do let (a, rest) ← parseExprAux fuel rest; pure (.not a, rest)
    | "deg" :: nd :: rest => do
      let nd ← nd.toNat?; let (a, rest) ← parseExprAux fuel rest; pure (.degrade nd a, rest)
    | op :: rest =>
      if op == "and" || op == "or" || op == "xor" || op == "minus" then do
        let (a, rest) ← parseExprAux fuel rest
        let (b, rest) ← parseExprAux fuel rest
        let e := if op == "and" then Expr.and a b else if op == "or" then Expr.or a b
                 else if op == "xor" then Expr.xor a b else Expr.minus a b
        pure (e, rest)
      else none
    | [] => none

def parseExpr (toks : List String) : Option Expr :=
  match parseExprAux (toks.length + 1) toks with
  | some (e, []) => some e
  | _ => none

def stepExpr (toks : List String) : Option String :=
  match toks with
  | "expr_e" :: q :: w :: rest => do
    let q ← qtyOf q; let w ← w.toNat?; let e ← parseExpr rest
    let r := evalE q w e
    pure (showMoc r.1 r.2)
  | "expr_l" :: q :: w :: rest => do
    let q ← qtyOf q; let w ← w.toNat?; let e ← parseExpr rest
    let r := evalL q w e
    pure (showMoc r.depth r.items)
  -- C04: same model function, the implementation side goes through the FITS writer / reader
  | "expr_fits" :: q :: w :: rest => do
    let q ← qtyOf q; let w ← w.toNat?; let e ← parseExpr rest
    let r := evalL q w e
    pure (showMoc r.depth r.items)
  | ["l_check", s] => do let s ← parseSrc s; pure (showSrc (checkSrc s))
  | ["l_convert", q, w, w', s] => do
    let q ← qtyOf q; let w ← w.toNat?; let w' ← w'.toNat?; let s ← parseSrc s
    pure (showSrc (convertSrc (w' - w) (q.maxDepth w') s))
  | _ => none

end Drv
