import Driver.Common
import Driver.C06
import MocVerif.Model.Cells
import MocVerif.Model.UniqIter

namespace Drv
open Moc

def showCells (l : List Cell) : String :=
  if l.isEmpty then "_" else ",".intercalate (l.map fun c => s!"{c.1}/{c.2}")
def showCellRanges (l : List CellRange) : String :=
  if l.isEmpty then "_" else ",".intercalate (l.map fun c =>
    if c.2.1 + 1 = c.2.2 then s!"{c.1}/{c.2.1}" else s!"{c.1}/{c.2.1}-{c.2.2}")
def parseCellRanges (s : String) : Option (List CellRange) :=
  if s == "_" then some [] else (s.splitOn ",").mapM fun c =>
    match c.splitOn "/" with
    | [d, r] => do
      let d ← d.toNat?
      match r.splitOn "-" with
      | [i] => do let i ← i.toNat?; pure (d, i, i + 1)
      | [i, j] => do let i ← i.toNat?; let j ← j.toNat?; pure (d, i, j)
      | _ => none
    | _ => none

def stepC05 (toks : List String) : Option String :=
  match toks with
  | ["r_cells", q, w, d, l] => do
    let q ← qtyOf q; let w ← w.toNat?; let d ← d.toNat?; let l ← parseRngs l
    pure (showCells (cellsOf q w d l))
  | ["r_cellranges", q, w, d, l] => do
    let q ← qtyOf q; let w ← w.toNat?; let d ← d.toNat?; let l ← parseRngs l
    pure (showCellRanges (cellRangesOf (cellsOf q w d l)))
  | ["r_flat", q, w, d, l] => do
    let q ← qtyOf q; let w ← w.toNat?; let d ← d.toNat?; let l ← parseRngs l
    pure (showNats (flatCellsOf (q.shiftFromMax w d) l))
  | ["r_ofcells", q, w, cells] => do
    let q ← qtyOf q; let w ← w.toNat?; let cells ← parseCells cells
    pure (showRngs (rangesOfCells q w cells))
  | ["r_ofcellranges", q, w, crs] => do
    let q ← qtyOf q; let w ← w.toNat?; let crs ← parseCellRanges crs
    pure (showRngs (rangesOfCellRanges q w crs))
  | ["r_nuniq", w, d, l] => do
    let w ← w.toNat?; let d ← d.toNat?; let l ← parseRngs l
    pure (showNats (((cellsOf Params.hpx w d l).map fun c => uniqHpx c.1 c.2).mergeSort))
  | ["r_nuniq_it", w, _d, l] => do
    -- the transliterated iterator (`UniqIter.run`): the NUNIQ numbers it emits, sorted
    let w ← w.toNat?; let l ← parseRngs l
    let J := Params.hpx.maxDepth w
    pure (showNats ((UniqIter.uniqValues J (UniqIter.run 2 J l)).mergeSort))
  | ["u_hpx", d, i] => do let d ← d.toNat?; let i ← i.toNat?; pure (toString (uniqHpx d i))
  | ["u_fromhpx", u] => do let u ← u.toNat?; let c := fromUniqHpx u; pure s!"{c.1}/{c.2}"
  | ["r_depthidx", w, l] => do
    -- `iter_depth_pix`: the cells of the transliterated iterator as (depth, index), in emission order
    let w ← w.toNat?; let l ← parseRngs l
    let J := Params.hpx.maxDepth w
    pure (showCells (UniqIter.depthIdx 2 J (UniqIter.run 2 J l)))
  | ["u_tohpx", w, urs] => do
    let w ← w.toNat?; let urs ← parseRngs urs
    pure (showRngs (UniqIter.uniqToHpx w urs))
  | ["u_hpxrange", w, u] => do
    let w ← w.toNat?; let u ← u.toNat?
    pure (showRngs [rangeOfCell Params.hpx w (fromUniqHpx u)])
  | ["u_gen", q, d, i] => do let q ← qtyOf q; let d ← d.toNat?; let i ← i.toNat?; pure (toString (toUniqGen q d i))
  | ["u_fromgen", q, u] => do let q ← qtyOf q; let u ← u.toNat?; let c := fromUniqGen q u; pure s!"{c.1}/{c.2}"
  | ["u_genrange", q, w, u] => do
    let q ← qtyOf q; let w ← w.toNat?; let u ← u.toNat?; pure (showRngs [uniqGenToRange q w u])
  | ["u_z", q, w, d, i] => do
    let q ← qtyOf q; let w ← w.toNat?; let d ← d.toNat?; let i ← i.toNat?; pure (toString (toZuniq q w d i))
  | ["u_fromz", q, w, z] => do
    let q ← qtyOf q; let w ← w.toNat?; let z ← z.toNat?; let c := fromZuniq q w z; pure s!"{c.1}/{c.2}"
  | ["w_widen", k, x] => do let k ← k.toNat?; let x ← x.toNat?; pure (toString (widen k x))
  | ["w_narrow", k, x] => do let k ← k.toNat?; let x ← x.toNat?; pure (toString (narrow k x))
  -- round trips performed by the implementation must give back the input: the model is the identity
  | ["same", _tag, d, l] => do let d ← d.toNat?; let l ← parseRngs l; pure (showMoc d l)
  | _ => none

end Drv
