import MocVerif.Model.STCodec
import MocVerif.Model.STBuilder
import MocVerif.Model.Fits
import MocVerif.Model.STText
import Driver.Codec
import Driver.Common
import Driver.C06
import MocVerif.Model.ST
import MocVerif.Model.Merge2D
import MocVerif.Model.Consistent2D

namespace Drv
open Moc

/-- `tranges@sranges;...` or `_` -/
def parseST (s : String) : Option STMoc :=
  if s == "_" then some [] else (s.splitOn ";").mapM fun e =>
    match e.splitOn "@" with
    | [t, sp] => do let t ← parseRngs t; let sp ← parseRngs sp; pure (t, sp)
    | _ => none

/-- observations `t1-t2@s1-s2;...` -/
def parseObs (s : String) : Option (List (Rng × Rng)) :=
  if s == "_" then some [] else (s.splitOn ";").mapM fun e =>
    match e.splitOn "@" with
    | [t, sp] => do let t ← parseRng t; let sp ← parseRng sp; pure (t, sp)
    | _ => none

def bits (l : List Bool) : String := String.ofList (l.map fun b => if b then '1' else '0')

/-- Diagnostic only (which clause of `validSTB` fails first); the verdict is `validSTB`. -/
def whyInvalidST : STMoc → String
  | [] => "none"
  | e :: t =>
    if !canonB e.1 then "time-not-canonical"
    else if e.1.isEmpty then "time-empty"
    else if !canonB e.2 then "space-not-canonical"
    else if e.2.isEmpty then "space-empty"
    else if !(t.all fun f => decide (lastEnd e.1 ≤ firstInstant f)) then "elements-overlap-or-unordered-in-time"
    else whyInvalidST t

/-- Diagnostic only (which clause of `validFlatB` fails first). -/
def whyInvalidFlat : STMoc → String
  | [] => "none"
  | [e] =>
    (match e.1 with
     | [r] => if r.1 < r.2 then (if !canonB e.2 then "space-not-canonical" else if e.2.isEmpty then "space-empty" else "none")
              else "zero-length-time-range"
     | _ => "not-one-time-range")
  | e :: f :: t =>
    (match e.1, f.1 with
     | [r], [q] =>
       if !(r.1 < r.2) then "zero-length-time-range"
       else if !(r.2 ≤ q.1) then "time-ranges-overlap-or-unordered"
       else if r.2 = q.1 && e.2 == f.2 then "touching-ranges-with-identical-space-not-fused"
       else if !canonB e.2 then "space-not-canonical"
       else if e.2.isEmpty then "space-empty"
       else whyInvalidFlat (f :: t)
     | _, _ => "not-one-time-range")


/-- Flat form: every element has exactly one time range. -/
def toFlat : STMoc → Option FlatST
  | [] => some []
  | e :: t =>
    match e.1, toFlat t with
    | [r], some f => some ((r, e.2) :: f)
    | _, _ => none

def parseCellPair (o : String) : Option (Nat × Nat) :=
  match o.splitOn ":" with
  | [t, s] => do let t ← t.toNat?; let s ← s.toNat?; pure (t, s)
  | _ => none

def parseCellPairs (cells : String) : Option (List (Nat × Nat)) :=
  if cells == "_" then some [] else (cells.splitOn ",").mapM parseCellPair

def stepST (toks : List String) : Option String :=
  match toks with
  | ["st_sem", tt, a, b, tp, sp] => do
    let tt ← tt.toNat?; let a ← parseST a; let b ← parseST b; let tp ← parseNats tp; let sp ← parseNats sp
    pure (bits (tp.flatMap fun t => sp.map fun s => stPointOp tt a b t s))
  | ["st_valid", m] => do let m ← parseST m; pure (if validSTB m then "true" else "false:" ++ whyInvalidST m)
  | ["st_validflat", m] => do let m ← parseST m; pure (if validFlatB m then "true" else "false:" ++ whyInvalidFlat m)
  | ["st_tfold", tm, a, sp] => do
    let tm ← parseRngs tm; let a ← parseST a; let sp ← parseNats sp
    pure (bits (sp.map fun s => tfoldB tm a s))
  | ["st_sfold", sm, a, tp] => do
    let sm ← parseRngs sm; let a ← parseST a; let tp ← parseNats tp
    pure (bits (tp.map fun t => sfoldB sm a t))
  | ["st_merge", tt, a, b] => do
    let a ← parseST a; let b ← parseST b
    let op ← (match tt with | "14" => some Merge2D.Op.union | "8" => some Merge2D.Op.inter | "4" => some Merge2D.Op.diff | _ => none)
    match toFlat a, toFlat b with
    | some fa, some fb =>
      let r := Merge2D.merge2 op fa fb
      pure (if r.isEmpty then "_" else ";".intercalate (r.map fun e => s!"{showRng e.1}@{showRngs e.2}"))
    | _, _ => pure "not-flat"
  | ["st_fromobs", a] => do
    let a ← parseST a
    match toFlat a with
    | some fa =>
      let r := Consistent2D.fromObservations fa
      pure (if r.isEmpty then "_" else ";".intercalate (r.map fun e => s!"{showRng e.1}@{showRngs e.2}"))
    | none => pure "not-flat"
  | ["st_mkc", a] => do
    let a ← parseST a
    match toFlat a with
    | some fa =>
      let r := Consistent2D.makeConsistent fa
      pure (if r.isEmpty then "_" else ";".intercalate (r.map fun e => s!"{showRng e.1}@{showRngs e.2}"))
    | none => pure "not-flat"
  | ["st_regroup", a] => do
    let a ← parseST a
    match toFlat a with
    | some fa =>
      let r := Merge2D.regroup fa
      pure (if r.isEmpty then "_" else ";".intercalate (r.map fun e => s!"{showRngs e.1}@{showRngs e.2}"))
    | none => pure "not-flat"
  | ["st_tfold_r", tm, a] => do
    let tm ← parseRngs tm; let a ← parseST a
    match toFlat a with
    | some f => pure (showRngs (tfoldRanges tm f))
    | none => pure "not-flat"
  | ["st_sfold_r", sm, a] => do
    let sm ← parseRngs sm; let a ← parseST a
    match toFlat a with
    | some f => pure (showRngs (sfoldRanges sm f))
    | none => pure "not-flat"
  | ["st_contains", a, t, s] => do
    let a ← parseST a; let t ← t.toNat?; let s ← s.toNat?
    pure (showBool (memSTB t s a))
  | ["st_span", m] => do
    -- min_index_left | max_index_left (exclusive) | compute_n_ranges
    let m ← parseST m
    pure s!"{(minIndexLeft m).map toString |>.getD "_"}|{(maxIndexLeft m).map toString |>.getD "_"}|{nRangesST m}"
  | ["st_buff", cells] => do
    -- one buffer of (time cell, space cell) observations through the transliterated `buff_to_moc`
    let obs ← parseCellPairs cells
    let es := STBuilder.buffToElems obs
    pure (if es.isEmpty then "_" else ";".intercalate (es.map fun e => s!"{showNats e.1}@{showNats e.2}"))
  | ["st_obs", obs, tp, sp] => do
    let obs ← parseObs obs; let tp ← parseNats tp; let sp ← parseNats sp
    pure (bits (tp.flatMap fun t => sp.map fun s => obsB obs t s))
  | _ => none


def showElems (es : List STCodec.Elem) : String :=
  if es.isEmpty then "_" else ";".intercalate (es.map fun e => s!"{showRngs e.1}@{showRngs e.2}")

/-- C11: FITS v2 rows of an ST-MOC. -/
def stepSTCodec (toks : List String) : Option String :=
  match toks with
  | ["st_fits_enc", w, m] => do
    let w ← w.toNat?; let m ← parseST m
    pure (showRngs (STCodec.encodeST w m))
  | ["st_ascii_dec", w, hex] => do
    let w ← w.toNat?
    let text ← if hex == "_" then some [] else unhex hex.toList
    pure (match STText.decodeText w text with
      | .ok (d1, d2, es) => s!"{d1} {d2} {showElems es}"
      | .error _ => "err")
  | ["st_ascii_enc", w, d1, d2, m] => do
    let w ← w.toNat?; let d1 ← d1.toNat?; let d2 ← d2.toNat?; let m ← parseST m
    pure (hexOfString (STText.encodeTextST w d1 d2 m))
  | ["st_fits_file", w, d1, d2, m] => do
    -- the WHOLE ST FITS file: length and FNV-1a of the model's bytes
    let w ← w.toNat?; let d1 ← d1.toNat?; let d2 ← d2.toNat?; let m ← parseST m
    let bytes := Moc.Fits.stFile w d1 d2 (STCodec.encodeST w m)
    let h := bytes.foldl (fun h b => ((h ^^^ b) * 1099511628211) % 2 ^ 64) 14695981039346656037
    pure s!"{bytes.length}:{h}"
  | ["st_fits_dec", w, rows] => do
    let w ← w.toNat?; let rows ← parseRngs rows
    pure (showElems (STCodec.decodeST w rows))
  | _ => none

end Drv
