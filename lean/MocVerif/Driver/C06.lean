import Driver.Common
import MocVerif.Model.Builders

namespace Drv
open Moc

def parseNats (s : String) : Option (List Nat) :=
  if s == "_" then some [] else (s.splitOn ",").mapM (·.toNat?)

/-- `d/idx,d/idx,...` -/
def parseCells (s : String) : Option (List (Nat × Nat)) :=
  if s == "_" then some [] else (s.splitOn ",").mapM fun c =>
    match c.splitOn "/" with
    | [d, i] => do let d ← d.toNat?; let i ← i.toNat?; pure (d, i)
    | _ => none

/-- `d:ranges;d:ranges;...` or `_` -/
def parseMocs (s : String) : Option (List DMoc) :=
  if s == "_" then some [] else (s.splitOn ";").mapM fun m =>
    match m.splitOn ":" with
    | [d, rs] => do let d ← d.toNat?; let rs ← parseRngs rs; pure (d, rs)
    | _ => none

def stepC06 (toks : List String) : Option String :=
  match toks with
  | ["b_fd", q, w, d, cap, cells] => do
    let q ← qtyOf q; let w ← w.toNat?; let d ← d.toNat?; let cap ← cap.toNat?; let cells ← parseNats cells
    pure (showMoc d (fromFixedDepthCells (q.shiftFromMax w d) cap cells))
  | ["b_fdapp", q, w, d, cap, moc, cells] => do
    let q ← qtyOf q; let w ← w.toNat?; let d ← d.toNat?; let cap ← cap.toNat?
    let moc ← parseRngs moc; let cells ← parseNats cells
    pure (showMoc d (appendFixedDepthCells (q.shiftFromMax w d) cap moc cells))
  | ["b_rg", q, w, d, cap, rs] => do
    let q ← qtyOf q; let w ← w.toNat?; let d ← d.toNat?; let cap ← cap.toNat?; let rs ← parseRngs rs
    pure (showMoc d (fromMaxdepthRanges (q.shiftFromMax w d) cap rs))
  | ["b_cells", q, w, d, cap, cells] => do
    let q ← qtyOf q; let w ← w.toNat?; let d ← d.toNat?; let cap ← cap.toNat?; let cells ← parseCells cells
    let cells := cells.map fun c => (q.shiftFromMax w c.1, c.2)
    pure (showMoc d (fromCells (q.shiftFromMax w d) cap cells))
  | ["kway", op, mocs] => do
    let mocs ← parseMocs mocs
    let f ← if op == "or" then some opOr else if op == "and" then some opAnd else if op == "xor" then some opXor else none
    let r := kway f mocs
    pure (showMoc r.1 r.2)
  -- the specification side of the n-ary operators: the left fold of the binary operator
  | ["fold", op, mocs] => do
    let mocs ← parseMocs mocs
    let f ← if op == "or" then some opOr else if op == "and" then some opAnd else if op == "xor" then some opXor else none
    let r := match mocs with | [] => (0, []) | a :: t => t.foldl f a
    pure (showMoc r.1 r.2)
  | _ => none

end Drv
