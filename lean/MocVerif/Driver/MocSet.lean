import Driver.Common
import Driver.C06
import MocVerif.Model.MocSet
import MocVerif.Model.MocSetCrash
import MocVerif.Model.MocSetFile

namespace Drv
open Moc

/-- `id/status/depth/ranges` -/
def parseEntry (s : String) : Option MsEntry :=
  match s.splitOn "/" with
  | [id, st, d, rs] => do
    let id ← id.toNat?; let st ← st.toNat?; let d ← d.toNat?; let rs ← parseRngs rs
    pure { id := id, status := st, depth := d, ranges := rs }
  | _ => none

def parseEntries (s : String) : Option (List MsEntry) :=
  if s == "_" then some [] else (s.splitOn ";").mapM parseEntry

def statusName (s : Nat) : String := if s == 1 then "removed" else if s == 2 then "deprecated" else "valid"

def showRows (s : MocSet) : String :=
  let rows := msList s
  if rows.isEmpty then "_" else ";".intercalate (rows.map fun r =>
    s!"{r.1},{statusName r.2.1},{r.2.2.1},{r.2.2.2.1},{r.2.2.2.2}")

/-- Replays a whole history; returns `(state, last command succeeded)`; `none` = no file. -/
def msRun (n128 : Nat) (cmds : List String) : Option (MocSet × Bool) := do
  let mut st : Option MocSet := none
  let mut ok := true
  for c in cmds do
    match c.splitOn ":" with
    | ["mk", es] =>
      let es ← parseEntries es
      match msMake n128 es with
      | some s => st := some s; ok := true
      | none => ok := false
    | ["ap", e] =>
      let e ← parseEntry e
      let s ← st
      -- command-line domain: an identifier is stored on 48 bits (`check_id`); a larger one is refused before the
      -- model is consulted, the file is unchanged
      let r := msAppendCmd s e
      st := some r.1; ok := r.2
    | ["cs", ns, ids] =>
      let ns ← ns.toNat?
      let ids ← (ids.splitOn ",").mapM (·.toNat?)
      let s ← st
      -- `void` (0) is the end-of-list marker, not a status a MOC can be given: refused, file unchanged
      let r := msChgStatusCmd s ns ids
      st := some r.1; ok := r.2
    | ["pg", n] =>
      let s ← st
      let r := msPurge s (n.toNat?)
      st := some r.1; ok := r.2
    | _ => none
  let s ← st
  pure (s, ok)

def stepMocSet (toks : List String) : Option String :=
  match toks with
  | ["ms", n128, hist] => do
    let n128 ← n128.toNat?
    match msRun n128 (hist.splitOn "|") with
    | some (s, ok) => pure s!"{if ok then "ok" else "err"}#{showRows s}"
    | none => pure "err#nofile"
  | ["mq", es, inc, dep, region] => do
    let es ← parseEntries es; let region ← parseRngs region
    let ids := msQuery { n128 := 1, entries := es } region (inc == "1") (dep == "1")
    let ids := ids.mergeSort
    pure (showNats ids)
  | ["mqp", es, dep, idx] => do
    let es ← parseEntries es; let idx ← idx.toNat?
    let ids := (msQueryPos { n128 := 1, entries := es } idx (dep == "1")).mergeSort
    pure (showNats ids)
  | ["mu", es, inc, dep, region, depth] => do
    let es ← parseEntries es; let region ← parseRngs region; let depth ← depth.toNat?
    pure (showMoc depth (msUnionQuery { n128 := 1, entries := es } region (inc == "1") (dep == "1") (2 * (29 - depth))))
  | ["mup", es, dep, idx, depth] => do
    let es ← parseEntries es; let idx ← idx.toNat?; let depth ← depth.toNat?
    pure (showMoc depth (msUnionPos { n128 := 1, entries := es } idx (dep == "1") (2 * (29 - depth))))
  | ["mui", es, ids, depth] => do
    let es ← parseEntries es; let ids ← parseNats ids; let depth ← depth.toNat?
    pure (showMoc depth (msUnionIds { n128 := 1, entries := es } ids (2 * (29 - depth))))
  | _ => none

end Drv

namespace Drv
open Moc

/-- Named hook points ↦ number of visible effects of the (repaired) append already performed. -/
def appendPointPrefix (p : String) : Option Nat :=
  if p == "append.before_data_write" then some 0
  else if p == "append.after_data_write" then some 1
  else if p == "append.after_index_store" then some 2
  else if p == "append.after_meta_store" || p == "append.after_data_flush" || p == "append.after_msync" then some 3
  else none

def stepCrash (toks : List String) : Option String :=
  match toks with
  | ["crashpoint", kind, point] =>
    if kind == "append" then
      match appendPointPrefix point with
      | some k =>
        -- the model's verdict at that boundary, on a sample well-formed file
        let v : View := { fileLen := 2064, index := [2064], listed := 1 }
        some (if decide (Consistent (visible v ((appendEffs v 16).take k))) then "consistent" else "INCONSISTENT")
      | none => some "unknown-point"
    else if point == "chgstatus.after_meta_store" || point == "purge.before_tmp_flush" ||
            point == "purge.after_tmp_flush" || point == "purge.after_rename" then some "consistent"
    else some "unknown-point"
  | _ => none

end Drv

namespace Drv
open Moc Moc.MsFile

def trimZeros (l : List Nat) : List Nat := (l.reverse.dropWhile (· == 0)).reverse
/-- FNV-1a, 64 bits (only to compare long byte strings compactly). -/
def fnv (bs : List Nat) : Nat := bs.foldl (fun h b => ((h ^^^ b) * 1099511628211) % 2 ^ 64) 14695981039346656037
def showFile (f : File) : String :=
  s!"{f.n128};{showNats (trimZeros f.mwords)};{showNats (trimZeros f.index)};{f.data.length}:{fnv f.data}"

/-- Replays a whole history on the FILE model (header words and data bytes). -/
def msfRun (n128 : Nat) (cmds : List String) : Option (Option File) := do
  let mut st : Option File := none
  for c in cmds do
    match c.splitOn ":" with
    | ["mk", es] =>
      let es ← parseEntries es
      match fileMake n128 es with
      | some f => st := some f
      | none => pure ()
    | ["ap", e] =>
      let e ← parseEntry e
      match st with
      | some f => if e.id > idMask then pure () else st := some (fileAppend f e).1
      | none => pure ()
    | ["cs", ns, ids] =>
      let ns ← ns.toNat?
      let ids ← (ids.splitOn ",").mapM (·.toNat?)
      match st with
      | some f => if ns = 0 then pure () else st := some (fileChg f ns ids).1
      | none => pure ()
    | ["pg", n] =>
      match st with
      | some f => st := some (filePurge f (n.toNat?)).1
      | none => pure ()
    | _ => none
  pure st

def stepMocSetFile (toks : List String) : Option String :=
  match toks with
  | ["msf", n128, hist] => do
    let n128 ← n128.toNat?
    match msfRun n128 (hist.splitOn "|") with
    | some (some f) => pure (showFile f)
    | some none => pure "nofile"
    | none => none
  | ["msfc", n128, hist, st, ids, k] => do
    -- a `chgstatus st ids` killed after `k` of its stores, on the file the history gives
    let n128 ← n128.toNat?; let st ← st.toNat?; let k ← k.toNat?
    let ids ← (ids.splitOn ",").mapM (·.toNat?)
    match msfRun n128 (hist.splitOn "|") with
    | some (some f) => pure (showFile (fileChgPrefix f st ids k))
    | _ => none
  | ["msfk", n128, hist, point] => do
    -- an `append` (last command of the history) killed at a named point: the stores already performed
    let n128 ← n128.toNat?
    let cmds := hist.splitOn "|"
    let k ← appendPointPrefix point
    match cmds.getLast?, msfRun n128 cmds.dropLast with
    | some last, some (some f) =>
      match last.splitOn ":" with
      | ["ap", e] => do
        let e ← parseEntry e
        pure (showFile (fileAppendPrefix f e k))
      | _ => none
    | _, _ => none
  | _ => none

end Drv
