import Driver.Common
import MocVerif.Model.MocSet

namespace Drv
open Moc

/-- `id/status/depth/ranges` -/
def parseEntry (s : String) : Option MsEntry :=
  match s.splitOn "/" with
  | [id, st, d, rs] => do
    let id ← id.toNat?; let st ← st.toNat?; let d ← d.toNat?; let rs ← parseRngs rs
    pure { id := id, status := st, depth := d, ranges := rs }
  | _ => none

def parseEntries (s : String) : Option (List MsEntry) :=
  if s == "_" then some [] else (s.splitOn ";").mapM parseEntry

def statusName (s : Nat) : String := if s == 1 then "removed" else if s == 2 then "deprecated" else "valid"

def showRows (s : MocSet) : String :=
  let rows := msList s
  if rows.isEmpty then "_" else ";".intercalate (rows.map fun r =>
    s!"{r.1},{statusName r.2.1},{r.2.2.1},{r.2.2.2.1},{r.2.2.2.2}")

/-- Replays a whole history; returns `(state, last command succeeded)`; `none` = no file. -/
def msRun (n128 : Nat) (cmds : List String) : Option (MocSet × Bool) := do
  let mut st : Option MocSet := none
  let mut ok := true
  for c in cmds do
    match c.splitOn ":" with
    | ["mk", es] =>
      let es ← parseEntries es
      match msMake n128 es with
      | some s => st := some s; ok := true
      | none => ok := false
    | ["ap", e] =>
      let e ← parseEntry e
      let s ← st
      let r := msAppend s e
      st := some r.1; ok := r.2
    | ["cs", ns, ids] =>
      let ns ← ns.toNat?
      let ids ← (ids.splitOn ",").mapM (·.toNat?)
      let s ← st
      let r := msChgStatus s ns ids
      st := some r.1; ok := r.2
    | ["pg", n] =>
      let s ← st
      let r := msPurge s (n.toNat?)
      st := some r.1; ok := r.2
    | _ => none
  let s ← st
  pure (s, ok)

def stepMocSet (toks : List String) : Option String :=
  match toks with
  | ["ms", n128, hist] => do
    let n128 ← n128.toNat?
    match msRun n128 (hist.splitOn "|") with
    | some (s, ok) => pure s!"{if ok then "ok" else "err"}#{showRows s}"
    | none => pure "err#nofile"
  | ["mq", es, inc, dep, region] => do
    let es ← parseEntries es; let region ← parseRngs region
    let ids := msQuery { n128 := 1, entries := es } region (inc == "1") (dep == "1")
    let ids := ids.mergeSort
    pure (showNats ids)
  | _ => none

end Drv
