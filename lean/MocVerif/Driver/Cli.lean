/-
  Line protocol for the CLI model (C19). Answers are `depth|ranges` in the 64-bit index space.
-/
import Driver.Common
import MocVerif.Model.Calendar
import Driver.C06
import MocVerif.Model.Cli

namespace Drv
open Moc Moc.Cli

def parseOp2 (s : String) : Option Op2 :=
  if s == "inter" then some .inter else if s == "union" then some .union
  else if s == "symdiff" then some .symdiff else if s == "minus" then some .minus else none

def stepCli (toks : List String) : Option String :=
  match toks with
  | ["cli_op2", op, q, wl, sl, wr, sr] => do
    let op ← parseOp2 op; let q ← qtyOf q; let wl ← wl.toNat?; let wr ← wr.toNat?
    let l ← parseSrc sl; let r ← parseSrc sr
    let out := op2 q op wl l wr r
    pure (showMoc out.2.depth (to64 out.1 out.2.items))
  | ["cli_op1", name, q, w, s] => do
    let q ← qtyOf q; let w ← w.toNat?; let s ← parseSrc s
    if name == "complement" then
      let o := complementOp q w s
      pure (showMoc o.depth (to64 w o.items))
    else match name.splitOn ":" with
      | ["degrade", nd] => do
        let nd ← nd.toNat?
        let o := degradeOp q w nd s
        pure (showMoc o.depth (to64 w o.items))
      | _ => none
  | ["cli_id", _q, w, d, rs] => do
    let w ← w.toNat?; let d ← d.toNat?; let rs ← parseRngs rs
    pure (showMoc d (to64 w rs))
  | ["cli_from_usec", d, ts] => do
    let d ← d.toNat?; let ts ← parseNats ts
    pure (showMoc d (fromMicrosec 64 (Params.time.shiftFromMax 64 d) 100000 ts))
  | ["cli_from_iso", d, dates] => do
    -- civil dates `y-m-d-h-mi-s-us` through the model of the tool's date conversion, then the timestamp builder
    let d ← d.toNat?
    let ds ← (dates.splitOn ",").mapM fun t =>
      match t.splitOn "-" with
      | [y, m, dd, h, mi, s, us] => do
        let y ← y.toNat?; let m ← m.toNat?; let dd ← dd.toNat?; let h ← h.toNat?; let mi ← mi.toNat?
        let s ← s.toNat?; let us ← us.toNat?
        pure (Moc.Calendar.isoUsec y m dd h mi s us)
      | _ => none
    let ts := ds.filterMap id
    pure (showMoc d (fromMicrosec 64 (Params.time.shiftFromMax 64 d) 100000 ts))
  | ["cli_from_uranges", d, rs] => do
    let d ← d.toNat?; let rs ← parseRngs rs
    pure (showMoc d (fromMicrosecRanges 64 (Params.time.shiftFromMax 64 d) 100000 rs))
  | ["cli_from_cells", q, d, cs] => do
    let q ← qtyOf q; let d ← d.toNat?; let cs ← parseNats cs
    pure (showMoc d (fromFixedDepthCells (q.shiftFromMax 64 d) 100000 cs))
  | _ => none

end Drv
