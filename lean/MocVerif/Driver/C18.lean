import Driver.Common
import Driver.C06
import MocVerif.Model.Freq

namespace Drv
open Moc

def showOptNatR : Option Nat → String
  | none => "reject"
  | some n => toString n

def stepC18 (toks : List String) : Option String :=
  match toks with
  | ["f_hash", w, b] => do let w ← w.toNat?; let b ← b.toNat?; pure (showOptNatR (freq2hash w b))
  | ["f_unhash", w, h] => do let w ← w.toNat?; let h ← h.toNat?; pure (showOptNatR (hash2freq w h))
  | ["f_moc", w, d, cap, bs] => do
    let w ← w.toNat?; let d ← d.toNat?; let cap ← cap.toNat?; let bs ← parseNats bs
    pure (showMoc d (fromFreqBits w (Params.freq.shiftFromMax w d) cap bs))
  | ["f_mocr", w, d, cap, rs] => do
    let w ← w.toNat?; let d ← d.toNat?; let cap ← cap.toNat?; let rs ← parseRngs rs
    pure (showMoc d (fromFreqRangeBits w (Params.freq.shiftFromMax w d) cap rs))
  | ["f_tohz", l] => do
    let l ← parseRngs l
    let out ← l.mapM fun r => do let a ← hash2freq 64 r.1; let b ← hash2freq 64 r.2; pure (a, b)
    pure (showRngs out)
  | ["t_moc", w, d, cap, ts] => do
    let w ← w.toNat?; let d ← d.toNat?; let cap ← cap.toNat?; let ts ← parseNats ts
    pure (showMoc d (fromMicrosec w (Params.time.shiftFromMax w d) cap ts))
  | ["t_mocr", w, d, cap, rs] => do
    let w ← w.toNat?; let d ← d.toNat?; let cap ← cap.toNat?; let rs ← parseRngs rs
    pure (showMoc d (fromMicrosecRanges w (Params.time.shiftFromMax w d) cap rs))
  | _ => none

end Drv
