/-
  Line-protocol helpers for the native driver (import-free: core only).
-/
import MocVerif.Model.LazyOps
import MocVerif.Model.Params

namespace Drv
open Moc

def parseNat (s : String) : Option Nat := s.toNat?

def splitOnChar (s : String) (c : Char) : List String := s.splitOn (String.singleton c)

/-- `a-b` -/
def parseRng (s : String) : Option Rng :=
  match s.splitOn "-" with
  | [a, b] => do let x ← a.toNat?; let y ← b.toNat?; pure (x, y)
  | _ => none

/-- `_` (empty) or `a-b,c-d,...` -/
def parseRngs (s : String) : Option (List Rng) :=
  if s == "_" then some [] else (s.splitOn ",").mapM parseRng

def parseOptRng (s : String) : Option (Option Rng) :=
  if s == "-" then some none else (parseRng s).map some

def parseOptNat (s : String) : Option (Option Nat) :=
  if s == "-" then some none else s.toNat?.map some

/-- `lo/hi` with hi = `-` for None -/
def parseHint (s : String) : Option (Nat × Option Nat) :=
  match s.splitOn "/" with
  | [a, b] => do let x ← a.toNat?; let y ← parseOptNat b; pure (x, y)
  | _ => none

/-- `S:<depth>:<ranges>:<last>:<hint0>;<hint1>;<hint2>` -/
def parseSrc (s : String) : Option Src :=
  match s.splitOn ":" with
  | ["S", d, rs, last, hints] => do
    let d ← d.toNat?
    let rs ← parseRngs rs
    let last ← parseOptRng last
    let hs ← (hints.splitOn ";").mapM parseHint
    match hs with
    | [] => none
    | h0 :: later => pure { depth := d, items := rs, last := last, lo := h0.1, hi := h0.2, later := later }
  | _ => none

def showRng (r : Rng) : String := s!"{r.1}-{r.2}"
def showRngs (l : List Rng) : String :=
  if l.isEmpty then "_" else ",".intercalate (l.map showRng)
def showOptRng : Option Rng → String
  | none => "-"
  | some r => showRng r
def showOptNat : Option Nat → String
  | none => "-"
  | some n => toString n
def showMoc (d : Nat) (l : List Rng) : String := s!"{d}|{showRngs l}"
def showSrc (s : Src) : String :=
  s!"{s.depth}|{showRngs s.items}|{showOptRng s.last}|{s.lo}/{showOptNat s.hi}"
def showBool (b : Bool) : String := if b then "true" else "false"
def showNats (l : List Nat) : String := if l.isEmpty then "_" else ",".intercalate (l.map toString)

def qtyOf (s : String) : Option Qty :=
  if s == "hpx" then some Params.hpx
  else if s == "time" then some Params.time
  else if s == "freq" then some Params.freq
  else none

end Drv
