import Driver.Common
import MocVerif.Model.Morpho

namespace Drv
open Moc

def stepC17 (toks : List String) : Option String :=
  match toks with
  | ["tf_exp", q, w, d, l] => do
    let q ← qtyOf q; let w ← w.toNat?; let d ← d.toNat?; let l ← parseRngs l
    pure (showMoc d (tfExpanded (q.cellSize w d) (q.nCellsMax w) l))
  | ["tf_con", q, w, d, l] => do
    let q ← qtyOf q; let w ← w.toNat?; let d ← d.toNat?; let l ← parseRngs l
    pure (showMoc d (tfContracted (q.cellSize w d) (q.nCellsMax w) l))
  -- the property's definition of contraction, evaluated with the (proved) C01 operators
  | ["tf_con_def", q, w, d, l] => do
    let q ← qtyOf q; let w ← w.toNat?; let d ← d.toNat?; let l ← parseRngs l
    let ub := q.nCellsMax w
    pure (showMoc d (complement ub (tfExpanded (q.cellSize w d) ub (complement ub l))))
  | _ => none

end Drv
