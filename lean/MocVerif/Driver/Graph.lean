/-
  Line protocol for the space morphology over a given adjacency (C17). STATEFUL: `adj` lines store the
  neighbour lists of a (depth, connectivity) pair; later lines refer to them.
-/
import Driver.Common
import MocVerif.Model.FillHoles
import Driver.C06
import MocVerif.Model.Graph

namespace Drv
open Moc Moc.Graph

/-- (depth, with-vertices flag) ↦ adjacency; plus the allCells size per depth. -/
abbrev AdjTable := List ((Nat × Nat) × Adj)

def parseAdj (s : String) : Option Adj :=
  if s == "_" then some [] else (s.splitOn ";").mapM fun e =>
    match e.splitOn ":" with
    | [c, ns] => do let c ← c.toNat?; let ns ← parseNats ns; pure (c, ns)
    | _ => none

def showComps (cs : List (List Nat)) : String :=
  if cs.isEmpty then "_" else "|".intercalate (cs.map showNats)

def lookupAdj (t : AdjTable) (d v : Nat) : Option Adj := t.lookup (d, v)

def allCells (d : Nat) : List Nat := List.range (12 * 4 ^ d)

/-- Sort components by their first cell (each component is already sorted). -/
def insComp (c : List Nat) : List (List Nat) → List (List Nat)
  | [] => [c]
  | y :: t => if c.headD 0 ≤ y.headD 0 then c :: y :: t else y :: insComp c t
def sortComps (cs : List (List Nat)) : List (List Nat) := cs.foldr insComp []

def stepGraph (t : AdjTable) (toks : List String) : Option (AdjTable × String) :=
  match toks with
  | ["adj", d, v, a] => do
    let d ← d.toNat?; let v ← v.toNat?; let a ← parseAdj a
    pure (((d, v), a) :: t.filter (fun e => e.1 != (d, v)), "ok")
  | ["sp_exp", d, cells] => do
    let d ← d.toNat?; let s ← parseNats cells; let g ← lookupAdj t d 1
    pure (t, showNats (Graph.expanded g s))
  | ["sp_con", d, cells] => do
    let d ← d.toNat?; let s ← parseNats cells; let g ← lookupAdj t d 1
    pure (t, showNats (Graph.contracted g (allCells d) s))
  | ["sp_ext", d, cells] => do
    let d ← d.toNat?; let s ← parseNats cells; let g ← lookupAdj t d 1
    pure (t, showNats (extBorder g s))
  | ["sp_int", d, cells] => do
    let d ← d.toNat?; let s ← parseNats cells; let g ← lookupAdj t d 1
    pure (t, showNats (intBorder g (allCells d) s))
  | ["sp_fill", d, n, cells] => do
    -- `fill_holes(Some(n))`: components of the complement over the edge-or-vertex adjacency (v = 1)
    let d ← d.toNat?; let n ← n.toNat?; let s ← parseNats cells; let g ← lookupAdj t d 1
    if tieAtCut (holesSorted g (allCells d) (norm s)) (1 + n) then pure (t, "tie")
    else pure (t, showNats (fillHoles g (allCells d) (norm s) n))
  | ["sp_fillk", d, k, cells] => do
    -- `fill_holes_smaller_than(f)` with `f` strictly between k / n_cells and (k + 1) / n_cells
    let d ← d.toNat?; let k ← k.toNat?; let s ← parseNats cells; let g ← lookupAdj t d 1
    pure (t, showNats (fillHolesSmaller g (allCells d) (norm s) k))
  | ["sp_split", d, v, cells] => do
    let d ← d.toNat?; let v ← v.toNat?; let s ← parseNats cells; let g ← lookupAdj t d v
    pure (t, showComps (sortComps (splitAll g (norm s))))
  | _ => none

end Drv
