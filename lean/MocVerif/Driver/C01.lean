import Driver.Common

namespace Drv
open Moc

/-- Boolean function of `merge` from its 4-bit truth table `tt` (bit `2a+b` = `op a b`). -/
def opOfTT (tt : Nat) (a b : Bool) : Bool :=
  (tt >>> ((if a then 2 else 0) + (if b then 1 else 0))) % 2 == 1

/-- Ops of property C01 (and shared by later properties). Returns `none` if not an op of this family. -/
def stepC01 (toks : List String) : Option String :=
  match toks with
  -- plain range-set primitives (no quantity)
  | ["p_union", l, r] => do let l ← parseRngs l; let r ← parseRngs r; pure (showRngs (union l r))
  | ["p_inter", l, r] => do let l ← parseRngs l; let r ← parseRngs r; pure (showRngs (intersection l r))
  | ["p_diff", l, r] => do let l ← parseRngs l; let r ← parseRngs r; pure (showRngs (difference l r))
  | ["p_merge", tt, l, r] => do
    let tt ← tt.toNat?; let l ← parseRngs l; let r ← parseRngs r
    pure (showRngs (merge (opOfTT tt) l r))
  | ["p_compl", ub, l] => do let ub ← ub.toNat?; let l ← parseRngs l; pure (showRngs (complement ub l))
  | ["p_newfrom", l] => do let l ← parseRngs l; pure (showRngs (newFrom l))
  -- eager `RangeMOC` methods:  e_<op> q w dl L dr R
  | ["e_and", _q, _w, dl, l, dr, r] => do
    let dl ← dl.toNat?; let dr ← dr.toNat?; let l ← parseRngs l; let r ← parseRngs r
    pure (showMoc (max dl dr) (intersection l r))
  | ["e_or", _q, _w, dl, l, dr, r] => do
    let dl ← dl.toNat?; let dr ← dr.toNat?; let l ← parseRngs l; let r ← parseRngs r
    pure (showMoc (max dl dr) (union l r))
  | ["e_xor", _q, _w, dl, l, dr, r] => do
    let dl ← dl.toNat?; let dr ← dr.toNat?; let l ← parseRngs l; let r ← parseRngs r
    pure (showMoc (max dl dr) (xorLoop l r))
  | ["e_minus", _q, _w, dl, l, dr, r] => do
    let dl ← dl.toNat?; let dr ← dr.toNat?; let l ← parseRngs l; let r ← parseRngs r
    -- `RangeMOC::minus` = lazy `minus` over borrowed iterators (which advertise `peek_last`)
    let sl : Src := { depth := dl, items := l, last := l.getLast? }
    let sr : Src := { depth := dr, items := r, last := r.getLast? }
    pure (showMoc (max dl dr) (minusItems sl sr))
  | ["e_not", q, w, d, l] => do
    let q ← qtyOf q; let w ← w.toNat?; let d ← d.toNat?; let l ← parseRngs l
    pure (showMoc d (complement (q.nCellsMax w) l))
  | ["e_degrade", q, w, d, l, nd] => do
    let q ← qtyOf q; let w ← w.toNat?; let d ← d.toNat?; let l ← parseRngs l; let nd ← nd.toNat?
    pure (showMoc (min d nd) (degradedShift (q.shiftFromMax w nd) l))
  -- lazy operators over arbitrary sources
  | ["l_and", l, r] => do let l ← parseSrc l; let r ← parseSrc r; pure (showSrc (andSrc l r))
  | ["l_or", l, r] => do let l ← parseSrc l; let r ← parseSrc r; pure (showSrc (orSrc l r))
  | ["l_xor", l, r] => do let l ← parseSrc l; let r ← parseSrc r; pure (showSrc (xorSrc l r))
  | ["l_minus", l, r] => do let l ← parseSrc l; let r ← parseSrc r; pure (showSrc (minusSrc l r))
  | ["l_not", q, w, s] => do
    let q ← qtyOf q; let w ← w.toNat?; let s ← parseSrc s
    pure (showSrc (notSrc (q.nCellsMax w) s))
  | ["l_degrade", q, w, nd, s] => do
    let q ← qtyOf q; let w ← w.toNat?; let nd ← nd.toNat?; let s ← parseSrc s
    pure (showSrc (degradeSrc (q.shiftFromMax w nd) nd s))
  -- the property predicate itself (judge): is `rs` a valid MOC of (q, w, d)?
  | ["valid", q, w, d, l] => do
    let q ← qtyOf q; let w ← w.toNat?; let d ← d.toNat?; let l ← parseRngs l
    pure (showBool (validB q w d l))
  -- the ranges are unions of cells of depth `d` (alignment and domain only: canonicity is judged elsewhere)
  | ["st_union_elem_aligned", q, w, d, l] => do
    let q ← qtyOf q; let w ← w.toNat?; let d ← d.toNat?; let l ← parseRngs l
    pure (showBool (boundedByB (q.nCellsMax w) l && alignedB (q.cellSize w d) l))
  | ["aligned", q, w, d, l] => do
    let q ← qtyOf q; let w ← w.toNat?; let d ← d.toNat?; let l ← parseRngs l
    pure (showBool (boundedByB (q.nCellsMax w) l && alignedB (q.cellSize w d) l))
  | ["hintok", l, last, hint] => do
    let l ← parseRngs l; let last ← parseOptRng last; let h ← parseHint hint
    let s : Src := { depth := 0, items := l, last := last, lo := h.1, hi := h.2 }
    pure (showBool (s.hintOkB && s.lastExactB false))
  | ["hintok0", l, last, hint] => do
    let l ← parseRngs l; let last ← parseOptRng last; let h ← parseHint hint
    let s : Src := { depth := 0, items := l, last := last, lo := h.1, hi := h.2 }
    pure (showBool (s.hintOkB && s.lastExactB true))
  | ["canon", l] => do let l ← parseRngs l; pure (showBool (canonB l))
  | ["params", q, w] => do
    let q ← qtyOf q; let w ← w.toNat?
    pure s!"{q.name} dim={q.dim} nd0={q.nd0} maxDepth={q.maxDepth w} nCellsMax={q.nCellsMax w}"
  | _ => none

end Drv
