/-
  Line protocol for the store model (C13). STATEFUL: the driver keeps the model store from line to line
  (the real store is process-wide and cannot be reset).
-/
import Driver.Common
import MocVerif.Model.Store

namespace Drv
open Moc Moc.Store

def showErr : Err → String
  | .notFound => "err-notfound"
  | .full => "err-full"
  | .kind => "err-kind"
  | .other => "err-other"

def showOut : Out → String
  | .idx i => s!"idx {i}"
  | .unit => "ok"
  | .val v => s!"val {v.kind} {v.depth}|{showRngs v.rs}"
  | .err e => showErr e

def parseIdxList (s : String) : Option (List Nat) :=
  if s == "_" then some [] else (s.splitOn ",").mapM (·.toNat?)

def storeCall : List String → Option Call
  | ["add", k, d, rs] => do
    let k ← k.toNat?; let d ← d.toNat?; let rs ← parseRngs rs
    pure (.add { kind := k, depth := d, rs := rs })
  | ["copy", i] => do pure (.copy (← i.toNat?))
  | ["drop", i] => do pure (.drop (← i.toNat?))
  | ["get", i] => do pure (.get (← i.toNat?))
  | ["not", i] => do pure (.op1 libNot (← i.toNat?))
  | ["degrade", i, nd] => do pure (.op1 (libDegrade (← nd.toNat?)) (← i.toNat?))
  | ["and", i, j] => do pure (.op2 (libOp2 0) (← i.toNat?) (← j.toNat?))
  | ["or", i, j] => do pure (.op2 (libOp2 1) (← i.toNat?) (← j.toNat?))
  | ["xor", i, j] => do pure (.op2 (libOp2 2) (← i.toNat?) (← j.toNat?))
  | ["minus", i, j] => do pure (.op2 (libOp2 3) (← i.toNat?) (← j.toNat?))
  -- export + re-import (`to_fits_buff` / `to_ascii_str` / `to_json_str`, then the matching loader): a new entry
  -- holding the same value (C07 round trips); `reimpk k`: FITS export loaded with the loader of kind `k`
  | ["reimp", i] => do pure (.op1 (fun v => if v.kind ≥ 3 then .error .other else .ok v) (← i.toNat?))
  | ["reimpk", k, i] => do
    let k ← k.toNat?
    pure (.op1 (fun v => if v.kind = k then .ok v else .error .other) (← i.toNat?))
  | ["mand", is] => do pure (.opn (libOpN 0) (← parseIdxList is))
  | ["mor", is] => do pure (.opn (libOpN 1) (← parseIdxList is))
  | ["mxor", is] => do pure (.opn (libOpN 2) (← parseIdxList is))
  | _ => none

def showLock : LockEv → String
  | .rAcq => "R+" | .rRel => "R-" | .wAcq => "W+" | .wRel => "W-"

/-- `store <call…>`; returns the new state and the answer.
    `storelk <call…>`: same, followed by the lock sections of the call (`R+R-W+W-`). -/
def stepStore (st : St) (toks : List String) : Option (St × String) :=
  match toks with
  | ["store", "reset"] => some (St.init, "ok")
  -- read-only queries derived from the registry lookup (one read section each)
  | [pfx, "eq", i, j] =>
    if pfx == "store" || pfx == "storelk" then
      match i.toNat?, j.toNat? with
      | some i, some j =>
        let ans := match valueAt st i, valueAt st j with
          | some a, some b => if a == b then "true" else "false"
          | _, _ => "err-notfound"
        some (st, if pfx == "storelk" then ans ++ " R+R-" else ans)
      | _, _ => none
    else none
  | [pfx, "q1", what, i] =>
    -- first_index / last_index (exclusive end of the last range) / number of ranges / sum of the range lengths
    if pfx == "store" || pfx == "storelk" then
      match i.toNat? with
      | some i =>
        let ans := match valueAt st i with
          | some a =>
            if what == "min" then (match a.rs.head? with | some r => toString r.1 | none => "none")
            else if what == "max" then (match a.rs.getLast? with | some r => toString r.2 | none => "none")
            else if what == "nranges" then toString a.rs.length
            else toString ((a.rs.map fun r => r.2 - r.1).sum)
          | none => "err-notfound"
        some (st, if pfx == "storelk" then ans ++ " R+R-" else ans)
      | none => none
    else none
  | [pfx, "isempty", i] =>
    if pfx == "store" || pfx == "storelk" then
      match i.toNat? with
      | some i =>
        let ans := match valueAt st i with
          | some a => if a.rs.isEmpty then "true" else "false"
          | none => "err-notfound"
        some (st, if pfx == "storelk" then ans ++ " R+R-" else ans)
      | none => none
    else none
  -- typed drop (`drop_smoc/tmoc/fmoc/stmoc`): the kind is checked first, under the same write section; a mismatch is
  -- an error WITHOUT effect, otherwise it is `drop` (glue: guard + the modelled call)
  | [pfx, "dropk", k, i] =>
    if pfx == "store" || pfx == "storelk" then
      let lk := if pfx == "storelk" then " W+W-" else ""      -- one write section, whatever the outcome
      match k.toNat?, i.toNat? with
      | some k, some i =>
        let r := dropKind st k i
        some (r.1, showOut r.2 ++ lk)
      | _, _ => none
    else none
  | "store" :: rest =>
    match storeCall rest with
    | some c => let r := step st c; some (r.1, showOut r.2)
    | none => none
  | "storelk" :: rest =>
    match storeCall rest with
    | some c =>
      let r := step st c
      some (r.1, showOut r.2 ++ " " ++ String.join ((lockTrace st c).map showLock))
    | none => none
  | _ => none

end Drv
