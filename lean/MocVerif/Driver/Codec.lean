/-
  Line protocol for the codec model (C07, C12).
-/
import Driver.Common
import MocVerif.Model.Fits
import MocVerif.Model.Codec

namespace Drv
open Moc Moc.Codec

def hexVal (c : Char) : Option Nat :=
  if '0' ≤ c && c ≤ '9' then some (c.toNat - '0'.toNat)
  else if 'a' ≤ c && c ≤ 'f' then some (c.toNat - 'a'.toNat + 10)
  else none

def unhex : List Char → Option (List Char)
  | [] => some []
  | a :: b :: t => do
    let x ← hexVal a; let y ← hexVal b; let r ← unhex t
    pure (Char.ofNat (x * 16 + y) :: r)
  | _ => none

def hexDigit (n : Nat) : Char := if n < 10 then Char.ofNat (48 + n) else Char.ofNat (87 + n)
def hexByte (b : Nat) : String := String.ofList [hexDigit (b / 16), hexDigit (b % 16)]
def hexOfString (s : String) : String := String.join (s.toUTF8.toList.map fun b => hexByte b.toNat)

def showDec : Except CErr (Nat × List Rng) → String
  | .ok (d, rs) => s!"ok {d}|{showRngs rs}"
  | .error _ => "err"

def stepCodec (toks : List String) : Option String :=
  match toks with
  | ["ascii_dec", q, w, hex] => do
    let q ← qtyOf q; let w ← w.toNat?
    let text ← if hex == "_" then some [] else unhex hex.toList
    pure (showDec (decodeAscii q w text))
  | ["ascii_enc", q, w, d, rs] => do
    let q ← qtyOf q; let w ← w.toNat?; let d ← d.toNat?; let rs ← parseRngs rs
    pure (hexOfString (encodeText d (itemsOf q w d rs)))
  | ["json_enc", q, w, d, rs] => do
    -- the JSON document reduced to its token stream (cells only), in the ASCII token syntax
    let q ← qtyOf q; let w ← w.toNat?; let d ← d.toNat?; let rs ← parseRngs rs
    pure (hexOfString (encodeText d (cellItemsOf q w d rs)))
  | ["fits_file", q, w, d, rs] => do
    -- the WHOLE file (two header blocks, data unit, padding): length and FNV-1a of the model's bytes
    let q ← qtyOf q; let w ← w.toNat?; let d ← d.toNat?; let rs ← parseRngs rs
    let bytes := Moc.Fits.rangeFile q w d rs
    let h := bytes.foldl (fun h b => ((h ^^^ b) * 1099511628211) % 2 ^ 64) 14695981039346656037
    pure s!"{bytes.length}:{h}"
  | ["fits_file_id", q, w, d, idhex, ty, rs] => do
    -- the whole file written with a MOC id (hex of its characters, `_` = none) and a MOC type (`_` = none)
    let q ← qtyOf q; let w ← w.toNat?; let d ← d.toNat?; let rs ← parseRngs rs
    let id ← if idhex == "_" then some none else (unhex idhex.toList).map some
    let tyo := if ty == "_" then none else some ty.toList
    let bytes := Moc.Fits.rangeFileWith q w d id tyo rs
    let h := bytes.foldl (fun h b => ((h ^^^ b) * 1099511628211) % 2 ^ 64) 14695981039346656037
    pure s!"{bytes.length}:{h}"
  | ["fits_nuniq_file", w, d, rs] => do
    -- the WHOLE NUNIQ file of the S-MOC: the NUNIQ numbers of the normal-form cells, ascending
    let w ← w.toNat?; let d ← d.toNat?; let rs ← parseRngs rs
    let uniqs := ((cellsOf Params.hpx w d rs).map fun c => uniqHpx c.1 c.2).mergeSort
    let bytes := Moc.Fits.nuniqFile w d uniqs
    let h := bytes.foldl (fun h b => ((h ^^^ b) * 1099511628211) % 2 ^ 64) 14695981039346656037
    pure s!"{bytes.length}:{h}"
  | ["fits_payload", w, rs] => do
    let w ← w.toNat?; let rs ← parseRngs rs
    let bytes := (encodeWords rs).flatMap (toBE (w / 8))
    pure s!"{String.join (bytes.map hexByte)}|{bytes.length + padding bytes.length}"
  | _ => none

end Drv
