import Driver.Common
import MocVerif.Model.Valued

namespace Drv
open Moc

/-- `d/idx/val/dens,...` -/
def parseVCells (s : String) : Option (List VCell) :=
  if s == "_" then some [] else (s.splitOn ",").mapM fun c =>
    match c.splitOn "/" with
    | [d, i, v, k] => do
      let d ← d.toNat?; let i ← i.toNat?; let v ← v.toNat?; let k ← k.toNat?
      pure { depth := d, idx := i, val := v, dens := k }
    | _ => none

def stepC20 (toks : List String) : Option String :=
  match toks with
  | ["vsel", md, cells, f, t, asc, strict, nosplit, rev] => do
    let md ← md.toNat?; let cells ← parseVCells cells; let f ← f.toNat?; let t ← t.toNat?
    let b (s : String) : Bool := s == "1"
    match selectMoc md cells f t (b asc) (b strict) (b nosplit) (b rev) with
    | some r => pure (showRngs r)
    | none => pure "fault"
  | _ => none

end Drv
