import Driver.Common
import MocVerif.Model.Query

namespace Drv
open Moc

/-- `num as f64 / den as f64`, as the bit pattern (exact conversions: both < 2^53). -/
def ratioBits (p : Nat × Nat) : String := toString ((Float.ofNat p.1) / (Float.ofNat p.2)).toBits.toNat

def stepC03 (toks : List String) : Option String :=
  match toks with
  | ["q_cv", l, x] => do let l ← parseRngs l; let x ← x.toNat?; pure (showBool (containsVal l x))
  | ["q_cr", l, x] => do let l ← parseRngs l; let x ← parseRng x; pure (showBool (containsRange l x))
  | ["q_ir", l, x] => do let l ← parseRngs l; let x ← parseRng x; pure (showBool (intersectsRange l x))
  | ["q_int", l, r] => do let l ← parseRngs l; let r ← parseRngs r; pure (showBool (intersects l r))
  | ["q_sub", l, r] => do let l ← parseRngs l; let r ← parseRngs r; pure (showBool (containsAll l r))
  | ["q_mindepth", q, w, l] => do
    let q ← qtyOf q; let w ← w.toNat?; let l ← parseRngs l
    pure (toString (computeMinDepth q w l))
  | ["q_fl", l] => do
    -- first index | exclusive last index | same ranges under another declared depth: equal | a MOC and its complement: never equal
    let l ← parseRngs l
    pure s!"{(firstIndex l).map toString |>.getD "_"}|{(lastIndex l).map toString |>.getD "_"}|true|false"
  | ["q_sum", l] => do let l ← parseRngs l; pure (toString (rangeSum l))
  | ["q_ndmc", q, w, d, l] => do
    let q ← qtyOf q; let w ← w.toNat?; let d ← d.toNat?; let l ← parseRngs l
    pure (toString (nDepthMaxCells (q.shiftFromMax w d) l))
  | ["q_cdmv", q, w, d, l, x] => do
    let q ← qtyOf q; let w ← w.toNat?; let d ← d.toNat?; let l ← parseRngs l; let x ← x.toNat?
    pure (showBool (containsVal l (x <<< q.shiftFromMax w d)))
  | ["q_frac", l, x] => do let l ← parseRngs l; let x ← parseRng x; pure (ratioBits (rangeFractionPair l x))
  | ["q_cc", q, w, l, d, i] => do
    let q ← qtyOf q; let w ← w.toNat?; let l ← parseRngs l; let d ← d.toNat?; let i ← i.toNat?
    pure (showBool (containsRange l (cellRange (q.shiftFromMax w d) i)))
  | ["q_cellfrac", q, w, l, d, i] => do
    let q ← qtyOf q; let w ← w.toNat?; let l ← parseRngs l; let d ← d.toNat?; let i ← i.toNat?
    pure (ratioBits (rangeFractionPair l (cellRange (q.shiftFromMax w d) i)))
  | ["q_cov", q, w, l] => do
    let q ← qtyOf q; let w ← w.toNat?; let l ← parseRngs l
    pure (ratioBits (coveragePair w (q.nCellsMax w) l))
  | ["q_ovl", l, r] => do let l ← parseRngs l; let r ← parseRngs r; pure (showRngs (overlappedBy l r))
  -- multi-order map: tokens `depth/idx/value` (value: small integer); sum of value * cell_fraction
  | "q_mom" :: q :: w :: l :: cells => do
    let q ← qtyOf q; let w ← w.toNat?; let l ← parseRngs l
    let vals ← cells.mapM fun c =>
      match c.splitOn "/" with
      | [d, i, v] => do let d ← d.toNat?; let i ← i.toNat?; let v ← v.toNat?; pure (d, i, v)
      | _ => none
    let sum := vals.foldl (fun (acc : Float) (d, i, v) =>
      let p := rangeFractionPair l (cellRange (q.shiftFromMax w d) i)
      acc + (Float.ofNat v) * ((Float.ofNat p.1) / (Float.ofNat p.2))) 0.0
    pure (toString sum.toBits.toNat)
  | _ => none

end Drv
