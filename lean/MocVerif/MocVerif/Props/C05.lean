/-
  C05 — changes of representation are lossless and yield the unique normal form.

  Proved: the numbering schemes (NUNIQ, z-order uniq) are bijections with the documented order for
  ALL depths and indices; width widening/narrowing is lossless; each greedy step of the cell view
  returns a legal, aligned cell covering exactly the head of the range.
  Partial (correspondence only): the whole-list statements (cell view covers the set, is the normal
  form, cell ranges, flat cells, NUNIQ range iterators) — see DESIGN.md §10.
-/
import MocVerif.Lemmas.Cells
import MocVerif.Lemmas.CellView
import MocVerif.Model.Params
import MocVerif.Lemmas.CellRanges

import MocVerif.Lemmas.CellMax
import MocVerif.Lemmas.UniqIter
import MocVerif.Lemmas.MaxUnique
namespace Moc.C05

/-- NUNIQ: `from_uniq_hpx ∘ uniq_hpx = id` for every depth (not only "depths < 8") and index. -/
theorem nuniq_decode_encode (d i : Nat) (hi : i < 12 * 4 ^ d) : fromUniqHpx (uniqHpx d i) = (d, i) :=
  fromUniqHpx_uniqHpx d i hi

/-- NUNIQ: `uniq_hpx ∘ from_uniq_hpx = id` on every code `u ≥ 4`. -/
theorem nuniq_encode_decode (u : Nat) (hu : 4 ≤ u) : uniqHpx (fromUniqHpx u).1 (fromUniqHpx u).2 = u :=
  uniqHpx_fromUniqHpx u hu

/-- NUNIQ natural order is (depth, idx) lexicographic. -/
theorem nuniq_order (d d' i i' : Nat) (hi : i < 12 * 4 ^ d) :
    (d < d' → uniqHpx d i < uniqHpx d' i') ∧ (i < i' → uniqHpx d i < uniqHpx d i') :=
  ⟨uniqHpx_lt_of_depth_lt d d' i i' hi, uniqHpx_lt_of_idx_lt d i i'⟩

/-- z-order uniq: `from_zuniq ∘ to_zuniq = id` for every quantity, width, legal depth and index. -/
theorem zuniq_decode_encode (q : Qty) (w d i : Nat) (hdim : 0 < q.dim) (hd : d ≤ q.maxDepth w)
    (hw : q.shiftFromMax w d < w) : fromZuniq q w (toZuniq q w d i) = (d, i) :=
  fromZuniq_toZuniq q w d i hdim hd hw

/-- Widening an index to a larger type and narrowing it back is the identity. -/
theorem width_roundtrip (k x : Nat) : narrow k (widen k x) = x := narrow_widen k x

/-- Widening preserves order, hence membership of scaled indices in scaled ranges. -/
theorem widen_mono (k x y : Nat) : x < y ↔ widen k x < widen k y := by
  unfold widen
  constructor
  · exact shl_lt_shl k x y
  · intro h
    apply Classical.byContradiction
    intro hn
    have := shl_le_shl k y x (by omega)
    omega

/-- Cell view, one step (`MocRange::next`): the cell returned has a legal depth and its range is
    exactly `[s, s')` with `s < s' ≤ e` — so the view makes progress, never leaves the range and
    every cell is aligned on its own depth. -/
theorem cell_step (q : Qty) (hq : q.dim = 1 ∨ q.dim = 2) (w s e : Nat) (hse : s < e) :
    let r := nextCell q w s e
    s < r.2 ∧ r.2 ≤ e ∧ r.1.1 ≤ q.maxDepth w ∧ rangeOfCell q w r.1 = (s, r.2) :=
  nextCell_spec q hq w s e hse

/-- `Valid` gives the alignment hypothesis of the cell-view theorems. -/
theorem aligned_of_valid (q : Qty) (w d : Nat) (l : List Rng) (h : Valid q w d l) :
    Aligned (2 ^ q.shiftFromMax w d) l := by
  have := h.2.2
  unfold Qty.cellSize at this
  simpa [Nat.shiftLeft_eq] using this

/-- **Cell view of a whole MOC is lossless**: for every valid MOC (any quantity of dimension 1 or 2,
    any index width, any depth ≤ MAX_DEPTH) converting the ranges to hierarchical cells
    (`CellMOCIteratorFromRanges`) and reading the cells back (`RangeMOCIteratorFromCells`) returns
    exactly the original ranges. -/
theorem cells_roundtrip (q : Qty) (hq : q.dim = 1 ∨ q.dim = 2) (w d : Nat) (hd : d ≤ q.maxDepth w)
    (l : List Rng) (h : Valid q w d l) : rangesOfCells q w (cellsOf q w d l) = l :=
  rangesOfCells_cellsOf q hq w d hd l h.1 (aligned_of_valid q w d l h)

/-- The cells cover exactly the MOC (no index lost, none added). -/
theorem cells_cover (q : Qty) (hq : q.dim = 1 ∨ q.dim = 2) (w d : Nat) (hd : d ≤ q.maxDepth w)
    (l : List Rng) (h : Valid q w d l) (x : Nat) :
    mem x ((cellsOf q w d l).map (rangeOfCell q w)) ↔ mem x l := by
  have hc : ∀ lo (t : List Rng), CanonFrom lo t → ∀ r ∈ t, r.1 ≤ r.2 := by
    intro lo t
    induction t generalizing lo with
    | nil => intro _ r hr; cases hr
    | cons a t ih =>
      intro hct r hr
      cases hr with
      | head => exact Nat.le_of_lt hct.2.1
      | tail _ hm => exact ih _ hct.2.2 r hm
  exact cellsOf_cover q hq w d hd l (hc 0 l h.1) (aligned_of_valid q w d l h) x


/-- The hierarchical cell list is a **normal form determined by the covered set**: two valid MOCs of
    depth `d` covering the same indices have the same cells (and, by `cells_roundtrip`, two valid MOCs
    with the same cells are equal: the cell view is injective). -/
theorem cells_normal_form (q : Qty) (w d : Nat) (l1 l2 : List Rng) (h1 : Valid q w d l1) (h2 : Valid q w d l2)
    (hs : ∀ x, mem x l1 ↔ mem x l2) : cellsOf q w d l1 = cellsOf q w d l2 := by
  rw [Canon.ext h1.1 h2.1 hs]

/-- The parent (one level up) of a cell of depth ≥ 1. -/
def parentCell (q : Qty) (c : Cell) : Cell := (c.1 - 1, c.2 >>> q.dim)

theorem canon_gap : ∀ (l : List Rng) (lo : Nat), CanonFrom lo l → ∀ r ∈ l,
    lo ≤ r.1 ∧ r.1 < r.2 ∧ ¬ mem r.2 l ∧ (0 < r.1 → ¬ mem (r.1 - 1) l) := by
  intro l
  induction l with
  | nil => intro _ _ r hr; cases hr
  | cons r0 t ih =>
    intro lo h r hr
    obtain ⟨h1, h2, h3⟩ := h
    cases hr with
    | head =>
      refine ⟨h1, h2, ?_, ?_⟩
      · intro hm
        simp only [mem] at hm
        rcases hm with hm | hm
        · omega
        · have := h3.lb hm; omega
      · intro hp hm
        simp only [mem] at hm
        rcases hm with hm | hm
        · omega
        · have := h3.lb hm; omega
    | tail _ hm =>
      obtain ⟨i1, i2, i3, i4⟩ := ih _ h3 r hm
      refine ⟨by omega, i2, ?_, ?_⟩
      · intro hx
        simp only [mem] at hx
        rcases hx with hx | hx
        · omega
        · exact i3 hx
      · intro hp hx
        simp only [mem] at hx
        rcases hx with hx | hx
        · omega
        · exact i4 hp hx

/-- **The cell view is the NORMAL form: every cell is maximal.**  For every valid MOC `M` (any quantity
    of dimension 1 or 2 whose deepest level leaves room for one more level in the index type — true of
    the three quantities on u16 / u32 / u64), no cell of the cell view of depth ≥ 1 has its parent
    inside `M`: some index of the parent cell is not covered.  Together with `cells_cover` (the cells
    cover exactly `M`) and the fact that they tile each range without overlap, this characterises the
    cell list independently of the algorithm that computes it: it is the set of the largest aligned
    cells contained in `M` — four siblings never stand for their parent. -/
theorem cells_maximal (q : Qty) (hq : q.dim = 1 ∨ q.dim = 2) (w d : Nat) (hd : d ≤ q.maxDepth w)
    (hw : q.dim * q.maxDepth w + q.dim ≤ w) (l : List Rng) (hv : Valid q w d l) :
    ∀ c ∈ cellsOf q w d l, 0 < c.1 →
      ∃ x, (rangeOfCell q w (parentCell q c)).1 ≤ x ∧ x < (rangeOfCell q w (parentCell q c)).2 ∧ ¬ mem x l := by
  intro c hc hpos
  have hdim : 0 < q.dim := by rcases hq with h | h <;> omega
  have hal := aligned_of_valid q w d l hv
  -- the range the cell comes from
  unfold cellsOf at hc
  obtain ⟨r, hr, hcr⟩ := List.mem_flatMap.1 hc
  obtain ⟨g1, g2, g3, g4⟩ := canon_gap l 0 hv.1 r hr
  have har := hal r hr
  have hgt := cellsOfRange_gtiles q hq w d hd hw (r.2 - r.1) r.1 r.2 (Nat.le_refl _) (Nat.le_of_lt g2) har.1 har.2
  have hmem : tileOf q w c ∈ (cellsOfRange q w d (r.2 - r.1) r.1 r.2).map (tileOf q w) := List.mem_map.2 ⟨c, hcr, rfl⟩
  -- the cell lies inside its range
  have hts := cellsOfRange_tiles q hq w d hd (r.2 - r.1) r.1 r.2 (Nat.le_refl _) (Nat.le_of_lt g2) har.1 har.2
  -- geometry of the parent block
  have hc1 : c.1 ≤ q.maxDepth w := by
    have := tiles_depth q w d _ _ _ hts c hcr; omega
  let j := q.maxDepth w - c.1
  have hsh : q.shiftFromMax w c.1 = q.dim * j := rfl
  have hshp : q.shiftFromMax w (c.1 - 1) = q.dim * (j + 1) := by
    unfold Qty.shiftFromMax
    have : q.maxDepth w - (c.1 - 1) = j + 1 := by omega
    rw [this]
  have hP1 : (rangeOfCell q w (parentCell q c)).1 = (c.2 >>> q.dim) <<< (q.dim * (j + 1)) := by
    simp only [rangeOfCell, parentCell, hshp]
  have hP2 : (rangeOfCell q w (parentCell q c)).2 = (c.2 >>> q.dim) <<< (q.dim * (j + 1)) + 2 ^ (q.dim * (j + 1)) := by
    simp only [rangeOfCell, parentCell, hshp, Nat.shiftLeft_eq, Nat.add_mul, Nat.one_mul]
  rw [hP1, hP2]
  -- by contradiction: the whole parent block is covered
  apply Classical.byContradiction
  intro hall
  have hcov : ∀ x, (c.2 >>> q.dim) <<< (q.dim * (j + 1)) ≤ x → x < (c.2 >>> q.dim) <<< (q.dim * (j + 1)) + 2 ^ (q.dim * (j + 1)) → mem x l := by
    intro x h1 h2
    apply Classical.byContradiction
    intro hx
    exact hall ⟨x, h1, h2, hx⟩
  -- start of the cell between the bounds of the parent block
  have hstart : c.2 <<< q.shiftFromMax w c.1 = c.2 * 2 ^ (q.dim * j) := by rw [hsh, Nat.shiftLeft_eq]
  have hpstart : (c.2 >>> q.dim) <<< (q.dim * (j + 1)) = (c.2 / 2 ^ q.dim) * 2 ^ q.dim * 2 ^ (q.dim * j) := by
    rw [Nat.shiftLeft_eq, Nat.shiftRight_eq_div_pow, Nat.mul_add, Nat.mul_one, Nat.pow_add, Nat.mul_assoc,
      Nat.mul_comm (2 ^ (q.dim * j))]
  have hpsize : 2 ^ (q.dim * (j + 1)) = 2 ^ q.dim * 2 ^ (q.dim * j) := by
    rw [Nat.mul_add, Nat.mul_one, Nat.pow_add, Nat.mul_comm]
  have hdm := Nat.div_add_mod c.2 (2 ^ q.dim)
  have hml := Nat.mod_lt c.2 (Nat.two_pow_pos q.dim)
  have hpj := Nat.two_pow_pos (q.dim * j)
  have hle : (c.2 >>> q.dim) <<< (q.dim * (j + 1)) ≤ c.2 <<< q.shiftFromMax w c.1 := by
    rw [hstart, hpstart]
    apply Nat.mul_le_mul_right
    rw [Nat.mul_comm]; omega
  have hlt : c.2 <<< q.shiftFromMax w c.1 < (c.2 >>> q.dim) <<< (q.dim * (j + 1)) + 2 ^ (q.dim * (j + 1)) := by
    rw [hstart, hpstart, hpsize, ← Nat.add_mul]
    apply Nat.mul_lt_mul_of_pos_right _ hpj
    rw [Nat.mul_comm]; omega
  -- the parent block lies inside the range (gaps on both sides of a canonical range)
  have hs1 : r.1 ≤ c.2 <<< q.shiftFromMax w c.1 := gtiles_start_ge hgt (tileOf q w c) hmem
  have hs2 : c.2 <<< q.shiftFromMax w c.1 + 2 ^ (q.dim * (q.maxDepth w - c.1)) ≤ r.2 := gtiles_end_le hgt (tileOf q w c) hmem
  have hpp := Nat.two_pow_pos (q.dim * (q.maxDepth w - c.1))
  have hlo : r.1 ≤ (c.2 >>> q.dim) <<< (q.dim * (j + 1)) := by
    apply Classical.byContradiction
    intro hn
    have hr0 : 0 < r.1 := by omega
    exact g4 hr0 (hcov (r.1 - 1) (by omega) (by omega))
  have hhi : (c.2 >>> q.dim) <<< (q.dim * (j + 1)) + 2 ^ (q.dim * (j + 1)) ≤ r.2 := by
    apply Classical.byContradiction
    intro hn
    exact g3 (hcov r.2 (by omega) (by omega))
  have hdvd : 2 ^ (q.dim * (j + 1)) ∣ (c.2 >>> q.dim) <<< (q.dim * (j + 1)) := by
    rw [Nat.shiftLeft_eq]; exact Nat.dvd_mul_left _ _
  exact gtiles_maximal q.dim (q.maxDepth w) hdim _ r.1 r.2 hgt (tileOf q w c) hmem (by simp only [tileOf]; omega)
    _ hdvd hle hlt hlo hhi

/-- The room hypothesis of `cells_maximal` holds for the three quantities on the three index widths. -/
theorem maximal_room :
    (∀ q ∈ [Params.hpx, Params.time, Params.freq], ∀ w ∈ [16, 32, 64], q.dim * q.maxDepth w + q.dim ≤ w) := by decide

/-- Non-vacuity and the point of the theorem on a concrete S-MOC: base cell 3 WHOLE is the single cell `0/3`,
    not its four children. -/
example : cellsOf Params.hpx 64 1 [(3 * 2 ^ 58, 4 * 2 ^ 58)] = [(0, 3)] := by decide

/-- **`uniq_hpx_to_range`**: the range computed from the NUNIQ number of a cell is the range of that cell (decode, then
    shift by twice the depth difference), for every depth and every cell index of the HEALPix domain. -/
theorem nuniq_to_range (w d i : Nat) (hi : i < 12 * 4 ^ d) :
    rangeOfCell Params.hpx w (fromUniqHpx (uniqHpx d i)) = rangeOfCell Params.hpx w (d, i) := by
  rw [fromUniqHpx_uniqHpx d i hi]

theorem cells_injective (q : Qty) (hq : q.dim = 1 ∨ q.dim = 2) (w d : Nat) (hd : d ≤ q.maxDepth w)
    (l1 l2 : List Rng) (h1 : Valid q w d l1) (h2 : Valid q w d l2)
    (hc : cellsOf q w d l1 = cellsOf q w d l2) : l1 = l2 := by
  rw [← cells_roundtrip q hq w d hd l1 h1, ← cells_roundtrip q hq w d hd l2 h2, hc]

/-- **Cell-range view is lossless too**: ranges → cells → cell ranges (consecutive cells of one depth grouped)
    → ranges (touching cell ranges fused) returns exactly the original ranges, for every valid MOC. -/
theorem cellranges_roundtrip (q : Qty) (hq : q.dim = 1 ∨ q.dim = 2) (w d : Nat) (hd : d ≤ q.maxDepth w)
    (l : List Rng) (h : Valid q w d l) :
    rangesOfCellRanges q w (cellRangesOf (cellsOf q w d l)) = l := by
  have ha := aligned_of_valid q w d l h
  have hoc := Codec.ordCells_cellsOf q hq w d hd (q.nCellsMax w) l 0 h.1 ha h.2.1 (Nat.zero_le _)
  have hcr := Codec.ordCR_cellRangesOf q w d _ 0 (q.nCellsMax w) hoc
  have sp := rangesOfCellRanges_spec q w d _ 0 (q.nCellsMax w) hcr
  refine Canon.ext sp.1 h.1 (fun x => ?_)
  rw [sp.2, mem_cellRangesOf, cells_cover q hq w d hd l h]

/-- The cell ranges cover exactly the MOC. -/
theorem cellranges_cover (q : Qty) (hq : q.dim = 1 ∨ q.dim = 2) (w d : Nat) (hd : d ≤ q.maxDepth w)
    (l : List Rng) (h : Valid q w d l) (x : Nat) :
    mem x ((cellRangesOf (cellsOf q w d l)).map (rangeOfCellRange q w)) ↔ mem x l := by
  rw [mem_cellRangesOf, cells_cover q hq w d hd l h]

/-- **Flat cells** (`flatten_to_fixed_depth_cells`): exactly the depth-`d` cells inside the MOC. -/
theorem flat_cells_sem (sh : Nat) (l : List Rng) (ha : Aligned (2 ^ sh) l) (c : Nat) :
    c ∈ flatCellsOf sh l ↔ mem (c <<< sh) l := by
  unfold flatCellsOf
  rw [mem_iff_exists]
  simp only [List.mem_flatMap, List.mem_map, List.mem_range]
  have hc : 0 < 2 ^ sh := Nat.pos_of_ne_zero (by simp)
  constructor
  · rintro ⟨r, hr, k, hk, rfl⟩
    refine ⟨r, hr, ?_⟩
    obtain ⟨a, ha1⟩ := (ha r hr).1
    obtain ⟨b, hb1⟩ := (ha r hr).2
    simp only [Nat.shiftRight_eq_div_pow, Nat.shiftLeft_eq] at hk ⊢
    rw [ha1, hb1, ← Nat.mul_sub, Nat.mul_div_cancel_left _ hc] at hk
    rw [ha1, hb1, Nat.mul_div_cancel_left _ hc, Nat.mul_comm (a + k)]
    constructor
    · exact Nat.mul_le_mul_left _ (Nat.le_add_right a k)
    · exact Nat.mul_lt_mul_of_pos_left (show a + k < b by omega) hc
  · rintro ⟨r, hr, h1, h2⟩
    obtain ⟨a, ha1⟩ := (ha r hr).1
    obtain ⟨b, hb1⟩ := (ha r hr).2
    simp only [Nat.shiftLeft_eq] at h1 h2
    rw [ha1, Nat.mul_comm c] at h1
    rw [hb1, Nat.mul_comm c] at h2
    have k1 : a ≤ c := Nat.le_of_mul_le_mul_left h1 hc
    have k2 : c < b := Nat.lt_of_mul_lt_mul_left h2
    refine ⟨r, hr, c - a, ?_, ?_⟩
    · simp only [Nat.shiftRight_eq_div_pow]
      rw [ha1, hb1, ← Nat.mul_sub, Nat.mul_div_cancel_left _ hc]; omega
    · simp only [Nat.shiftRight_eq_div_pow]
      rw [ha1, Nat.mul_div_cancel_left _ hc]; omega

/-- **Generic uniq numbering** (`to_uniq_gen` / `from_uniq_gen`, sentinel bit above the index): decoding
    inverts encoding for every depth and in-range index, for the three quantities of the library. -/
theorem uniqGen_decode_encode (q : Qty) (hq : q = Params.hpx ∨ q = Params.time ∨ q = Params.freq) (d i : Nat)
    (hi : i < q.nCells d) : fromUniqGen q (toUniqGen q d i) = (d, i) := by
  rcases hq with rfl | rfl | rfl
  · exact fromUniqGen_toUniqGen _ (by decide) (by decide) d i hi
  · exact fromUniqGen_toUniqGen _ (by decide) (by decide) d i hi
  · exact fromUniqGen_toUniqGen _ (by decide) (by decide) d i hi

/-- **Generic uniq → range** (`uniq_gen_to_range`): the code of a cell converts to the index range of THAT cell, for
    the three quantities — in particular the same range as the cell → range conversion of the other views
    (`rangeOfCell`, i.e. `MocRange::from((depth, idx))`), so going through the generic uniq numbers does not change
    the covered set.  (The implementation shifted by `2 * (MAX_DEPTH - depth)` for time and frequency too:
    /repo "fix: uniq_gen_to_range used the HEALPix shift for every quantity".) -/
theorem uniqGen_to_range (q : Qty) (hq : q = Params.hpx ∨ q = Params.time ∨ q = Params.freq) (w d i : Nat)
    (hi : i < q.nCells d) : uniqGenToRange q w (toUniqGen q d i) = rangeOfCell q w (d, i) := by
  unfold uniqGenToRange
  rw [uniqGen_decode_encode q hq d i hi]

/-! Non-vacuity -/
example : (5 : Nat) < 12 * 4 ^ 0 ∧ (4 : Nat) ≤ 17 := by decide
example : Params.hpx.dim = 1 ∨ Params.hpx.dim = 2 := by decide
example : Params.time.shiftFromMax 64 3 < 64 ∧ 3 ≤ Params.time.maxDepth 64 := by decide

/-! ### The range → NUNIQ iterator (`HpxToUniqIter`), as computed -/
section NuniqIter
open Moc.UniqIter

/-- **The NUNIQ iterator covers exactly the MOC**: depth after depth (levels `J`, `J − 1`, …, 0 counted from
    the deepest one, cells of `2^(g·level)` indices), the aligned ranges it emits cover every index of a canonical
    `M` and nothing else; each one is a non-empty union of whole cells of its level. -/
theorem nuniq_iter_cover (g J : Nat) (M : List Rng) (hc : Canon M) :
    (∀ x, mem x M ↔ ∃ e ∈ run g J M, e.2.1 ≤ x ∧ x < e.2.2) ∧
    (∀ e ∈ run g J M, e.2.1 < e.2.2 ∧ 2 ^ (g * e.1) ∣ e.2.1 ∧ 2 ^ (g * e.1) ∣ e.2.2) :=
  ⟨run_cover g J M hc, run_aligned g J M⟩

/-- **… and only with maximal cells**: whatever it emits below the top level, no cell one level up that
    meets the emitted range lies inside `M` — the NUNIQ view never holds four siblings whose parent is in the
    MOC.  This is the characterisation `cells_maximal` gives of the cell view: the two views agree on which
    cells represent a MOC. -/
theorem nuniq_iter_maximal (g J : Nat) (M : List Rng) (hc : Canon M) :
    ∀ e ∈ run g J M, e.1 < J → ∀ p y, 2 ^ (g * (e.1 + 1)) ∣ p → p ≤ y ∧ y < p + 2 ^ (g * (e.1 + 1)) →
      e.2.1 ≤ y ∧ y < e.2.2 → ¬ BlockIn (g * (e.1 + 1)) p M :=
  run_maximal g J M hc

/-- **`UniqToHpxIter`** yields exactly the ranges of the cells whose NUNIQ numbers lie in the NUNIQ ranges: a range is
    emitted iff it is the range of the cell decoded from one of those numbers. -/
theorem uniq_to_hpx_spec (w : Nat) (urs : List Rng) (x : Rng) :
    x ∈ uniqToHpx w urs ↔ ∃ r ∈ urs, ∃ u, r.1 ≤ u ∧ u < r.2 ∧ x = rangeOfCell Params.hpx w (fromUniqHpx u) := by
  induction urs with
  | nil => simp [uniqToHpx]
  | cons r t ih =>
    simp only [uniqToHpx, List.mem_append, List.mem_map, List.mem_range, ih, List.mem_cons, exists_eq_or_imp]
    constructor
    · rintro (⟨i, hi, rfl⟩ | h)
      · exact .inl ⟨r.1 + i, by omega, by omega, rfl⟩
      · exact .inr h
    · rintro (⟨u, h1, h2, rfl⟩ | h)
      · exact .inl ⟨u - r.1, by omega, by rw [Nat.add_sub_cancel' h1]⟩
      · exact .inr h

/-- **`HpxUniq2DepthIdxIter`** (`iter_depth_pix`) lists exactly the cells of the emitted ranges: `(depth, index)` is produced
    iff some emitted range of level `J − depth` contains the cell of that index. -/
theorem depth_idx_spec (g J : Nat) (es : List (Nat × Rng)) (d i : Nat) :
    (d, i) ∈ depthIdx g J es ↔
      ∃ e ∈ es, d = J - e.1 ∧ e.2.1 >>> (g * e.1) ≤ i ∧ i < e.2.2 >>> (g * e.1) := by
  unfold depthIdx
  simp only [List.mem_flatMap, List.mem_map, List.mem_range, Prod.mk.injEq]
  constructor
  · rintro ⟨e, he, k, hk, h1, h2⟩
    exact ⟨e, he, h1.symm, by omega, by omega⟩
  · rintro ⟨e, he, h1, h2, h3⟩
    exact ⟨e, he, i - e.2.1 >>> (g * e.1), by omega, h1.symm, by omega⟩

/-- Non-vacuity: a canonical list to which both theorems apply (a whole level-1 cell and one more index; the
    driver evaluates `run` on it: `[(1, (12, 16)), (0, (16, 17))]`). -/
example : Canon [((12 : Nat), (17 : Nat))] := by simp [Canon, CanonFrom]

end NuniqIter

end Moc.C05

/-! ### The NUNIQ iterator and the cell view produce the same cells -/
namespace Moc.C05
open Moc Moc.UniqIter

theorem down_shl (g j c : Nat) : down (g * (j + 1)) (c <<< (g * j)) = (c >>> g) <<< (g * (j + 1)) := by
  unfold down
  simp only [Nat.shiftRight_eq_div_pow, Nat.shiftLeft_eq]
  have e : 2 ^ (g * (j + 1)) = 2 ^ (g * j) * 2 ^ g := by rw [Nat.mul_add, Nat.mul_one, Nat.pow_add]
  rw [e, ← Nat.div_div_eq_div_mul, Nat.mul_div_cancel _ (Nat.two_pow_pos (g * j))]

/-- The block of a cell of the cell view: aligned, inside the MOC, maximal. -/
theorem cell_block (q : Qty) (hq : q.dim = 1 ∨ q.dim = 2) (w d : Nat) (hd : d ≤ q.maxDepth w)
    (hw : q.dim * q.maxDepth w + q.dim ≤ w) (M : List Rng) (hv : Valid q w d M) (c : Cell) (hc : c ∈ cellsOf q w d M) :
    c.1 ≤ q.maxDepth w ∧
    2 ^ (q.dim * (tileOf q w c).1) ∣ (tileOf q w c).2 ∧
    BlockIn (q.dim * (tileOf q w c).1) (tileOf q w c).2 M ∧
    MaximalIn q.dim (q.maxDepth w) (tileOf q w c).1 (tileOf q w c).2 M ∧
    (rangeOfCell q w c).1 = (tileOf q w c).2 ∧ (rangeOfCell q w c).2 = (tileOf q w c).2 + 2 ^ (q.dim * (tileOf q w c).1) := by
  have hal := Moc.C05.aligned_of_valid q w d M hv
  -- depth bound, through the tiles of the range the cell comes from
  have hc' := hc
  unfold cellsOf at hc'
  obtain ⟨r, hr, hcr⟩ := List.mem_flatMap.1 hc'
  obtain ⟨_, g2, _, _⟩ := Moc.C05.canon_gap M 0 hv.1 r hr
  have har := hal r hr
  have hts := cellsOfRange_tiles q hq w d hd (r.2 - r.1) r.1 r.2 (Nat.le_refl _) (Nat.le_of_lt g2) har.1 har.2
  have hdep : c.1 ≤ q.maxDepth w := Nat.le_trans (tiles_depth q w d _ _ _ hts c hcr) hd
  have hfst : (tileOf q w c).1 = q.maxDepth w - c.1 := rfl
  have hsnd : (tileOf q w c).2 = c.2 <<< q.shiftFromMax w c.1 := rfl
  have hsh : q.shiftFromMax w c.1 = q.dim * (q.maxDepth w - c.1) := rfl
  have hr1 : (rangeOfCell q w c).1 = (tileOf q w c).2 := rfl
  have hr2 : (rangeOfCell q w c).2 = (tileOf q w c).2 + 2 ^ (q.dim * (tileOf q w c).1) := by
    simp only [rangeOfCell, hsnd, hfst, hsh, Nat.shiftLeft_eq, Nat.add_mul, Nat.one_mul]
  refine ⟨hdep, ?_, ?_, ?_, hr1, hr2⟩
  · rw [hsnd, hfst, hsh, Nat.shiftLeft_eq]; exact Nat.dvd_mul_left _ _
  · intro x hx1 hx2
    apply (Moc.C05.cells_cover q hq w d hd M hv x).1
    rw [mem_iff_exists]
    exact ⟨rangeOfCell q w c, List.mem_map.2 ⟨c, hc, rfl⟩, by rw [hr1]; exact hx1, by rw [hr2]; exact hx2⟩
  · intro hlt
    have hpos : 0 < c.1 := by rw [hfst] at hlt; omega
    obtain ⟨x, hx1, hx2, hx3⟩ := Moc.C05.cells_maximal q hq w d hd hw M hv c hc hpos
    intro hblk
    apply hx3
    -- the parent range of the cell is the parent block of its tile
    have hj : q.maxDepth w - (c.1 - 1) = (q.maxDepth w - c.1) + 1 := by omega
    have hshp : q.shiftFromMax w (c.1 - 1) = q.dim * ((q.maxDepth w - c.1) + 1) := by
      unfold Qty.shiftFromMax; rw [hj]
    have hps : parentStart q.dim (tileOf q w c).1 (tileOf q w c).2 = (rangeOfCell q w (Moc.C05.parentCell q c)).1 := by
      unfold parentStart
      rw [hsnd, hfst, hsh, down_shl]
      simp only [rangeOfCell, Moc.C05.parentCell, hshp]
    have hpe : (rangeOfCell q w (Moc.C05.parentCell q c)).2
        = (rangeOfCell q w (Moc.C05.parentCell q c)).1 + 2 ^ (q.dim * ((tileOf q w c).1 + 1)) := by
      simp only [rangeOfCell, Moc.C05.parentCell, hshp, hfst, Nat.shiftLeft_eq, Nat.add_mul, Nat.one_mul]
    exact hblk x (by rw [hps]; exact hx1) (by rw [hps, ← hpe]; exact hx2)

/-- **The NUNIQ iterator and the cell view produce the same cells**: for every valid MOC, an aligned cell
    is emitted by the depth-by-depth iterator if and only if it is a cell of the cell view. -/
theorem emitted_iff_cell (q : Qty) (hq : q.dim = 1 ∨ q.dim = 2) (w d : Nat) (hd : d ≤ q.maxDepth w)
    (hw : q.dim * q.maxDepth w + q.dim ≤ w) (M : List Rng) (hv : Valid q w d M) (j p : Nat) :
    Emitted q.dim (q.maxDepth w) M j p ↔ ∃ c ∈ cellsOf q w d M, tileOf q w c = (j, p) := by
  constructor
  · intro hE
    have hin := emitted_inside _ _ M hv.1 j p hE
    have hmx := emitted_maximal _ _ M hv.1 j p hE
    have hlv := emitted_level _ _ M j p hE
    obtain ⟨e, _, _, hdv, _, _⟩ := id hE
    have hpos := Nat.two_pow_pos (q.dim * j)
    have hpM : mem p M := hin p (Nat.le_refl _) (by omega)
    have := (Moc.C05.cells_cover q hq w d hd M hv p).2 hpM
    rw [mem_iff_exists] at this
    obtain ⟨rg, hrg, h1, h2⟩ := this
    obtain ⟨c, hc, rfl⟩ := List.mem_map.1 hrg
    obtain ⟨b1, b2, b3, b4, b5, b6⟩ := cell_block q hq w d hd hw M hv c hc
    have hu := maximal_unique q.dim (q.maxDepth w) M j p (tileOf q w c).1 (tileOf q w c).2 p hdv b2 hlv
      (by show q.maxDepth w - c.1 ≤ q.maxDepth w; omega) hin b3 hmx b4 ⟨Nat.le_refl _, by omega⟩
      ⟨by rw [← b5]; exact h1, by rw [← b6]; exact h2⟩
    exact ⟨c, hc, Prod.ext hu.1.symm hu.2.symm⟩
  · rintro ⟨c, hc, hcp⟩
    obtain ⟨b1, b2, b3, b4, b5, b6⟩ := cell_block q hq w d hd hw M hv c hc
    rw [hcp] at b2 b3 b4 b5 b6
    simp only [] at b2 b3 b4
    have hpos := Nat.two_pow_pos (q.dim * j)
    have hpM : mem p M := b3 p (Nat.le_refl _) (by omega)
    obtain ⟨j', p', hE, h1, h2⟩ := emitted_covers q.dim (q.maxDepth w) M hv.1 p hpM
    obtain ⟨e, _, _, hdv, _, _⟩ := id hE
    have hjJ : j ≤ q.maxDepth w := by
      have : (tileOf q w c).1 = j := by rw [hcp]
      rw [← this]; show q.maxDepth w - c.1 ≤ q.maxDepth w; omega
    have hu := maximal_unique q.dim (q.maxDepth w) M j' p' j p p hdv b2 (emitted_level _ _ M j' p' hE) hjJ
      (emitted_inside _ _ M hv.1 j' p' hE) b3 (emitted_maximal _ _ M hv.1 j' p' hE) b4 ⟨h1, h2⟩ ⟨Nat.le_refl _, by omega⟩
    rw [← hu.1, ← hu.2]
    exact hE


end Moc.C05
