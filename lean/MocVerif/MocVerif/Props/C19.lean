/-
  C19 — the command-line tool is a transparent front-end to the library semantics.

  Model: `Model/Cli.lean` (what `moc op` builds: streaming sources, `ConvertIterator` on the narrower
  operand, the lazy operator, the writer fed by its output).
  * `cli_op2_sem`: for EVERY pair of canonical inputs of any two index widths and every consistent
    hint behaviour of the two file streams, the stream handed to the writer is canonical, has
    consistent hints (so the writer's NAXIS2 decision is sound) and covers exactly the set-theoretic
    result, the narrower operand being read at its own resolution.
  * `cli_op2_width_independent`: expressed in the common 64-bit index space, the result depends only
    on the two input SETS — not on the widths the operands were stored with.
  * `cli_complement_sem`, `cli_degrade_sem`; `cli_convert_*` and `cli_from_timestamps` re-export the
    codec (C07) and builder (C18) theorems the sub-commands rest on.
  The tie runs the real `moc` binary.  Partial: `moc from` on positions (HEALPix hash), the geometry
  sub-commands and ST variants are exercised through the binary only (test level).
-/
import MocVerif.Lemmas.Cli
import MocVerif.Props.C01
import MocVerif.Props.C04
import MocVerif.Props.C07
import MocVerif.Props.C18
import MocVerif.Lemmas.ValidOps

import MocVerif.Lemmas.Calendar
namespace Moc.Cli.C19
open Moc Moc.Cli Moc.C01

def opSem : Op2 → Prop → Prop → Prop
  | .inter, a, b => a ∧ b
  | .union, a, b => a ∨ b
  | .symdiff, a, b => (a ↔ ¬ b)
  | .minus, a, b => a ∧ ¬ b

/-- The lazy operator chosen by the dispatcher, on any two consistent canonical streams. -/
theorem lazyOp_sem (op : Op2) (l r : Src) (hl : l.HintOkAll) (hr : r.HintOkAll)
    (cl : Canon l.items) (cr : Canon r.items) :
    (lazyOp op l r).depth = max l.depth r.depth ∧ Canon (lazyOp op l r).items ∧
    (lazyOp op l r).HintOkAll ∧
    ∀ x, mem x (lazyOp op l r).items ↔ opSem op (mem x l.items) (mem x r.items) := by
  cases op with
  | inter =>
    have h := lazy_and_sem l r hl.1 hr.1 cl cr
    exact ⟨h.1, h.2.1, Moc.C04.and_hints l r hl hr cl cr, h.2.2.2⟩
  | union =>
    have h := lazy_or_sem l r hr.1 cl cr
    exact ⟨h.1, h.2.1, Moc.C04.or_hints l r hl hr cl cr, h.2.2.2⟩
  | symdiff =>
    have h := lazy_xor_sem l r cl cr
    exact ⟨h.1, h.2.1, Moc.C04.xor_hints l r hl hr cl cr, h.2.2⟩
  | minus =>
    have h := lazy_minus_sem l r hl.1 hr.1 cl cr
    exact ⟨h.1, h.2.1, Moc.C04.minus_hints l r hl hr cl cr, h.2.2.2⟩

/-- **`moc op <inter|union|symdiff|minus>`** on two files of index widths `wl`, `wr`. -/
theorem cli_op2_sem (q : Qty) (op : Op2) (wl wr : Nat) (l r : Src)
    (hl : l.HintOkAll) (hr : r.HintOkAll) (cl : Canon l.items) (cr : Canon r.items) :
    (op2 q op wl l wr r).1 = max wl wr ∧
    Canon (op2 q op wl l wr r).2.items ∧ (op2 q op wl l wr r).2.HintOkAll ∧
    ∀ x, mem x (op2 q op wl l wr r).2.items ↔
      opSem op (mem (x / 2 ^ (max wl wr - wl)) l.items) (mem (x / 2 ^ (max wl wr - wr)) r.items) := by
  have pl := promote_spec q wl (max wl wr) l (Nat.le_max_left _ _) hl cl
  have pr := promote_spec q wr (max wl wr) r (Nat.le_max_right _ _) hr cr
  have h := lazyOp_sem op _ _ pl.1 pr.1 pl.2.1 pr.2.1
  refine ⟨rfl, h.2.1, h.2.2.1, ?_⟩
  intro x
  show mem x (lazyOp op _ _).items ↔ _
  rw [h.2.2.2 x, pl.2.2 x, pr.2.2 x]

theorem div_pow_div (y a b : Nat) : y / 2 ^ a / 2 ^ b = y / 2 ^ (a + b) := by
  rw [Nat.div_div_eq_div_mul, ← Nat.pow_add]

/-- **Width independence**: in the common 64-bit index space the output set is the set operation
    applied to the two input sets — whatever the widths the operands are stored with. -/
theorem cli_op2_width_independent (q : Qty) (op : Op2) (wl wr : Nat) (l r : Src)
    (hwl : wl ≤ 64) (hwr : wr ≤ 64)
    (hl : l.HintOkAll) (hr : r.HintOkAll) (cl : Canon l.items) (cr : Canon r.items) (y : Nat) :
    mem y (to64 (max wl wr) (op2 q op wl l wr r).2.items) ↔
      opSem op (mem y (to64 wl l.items)) (mem y (to64 wr r.items)) := by
  have h := (cli_op2_sem q op wl wr l r hl hr cl cr).2.2.2
  have e1 : ∀ w rs, mem y (to64 w rs) ↔ mem (y / 2 ^ (64 - w)) rs := fun w rs => mem_scale (64 - w) rs y
  rw [e1, e1, e1, h]
  have hm : max wl wr ≤ 64 := Nat.max_le.2 ⟨hwl, hwr⟩
  have a1 : 64 - max wl wr + (max wl wr - wl) = 64 - wl := by
    have := Nat.le_max_left wl wr; omega
  have a2 : 64 - max wl wr + (max wl wr - wr) = 64 - wr := by
    have := Nat.le_max_right wl wr; omega
  rw [div_pow_div, div_pow_div, a1, a2]

/-- The deepest levels of the three quantities differ by exactly the width difference for the index
    widths the tool handles (so that shifting by `wt − wf` bits is the change of resolution). -/
theorem promotion_table :
    ∀ q ∈ [Params.hpx, Params.time, Params.freq], ∀ p ∈ [(16, 32), (16, 64), (32, 64), (16, 16), (32, 32), (64, 64)],
      q.dim * q.maxDepth p.2 = q.dim * q.maxDepth p.1 + (p.2 - p.1) := by decide

theorem opSem_ff (op : Op2) : ¬ opSem op False False := by
  cases op <;> simp [opSem]

/-- **The result of `moc op` is a valid MOC** of the wider index type at depth `max(d_l, d_r)`:
    canonical, inside the domain, aligned on the cells of that depth — for valid inputs of any two
    widths related as in `promotion_table`. -/
theorem cli_op2_valid (q : Qty) (op : Op2) (wl wr dl dr : Nat) (l r : Src)
    (hl : l.HintOkAll) (hr : r.HintOkAll)
    (vl : Valid q wl dl l.items) (vr : Valid q wr dr r.items)
    (hdl : dl ≤ q.maxDepth wl) (hdr : dr ≤ q.maxDepth wr)
    (kl : q.dim * q.maxDepth (max wl wr) = q.dim * q.maxDepth wl + (max wl wr - wl))
    (kr : q.dim * q.maxDepth (max wl wr) = q.dim * q.maxDepth wr + (max wl wr - wr)) :
    Valid q (max wl wr) (max dl dr) (op2 q op wl l wr r).2.items := by
  have sem := cli_op2_sem q op wl wr l r hl hr vl.1 vr.1
  have sl := valid_scale q wl (max wl wr) dl l.items hdl kl vl
  have sr := valid_scale q wr (max wl wr) dr r.items hdr kr vr
  refine valid_binary q (max wl wr) dl dr _ _ _ (opSem op) (opSem_ff op) sl sr sem.2.1 ?_
  intro x
  rw [sem.2.2.2 x, mem_scale, mem_scale]

/-- **`moc op complement`**. -/
theorem cli_complement_sem (q : Qty) (w : Nat) (s : Src) (h0 : 0 < q.nCellsMax w) (cs : Canon s.items)
    (hb : BoundedBy (q.nCellsMax w) s.items) :
    (complementOp q w s).depth = s.depth ∧ Canon (complementOp q w s).items ∧
    ∀ x, mem x (complementOp q w s).items ↔ x < q.nCellsMax w ∧ ¬ mem x s.items :=
  lazy_not_sem (q.nCellsMax w) h0 s cs hb

/-- **`moc op degrade d`** (`d` below the depth of the input): exactly the depth-`d` cells meeting the
    input. -/
theorem cli_degrade_sem (q : Qty) (w nd : Nat) (s : Src) (cs : Canon s.items) (hnd : nd < s.depth) :
    (degradeOp q w nd s).depth = nd ∧ Canon (degradeOp q w nd s).items ∧
    ∀ x, mem x (degradeOp q w nd s).items ↔
      ∃ y, mem y s.items ∧ x / 2 ^ q.shiftFromMax w nd = y / 2 ^ q.shiftFromMax w nd := by
  have h := lazy_degrade_sem (q.shiftFromMax w nd) nd s cs hnd
  have d := degraded_sem (q.shiftFromMax w nd) s.items cs
  unfold degradeOp
  rw [h.2]
  exact ⟨h.1, d.1, d.2⟩

/-- **`moc convert`** rests on the codec round trips of C07 (token-level ASCII, FITS rows). -/
theorem cli_convert_ascii (q : Qty) (w dmax : Nat) (items : List Moc.Codec.Item)
    (hmax : dmax ≤ q.maxDepth w ∧ dmax ≤ 255) (hok : ∀ it ∈ items, Moc.Codec.ItemOk q w it ∧ it.d ≤ dmax)
    (hdis : (items.map (Moc.Codec.rangeOfItem q w)).Pairwise Moc.Codec.C07.Disjoint) :
    Moc.Codec.decodeToks q w (Moc.Codec.encodeToks dmax items)
      = .ok (dmax, normalize (items.map (Moc.Codec.rangeOfItem q w))) :=
  Moc.Codec.C07.ascii_roundtrip q w dmax items hmax hok hdis
theorem cli_convert_fits_rows (rs : List Rng) : Moc.Codec.decodeWords (Moc.Codec.encodeWords rs) = rs :=
  Moc.Codec.C07.words_roundtrip rs

/-- **`moc from timestamp`** (microseconds): exactly the cells of the instants (C18). -/
theorem cli_from_timestamps (w sh cap : Nat) (ts : List Nat) (x : Nat) :
    mem x (fromMicrosec w sh cap ts) ↔ ∃ t ∈ ts, x / 2 ^ sh = (narrow (64 - w) t) >>> sh :=
  Moc.C18.tmoc_contains_exactly w sh cap ts x

/-! Non-vacuity: a u16 file combined with a u64 file. -/
example : (op2 Params.hpx .union 16 { depth := 1, items := [(0, 256)] } 64 { depth := 2, items := [(1 <<< 56, 2 <<< 56)] }).1 = 64 := rfl

/-! ### `moc from timestamp --time-type isorfc|isosimple`: civil date → microseconds since JD 0 -/
section Calendar
open Moc.Calendar

/-- **The date conversion of the tool counts days**: the Julian day number computed by
    `gregorian2jd` (Richards' algorithm, as written in `crates/cli/src/lib.rs`) increases by exactly
    one from any civil date of the Gregorian calendar to the next one — end of months, 28 / 29
    February, century years included — and is anchored on 2000-01-01 = JD 2451545.  Together the two
    facts determine it for every date: it IS the day count. -/
theorem iso_day_count (y m d : Nat) (hm : 1 ≤ m ∧ m ≤ 12) (hd : 1 ≤ d ∧ d ≤ monthLen y m) :
    gregorian2jd (nextDay y m d).1 (nextDay y m d).2.1 (nextDay y m d).2.2 = gregorian2jd y m d + 1 ∧
    gregorian2jd 2000 1 1 = 2451545 :=
  ⟨jd_next_day y m d hm hd, jd_anchor⟩

/-- The same instant of the next day is exactly 86 400 000 000 microseconds later (whenever both are
    in the time domain), so ISO timestamps are mapped to microseconds without drift. -/
theorem iso_next_day_usec (y m d h mi s us t : Nat) (hm : 1 ≤ m ∧ m ≤ 12) (hd : 1 ≤ d ∧ d ≤ monthLen y m)
    (ht : isoUsec y m d h mi s us = some t) (hdom : t + 86400000000 < 2 ^ 62) :
    isoUsec (nextDay y m d).1 (nextDay y m d).2.1 (nextDay y m d).2.2 h mi s us = some (t + 86400000000) := by
  have hj := jd_next_day y m d hm hd
  have hpos : 1 ≤ gregorian2jd y m d := by
    have := jd_eq y m d hm.2
    unfold aOf cOf gOf tOf at this
    omega
  unfold isoUsec at ht ⊢
  rw [hj]
  simp only [] at ht ⊢
  by_cases hlt : gregorian2jd y m d * 86400000000 + us + hms2usec h mi s - 43200000000 < 2 ^ 62
  · rw [if_pos hlt] at ht
    have ht' := Option.some.inj ht
    have e : (gregorian2jd y m d + 1) * 86400000000 + us + hms2usec h mi s - 43200000000 = t + 86400000000 := by
      rw [← ht']
      clear hlt hdom ht ht' hj
      have : 86400000000 ≤ gregorian2jd y m d * 86400000000 := by omega
      omega
    rw [e, if_pos hdom]
  · rw [if_neg hlt] at ht
    cases ht

example : isoUsec 2020 1 1 0 0 0 0 = some 212444596800000000 := by decide

end Calendar

end Moc.Cli.C19
