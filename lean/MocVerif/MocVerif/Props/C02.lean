/-
  C02 — every produced MOC is in canonical form (`Valid q w d`): ranges non-empty, strictly
  increasing, disjoint and NON-ADJACENT, inside `[0, n_cells_max]`, aligned on the cells of the
  declared depth.  Consequently equal sets ⇒ equal MOCs.
-/
import MocVerif.Lemmas.Expr
import MocVerif.Model.Params

namespace Moc.C02

/-- The executable judge used by the correspondence check on every implementation output is the
    property itself. -/
theorem validB_iff (q : Qty) (w d : Nat) (rs : List Rng) : validB q w d rs = true ↔ Valid q w d rs :=
  Moc.validB_iff q w d rs

/-- **Programs.** Any expression tree over and / or / xor / minus / not / degrade (eager `RangeMOC`
    methods) applied to valid leaves yields a valid MOC of a legal depth — by induction on the tree,
    for every tree height. -/
theorem eval_valid (q : Qty) (w : Nat) (h0 : 0 < q.nCellsMax w) (e : Expr)
    (hl : e.LeavesOk q w) (hd : e.DepthsOk q w) :
    Valid q w (evalE q w e).1 (evalE q w e).2 ∧ (evalE q w e).1 ≤ q.maxDepth w :=
  evalE_valid q w h0 e hl hd

/-- The "consequently": two valid MOCs covering the same set are equal (unique normal form). -/
theorem valid_eq_of_same_set (q : Qty) (w d : Nat) (a b : List Rng) (ha : Valid q w d a) (hb : Valid q w d b)
    (h : ∀ x, mem x a ↔ mem x b) : a = b :=
  Canon.ext ha.1 hb.1 h

/-- Constructors. -/
theorem new_full_domain_valid (q : Qty) (w d : Nat) (h0 : 0 < q.nCellsMax w) :
    Valid q w d [(0, q.nCellsMax w)] := valid_full q w d h0
theorem new_empty_valid (q : Qty) (w d : Nat) : Valid q w d [] := valid_empty q w d

/-- `Ranges::new_from` / `new_from_sorted` produce canonical lists from any non-empty ranges. -/
theorem new_from_canon (l : List Rng) (hne : ∀ r ∈ l, r.1 < r.2) : Canon (newFrom l) :=
  (newFrom_spec l hne).1

/-- Per-operator preservation (used by the tree theorem, stated for direct use as well). -/
theorem complement_valid (q : Qty) (w d : Nat) (a : List Rng) (h0 : 0 < q.nCellsMax w)
    (ha : Valid q w d a) : Valid q w d (complement (q.nCellsMax w) a) := valid_complement q w d a h0 ha
theorem degraded_valid (q : Qty) (w d nd : Nat) (a : List Rng) (ha : Valid q w d a) :
    Valid q w nd (degradedShift (q.shiftFromMax w nd) a) := valid_degraded q w d nd a ha
theorem binary_valid (q : Qty) (w dl dr : Nat) (a b o : List Rng) (f : Prop → Prop → Prop)
    (hf : ¬ f False False) (ha : Valid q w dl a) (hb : Valid q w dr b) (ho : Canon o)
    (hsem : ∀ x, mem x o ↔ f (mem x a) (mem x b)) : Valid q w (max dl dr) o :=
  valid_binary q w dl dr a b o f hf ha hb ho hsem

/-- Alignment is a property of the covered set: a canonical list is aligned on cells of size `c`
    iff its set is a union of whole cells. -/
theorem aligned_iff_cell_closed (c : Nat) (hc : 0 < c) (l : List Rng) (hcan : Canon l) :
    Aligned c l ↔ CellClosed c l := aligned_iff_cellClosed c hc l hcan

/-! Non-vacuity -/
example : 0 < Params.hpx.nCellsMax 64 := by decide
example : Valid Params.time 16 2 [(0, 2048), (4096, 6144)] :=
  (validB_iff _ _ _ _).1 (by decide)
example : (Expr.and (.leaf ⟨2, [(0, 2048)], none, 0, none, []⟩) (.not (.leaf ⟨2, [(0, 2048)], none, 0, none, []⟩))).DepthsOk
    Params.time 16 := by simp [Expr.DepthsOk]; decide

end Moc.C02
