/-
  C02 — every produced MOC is in canonical form (`Valid q w d`): ranges non-empty, strictly
  increasing, disjoint and NON-ADJACENT, inside `[0, n_cells_max]`, aligned on the cells of the
  declared depth.  Consequently equal sets ⇒ equal MOCs.
-/
import MocVerif.Lemmas.Expr
import MocVerif.Model.Params
import MocVerif.Props.C06
import MocVerif.Lemmas.ValidOps
import MocVerif.Lemmas.Valid

namespace Moc.C02

/-- The executable judge used by the correspondence check on every implementation output is the
    property itself. -/
theorem validB_iff (q : Qty) (w d : Nat) (rs : List Rng) : validB q w d rs = true ↔ Valid q w d rs :=
  Moc.validB_iff q w d rs

/-- **Programs.** Any expression tree over and / or / xor / minus / not / degrade (eager `RangeMOC`
    methods) applied to valid leaves yields a valid MOC of a legal depth — by induction on the tree,
    for every tree height. -/
theorem eval_valid (q : Qty) (w : Nat) (h0 : 0 < q.nCellsMax w) (e : Expr)
    (hl : e.LeavesOk q w) (hd : e.DepthsOk q w) :
    Valid q w (evalE q w e).1 (evalE q w e).2 ∧ (evalE q w e).1 ≤ q.maxDepth w :=
  evalE_valid q w h0 e hl hd

/-- The "consequently": two valid MOCs covering the same set are equal (unique normal form). -/
theorem valid_eq_of_same_set (q : Qty) (w d : Nat) (a b : List Rng) (ha : Valid q w d a) (hb : Valid q w d b)
    (h : ∀ x, mem x a ↔ mem x b) : a = b :=
  Canon.ext ha.1 hb.1 h

/-- Constructors. -/
theorem new_full_domain_valid (q : Qty) (w d : Nat) (h0 : 0 < q.nCellsMax w) :
    Valid q w d [(0, q.nCellsMax w)] := valid_full q w d h0
theorem new_empty_valid (q : Qty) (w d : Nat) : Valid q w d [] := valid_empty q w d

/-- `Ranges::new_from` / `new_from_sorted` produce canonical lists from any non-empty ranges. -/
theorem new_from_canon (l : List Rng) (hne : ∀ r ∈ l, r.1 < r.2) : Canon (newFrom l) :=
  (newFrom_spec l hne).1

/-- Per-operator preservation (used by the tree theorem, stated for direct use as well). -/
theorem complement_valid (q : Qty) (w d : Nat) (a : List Rng) (h0 : 0 < q.nCellsMax w)
    (ha : Valid q w d a) : Valid q w d (complement (q.nCellsMax w) a) := valid_complement q w d a h0 ha
theorem degraded_valid (q : Qty) (w d nd : Nat) (a : List Rng) (ha : Valid q w d a) :
    Valid q w nd (degradedShift (q.shiftFromMax w nd) a) := valid_degraded q w d nd a ha
theorem binary_valid (q : Qty) (w dl dr : Nat) (a b o : List Rng) (f : Prop → Prop → Prop)
    (hf : ¬ f False False) (ha : Valid q w dl a) (hb : Valid q w dr b) (ho : Canon o)
    (hsem : ∀ x, mem x o ↔ f (mem x a) (mem x b)) : Valid q w (max dl dr) o :=
  valid_binary q w dl dr a b o f hf ha hb ho hsem

/-- Alignment is a property of the covered set: a canonical list is aligned on cells of size `c`
    iff its set is a union of whole cells. -/
theorem aligned_iff_cell_closed (c : Nat) (hc : 0 < c) (l : List Rng) (hcan : Canon l) :
    Aligned c l ↔ CellClosed c l := aligned_iff_cellClosed c hc l hcan

theorem nCells_mul (q : Qty) (w d : Nat) (hd : d ≤ q.maxDepth w) :
    q.nCells d * 2 ^ q.shiftFromMax w d = q.nCellsMax w := by
  unfold Qty.nCells Qty.shiftFromMax
  rw [Qty.nCellsMax_eq, Nat.shiftLeft_eq, Nat.mul_assoc, ← Nat.pow_add, ← Nat.mul_add]
  congr 3
  omega

/-- **Fixed-depth builder**: for in-domain cells the MOC built is VALID at the builder depth (canonical, inside
    the domain, aligned on the cells of that depth), whatever the order, duplicates and buffer capacity. -/
theorem fixedDepth_builder_valid (q : Qty) (w d cap : Nat) (cells : List Nat) (hd : d ≤ q.maxDepth w)
    (hc : ∀ c ∈ cells, c < q.nCells d) :
    Valid q w d (fromFixedDepthCells (q.shiftFromMax w d) cap cells) := by
  have sem := C06.build_sem (q.shiftFromMax w d) cap cells
  have hpos : 0 < 2 ^ q.shiftFromMax w d := Nat.pos_of_ne_zero (by simp)
  have hcs : q.cellSize w d = 2 ^ q.shiftFromMax w d := by simp [Qty.cellSize, Nat.shiftLeft_eq]
  refine ⟨sem.1, ?_, ?_⟩
  · rw [boundedBy_iff _ _ 0 sem.1]
    intro x hx
    have hm := hc _ ((sem.2 x).1 hx)
    rw [← nCells_mul q w d hd]
    have h1 : x < (x / 2 ^ q.shiftFromMax w d + 1) * 2 ^ q.shiftFromMax w d := by
      have := Nat.lt_div_mul_add (a := x) hpos
      rw [Nat.add_mul]; omega
    exact Nat.lt_of_lt_of_le h1 (Nat.mul_le_mul_right _ hm)
  · rw [hcs, aligned_iff_cellClosed _ hpos _ sem.1]
    intro x y hxy hx
    rw [sem.2] at hx ⊢
    rw [← hxy]; exact hx

/-- **Range builder** (`from_maxdepth_ranges`, `from_cells`, the time / frequency range builders): for
    in-domain ranges — EMPTY ONES INCLUDED (`start >= end`: ignored since /repo "fix: RangeMocBuilder kept empty
    input ranges") — the MOC built is VALID at the builder depth. -/
theorem range_builder_valid (q : Qty) (w d cap : Nat) (rs : List Rng)
    (hr : ∀ r ∈ rs, r.2 ≤ q.nCellsMax w) :
    Valid q w d (fromMaxdepthRanges (q.shiftFromMax w d) cap rs) := by
  have sem := C06.rangeBuilder_sem_all (q.shiftFromMax w d) cap rs
  have hpos : 0 < 2 ^ q.shiftFromMax w d := Nat.pos_of_ne_zero (by simp)
  have hcs : q.cellSize w d = 2 ^ q.shiftFromMax w d := by simp [Qty.cellSize, Nat.shiftLeft_eq]
  have hdvd : 2 ^ q.shiftFromMax w d ∣ q.nCellsMax w := by rw [← hcs]; exact q.cellSize_dvd_nCellsMax w d
  refine ⟨sem.1, ?_, ?_⟩
  · rw [boundedBy_iff _ _ 0 sem.1]
    intro x hx
    obtain ⟨r, hr', y, _, y2, hxy⟩ := (sem.2 x).1 hx
    have hy : y < q.nCellsMax w := Nat.lt_of_lt_of_le y2 (hr r hr')
    obtain ⟨k, hk⟩ := hdvd
    rw [hk] at hy ⊢
    have h1 : y / 2 ^ q.shiftFromMax w d < k := by
      rw [Nat.div_lt_iff_lt_mul hpos, Nat.mul_comm]; exact hy
    rw [← hxy] at h1
    have := (Nat.div_lt_iff_lt_mul hpos).1 h1
    rw [Nat.mul_comm] at this; exact this
  · rw [hcs, aligned_iff_cellClosed _ hpos _ sem.1]
    intro x y hxy hx
    rw [sem.2] at hx ⊢
    obtain ⟨r, hr', z, z1, z2, hz⟩ := hx
    exact ⟨r, hr', z, z1, z2, by rw [← hxy]; exact hz⟩


/-! Non-vacuity -/
example : 0 < Params.hpx.nCellsMax 64 := by decide
example : Valid Params.time 16 2 [(0, 2048), (4096, 6144)] :=
  (validB_iff _ _ _ _).1 (by decide)
example : (Expr.and (.leaf ⟨2, [(0, 2048)], none, 0, none, []⟩) (.not (.leaf ⟨2, [(0, 2048)], none, 0, none, []⟩))).DepthsOk
    Params.time 16 := by simp [Expr.DepthsOk]; decide

end Moc.C02
