/-
  C08 — streaming space-time MOC union is the union of the (time × space) point sets.
  The 1 400-line Rust state machine is NOT transliterated: the theorems fix the specification
  (point set of the union, validity predicate) and the check compares the three real forms of the
  operator, in both operand orders, with it — point by point on a grid of representative instants
  and positions (including shared boundaries) — and judges every output with `validSTB`.
-/
import MocVerif.Lemmas.ST

namespace Moc.C08

theorem union_spec (t s : Nat) (a b : STMoc) : memST t s (stUnionSpec a b) ↔ memST t s a ∨ memST t s b :=
  memST_union t s a b

/-- The Boolean the correspondence check computes at a grid point is the union of the point sets. -/
theorem point_check_is_union (a b : STMoc) (t s : Nat) :
    stPointOp 14 a b t s = true ↔ memST t s a ∨ memST t s b := stPointOp_union a b t s

/-- Commutativity, empty operands and idempotence at the level of point sets. -/
theorem union_comm (t s : Nat) (a b : STMoc) : memST t s (stUnionSpec a b) ↔ memST t s (stUnionSpec b a) := by
  rw [union_spec, union_spec, or_comm]
theorem union_empty (t s : Nat) (a : STMoc) : memST t s (stUnionSpec a []) ↔ memST t s a := by
  rw [union_spec]; simp [memST]
theorem union_idem (t s : Nat) (a : STMoc) : memST t s (stUnionSpec a a) ↔ memST t s a := by
  rw [union_spec, or_self]

/-- What `validSTB = true` guarantees: non-empty canonical time and space MOCs, every instant of an
    element before every instant of the following ones (hence pairwise disjoint time MOCs). -/
theorem validSTB_cons (e : List Rng × List Rng) (m : STMoc) (h : validSTB (e :: m) = true) :
    Canon e.1 ∧ e.1 ≠ [] ∧ Canon e.2 ∧ e.2 ≠ [] ∧
    (∀ f ∈ m, lastEnd e.1 ≤ firstInstant f) ∧ validSTB m = true := by
  simp only [validSTB, Bool.and_eq_true, Bool.not_eq_true', List.isEmpty_eq_false_iff, List.all_eq_true,
    decide_eq_true_eq] at h
  obtain ⟨⟨⟨⟨⟨c1, n1⟩, c2⟩, n2⟩, hall⟩, hm⟩ := h
  exact ⟨(canonB_iff _).1 c1, n1, (canonB_iff _).1 c2, n2, hall, hm⟩

/-- … and disjointness of the time MOCs follows for canonical elements. -/
theorem valid_elements_disjoint (e f : List Rng × List Rng) (he : Canon e.1) (hf : Canon f.1)
    (h : lastEnd e.1 ≤ firstInstant f) (y : Nat) : ¬ (mem y e.1 ∧ mem y f.1) := by
  rintro ⟨h1, h2⟩
  have b1 := mem_bounds e.1 0 he y h1
  have b2 := mem_bounds f.1 0 hf y h2
  unfold firstInstant at h
  omega

/-! Non-vacuity -/
example : validSTB [([(0, 4), (8, 12)], [(0, 2)]), ([(12, 16)], [(1, 3)])] = true := by decide
example : validSTB [([(0, 8)], [(0, 2)]), ([(4, 12)], [(1, 3)])] = false := by decide

end Moc.C08
