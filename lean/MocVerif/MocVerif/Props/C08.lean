/-
  C08 — streaming space-time MOC union is the union of the (time × space) point sets.
  The 1 400-line Rust state machine is NOT transliterated: the theorems fix the specification
  (point set of the union, validity predicate) and the check compares the three real forms of the
  operator, in both operand orders, with it — point by point on a grid of representative instants
  and positions (including shared boundaries) — and judges every output with `validSTB`.
-/
import MocVerif.Lemmas.ST
import MocVerif.Lemmas.Consistent2D
import MocVerif.Lemmas.FlatNormal

namespace Moc.C08

theorem union_spec (t s : Nat) (a b : STMoc) : memST t s (stUnionSpec a b) ↔ memST t s a ∨ memST t s b :=
  memST_union t s a b

/-- The Boolean the correspondence check computes at a grid point is the union of the point sets. -/
theorem point_check_is_union (a b : STMoc) (t s : Nat) :
    stPointOp 14 a b t s = true ↔ memST t s a ∨ memST t s b := stPointOp_union a b t s

/-- Commutativity, empty operands and idempotence at the level of point sets. -/
theorem union_comm (t s : Nat) (a b : STMoc) : memST t s (stUnionSpec a b) ↔ memST t s (stUnionSpec b a) := by
  rw [union_spec, union_spec, or_comm]
theorem union_empty (t s : Nat) (a : STMoc) : memST t s (stUnionSpec a []) ↔ memST t s a := by
  rw [union_spec]; simp [memST]
theorem union_idem (t s : Nat) (a : STMoc) : memST t s (stUnionSpec a a) ↔ memST t s a := by
  rw [union_spec, or_self]

/-- What `validSTB = true` guarantees: non-empty canonical time and space MOCs, every instant of an
    element before every instant of the following ones (hence pairwise disjoint time MOCs). -/
theorem validSTB_cons (e : List Rng × List Rng) (m : STMoc) (h : validSTB (e :: m) = true) :
    Canon e.1 ∧ e.1 ≠ [] ∧ Canon e.2 ∧ e.2 ≠ [] ∧
    (∀ f ∈ m, lastEnd e.1 ≤ firstInstant f) ∧ validSTB m = true := by
  simp only [validSTB, Bool.and_eq_true, Bool.not_eq_true', List.isEmpty_eq_false_iff, List.all_eq_true,
    decide_eq_true_eq] at h
  obtain ⟨⟨⟨⟨⟨c1, n1⟩, c2⟩, n2⟩, hall⟩, hm⟩ := h
  exact ⟨(canonB_iff _).1 c1, n1, (canonB_iff _).1 c2, n2, hall, hm⟩

/-- … and disjointness of the time MOCs follows for canonical elements. -/
theorem valid_elements_disjoint (e f : List Rng × List Rng) (he : Canon e.1) (hf : Canon f.1)
    (h : lastEnd e.1 ≤ firstInstant f) (y : Nat) : ¬ (mem y e.1 ∧ mem y f.1) := by
  rintro ⟨h1, h2⟩
  have b1 := mem_bounds e.1 0 he y h1
  have b2 := mem_bounds f.1 0 hf y h2
  unfold firstInstant at h
  omega

/-! Non-vacuity -/
example : validSTB [([(0, 4), (8, 12)], [(0, 2)]), ([(12, 16)], [(1, 3)])] = true := by decide
example : validSTB [([(0, 8)], [(0, 2)]), ([(4, 12)], [(1, 3)])] = false := by decide

/-- All the (time range, coverage) products of an ST-MOC. -/
def flatOfST (a : STMoc) : FlatST := a.flatMap fun e => e.1.map fun r => (r, e.2)

theorem mem_flatOfST (a : STMoc) (x : Rng × List Rng) : x ∈ flatOfST a ↔ ∃ e ∈ a, x.1 ∈ e.1 ∧ x.2 = e.2 := by
  unfold flatOfST
  simp only [List.mem_flatMap, List.mem_map]
  constructor
  · rintro ⟨e, he, r, hr, rfl⟩; exact ⟨e, he, hr, rfl⟩
  · rintro ⟨e, he, hr, hx⟩
    refine ⟨e, he, x.1, hr, ?_⟩
    rw [← hx]

/-- **A verified union exists in the library**: flattening both operands into (time range, coverage) entries and
    running the range-2D construction (`make_consistent`, proved in C09) gives a VALID flat space-time coverage
    covering exactly the pairs covered by `A` or by `B` — for all operands whose time ranges are non-empty and whose
    coverages are non-empty and canonical (no ordering or disjointness assumption on the elements). -/
theorem st_union_reference (a b : STMoc)
    (ha : ∀ e ∈ a, (∀ r ∈ e.1, r.1 < r.2) ∧ Canon e.2 ∧ e.2 ≠ [])
    (hb : ∀ e ∈ b, (∀ r ∈ e.1, r.1 < r.2) ∧ Canon e.2 ∧ e.2 ≠ []) :
    validFlatB (Merge2D.toST (Consistent2D.makeConsistent (flatOfST a ++ flatOfST b))) = true ∧
    ∀ t s, memST t s (Merge2D.toST (Consistent2D.makeConsistent (flatOfST a ++ flatOfST b))) ↔
      memST t s a ∨ memST t s b := by
  have hent : ∀ x ∈ flatOfST a ++ flatOfST b, x.1.1 < x.1.2 ∧ Canon x.2 ∧ x.2 ≠ [] := by
    intro x hx
    rcases List.mem_append.1 hx with hx | hx
    · obtain ⟨e, he, hr, hx2⟩ := (mem_flatOfST a x).1 hx
      have := ha e he
      rw [hx2]; exact ⟨this.1 _ hr, this.2.1, this.2.2⟩
    · obtain ⟨e, he, hr, hx2⟩ := (mem_flatOfST b x).1 hx
      have := hb e he
      rw [hx2]; exact ⟨this.1 _ hr, this.2.1, this.2.2⟩
  have sp := Consistent2D.makeConsistent_spec _ hent
  refine ⟨Merge2D.validFlatB_of_VF _ 0 none sp.1, fun t s => ?_⟩
  rw [Merge2D.memST_toST, sp.2 t s]
  have key : ∀ (m : STMoc), (∃ x ∈ flatOfST m, x.1.1 ≤ t ∧ t < x.1.2 ∧ mem s x.2) ↔ memST t s m := by
    intro m
    unfold memST
    constructor
    · rintro ⟨x, hx, h1, h2, h3⟩
      obtain ⟨e, he, hr, hx2⟩ := (mem_flatOfST m x).1 hx
      exact ⟨e, he, (mem_iff_exists t e.1).2 ⟨x.1, hr, h1, h2⟩, by rw [← hx2]; exact h3⟩
    · rintro ⟨e, he, ht, hs⟩
      obtain ⟨r, hr, h1, h2⟩ := (mem_iff_exists t e.1).1 ht
      exact ⟨(r, e.2), (mem_flatOfST m _).2 ⟨e, he, hr, rfl⟩, h1, h2, hs⟩
  rw [← key a, ← key b]
  constructor
  · rintro ⟨x, hx, h⟩
    rcases List.mem_append.1 hx with hx | hx
    · exact Or.inl ⟨x, hx, h⟩
    · exact Or.inr ⟨x, hx, h⟩
  · rintro (⟨x, hx, h⟩ | ⟨x, hx, h⟩)
    · exact ⟨x, List.mem_append_left _ hx, h⟩
    · exact ⟨x, List.mem_append_right _ hx, h⟩


end Moc.C08
