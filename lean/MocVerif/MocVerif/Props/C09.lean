/-
  C09 — space-time MOC construction represents exactly the observations given.
  Specification: a pair is covered iff some observation covers it (`obsB`); the real builders (both
  streaming builders, all arrival orders / duplicates / capacities) and the range-2D path are
  compared with it point by point on a grid of representative instants and positions.
-/
import MocVerif.Lemmas.ST
import MocVerif.Lemmas.Consistent2D
import MocVerif.Lemmas.FlatNormal
import MocVerif.Lemmas.STBuilder

namespace Moc.C09

/-- The specification: exactly the union of the products (time range) × (space range). -/
theorem obs_spec (obs : List (Rng × Rng)) (t s : Nat) :
    obsB obs t s = true ↔ ∃ o ∈ obs, (o.1.1 ≤ t ∧ t < o.1.2) ∧ (o.2.1 ≤ s ∧ s < o.2.2) :=
  obsB_iff obs t s

/-- Order- and duplication-independence of the specification (hence of any construction path that
    agrees with it: the check establishes that agreement for the real code). -/
theorem obs_perm (a b : List (Rng × Rng)) (h : ∀ o, o ∈ a ↔ o ∈ b) (t s : Nat) : obsB a t s = obsB b t s := by
  rw [Bool.eq_iff_iff, obs_spec, obs_spec]
  constructor
  · rintro ⟨o, ho, hp⟩; exact ⟨o, (h o).1 ho, hp⟩
  · rintro ⟨o, ho, hp⟩; exact ⟨o, (h o).2 ho, hp⟩

theorem obs_dup (a : List (Rng × Rng)) (t s : Nat) : obsB (a ++ a) t s = obsB a t s :=
  obs_perm (a ++ a) a (fun o => by simp) t s

/-- **The range-2D construction path AS COMPUTED** (`Ranges2D::make_consistent`, behind
    `create_from_time_ranges_spatial_coverage`, transliterated in `Model/Consistent2D.lean` and tied to the code by
    exact agreement of the entries): for EVERY list of (time range, coverage) observations — any order,
    overlapping, touching, nested or duplicated time ranges — with non-empty time ranges and non-empty canonical
    coverages, the result covers exactly the union of the products: no pair is lost, none is invented … -/
theorem range2d_path_sem (entries : FlatST) (he : ∀ e ∈ entries, e.1.1 < e.1.2 ∧ Canon e.2 ∧ e.2 ≠ []) (t s : Nat) :
    memST t s (Merge2D.toST (Consistent2D.makeConsistent entries)) ↔
      ∃ e ∈ entries, (e.1.1 ≤ t ∧ t < e.1.2) ∧ mem s e.2 := by
  rw [Merge2D.memST_toST, (Consistent2D.makeConsistent_spec entries he).2 t s]
  constructor
  · rintro ⟨e, h, a, b, c⟩; exact ⟨e, h, ⟨a, b⟩, c⟩
  · rintro ⟨e, h, ⟨a, b⟩, c⟩; exact ⟨e, h, a, b, c⟩

/-- … it is a valid flat coverage (ordered disjoint non-empty time ranges, non-empty canonical coverages,
    touching ranges of equal coverage fused) … -/
theorem range2d_path_valid (entries : FlatST) (he : ∀ e ∈ entries, e.1.1 < e.1.2 ∧ Canon e.2 ∧ e.2 ≠ []) :
    validFlatB (Merge2D.toST (Consistent2D.makeConsistent entries)) = true :=
  Merge2D.validFlatB_of_VF _ 0 none (Consistent2D.makeConsistent_spec entries he).1

/-- **Every list of observations**, including an observation whose time range is empty (`tmin = tmax`: an instant
    written as a range) or whose coverage is empty: `create_from_time_ranges_spatial_coverage` /
    `create_from_time_ranges_positions` (repaired: such an observation is removed AS A WHOLE before the sweep) cover
    exactly the union of the products and give a valid flat coverage — the only hypothesis left is that each
    coverage is a canonical S-MOC.  Before /repo "fix: an empty time range shifted the positions of the following
    observations" the time ranges alone were filtered, so that [5,5)@1, [10,20)@2, [30,40)@3 gave [10,20)x{1},
    [30,40)x{2}; an empty coverage gave an element with an empty S-MOC. -/
theorem range2d_path_all_observations (entries : FlatST) (he : ∀ e ∈ entries, Canon e.2) :
    validFlatB (Merge2D.toST (Consistent2D.fromObservations entries)) = true ∧
    ∀ t s, memST t s (Merge2D.toST (Consistent2D.fromObservations entries)) ↔
      ∃ e ∈ entries, (e.1.1 ≤ t ∧ t < e.1.2) ∧ mem s e.2 := by
  have sp := Consistent2D.fromObservations_spec entries he
  refine ⟨Merge2D.validFlatB_of_VF _ 0 none sp.1, fun t s => ?_⟩
  rw [Merge2D.memST_toST, sp.2 t s]
  constructor
  · rintro ⟨e, h, a, b, c⟩; exact ⟨e, h, ⟨a, b⟩, c⟩
  · rintro ⟨e, h, ⟨a, b⟩, c⟩; exact ⟨e, h, a, b, c⟩

/-- … and the set covered does not depend on the order of the observations nor on duplicates. -/
theorem range2d_path_order_independent (a b : FlatST)
    (ha : ∀ e ∈ a, e.1.1 < e.1.2 ∧ Canon e.2 ∧ e.2 ≠ []) (hb : ∀ e ∈ b, e.1.1 < e.1.2 ∧ Canon e.2 ∧ e.2 ≠ [])
    (h : ∀ e, e ∈ a ↔ e ∈ b) (t s : Nat) :
    memST t s (Merge2D.toST (Consistent2D.makeConsistent a)) ↔
      memST t s (Merge2D.toST (Consistent2D.makeConsistent b)) := by
  rw [range2d_path_sem a ha, range2d_path_sem b hb]
  constructor
  · rintro ⟨e, he, hp⟩; exact ⟨e, (h e).1 he, hp⟩
  · rintro ⟨e, he, hp⟩; exact ⟨e, (h e).2 he, hp⟩

/-- By the normal-form theorem the ENTRIES themselves — not only the set covered — are independent of the order
    of the observations and of duplicates. -/
theorem range2d_path_entries_order_independent (a b : FlatST)
    (ha : ∀ e ∈ a, e.1.1 < e.1.2 ∧ Canon e.2 ∧ e.2 ≠ []) (hb : ∀ e ∈ b, e.1.1 < e.1.2 ∧ Canon e.2 ∧ e.2 ≠ [])
    (h : ∀ e, e ∈ a ↔ e ∈ b) : Consistent2D.makeConsistent a = Consistent2D.makeConsistent b := by
  have x := Consistent2D.makeConsistent_spec a ha
  have y := Consistent2D.makeConsistent_spec b hb
  refine Merge2D.VF.ext _ _ 0 none x.1 y.1 (fun t s => ?_)
  rw [x.2, y.2]
  constructor
  · rintro ⟨e, he, hp⟩; exact ⟨e, (h e).1 he, hp⟩
  · rintro ⟨e, he, hp⟩; exact ⟨e, (h e).2 he, hp⟩

/-- The defect found in `Ranges2D::make_consistent` (seeding the open set with entry 0), as a theorem
    about the specification: with `[(10..20, S0), (0..5, S1)]` the instant 7 is covered by nothing —
    the original code returned `[0,20) × S0` (S1 lost, `[5,10) × S0` invented). -/
theorem make_consistent_counterexample :
    obsB [((10, 20), (0, 4)), ((0, 5), (8, 12))] 7 1 = false ∧
    obsB [((10, 20), (0, 4)), ((0, 5), (8, 12))] 2 9 = true := by decide

/-! ### The streaming builder on (time cell, space cell) observations: what one buffer becomes -/
section Buffer
open Moc.STBuilder

/-- **A drained buffer represents exactly its observations**: the elements `buff_to_moc` builds from a buffer
    of `(time cell, space cell)` observations — the space cells of one time cell gathered, consecutive time
    cells with the same coverage grouped — cover a pair `(t, s)` if and only if it was pushed, whatever the
    order, the duplicates and the number of observations. -/
theorem buffer_elements_exact (buf : List (Nat × Nat)) (t s : Nat) :
    InElems (buffToElems buf) t s ↔ (t, s) ∈ buf :=
  buffToElems_sem buf t s

/-- The intermediate groups hold one entry per time cell, in increasing order, and two consecutive elements
    never carry the same space coverage (the form the library's other constructors produce). -/
theorem buffer_elements_canonical (buf : List (Nat × Nat)) :
    STBuilder.SortedFrom 0 (groups buf) ∧ Alternating (buffToElems buf) :=
  ⟨groups_sorted buf, mergeRuns_alternating _⟩

/-- The result does not depend on the order of the pushes nor on repetitions (same set of observations,
    same covered pairs). -/
theorem buffer_elements_order_independent (b1 b2 : List (Nat × Nat)) (h : ∀ o, o ∈ b1 ↔ o ∈ b2) (t s : Nat) :
    InElems (buffToElems b1) t s ↔ InElems (buffToElems b2) t s := by
  rw [buffToElems_sem, buffToElems_sem]; exact h (t, s)

example : buffToElems [(5, 3), (2, 3), (2, 1), (5, 3), (6, 3), (9, 1)] = [([2], [1, 3]), ([5, 6], [3]), ([9], [1])] := by decide

end Buffer

end Moc.C09
