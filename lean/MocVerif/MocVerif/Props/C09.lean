/-
  C09 — space-time MOC construction represents exactly the observations given.
  Specification: a pair is covered iff some observation covers it (`obsB`); the real builders (both
  streaming builders, all arrival orders / duplicates / capacities) and the range-2D path are
  compared with it point by point on a grid of representative instants and positions.
-/
import MocVerif.Lemmas.ST

namespace Moc.C09

/-- The specification: exactly the union of the products (time range) × (space range). -/
theorem obs_spec (obs : List (Rng × Rng)) (t s : Nat) :
    obsB obs t s = true ↔ ∃ o ∈ obs, (o.1.1 ≤ t ∧ t < o.1.2) ∧ (o.2.1 ≤ s ∧ s < o.2.2) :=
  obsB_iff obs t s

/-- Order- and duplication-independence of the specification (hence of any construction path that
    agrees with it: the check establishes that agreement for the real code). -/
theorem obs_perm (a b : List (Rng × Rng)) (h : ∀ o, o ∈ a ↔ o ∈ b) (t s : Nat) : obsB a t s = obsB b t s := by
  rw [Bool.eq_iff_iff, obs_spec, obs_spec]
  constructor
  · rintro ⟨o, ho, hp⟩; exact ⟨o, (h o).1 ho, hp⟩
  · rintro ⟨o, ho, hp⟩; exact ⟨o, (h o).2 ho, hp⟩

theorem obs_dup (a : List (Rng × Rng)) (t s : Nat) : obsB (a ++ a) t s = obsB a t s :=
  obs_perm (a ++ a) a (fun o => by simp) t s

/-- The defect found in `Ranges2D::make_consistent` (seeding the open set with entry 0), as a theorem
    about the specification: with `[(10..20, S0), (0..5, S1)]` the instant 7 is covered by nothing —
    the original code returned `[0,20) × S0` (S1 lost, `[5,10) × S0` invented). -/
theorem make_consistent_counterexample :
    obsB [((10, 20), (0, 4)), ((0, 5), (8, 12))] 7 1 = false ∧
    obsB [((10, 20), (0, 4)), ((0, 5), (8, 12))] 2 9 = true := by decide

end Moc.C09
