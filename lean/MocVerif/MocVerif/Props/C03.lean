/-
  C03 — membership, containment, overlap and measure queries agree with the covered set.

  Proved here (all canonical MOCs, all queries): point membership, range containment, range overlap,
  MOC overlap, subset test, list of overlapped ranges (total, incl. empty operands).
  The floating-point outputs (fractions, percentage, weighted sums) are modelled as exact integer
  pairs and tied by the correspondence check only (`…` listed as partial in DESIGN.md).
-/
import MocVerif.Lemmas.Query

namespace Moc.C03

/-- `contains_val`: binary search on the flattened bounds + parity. -/
theorem containsVal_iff (m : List Rng) (hm : Canon m) (x : Nat) : containsVal m x = true ↔ mem x m :=
  Moc.containsVal_iff m hm x

/-- `contains_range` (also `contains_cell`): every index of the (non-empty) query range is covered. -/
theorem containsRange_iff (m : List Rng) (hm : Canon m) (x : Rng) (hx : x.1 < x.2) :
    containsRange m x = true ↔ ∀ y, x.1 ≤ y → y < x.2 → mem y m :=
  Moc.containsRange_iff m hm x hx

/-- `intersects_range`: some index of the query range is covered. -/
theorem intersectsRange_iff (m : List Rng) (hm : Canon m) (x : Rng) (hx : x.1 < x.2) :
    intersectsRange m x = true ↔ ∃ y, x.1 ≤ y ∧ y < x.2 ∧ mem y m :=
  Moc.intersectsRange_iff m hm x hx

/-- `intersects` (incl. quick rejection and binary-search start). -/
theorem intersects_iff (a b : List Rng) (ha : Canon a) (hb : Canon b) :
    intersects a b = true ↔ ∃ y, mem y a ∧ mem y b :=
  Moc.intersects_iff a b ha hb

/-- `contains(rhs)`: sub-set test. -/
theorem subset_iff (m rhs : List Rng) (hm : Canon m) (hr : Canon rhs) :
    containsAll m rhs = true ↔ ∀ y, mem y rhs → mem y m :=
  Moc.containsAll_iff m rhs hm hr

/-- `overlapped_by_iter` (repaired): the ranges of `a` that meet `b`, in order — a total function,
    in particular on empty operands. -/
theorem overlappedBy_eq (a b : List Rng) (ha : Canon a) (hb : Canon b) :
    overlappedBy a b = a.filter (meetsB b) :=
  Moc.overlappedBy_eq a b ha hb

/-- None of the modelled queries fails on an empty MOC: their answers there are the trivial ones. -/
theorem empty_moc_answers (x : Nat) (r : Rng) (b : List Rng) :
    containsVal [] x = false ∧ containsRange [] r = false ∧ intersectsRange [] r = false ∧
    intersects [] b = false ∧ intersects b [] = false ∧ overlappedBy [] b = [] ∧ overlappedBy b [] = [] ∧
    rangeSum [] = 0 ∧ rangeFractionPair [] r = (0, 1) := by
  refine ⟨rfl, rfl, rfl, rfl, ?_, rfl, ?_, rfl, rfl⟩
  · cases b <;> rfl
  · cases b <;> rfl

/-! Non-vacuity -/
example : Canon [(2, 4), (8, 12)] := by decide
example : containsVal [(2, 4), (8, 12)] 3 = true ∧ containsVal [(2, 4), (8, 12)] 4 = false := by decide
example : containsRange [(2, 4), (8, 12)] (8, 12) = true ∧ intersectsRange [(2, 4), (8, 12)] (4, 8) = false := by
  decide

end Moc.C03
