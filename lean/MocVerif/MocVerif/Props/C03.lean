/-
  C03 — membership, containment, overlap and measure queries agree with the covered set.

  Proved here (all canonical MOCs, all queries): point membership, range containment, range overlap,
  MOC overlap, subset test, list of overlapped ranges (total, incl. empty operands).
  Measures: `range_sum` = number of covered indices; the integer pair `range_fraction` divides is
  determined by the number of covered indices of the query (0 and 1 exactly for uncovered / fully
  covered queries); cell count × cell size = covered indices.  The final `f64` division and the
  multi-order-map weighted sum are compared bit-for-bit by the correspondence (not modelled in Lean).
-/
import MocVerif.Lemmas.Query
import MocVerif.Lemmas.Measure
import MocVerif.Lemmas.CellView

namespace Moc.C03

/-- `contains_val`: binary search on the flattened bounds + parity. -/
theorem containsVal_iff (m : List Rng) (hm : Canon m) (x : Nat) : containsVal m x = true ↔ mem x m :=
  Moc.containsVal_iff m hm x

/-- `contains_range` (also `contains_cell`): every index of the (non-empty) query range is covered. -/
theorem containsRange_iff (m : List Rng) (hm : Canon m) (x : Rng) (hx : x.1 < x.2) :
    containsRange m x = true ↔ ∀ y, x.1 ≤ y → y < x.2 → mem y m :=
  Moc.containsRange_iff m hm x hx

/-- `intersects_range`: some index of the query range is covered. -/
theorem intersectsRange_iff (m : List Rng) (hm : Canon m) (x : Rng) (hx : x.1 < x.2) :
    intersectsRange m x = true ↔ ∃ y, x.1 ≤ y ∧ y < x.2 ∧ mem y m :=
  Moc.intersectsRange_iff m hm x hx

/-- `intersects` (incl. quick rejection and binary-search start). -/
theorem intersects_iff (a b : List Rng) (ha : Canon a) (hb : Canon b) :
    intersects a b = true ↔ ∃ y, mem y a ∧ mem y b :=
  Moc.intersects_iff a b ha hb

/-- `contains(rhs)`: sub-set test. -/
theorem subset_iff (m rhs : List Rng) (hm : Canon m) (hr : Canon rhs) :
    containsAll m rhs = true ↔ ∀ y, mem y rhs → mem y m :=
  Moc.containsAll_iff m rhs hm hr

/-- `overlapped_by_iter` (repaired): the ranges of `a` that meet `b`, in order — a total function,
    in particular on empty operands. -/
theorem overlappedBy_eq (a b : List Rng) (ha : Canon a) (hb : Canon b) :
    overlappedBy a b = a.filter (meetsB b) :=
  Moc.overlappedBy_eq a b ha hb

/-- None of the modelled queries fails on an empty MOC: their answers there are the trivial ones. -/
theorem empty_moc_answers (x : Nat) (r : Rng) (b : List Rng) :
    containsVal [] x = false ∧ containsRange [] r = false ∧ intersectsRange [] r = false ∧
    intersects [] b = false ∧ intersects b [] = false ∧ overlappedBy [] b = [] ∧ overlappedBy b [] = [] ∧
    rangeSum [] = 0 ∧ rangeFractionPair [] r = (0, 1) := by
  refine ⟨rfl, rfl, rfl, rfl, ?_, rfl, ?_, rfl, rfl⟩
  · cases b <;> rfl
  · cases b <;> rfl

/-- **`range_sum`** is the number of indices the MOC covers (`N` = any bound of the domain). -/
theorem rangeSum_counts (m : List Rng) (hm : Canon m) (N : Nat) (hN : ∀ r ∈ m, r.2 ≤ N) :
    (List.range N).countP (fun y => decide (mem y m)) = rangeSum m := by
  have := rangeSum_counts_from m 0 N hm hN (Nat.zero_le _)
  unfold coveredIn at this
  rw [List.range_eq_range']
  simpa using this

/-- **Covered fraction of a range / cell**: the pair `(num, den)` handed to the final `f64` division is a
    function of the number `c` of covered indices of the query `x` only: `(0,1)` — the literal `0.0` — iff
    `c = 0`; `(1,1)` — the literal `1.0` — iff `c = |x|`; otherwise `c / |x|`, both shifted alike when `|x|`
    does not fit in 52 bits.  (Quick rejection, binary-search start index and the accumulation loop are all
    part of the modelled function.) -/
theorem rangeFraction_sem (m : List Rng) (hm : Canon m) (x : Rng) (hx : x.1 < x.2) :
    rangeFractionPair m x =
      (let c := (List.range' x.1 (x.2 - x.1)).countP (fun y => decide (mem y m))
       let tot := x.2 - x.1
       if c = 0 then (0, 1)
       else if c = tot then (1, 1)
       else if tot >>> 52 > 0 then (c >>> bitLen (tot >>> 52), tot >>> bitLen (tot >>> 52))
       else (c, tot)) :=
  rangeFractionPair_spec m hm x hx

/-- **Cell count at maximum depth**: when every bound is a multiple of the cell size `2^shift` (the MOC is
    valid at that depth), cell count × cell size = `range_sum` = number of covered indices. -/
theorem cellCount_sem (shift : Nat) (m : List Rng)
    (ha : ∀ r ∈ m, r.1 ≤ r.2 ∧ r.1 % 2 ^ shift = 0 ∧ r.2 % 2 ^ shift = 0) :
    nDepthMaxCells shift m * 2 ^ shift = rangeSum m := by
  unfold nDepthMaxCells
  rw [Nat.shiftRight_eq_div_pow]
  apply Nat.div_mul_cancel
  induction m with
  | nil => simp [rangeSum]
  | cons r t ih =>
    simp only [rangeSum]
    have h := ha r List.mem_cons_self
    apply Nat.dvd_add
    · exact Nat.dvd_sub (Nat.dvd_of_mod_eq_zero h.2.2) (Nat.dvd_of_mod_eq_zero h.2.1)
    · exact ih (fun q hq => ha q (List.mem_cons_of_mem _ hq))

/-- **Coverage percentage**: the pair divided is (covered indices, domain size), both shifted alike on
    index types wider than 52 bits. -/
theorem coverage_sem (w ub : Nat) (m : List Rng) :
    coveragePair w ub m = if w > 52 then (rangeSum m >>> (w - 52), ub >>> (w - 52)) else (rangeSum m, ub) := rfl

/-! Non-vacuity -/
example : Canon [(2, 4), (8, 12)] := by decide
example : containsVal [(2, 4), (8, 12)] 3 = true ∧ containsVal [(2, 4), (8, 12)] 4 = false := by decide
example : containsRange [(2, 4), (8, 12)] (8, 12) = true ∧ intersectsRange [(2, 4), (8, 12)] (4, 8) = false := by
  decide

/-- **`first_index` / `last_index`**: on a canonical MOC the first index is the smallest covered index and
    `last_index − 1` is the largest one (`last_index` is the exclusive end of the last range); both are absent
    exactly for the empty MOC. -/
theorem first_last_index (l : List Rng) (hc : Canon l) :
    (∀ a, firstIndex l = some a → mem a l ∧ ∀ x, mem x l → a ≤ x) ∧
    (∀ b, lastIndex l = some b → (∃ x, mem x l ∧ x + 1 = b) ∧ ∀ x, mem x l → x < b) ∧
    (firstIndex l = none ↔ l = []) ∧ (lastIndex l = none ↔ l = []) := by
  refine ⟨?_, ?_, ?_, ?_⟩
  · intro a ha
    cases l with
    | nil => simp [firstIndex] at ha
    | cons r t =>
      simp only [firstIndex, List.head?_cons, Option.map_some, Option.some.injEq] at ha
      subst ha
      have h := hc
      simp only [Canon, CanonFrom] at h
      refine ⟨Or.inl ⟨Nat.le_refl _, h.2.1⟩, ?_⟩
      intro x hx
      simp only [mem] at hx
      rcases hx with hx | hx
      · exact hx.1
      · have := h.2.2.lb hx; omega
  · intro b hb
    have key : ∀ (l : List Rng) (lo : Nat), CanonFrom lo l → ∀ b, l.getLast?.map (·.2) = some b →
        (∃ x, mem x l ∧ x + 1 = b) ∧ ∀ x, mem x l → x < b := by
      intro l
      induction l with
      | nil => intro _ _ b hb; simp at hb
      | cons r t ih =>
        intro lo h b hb
        cases t with
        | nil =>
          simp only [List.getLast?_singleton, Option.map_some, Option.some.injEq] at hb
          subst hb
          refine ⟨⟨r.2 - 1, Or.inl ⟨by have := h.2.1; omega, by have := h.2.1; omega⟩, by have := h.2.1; omega⟩, ?_⟩
          intro x hx
          simp only [mem] at hx
          rcases hx with hx | hx
          · exact hx.2
          · exact hx.elim
        | cons r2 t2 =>
          have hb' : (r2 :: t2).getLast?.map (·.2) = some b := by simpa [List.getLast?_cons_cons] using hb
          obtain ⟨⟨x0, hx0, hx0b⟩, hall⟩ := ih _ h.2.2 b hb'
          refine ⟨⟨x0, Or.inr hx0, hx0b⟩, ?_⟩
          intro x hx
          simp only [mem] at hx
          rcases hx with hx | hx
          · have := h.2.2.lb hx0
            omega
          · exact hall x (by simpa [mem] using hx)
    exact key l 0 hc b hb
  · cases l <;> simp [firstIndex]
  · cases l with
    | nil => simp [lastIndex]
    | cons r t =>
      simp only [lastIndex, reduceCtorEq, iff_false]
      cases h : (r :: t).getLast? with
      | none => simp at h
      | some v => simp

theorem dvd_or (k a b : Nat) : 2 ^ k ∣ (a ||| b) ↔ 2 ^ k ∣ a ∧ 2 ^ k ∣ b := by
  simp only [Nat.dvd_iff_mod_eq_zero, Nat.or_mod_two_pow, Nat.or_eq_zero_iff]

theorem dvd_orBounds (k : Nat) : ∀ (l : List Rng), 2 ^ k ∣ orBounds l ↔ Aligned (2 ^ k) l := by
  intro l
  induction l with
  | nil => simp [orBounds, Aligned]
  | cons r t ih =>
    simp only [orBounds, dvd_or, ih, Aligned, List.mem_cons, forall_eq_or_imp, and_assoc]

/-- **`compute_min_depth` is the smallest depth at which the ranges are a union of whole cells**: for every legal
    depth `d`, all the bounds are aligned on the cells of depth `d` if and only if `d ≥ compute_min_depth` — computed,
    as the code does, from the trailing zeros of the OR of all the bounds (0 for the empty MOC). -/
theorem computeMinDepth_spec (q : Qty) (w : Nat) (l : List Rng) (hdim : 0 < q.dim) (hw : q.dim * q.maxDepth w ≤ w)
    (d : Nat) (hd : d ≤ q.maxDepth w) :
    Aligned (2 ^ q.shiftFromMax w d) l ↔ computeMinDepth q w l ≤ d := by
  rw [← dvd_orBounds]
  have hk : q.shiftFromMax w d ≤ w := by
    unfold Qty.shiftFromMax
    have : q.dim * (q.maxDepth w - d) ≤ q.dim * q.maxDepth w := Nat.mul_le_mul_left _ (by omega)
    omega
  have h1 : 2 ^ q.shiftFromMax w d ∣ orBounds l ↔ q.shiftFromMax w d ≤ tz w (orBounds l) :=
    ⟨fun h => le_tz_of_dvd w _ _ h hk, fun h => Nat.dvd_trans (Nat.pow_dvd_pow 2 h) (tz_dvd w _)⟩
  rw [h1]
  unfold computeMinDepth Qty.shiftFromMax
  have h2 : q.dim * (q.maxDepth w - d) ≤ tz w (orBounds l) ↔ q.maxDepth w - d ≤ tz w (orBounds l) / q.dim := by
    rw [Nat.le_div_iff_mul_le hdim, Nat.mul_comm]
  rw [h2]
  generalize tz w (orBounds l) / q.dim = t
  omega

end Moc.C03
