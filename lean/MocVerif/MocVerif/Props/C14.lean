/-
  C14 — a moc-set file always reflects the history of updates applied to it.
  Theorems about the reference state machine (`Model/MocSet.lean`) and, since session 5, about the FILE
  (`Model/MocSetFile.lean`: metadata / index words, data bytes): every command on the file commutes with the
  reader's abstraction map (`file_*_refines`, `file_history_refines`).  The real `mocset` binary is compared
  with both after EVERY command of generated histories (exit status + `list` rows, the file word for word,
  file bytes unchanged on refusal, `extract` = the MOC added) by the correspondence check.
-/
import MocVerif.Lemmas.Canon
import MocVerif.Model.MocSet
import MocVerif.Model.Params
import MocVerif.Lemmas.MocSetFile

namespace Moc.C14

/-- At most one live (valid or deprecated) entry per identifier. -/
def NoDupLive (s : MocSet) : Prop :=
  ∀ id, ((s.entries.filter fun e => e.id == id && e.status > 1).length ≤ 1)

/-- A refused append leaves the state unchanged. -/
theorem append_refused_unchanged (s : MocSet) (e : MsEntry) (h : (msAppend s e).2 = false) :
    (msAppend s e).1 = s := by
  unfold msAppend at h ⊢
  split
  · rfl
  · split
    · rfl
    · rename_i h1 h2; simp [h1, h2] at h

/-- **Command-line domain**: an identifier beyond 48 bits and the status `void` are refused and the file is unchanged; inside
    the domain the commands are `append` / `chgstatus`.  (`mocset append set.bin 2^48+1` used to be stored as a second live
    `1`; `chgstatus void` used to panic with the lock file left behind.) -/
theorem cmd_domain (s : MocSet) (e : MsEntry) (st : Nat) (ids : List Nat) :
    (e.id > idMask → msAppendCmd s e = (s, false)) ∧ (e.id ≤ idMask → msAppendCmd s e = msAppend s e) ∧
    msChgStatusCmd s 0 ids = (s, false) ∧ (st ≠ 0 → msChgStatusCmd s st ids = msChgStatus s st ids) := by
  refine ⟨fun h => ?_, fun h => ?_, ?_, fun h => ?_⟩
  · simp [msAppendCmd, h]
  · have : ¬ e.id > idMask := by omega
    simp [msAppendCmd, this]
  · simp [msChgStatusCmd]
  · simp [msChgStatusCmd, h]

/-- An append is refused exactly when the identifier is live or the file is full. -/
theorem append_ok_iff (s : MocSet) (e : MsEntry) :
    (msAppend s e).2 = true ↔
      (¬ ∃ x ∈ s.entries, x.id = e.id ∧ x.status > 1) ∧ s.entries.length < s.cap := by
  unfold msAppend
  by_cases h1 : s.entries.any (fun x => x.id == e.id && x.status > 1) = true
  · simp only [h1, if_true]
    simp only [List.any_eq_true] at h1
    obtain ⟨x, hx, hp⟩ := h1
    simp at hp
    constructor
    · intro h; simp at h
    · rintro ⟨hn, _⟩; exact absurd ⟨x, hx, hp.1, hp.2⟩ hn
  · simp only [h1]
    have hn : ¬ ∃ x ∈ s.entries, x.id = e.id ∧ x.status > 1 := by
      rintro ⟨x, hx, h2, h3⟩
      apply h1
      simp only [List.any_eq_true]
      exact ⟨x, hx, by simp [h2, h3]⟩
    by_cases h2 : s.entries.length ≥ s.cap
    · simp [h2]
    · simp [h2, hn]; omega

/-- So an identifier can be re-added once removed, but not while valid or deprecated; a successful
    append adds exactly the new entry at the end. -/
theorem append_adds_last (s : MocSet) (e : MsEntry) (h : (msAppend s e).2 = true) :
    (msAppend s e).1.entries = s.entries ++ [e] := by
  unfold msAppend at h ⊢
  split
  · rename_i h1; simp [h1] at h
  · split
    · rename_i h1 h2; simp [h1, h2] at h
    · rfl

/-- Uniqueness of live identifiers is an invariant of `append`. -/
theorem append_noDupLive (s : MocSet) (e : MsEntry) (hs : NoDupLive s) (he : e.status > 1) :
    NoDupLive (msAppend s e).1 := by
  by_cases hok : (msAppend s e).2 = true
  · intro id
    rw [append_adds_last s e hok, List.filter_append, List.length_append]
    have hno := ((append_ok_iff s e).1 hok).1
    by_cases hid : e.id = id
    · have : (s.entries.filter fun x => x.id == id && x.status > 1) = [] := by
        rw [List.filter_eq_nil_iff]
        intro x hx hp
        simp at hp
        exact hno ⟨x, hx, by rw [hp.1, hid], hp.2⟩
      rw [this]; simp [hid, he]
    · have : ([e].filter fun x => x.id == id && x.status > 1) = [] := by simp [hid]
      rw [this]; simp; exact hs id
  · have := append_refused_unchanged s e (by simpa using hok)
    rw [this]; exact hs

/-- `purge` physically drops the removed MOCs and nothing else (order of the others preserved). -/
theorem purge_drops_removed_only (s : MocSet) (n : Option Nat) :
    (msPurge s n).1.entries = s.entries.filter (·.status > 1) ∧
    ∀ e, e ∈ (msPurge s n).1.entries ↔ e ∈ s.entries ∧ e.status > 1 := by
  refine ⟨rfl, fun e => ?_⟩
  show e ∈ s.entries.filter (·.status > 1) ↔ _
  simp [List.mem_filter]

/-- `list` shows exactly the entries: identifier, status, depth, number of ranges, byte size
    (`n_ranges · 2 · 4` bytes when `depth ≤ 13`, `· 8` otherwise). -/
theorem list_exact (s : MocSet) :
    msList s = s.entries.map fun e => (e.id, e.status, e.depth, e.ranges.length, e.ranges.length * 2 * elemBytes e.depth) :=
  rfl

/-- `extract` returns the live entry registered under the identifier. -/
theorem extract_returns_live (s : MocSet) (id : Nat) (e : MsEntry) (h : msExtract s id = some e) :
    e ∈ s.entries ∧ e.id = id ∧ e.status > 1 := by
  unfold msExtract at h
  have h1 := List.mem_of_find?_eq_some h
  have h2 := List.find?_some h
  simp at h2
  exact ⟨h1, h2.1, h2.2⟩

/-! Non-vacuity -/
example : NoDupLive { n128 := 1, entries := [⟨1, 3, 5, []⟩, ⟨1, 1, 5, []⟩, ⟨2, 2, 14, [(0, 16)]⟩] } := by
  intro id
  by_cases h1 : id = 1
  · subst h1; decide
  · by_cases h2 : id = 2
    · subst h2; decide
    · simp [h1, h2, Ne.symm h1, Ne.symm h2]

end Moc.C14

namespace Moc.C14

/-! ### `extract` as an abstraction map: every command commutes with it -/

/-- After a successful append the new MOC is what `extract` returns under its identifier … -/
theorem extract_after_append_same (s : MocSet) (e : MsEntry) (h : (msAppend s e).2 = true) (he : e.status > 1) :
    msExtract (msAppend s e).1 e.id = some e := by
  have hno := ((append_ok_iff s e).1 h).1
  unfold msExtract
  rw [append_adds_last s e h, List.find?_append]
  have : s.entries.find? (fun x => x.id == e.id && x.status > 1) = none := by
    rw [List.find?_eq_none]
    intro x hx hp
    simp at hp
    exact hno ⟨x, hx, hp.1, hp.2⟩
  rw [this]
  simp [he]

/-- … and every other identifier is unaffected (whether the append succeeds or not). -/
theorem extract_after_append_other (s : MocSet) (e : MsEntry) (id : Nat) (hid : e.id ≠ id) :
    msExtract (msAppend s e).1 id = msExtract s id := by
  by_cases h : (msAppend s e).2 = true
  · unfold msExtract
    rw [append_adds_last s e h, List.find?_append]
    cases hf : s.entries.find? (fun x => x.id == id && x.status > 1) with
    | some x => rfl
    | none => simp [hid]
  · rw [append_refused_unchanged s e (by simpa using h)]

theorem chgEntry_id (st : Nat) (ids : List Nat) (x : MsEntry) : (chgEntry st ids x).id = x.id := by
  unfold chgEntry; split <;> rfl
theorem chgEntry_depth (st : Nat) (ids : List Nat) (x : MsEntry) : (chgEntry st ids x).depth = x.depth := by
  unfold chgEntry; split <;> rfl
theorem chgEntry_ranges (st : Nat) (ids : List Nat) (x : MsEntry) : (chgEntry st ids x).ranges = x.ranges := by
  unfold chgEntry; split <;> rfl
theorem chgEntry_hit (st : Nat) (ids : List Nat) (x : MsEntry) (h1 : x.status > 1) (h2 : x.id ∈ ids) :
    chgEntry st ids x = { x with status := st } := by
  unfold chgEntry; simp [h1, h2]
theorem chgEntry_dead (st : Nat) (ids : List Nat) (x : MsEntry) (h1 : ¬ x.status > 1) : chgEntry st ids x = x := by
  unfold chgEntry; simp [h1]
theorem chgEntry_miss (st : Nat) (ids : List Nat) (x : MsEntry) (h2 : x.id ∉ ids) : chgEntry st ids x = x := by
  unfold chgEntry; simp [h2]

/-- `chgstatus`: a listed live identifier gets the new status (and disappears from `extract` when the new
    status is `removed`); the MOC itself (depth, ranges) is untouched; other identifiers are unaffected. -/
theorem extract_after_chg (s : MocSet) (st : Nat) (ids : List Nat) (id : Nat) :
    msExtract (msChgStatus s st ids).1 id =
      if id ∈ ids then
        (if st > 1 then (msExtract s id).map (fun x => { x with status := st }) else none)
      else msExtract s id := by
  unfold msExtract msChgStatus
  simp only []
  induction s.entries with
  | nil => simp
  | cons x t ih =>
    rw [List.map_cons, List.find?_cons, List.find?_cons]
    by_cases hid : x.id = id
    · by_cases hl : x.status > 1
      · by_cases hc : x.id ∈ ids
        · rw [chgEntry_hit st ids x hl hc]
          have hc' : id ∈ ids := by rw [← hid]; exact hc
          by_cases hst : st > 1
          · simp [hid, hl, hst, hc']
          · simp only [hid, hl, hst, hc', beq_self_eq_true, decide_true, decide_false, Bool.and_false, Bool.and_true, if_true, if_false]
            rw [ih]; simp [hc', hst]
        · have hc' : id ∉ ids := by rw [← hid]; exact hc
          rw [chgEntry_miss st ids x hc]
          simp [hid, hl, hc']
      · rw [chgEntry_dead st ids x hl]
        simp only [hl, decide_false, Bool.and_false]
        exact ih
    · have hne : (x.id == id) = false := by simpa using hid
      simp only [chgEntry_id, hne, Bool.false_and]
      exact ih

/-- `chgstatus` on identifiers none of which is live leaves the file unchanged. -/
theorem chg_unknown_unchanged (s : MocSet) (st : Nat) (ids : List Nat)
    (h : ∀ x ∈ s.entries, x.status > 1 → x.id ∉ ids) : (msChgStatus s st ids).1 = s := by
  unfold msChgStatus
  simp only []
  have : s.entries.map (chgEntry st ids) = s.entries := by
    conv => rhs; rw [← List.map_id s.entries]
    apply List.map_congr_left
    intro x hx
    by_cases hl : x.status > 1
    · exact chgEntry_miss st ids x (h x hx hl)
    · exact chgEntry_dead st ids x hl
  rw [this]

/-- `purge` changes nothing that `extract` can see. -/
theorem extract_after_purge (s : MocSet) (n : Option Nat) (id : Nat) :
    msExtract (msPurge s n).1 id = msExtract s id := by
  unfold msExtract msPurge
  simp only []
  induction s.entries with
  | nil => rfl
  | cons x t ih =>
    by_cases hl : x.status > 1
    · simp only [List.filter_cons, hl, decide_true, if_true, List.find?_cons]
      split
      · rfl
      · exact ih
    · simp only [List.filter_cons, hl, decide_false, List.find?_cons, Bool.and_false]
      exact ih

/-- `chgstatus` and `purge` never change the identifier, depth or ranges of an entry. -/
def SameMoc (a b : MsEntry) : Prop := a.id = b.id ∧ a.depth = b.depth ∧ a.ranges = b.ranges

/-! ### whole histories -/

theorem chg_noDupLive (s : MocSet) (st : Nat) (ids : List Nat) (hs : NoDupLive s) :
    NoDupLive (msChgStatus s st ids).1 := by
  intro id
  refine Nat.le_trans ?_ (hs id)
  unfold msChgStatus
  simp only []
  induction s.entries with
  | nil => simp
  | cons x t ih =>
    rw [List.map_cons, List.filter_cons, List.filter_cons]
    by_cases hl : x.status > 1
    · by_cases hc : x.id ∈ ids
      · rw [chgEntry_hit st ids x hl hc]
        by_cases hp : (x.id == id) = true
        · simp only [hp, hl, decide_true, Bool.true_and, if_true]
          split
          · simp only [List.length_cons]; omega
          · simp only [List.length_cons]; omega
        · simp only [hp, Bool.false_and]
          exact ih
      · rw [chgEntry_miss st ids x hc]
        split
        · simp only [List.length_cons]; omega
        · exact ih
    · rw [chgEntry_dead st ids x hl]
      split
      · simp only [List.length_cons]; omega
      · exact ih

theorem purge_noDupLive (s : MocSet) (n : Option Nat) (hs : NoDupLive s) : NoDupLive (msPurge s n).1 := by
  intro id
  refine Nat.le_trans (Nat.le_of_eq ?_) (hs id)
  unfold msPurge
  simp only [List.filter_filter]
  congr 1
  apply List.filter_congr
  intro x _
  by_cases hl : x.status > 1 <;> simp [hl]

/-- **Every history**: at most one live entry per identifier, whatever commands were applied
    (appended MOCs are added as valid / deprecated). -/
theorem history_noDupLive (cs : List MsCmd) : ∀ (s : MocSet), NoDupLive s →
    (∀ c ∈ cs, ∀ e, c = .append e → e.status > 1) → NoDupLive (msRun s cs) := by
  induction cs with
  | nil => intro s hs _; exact hs
  | cons c t ih =>
    intro s hs hc
    apply ih
    · cases c with
      | append e => exact append_noDupLive s e hs (hc _ List.mem_cons_self e rfl)
      | chg st ids => exact chg_noDupLive s st ids hs
      | purge n => exact purge_noDupLive s n hs
    · intro c' hc' e he; exact hc c' (List.mem_cons_of_mem _ hc') e he

/-- **Every history**: whatever `extract` returns under an identifier is — up to its status — an entry of
    the initial file or a MOC that an `append` command of the history added under that identifier:
    no command ever alters, swaps or invents a MOC. -/
theorem history_extract_origin (cs : List MsCmd) : ∀ (s : MocSet) (id : Nat) (x : MsEntry),
    msExtract (msRun s cs) id = some x →
    (∃ y ∈ s.entries, SameMoc x y) ∨ (∃ e, MsCmd.append e ∈ cs ∧ SameMoc x e) := by
  induction cs with
  | nil =>
    intro s id x h
    exact Or.inl ⟨x, (extract_returns_live s id x h).1, rfl, rfl, rfl⟩
  | cons c t ih =>
    intro s id x h
    have key : ∀ y ∈ (msStep s c).entries, (∃ z ∈ s.entries, SameMoc y z) ∨ (∃ e, c = .append e ∧ SameMoc y e) := by
      intro y hy
      cases c with
      | append e =>
        simp only [msStep] at hy
        by_cases hok : (msAppend s e).2 = true
        · rw [append_adds_last s e hok] at hy
          rcases List.mem_append.1 hy with hy | hy
          · exact Or.inl ⟨y, hy, rfl, rfl, rfl⟩
          · simp at hy; exact Or.inr ⟨e, rfl, by rw [hy]; exact ⟨rfl, rfl, rfl⟩⟩
        · rw [append_refused_unchanged s e (by simpa using hok)] at hy
          exact Or.inl ⟨y, hy, rfl, rfl, rfl⟩
      | chg st ids =>
        simp only [msStep, msChgStatus] at hy
        obtain ⟨z, hz, rfl⟩ := List.mem_map.1 hy
        exact Or.inl ⟨z, hz, chgEntry_id st ids z, chgEntry_depth st ids z, chgEntry_ranges st ids z⟩
      | purge n =>
        simp only [msStep] at hy
        exact Or.inl ⟨y, ((purge_drops_removed_only s n).2 y).1 hy |>.1, rfl, rfl, rfl⟩
    rcases ih (msStep s c) id x h with ⟨y, hy, hxy⟩ | ⟨e, he, hxe⟩
    · rcases key y hy with ⟨z, hz, hyz⟩ | ⟨e, hce, hye⟩
      · exact Or.inl ⟨z, hz, hxy.1.trans hyz.1, hxy.2.1.trans hyz.2.1, hxy.2.2.trans hyz.2.2⟩
      · exact Or.inr ⟨e, by rw [hce]; exact List.mem_cons_self, hxy.1.trans hye.1, hxy.2.1.trans hye.2.1, hxy.2.2.trans hye.2.2⟩
    · exact Or.inr ⟨e, List.mem_cons_of_mem _ he, hxe⟩

/-- `make`: accepted exactly when the MOCs fit and their identifiers are distinct; the file then holds them
    in the given order. -/
theorem make_spec (n : Nat) (l : List MsEntry) (s : MocSet) (h : msMake n l = some s) :
    s.entries = l ∧ s.n128 = n ∧ l.length ≤ s.cap ∧ (l.map (·.id)).eraseDups.length = l.length := by
  unfold msMake at h
  simp only [] at h
  split at h
  · exact absurd h (by simp)
  · split at h
    · exact absurd h (by simp)
    · rename_i h1 h2
      injection h with h
      subst h
      exact ⟨rfl, rfl, by simpa using h1, by simpa using h2⟩

/-! ### The FILE: 64-bit header words and data bytes (`Model/MocSetFile.lean`)

  Every command, transliterated on the metadata / index arrays and the data bytes, commutes with the
  abstraction map `abs` (what the reader's `zip` of the two iterators decodes): the theorems above,
  stated on the abstract list of entries, therefore hold of what is READ BACK from the bytes. -/
section File
open Moc.MsFile

/-- The layout constants of the file model are the ones EXTRACTED from `crates/set/src/lib.rs` by this
    run (`Model/Params.lean` is regenerated from the source): the identifier mask, the shifts of the
    status and depth fields, the four status codes, the capacity / index / header geometry. -/
theorem layout_constants :
    Params.msIdMask = idMask ∧ Params.msStatusShift = 56 ∧ Params.msDepthShift = 48 ∧
    Params.msVoid = 0 ∧ Params.msRemoved = 1 ∧ Params.msDeprecated = 2 ∧ Params.msValid = 3 ∧
    (∀ n, capOf n = (n <<< Params.msCapShift) - 1) ∧ (∀ n, hdrBytes n = n <<< Params.msHdrShift) ∧
    Params.msIndexShift + 1 = Params.msHdrShift := by
  refine ⟨by decide, by decide, by decide, by decide, by decide, by decide, by decide, fun _ => rfl, fun _ => rfl, by decide⟩

/-- **Composing then decomposing a metadata word** (`FlagDepthId`) gives back status, depth and the
    identifier on 48 bits, for every status on 2 bits and every depth on 8 bits. -/
theorem meta_word_roundtrip (st d id : Nat) (hs : st < 4) (hd : d < 256) :
    wStatus (pack st d id) = st ∧ wDepth (pack st d id) = d ∧ wId (pack st d id) = id % 2 ^ 48 :=
  unpack st d id hs hd

/-- **The bytes written for a MOC decode to the same ranges** (32-bit storage up to depth 13, 64-bit
    storage beyond), for every entry whose ranges are representable at its storage scale. -/
theorem moc_bytes_roundtrip (e : MsEntry) (h : EntryOk e) : bytesRanges e.depth (entryBytes e) = e.ranges := by
  have := bytesRanges_entryBytes e h [] (by simpa using elemBytes_pos e.depth)
  rwa [List.append_nil] at this

/-- A file a history can reach: the canonical file of a list of acceptable entries with at most one
    live entry per identifier, possibly followed by bytes an interrupted append left behind. -/
def FileWF (f : File) : Prop :=
  ∃ l tail, (∀ x ∈ l, EntryOk x) ∧ NoDupLive { n128 := f.n128, entries := l } ∧
    f = build f.n128 (l.map itemOf) tail

theorem noDupL_of_noDupLive (n : Nat) : ∀ (l : List MsEntry), NoDupLive { n128 := n, entries := l } → NoDupL l := by
  intro l
  induction l with
  | nil => intro _; trivial
  | cons x t ih =>
    intro h
    refine ⟨?_, ih ?_⟩
    · intro hx y hy hyl hid
      have := h x.id
      simp only [List.filter_cons, beq_self_eq_true, hx, decide_true, Bool.and_self, ↓reduceIte,
        List.length_cons] at this
      have hm : y ∈ t.filter (fun e => e.id == x.id && decide (e.status > 1)) := by
        rw [List.mem_filter]
        exact ⟨hy, by simp [hid, hyl]⟩
      have := List.length_pos_of_mem hm
      omega
    · intro id
      refine Nat.le_trans ?_ (h id)
      simp only [List.filter_cons]
      split
      · simp only [List.length_cons]; omega
      · exact Nat.le_refl _

theorem abs_of_wf {f : File} {l : List MsEntry} {tail : List Nat} (hok : ∀ x ∈ l, EntryOk x)
    (hf : f = build f.n128 (l.map itemOf) tail) : abs f = { n128 := f.n128, entries := l } := by
  rw [hf]
  exact abs_canon _ l tail hok

/-- **`make`**: when the abstract command accepts the list, the file written is read back as that list. -/
theorem file_make_refines (n : Nat) (l : List MsEntry) (s : MocSet) (hok : ∀ x ∈ l, EntryOk x)
    (h : msMake n l = some s) : ∃ f, fileMake n l = some f ∧ abs f = s := by
  unfold fileMake
  rw [h]
  refine ⟨_, rfl, ?_⟩
  rw [abs_canon n l [] hok]
  obtain ⟨h1, h2, _⟩ := make_spec n l s h
  cases s
  simp_all

/-- **`append`**: same verdict as the abstract command, and the file read back afterwards is the
    abstract result; a reachable file stays reachable. -/
theorem file_append_refines (f : File) (e : MsEntry) (hf : FileWF f) (he : EntryOk e) (hl : e.status > 1) :
    abs (fileAppend f e).1 = (msAppend (abs f) e).1 ∧ (fileAppend f e).2 = (msAppend (abs f) e).2 ∧
    FileWF (fileAppend f e).1 := by
  obtain ⟨l, tail, hok, hnd, hb⟩ := hf
  have ha := abs_of_wf hok hb
  have hfa := fileAppend_canon f.n128 l tail e hok
  rw [← hb] at hfa
  rw [ha, hfa]
  by_cases hacc : (msAppend { n128 := f.n128, entries := l } e).2 = true
  · have hok' : ∀ x ∈ l ++ [e], EntryOk x := by
      intro x hx
      simp only [List.mem_append, List.mem_singleton] at hx
      rcases hx with hx | rfl
      · exact hok x hx
      · exact he
    have h1 : (msAppend { n128 := f.n128, entries := l } e).1 = { n128 := f.n128, entries := l ++ [e] } := by
      unfold msAppend at hacc ⊢
      by_cases c1 : (l.any fun x => x.id == e.id && decide (x.status > 1)) = true
      · simp [c1] at hacc
      · by_cases c2 : l.length ≥ ({ n128 := f.n128, entries := l } : MocSet).cap
        · simp [c1, c2] at hacc
        · simp [c1, c2]
    rw [if_pos hacc]
    refine ⟨?_, hacc.symm, ?_⟩
    · rw [abs_canon _ _ _ hok', h1]
    · refine ⟨l ++ [e], _, hok', ?_, rfl⟩
      have := append_noDupLive { n128 := f.n128, entries := l } e hnd hl
      rw [h1] at this
      exact this
  · have hfalse : (msAppend { n128 := f.n128, entries := l } e).2 = false := by
      cases h : (msAppend { n128 := f.n128, entries := l } e).2 with
      | true => exact absurd h hacc
      | false => rfl
    rw [if_neg hacc]
    refine ⟨?_, hfalse.symm, ⟨l, tail, hok, hnd, hb⟩⟩
    rw [ha, append_refused_unchanged _ e hfalse]

theorem entryOk_chgEntry (st : Nat) (ids : List Nat) (x : MsEntry) (hst : 1 ≤ st ∧ st < 4) (h : EntryOk x) :
    EntryOk (chgEntry st ids x) := by
  unfold chgEntry
  split
  · obtain ⟨_, _, h3, h4, h5⟩ := h
    exact ⟨hst.1, hst.2, h3, h4, h5⟩
  · exact h

/-- **`chgstatus`** (the walk that takes an identifier off the map once met) read back = the abstract
    command, on every reachable file. -/
theorem file_chg_refines (f : File) (st : Nat) (ids : List Nat) (hf : FileWF f) (hst : 1 ≤ st ∧ st < 4) :
    abs (fileChg f st ids).1 = (msChgStatus (abs f) st ids).1 ∧ FileWF (fileChg f st ids).1 := by
  obtain ⟨l, tail, hok, hnd, hb⟩ := hf
  have ha := abs_of_wf hok hb
  have hok' : ∀ x ∈ l.map (chgEntry st ids), EntryOk x := by
    intro x hx
    obtain ⟨y, hy, rfl⟩ := List.mem_map.1 hx
    exact entryOk_chgEntry st ids y hst (hok y hy)
  have hfc := fileChg_canon f.n128 l tail st ids hok (noDupL_of_noDupLive _ l hnd)
  rw [← hb] at hfc
  rw [ha, hfc]
  refine ⟨?_, ?_⟩
  · rw [abs_canon _ _ _ hok']; rfl
  · exact ⟨l.map (chgEntry st ids), tail, hok', chg_noDupLive { n128 := f.n128, entries := l } st ids hnd, rfl⟩

/-- **`purge`** read back = the abstract command, on every reachable file. -/
theorem file_purge_refines (f : File) (k : Option Nat) (hf : FileWF f) :
    abs (filePurge f k).1 = (msPurge (abs f) k).1 ∧ FileWF (filePurge f k).1 := by
  obtain ⟨l, tail, hok, hnd, hb⟩ := hf
  have ha := abs_of_wf hok hb
  have hok' : ∀ x ∈ l.filter (fun x => decide (x.status > 1)), EntryOk x :=
    fun x hx => hok x (List.mem_filter.1 hx).1
  have hfp := filePurge_canon f.n128 l tail k hok
  rw [← hb] at hfp
  rw [ha, hfp]
  refine ⟨?_, ?_⟩
  · rw [abs_canon _ _ _ hok']; rfl
  · exact ⟨_, [], hok', purge_noDupLive { n128 := f.n128, entries := l } k hnd, rfl⟩

/-- **`list`** computed from the header words = the abstract listing of what `abs` reads. -/
theorem file_list_refines (f : File) (hf : FileWF f) : fileList f = msList (abs f) := by
  obtain ⟨l, tail, hok, _, hb⟩ := hf
  have := fileList_canon f.n128 l tail hok
  rw [← hb] at this
  rw [abs_of_wf hok hb, this]

/-- **`extract`** computed from the header words and data bytes (first row with that identifier whose status
    is valid or deprecated, its bytes decoded) = the abstract `extract` of what `abs` reads — for EVERY file. -/
theorem file_extract_refines (f : File) (id : Nat) : fileExtract f id = msExtract (abs f) id := by
  unfold fileExtract msExtract abs
  simp only [List.find?_map]
  have hp : (fun r : Nat × Nat × Nat => wId r.1 == id && (wStatus r.1 == 3 || wStatus r.1 == 2))
      = ((fun e : MsEntry => e.id == id && decide (e.status > 1)) ∘ rowEntry (hdrBytes f.n128) f.data) := by
    funext r
    have h4 := wStatus_lt r.1
    simp only [Function.comp, rowEntry]
    by_cases h3 : wStatus r.1 = 3
    · simp [h3]
    · by_cases h2 : wStatus r.1 = 2
      · simp [h2]
      · have : ¬ wStatus r.1 > 1 := by omega
        simp [h3, h2, this]
  rw [hp]

/-- Commands a history may contain: appended MOCs are acceptable and added live; a status is one of
    removed / deprecated / valid. -/
def CmdOk : MsCmd → Prop
  | .append e => EntryOk e ∧ e.status > 1
  | .chg st _ => 1 ≤ st ∧ st < 4
  | .purge _ => True

/-- **Every history, at the level of the file**: whatever sequence of `append`, `chgstatus` and
    `purge` commands is run on a reachable file, what is read back from the header words and data
    bytes is exactly the state of the abstract machine after the same commands. -/
theorem file_history_refines (cs : List MsCmd) : ∀ (f : File), FileWF f → (∀ c ∈ cs, CmdOk c) →
    abs (fileRun f cs) = msRun (abs f) cs ∧ FileWF (fileRun f cs) := by
  induction cs with
  | nil => intro f hf _; exact ⟨rfl, hf⟩
  | cons c t ih =>
    intro f hf hc
    have hstep : abs (fileStep f c) = msStep (abs f) c ∧ FileWF (fileStep f c) := by
      have hcc := hc c (by simp)
      cases c with
      | append e => obtain ⟨h1, _, h3⟩ := file_append_refines f e hf hcc.1 hcc.2; exact ⟨h1, h3⟩
      | chg st ids => exact file_chg_refines f st ids hf hcc
      | purge k => exact file_purge_refines f k hf
    have := ih (fileStep f c) hstep.2 (fun c' hc' => hc c' (by simp [hc']))
    simp only [fileRun, msRun, List.foldl_cons] at this ⊢
    rw [← hstep.1]
    exact this

/-- Non-vacuity: a two-entry file (one 32-bit MOC, one 64-bit MOC) is reachable. -/
example : FileWF (build 1 ([{ id := 7, status := 3, depth := 3, ranges := [(0, 2 ^ 52)] },
    { id := 9, status := 2, depth := 20, ranges := [(5 * 2 ^ 18, 6 * 2 ^ 18)] }].map itemOf) []) := by
  refine ⟨_, [], ?_, ?_, rfl⟩
  · intro x hx
    simp only [List.mem_cons, List.not_mem_nil, or_false] at hx
    rcases hx with rfl | rfl <;> refine ⟨by decide, by decide, by decide, by decide, ?_⟩ <;>
      (intro r hr; simp only [List.mem_singleton] at hr; subst hr; decide)
  · intro id
    simp only [List.filter_cons, List.filter_nil]
    split <;> split <;> simp_all
    omega

end File

end Moc.C14
