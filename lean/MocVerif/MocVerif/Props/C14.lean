/-
  C14 — a moc-set file always reflects the history of updates applied to it.
  Theorems about the reference state machine (`Model/MocSet.lean`); the real `mocset` binary is
  compared with it after EVERY command of generated histories (exit status + `list` rows, file
  bytes unchanged on refusal, `extract` = the MOC added) by the correspondence check.
-/
import MocVerif.Lemmas.Canon
import MocVerif.Model.MocSet

namespace Moc.C14

/-- At most one live (valid or deprecated) entry per identifier. -/
def NoDupLive (s : MocSet) : Prop :=
  ∀ id, ((s.entries.filter fun e => e.id == id && e.status > 1).length ≤ 1)

/-- A refused append leaves the state unchanged. -/
theorem append_refused_unchanged (s : MocSet) (e : MsEntry) (h : (msAppend s e).2 = false) :
    (msAppend s e).1 = s := by
  unfold msAppend at h ⊢
  split
  · rfl
  · split
    · rfl
    · rename_i h1 h2; simp [h1, h2] at h

/-- An append is refused exactly when the identifier is live or the file is full. -/
theorem append_ok_iff (s : MocSet) (e : MsEntry) :
    (msAppend s e).2 = true ↔
      (¬ ∃ x ∈ s.entries, x.id = e.id ∧ x.status > 1) ∧ s.entries.length < s.cap := by
  unfold msAppend
  by_cases h1 : s.entries.any (fun x => x.id == e.id && x.status > 1) = true
  · simp only [h1, if_true]
    simp only [List.any_eq_true] at h1
    obtain ⟨x, hx, hp⟩ := h1
    simp at hp
    constructor
    · intro h; simp at h
    · rintro ⟨hn, _⟩; exact absurd ⟨x, hx, hp.1, hp.2⟩ hn
  · simp only [h1]
    have hn : ¬ ∃ x ∈ s.entries, x.id = e.id ∧ x.status > 1 := by
      rintro ⟨x, hx, h2, h3⟩
      apply h1
      simp only [List.any_eq_true]
      exact ⟨x, hx, by simp [h2, h3]⟩
    by_cases h2 : s.entries.length ≥ s.cap
    · simp [h2]
    · simp [h2, hn]; omega

/-- So an identifier can be re-added once removed, but not while valid or deprecated; a successful
    append adds exactly the new entry at the end. -/
theorem append_adds_last (s : MocSet) (e : MsEntry) (h : (msAppend s e).2 = true) :
    (msAppend s e).1.entries = s.entries ++ [e] := by
  unfold msAppend at h ⊢
  split
  · rename_i h1; simp [h1] at h
  · split
    · rename_i h1 h2; simp [h1, h2] at h
    · rfl

/-- Uniqueness of live identifiers is an invariant of `append`. -/
theorem append_noDupLive (s : MocSet) (e : MsEntry) (hs : NoDupLive s) (he : e.status > 1) :
    NoDupLive (msAppend s e).1 := by
  by_cases hok : (msAppend s e).2 = true
  · intro id
    rw [append_adds_last s e hok, List.filter_append, List.length_append]
    have hno := ((append_ok_iff s e).1 hok).1
    by_cases hid : e.id = id
    · have : (s.entries.filter fun x => x.id == id && x.status > 1) = [] := by
        rw [List.filter_eq_nil_iff]
        intro x hx hp
        simp at hp
        exact hno ⟨x, hx, by rw [hp.1, hid], hp.2⟩
      rw [this]; simp [hid, he]
    · have : ([e].filter fun x => x.id == id && x.status > 1) = [] := by simp [hid]
      rw [this]; simp; exact hs id
  · have := append_refused_unchanged s e (by simpa using hok)
    rw [this]; exact hs

/-- `purge` physically drops the removed MOCs and nothing else (order of the others preserved). -/
theorem purge_drops_removed_only (s : MocSet) (n : Option Nat) :
    (msPurge s n).1.entries = s.entries.filter (·.status > 1) ∧
    ∀ e, e ∈ (msPurge s n).1.entries ↔ e ∈ s.entries ∧ e.status > 1 := by
  refine ⟨rfl, fun e => ?_⟩
  show e ∈ s.entries.filter (·.status > 1) ↔ _
  simp [List.mem_filter]

/-- `list` shows exactly the entries: identifier, status, depth, number of ranges, byte size
    (`n_ranges · 2 · 4` bytes when `depth ≤ 13`, `· 8` otherwise). -/
theorem list_exact (s : MocSet) :
    msList s = s.entries.map fun e => (e.id, e.status, e.depth, e.ranges.length, e.ranges.length * 2 * elemBytes e.depth) :=
  rfl

/-- `extract` returns the live entry registered under the identifier. -/
theorem extract_returns_live (s : MocSet) (id : Nat) (e : MsEntry) (h : msExtract s id = some e) :
    e ∈ s.entries ∧ e.id = id ∧ e.status > 1 := by
  unfold msExtract at h
  have h1 := List.mem_of_find?_eq_some h
  have h2 := List.find?_some h
  simp at h2
  exact ⟨h1, h2.1, h2.2⟩

/-! Non-vacuity -/
example : NoDupLive { n128 := 1, entries := [⟨1, 3, 5, []⟩, ⟨1, 1, 5, []⟩, ⟨2, 2, 14, [(0, 16)]⟩] } := by
  intro id
  by_cases h1 : id = 1
  · subst h1; decide
  · by_cases h2 : id = 2
    · subst h2; decide
    · simp [h1, h2, Ne.symm h1, Ne.symm h2]

end Moc.C14
