/-
  C17 — expansion, contraction (Time / Frequency MOCs) obey their definitions.

  Proved: T/F expansion = M plus the previous and next depth-d cell of each cell, clipped to the
  domain, canonical; T/F contraction (repaired at the domain bounds) characterised range by range.
  HEALPix (space) expansion / borders / splitting / hole filling are NOT modelled in Lean (they
  depend on the cdshealpix neighbour geometry): the check compares the implementation with an
  independent brute-force oracle on the flat cell set (depths 0–2) — a test, labelled as such.
-/
import MocVerif.Lemmas.Morpho
import MocVerif.Model.Params

namespace Moc.C17

/-- **T/F `expanded`** for every valid MOC (`c` = cell size of its depth, `ub` = `n_cells_max`). -/
theorem tf_expanded_sem (c ub : Nat) (hc : 0 < c) (m : List Rng) (hm : Canon m)
    (hb : BoundedBy ub m) (ha : Aligned c m) (hub : c ∣ ub) :
    Canon (tfExpanded c ub m) ∧
    ∀ x, mem x (tfExpanded c ub m) ↔
      x < ub ∧ ∃ y, mem y m ∧ x / c ≤ y / c + 1 ∧ y / c ≤ x / c + 1 :=
  tfExpanded_spec c ub hc m hm hb ha hub

/-- Instantiated on the quantities of the library: a valid T- or F-MOC of depth `d`. -/
theorem tf_expanded_valid_moc (q : Qty) (w d : Nat) (m : List Rng) (hv : Valid q w d m) :
    Canon (tfExpanded (q.cellSize w d) (q.nCellsMax w) m) ∧
    ∀ x, mem x (tfExpanded (q.cellSize w d) (q.nCellsMax w) m) ↔
      x < q.nCellsMax w ∧ ∃ y, mem y m ∧ x / q.cellSize w d ≤ y / q.cellSize w d + 1 ∧
        y / q.cellSize w d ≤ x / q.cellSize w d + 1 :=
  tfExpanded_spec _ _ (q.cellSize_pos w d) m hv.1 hv.2.1 hv.2.2 (q.cellSize_dvd_nCellsMax w d)

/-- **T/F `contracted`** (repaired): a point of a range survives iff it is at least one cell away
    from each end of the range that is not a domain bound. -/
theorem tf_contracted_range (c ub : Nat) (r : Rng) (x : Nat) :
    (∃ s, tfShrink c ub r = some s ∧ s.1 ≤ x ∧ x < s.2) ↔
      ((r.1 > 0 → r.1 + c ≤ x) ∧ (r.1 = 0 → r.1 ≤ x) ∧ (r.2 < ub → x + c < r.2) ∧ (¬ r.2 < ub → x < r.2)) :=
  mem_tfShrink c ub r x

/-- The defect found in the original code, as a theorem about the ORIGINAL formula: shrinking both
    ends unconditionally disagrees with `complement ∘ expanded ∘ complement` on `[0, 10·c)`. -/
theorem original_contracted_counterexample :
    let c := 1; let ub := 100
    (1, 9) ≠ ((0 : Nat), (9 : Nat)) ∧
    complement ub (tfExpanded c ub (complement ub [(0, 10)])) = [(0, 9)] := by
  refine ⟨by decide, ?_⟩
  simp [complement, complFrom, tfExpanded, mergeSorted, mergeOverlapping, mergeOvFrom, tfGrow]

/-! Non-vacuity -/
example : Valid Params.time 16 2 [(0, 2048), (4096, 6144)] := (Moc.validB_iff _ _ _ _).1 (by decide)
example : tfContracted 1 100 [(0, 10), (20, 22), (30, 100)] = [(0, 9), (31, 100)] := by decide

end Moc.C17
